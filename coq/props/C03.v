(* C03 -- prose is conserved: typeset words appear once, in order; hidden
   text never leaks.  Only statements here, closed by `exact`.  Model: the
   whole filter.

   Proved for every input: conservation by each pass around the expander --
   the scanner cuts plain text into tokens without loss (C06), the removal
   of pure action lines keeps every non-blank character, in order, and
   invents none; the language split and get_txt_pos hand on exactly the
   characters of the tokens; a use of a user macro yields the body with the
   arguments put in, as often as they occur in the body; phrase replacement
   changes nothing outside the replaced phrases (C13).  End to end the
   conservation is proved for documents without active characters
   (C06_plain_prose_fixed_point).  Hidden text
   (C03_skipped_regions_never_reach_the_expander): for every token list whose
   LT-SKIP marks are paired, the pass in front of the expander hands on exactly
   the tokens outside the regions, in order, without the marks, and leaves the
   parser state alone.  Not proved: conservation by the expander
   for documents with markup (what each macro, environment and the maths
   parser keeps or hides); decided on the C03 stream by the marker-word
   oracle of harness/props/c03.py together with the correspondence run. *)
From Coq Require Import String.
From YV Require Import PyBase CharTables Token Utils Rpal PState Parser Exec Ml
                       RpalProofs MlProofs ExpandSites ExecPlain ExecUnk ExecArgs ArgSites SkipProofs Scanner Catalogue.
Open Scope Z_scope.

(* (1) removal of pure action lines: the characters that are no white space
   are the same before and after, in the same order (action and language
   tokens carry no text) *)
Theorem C03_action_lines_conserve : forall is_space,
  is_space c_nl = true ->
  forall tokens r,
  Forall E0 tokens ->
  remove_pure_action_lines is_space tokens = Ok r ->
  RpalProofs.nst is_space r = RpalProofs.nst is_space tokens.
Proof. exact rpal_conserves. Qed.
Print Assumptions C03_action_lines_conserve.

(* (2) the language split holds exactly the text of the stream *)
Theorem C03_sections_conserve : forall toks stack back brk cur secs,
  let r := sections toks stack back brk cur secs in
  let g := get_txt_pos (rev cur ++ filter not_lang toks) in
  all_txt r = all_txt secs ++ fst g /\ all_pos r = all_pos secs ++ snd g.
Proof. exact sections_conserve. Qed.
Print Assumptions C03_sections_conserve.

(* (3) macro expansion produces the body with its arguments, each as often
   as the body names it *)
Theorem C03_macro_body : forall args body cur r,
  gen_repl args body cur = Ok r ->
  map shape (noact r) = map shape (noact (subst_body args body)).
Proof. exact gen_repl_subst. Qed.
Print Assumptions C03_macro_body.

(* (4) end to end through the main loop of the expander, for every token
   list of plain text, undeclared control words, comments, grouping
   braces and pass-through macros with braced arguments (nested): every character of the text that is no white space is in the
   output, in order, and nothing else -- the markup vanishes, the words stay *)
Theorem C03_words_stay_markup_vanishes : forall rd fuel toks st st' out,
  bcl py_tables (macros st) toks ->
  exec py_tables rd fuel (TSeq toks None []) st = Ok (st', ASeq out []) ->
  ExecUnk.nst py_tables out = ExecUnk.nst py_tables (plains (rtoks py_tables (macros st) toks)) /\
  unknowns st' = fold_left add_unknown (unames (macros st) toks) (unknowns st) /\
  macros st' = macros st.
Proof.
  exact (fun rd fuel toks st st' out =>
           exec_args_text py_tables rd (eq_refl true) (fun c => eq_refl) (conj eq_refl eq_refl) fuel toks st st' out
                          (eq_refl true)).
Qed.
Print Assumptions C03_words_stay_markup_vanishes.

(* (4b) arguments that are not typeset: a macro declared with mandatory
   arguments and an empty replacement (\label, \index, \vspace, ...) leaves
   one action token, whatever its braced groups hold *)
Theorem C03_dropped_arguments : forall T rd rec fuel st buf rest mac start gs,
  m_args mac = repeat AMand (length gs) -> m_extract mac = [] -> m_repl mac = RToks [] ->
  ArgSites.groups gs buf rest ->
  Expand.expand_arguments T rd rec fuel st buf mac start = Ok (st, ([ActionT start], rest)).
Proof. exact ArgSites.dropped_arguments. Qed.
Print Assumptions C03_dropped_arguments.

(* (5) hidden text: `regions toks out` says that toks consists of stretches
   without opening mark (kept) alternating with  opening mark, tokens without
   closing mark, closing mark  (dropped); out is what is kept *)
Theorem C03_skipped_regions_never_reach_the_expander : forall st latex toks out,
  regions py_tables toks out ->
  forall fuel, (length toks < fuel)%nat ->
  skip_regions py_tables fuel st latex toks = (st, out).
Proof. exact (skip_regions_spec py_tables). Qed.
Print Assumptions C03_skipped_regions_never_reach_the_expander.

Example C03_skip_example :
  let src := s2l "a
%%% LT-SKIP-BEGIN
hidden \foo
%%% LT-SKIP-END
b" in
  let toks := fst (scan (t_scan py_tables) src) in
  map (fun t => (tk t, txt t))
      (snd (skip_regions py_tables 100 (Exec.init_state py_tables (s2l "en") false false true)
                         src toks))
  = [(KText, [97]%N); (KSpace, [10]%N); (KText, [98]%N)].
Proof. vm_compute. reflexivity. Qed.

Example C03_nonvacuous : py_isspace c_nl = true /\
  E0 (ActionT 3) /\ E0 (TextT 0 [97]%N).
Proof. split; [reflexivity|]. split; intros [H|H]; try reflexivity; discriminate. Qed.
