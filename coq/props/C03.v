From YV Require Import PyBase Token.
Example c03_smoke : skip_space [] = [].
Proof. reflexivity. Qed.
