From YV Require Import PyBase ShellMap.
Example c14_smoke : norm_idx (-1) 5 = 4%nat.
Proof. reflexivity. Qed.
