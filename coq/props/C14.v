(* C14 -- a proofreader match is reported at the flagged word in the LaTeX
   file.  Only statements; proofs in proofs/ShellMapProofs.v and
   proofs/ReportsProofs.v.  Model: coq/model/ShellMap.v, Reports.v. *)
From Coq Require Import Sorting.Permutation Sorting.Sorted.
From YV Require Import PyBase CharTables ShellMap ShellMapProofs Json Reports ReportsProofs.
Open Scope Z_scope.

(* (1) if the position map is exact on the flagged span (consecutive source
   positions, as C02 gives for a copied word), the reported offset and length
   select that very word in the LaTeX text (up to the documented extension of
   a lone backslash to the macro name) *)
Theorem C14_map_position_exact : forall o l latex cm p0,
  0 <= o -> 1 <= l -> o + l <= zlen cm -> 1 <= p0 ->
  (forall k, 0 <= k < l -> nth_error cm (Z.to_nat (o + k)) = Some (p0 + k)) ->
  map_match_position o l latex cm =
    Ok (p0 - 1, correct_mark_macroname (p0 - 1) l latex).
Proof. exact map_position_exact. Qed.
Print Assumptions C14_map_position_exact.

(* (2) line and column: the line start lies at or before the offset, no line
   break between them, it is 0 or follows a line break, line-1 counts the
   line breaks before the offset, column = distance to the line start + 1 *)
Theorem C14_linecol : forall tex off,
  0 <= off <= zlen tex ->
  let ls := line_start_to tex off in
  0 <= ls <= off /\
  Forall (fun c => N.eqb c_nl c = false)
         (pyslice tex (Z.to_nat ls) (Z.to_nat off)) /\
  (ls = 0 \/ nth_error tex (Z.to_nat (ls - 1)) = Some c_nl) /\
  fst (text_loc tex off) - 1 = Z.of_nat (count_char c_nl (firstn (Z.to_nat off) tex)) /\
  snd (text_loc tex off) = off - ls + 1.
Proof. exact linecol_spec. Qed.
Print Assumptions C14_linecol.

(* (3) all formats are functions of the same offset and length *)
Theorem C14_formats_agree : forall tex off len,
  json_loc tex off len =
    (fst (text_loc tex off) - 1, snd (text_loc tex off) - 1,
     fst (text_loc tex (off + len - 1)) - 1, snd (text_loc tex (off + len - 1)))
  /\ xml_loc tex off len false = json_loc tex off len
  /\ xml_loc tex off len true =
      (count_nl_to tex off, utf8_len (zslice tex (line_start_to tex off) off),
       count_nl_to tex (off + len - 1),
       utf8_len (zslice tex (line_start_to tex (off + len - 1)) (off + len - 1 + 1))).
Proof.
  intros. split; [apply formats_agree|]. split; [apply xml_agrees_json | apply xml_bytes_spec].
Qed.
Print Assumptions C14_formats_agree.

(* (4) several parts: a match of a part is found in the assembled result,
   shifted by d, and from d on the assembled text and map are those of the
   part -- so offset and length select the same word and the same positions *)
Theorem C14_assemble_shift : forall ps acc a,
  Forall (part_ok py_isspace) ps -> acc_ok acc ->
  assemble_parts py_isspace ps acc = Ok a ->
  forall p m, In p ps -> nonblank py_isspace (p_plain p) -> In m (p_matches p) ->
  exists d : nat,
    In (shift_match (Z.of_nat d) m) (a_matches a) /\
    forall k, (k < length (p_plain p))%nat ->
      nth_error (a_plain a) (d + k) = nth_error (p_plain p) k /\
      nth_error (a_map a) (d + k) = nth_error (p_map p) k.
Proof. exact (assemble_shift py_isspace). Qed.
Print Assumptions C14_assemble_shift.

(* (5) messages are ordered by position in the LaTeX file: the reported
   matches are a permutation of the assembled ones, sorted by the absolute
   source position of their first character; equal keys keep their order *)
Theorem C14_sorted : forall ps a,
  run_assemble py_isspace ps = Ok a ->
  exists a0 ks,
    assemble_parts py_isspace ps {| a_plain := []; a_map := []; a_matches := [] |} = Ok a0 /\
    keys (a_map a0) (a_matches a0) = Ok ks /\
    a_plain a = a_plain a0 /\ a_map a = a_map a0 /\
    a_matches a = map snd (sort_stable ks) /\
    Permutation (a_matches a0) (a_matches a) /\
    StronglySorted key_le (sort_stable ks).
Proof. exact (run_assemble_spec py_isspace). Qed.
Theorem C14_sort_stable : forall k l,
  filter (fun y => fst y =? k) (sort_stable l) = filter (fun y => fst y =? k) l.
Proof. exact sort_stable_stable. Qed.
Print Assumptions C14_sorted.
Print Assumptions C14_sort_stable.

(* (6) every location of the text / JSON / XML / server reports lies inside
   the file when the maps hold source positions *)
Theorem C14_locations_in_file : forall md link tex ps locs,
  md <> MHtml ->
  Forall (fun p => Forall (map_in_file tex) (rp_map p)) ps ->
  run_report py_isspace md link tex ps = Ok locs ->
  Forall (fun l => 0 <= l_offset l < zlen tex /\
                   0 <= l_offset l + l_length l - 1 < zlen tex) locs.
Proof. exact (run_report_locations py_isspace). Qed.
Print Assumptions C14_locations_in_file.

(* non-vacuity: two parts, the second one flagged; "ab\n\ncd" *)
Example C14_example :
  run_assemble py_isspace
    [ {| p_plain := [97;98]%N; p_map := [5;6]; p_matches := [] |};
      {| p_plain := [99;100]%N; p_map := [1;2];
         p_matches := [{| pm_offset := 1; pm_length := 1; pm_id := 0 |}] |} ]
  = Ok {| a_plain := [97;98;10;10;99;100;10;10]%N; a_map := [5;6;6;6;1;2;2;2];
          a_matches := [{| pm_offset := 5; pm_length := 1; pm_id := 0 |}] |}.
Proof. vm_compute. reflexivity. Qed.
Example C14_example_loc :
  text_loc [97;10;98;99;10;100]%N 3 = (2, 2).
Proof. vm_compute. reflexivity. Qed.
