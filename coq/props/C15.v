(* C15 -- any proofreader answer gives an in-file report or a clean error, no
   traceback.  Only statements; proofs in proofs/ReportsProofs.v.
   Model: coq/model/Json.v, Reports.v, ShellMap.v.  The decoding of the
   answer bytes (UTF-8, JSON) is an oracle: the model receives the decoded
   value or None. *)
From YV Require Import PyBase CharTables ShellMap ShellMapProofs Json Reports ReportsProofs.
Open Scope Z_scope.

(* (1) for every decoded answer (any JSON value per part, or a decoding
   failure), every output mode and every LaTeX text, the pipeline ends with a
   report (Ok) or with the shell's own diagnostic and exit status 1 (Fatal);
   never with a Python exception.  Hypothesis: each non-blank part comes with
   a position map of the same length (C01). *)
Theorem C15_no_exception : forall md link tex ps,
  Forall (rpart_ok py_isspace) ps ->
  no_exc (run_report py_isspace md link tex ps).
Proof. exact (run_report_no_exc py_isspace). Qed.
Print Assumptions C15_no_exception.

(* (2) a report never names a location outside the file *)
Theorem C15_locations : forall md link tex ps locs,
  md <> MHtml ->
  Forall (fun p => Forall (map_in_file tex) (rp_map p)) ps ->
  run_report py_isspace md link tex ps = Ok locs ->
  Forall (fun l => 0 <= l_offset l < zlen tex /\
                   0 <= l_offset l + l_length l - 1 < zlen tex) locs.
Proof. exact (run_report_locations py_isspace). Qed.
Print Assumptions C15_locations.

(* (3) the position mapping clamps any offset and length *)
Theorem C15_position_mapping_total : forall offset length_ latex cm,
  cm <> [] -> exists off len, map_match_position offset length_ latex cm = Ok (off, len).
Proof. exact map_match_position_total. Qed.
Print Assumptions C15_position_mapping_total.

(* non-vacuity: a valid answer, an answer with a mistyped field, an offset
   outside the text, an undecodable answer *)
Definition ex_match (off : json) : json :=
  JObj [(k_offset, off); (k_length, JInt 1); (k_message, JStr []);
        (k_replacements, JArr []);
        (k_context, JObj [(k_text, JStr []); (k_offset, JInt 0); (k_length, JInt 1)]);
        (k_rule, JObj [(k_id, JStr [])])].
Definition ex_part (a : option json) : rpart :=
  {| rp_plain := [97;98]%N; rp_map := [1;2]; rp_answer := a |}.
Example C15_example_ok :
  exists l, run_report py_isspace MPlain false [97;98;10]%N
    [ex_part (Some (JObj [(k_matches, JArr [ex_match (JInt 1)])]))] = Ok [l]
    /\ l_offset l = 1 /\ l_a l = 1 /\ l_b l = 2.
Proof. eexists. split; [vm_compute; reflexivity|]. repeat split. Qed.
Example C15_example_mistyped :
  run_report py_isspace MPlain false [97;98;10]%N
    [ex_part (Some (JObj [(k_matches, JArr [ex_match (JStr [])])]))] = Fatal 2.
Proof. vm_compute. reflexivity. Qed.
Example C15_example_outside :
  run_report py_isspace MJson false [97;98;10]%N
    [ex_part (Some (JObj [(k_matches, JArr [ex_match (JInt 99)])]))] = Fatal 1.
Proof. vm_compute. reflexivity. Qed.
Example C15_example_undecodable :
  run_report py_isspace MXml false [97;98;10]%N [ex_part None] = Fatal 2.
Proof. vm_compute. reflexivity. Qed.
