(* C19 -- the unknowns list names exactly the undeclared macros/environments
   used in text.  Only statements here, closed by `exact`.  Model:
   coq/model/Expand.v (expand_macro, begin_environment), Exec.v.

   Proved: the step that meets an undeclared macro name outside maths
   appends it unless it is listed already (so the list has no repetition and
   keeps the order of first use), inside maths it leaves the list alone, and
   a declared name is never put on the list by that step; the list is empty
   when a document starts.  End to end through the main loop, for every
   token list of plain text, undeclared control words, comments and braces:
   the list grows by exactly the undeclared names, once each, in order of
   first use (C19_plain_text_with_unknown_macros).  Environments, at the
   site: \begin{name} with a name in plain characters that is not declared
   appends the name once (not in maths mode), \end{name} records nothing,
   both leave the declarations alone and one action token
   (C19_undeclared_environment, C19_end_records_nothing).  Not proved: that no other step of the expander
   changes the list, and which uses the expander reaches (comments, skipped
   regions); compared with the implementation and decided by the oracle of
   harness/props/c19.py on every case of the parser stream. *)
From Coq Require Import String.
From YV Require Import PyBase Token PState Parser Expand Exec ExpandSites ExecPlain ExecUnk ExecArgs EnvSites ClassDecide Tex2txt ClassRange Catalogue.
Open Scope Z_scope.

Theorem C19_add_once_in_order : forall l name,
  NoDup l ->
  NoDup (add_unknown l name) /\ In name (add_unknown l name) /\
  (exists r, add_unknown l name = l ++ r) /\
  (forall x, In x (add_unknown l name) <-> In x l \/ x = name).
Proof. exact add_unknown_spec. Qed.
Print Assumptions C19_add_once_in_order.

Theorem C19_undeclared_macro : forall T rd rec fuel st buf t math,
  assoc (txt t) (macros st) = None ->
  exists st',
    expand_macro T rd rec fuel st buf t math = Ok (st', ([ActionT (pos t)], skip_ctl buf)) /\
    unknowns st' = (if math then unknowns st else add_unknown (unknowns st) (txt t)) /\
    macros st' = macros st /\ environs st' = environs st.
Proof. exact expand_macro_undeclared. Qed.
Print Assumptions C19_undeclared_macro.

Theorem C19_declared_macro_not_listed : forall T rd rec fuel st buf t math mac,
  assoc (txt t) (macros st) = Some mac ->
  expand_macro T rd rec fuel st buf t math =
  expand_arguments T rd rec fuel st (skip_ctl buf) mac (pos t).
Proof. exact expand_macro_declared. Qed.
Print Assumptions C19_declared_macro_not_listed.

(* end to end for documents of plain text, undeclared control words,
   comments and grouping braces: the main loop returns the state with the
   names added in order (add_unknown adds a name once), declarations
   untouched, and the text of the words in the output *)
Theorem C19_plain_text_with_unknown_macros : forall rd fuel toks st st' out,
  bcl py_tables (macros st) toks ->
  exec py_tables rd fuel (TSeq toks None []) st = Ok (st', ASeq out []) ->
  ExecUnk.nst py_tables out = ExecUnk.nst py_tables (plains (rtoks py_tables (macros st) toks)) /\
  unknowns st' = fold_left add_unknown (unames (macros st) toks) (unknowns st) /\
  macros st' = macros st.
Proof.
  exact (fun rd fuel toks st st' out =>
           exec_args_text py_tables rd (eq_refl true) (fun c => eq_refl) (conj eq_refl eq_refl) fuel toks st st' out
                          (eq_refl true)).
Qed.
Print Assumptions C19_plain_text_with_unknown_macros.

Theorem C19_list_once_in_order : forall nl l,
  NoDup l -> NoDup (fold_left add_unknown nl l) /\
  (forall x, In x (fold_left add_unknown nl l) <-> In x l \/ In x nl) /\
  exists r, fold_left add_unknown nl l = l ++ r.
Proof. exact fold_add_unknown_nodup. Qed.
Print Assumptions C19_list_once_in_order.

(* environments: the name is spelled by plain characters in the group behind
   \begin; `exec py_tables rd k` is the expander the name is expanded with *)
Theorem C19_undeclared_environment : forall rd k fuel st t o a c l math,
  lb o -> rb c -> Forall (etok py_tables) a -> a <> [] -> (length a < k)%nat ->
  assoc (spelled a) (environs st) = None ->
  exists st',
    begin_environment py_tables rd (exec py_tables rd k) fuel st (o :: a ++ c :: l) t math
      = Ok (st', ([ActionT (pos t)], l)) /\
    unknowns st' = (if math then unknowns st else add_unknown (unknowns st) (spelled a)) /\
    macros st' = macros st /\ environs st' = environs st.
Proof. exact (fun rd => begin_undeclared py_tables rd (eq_refl true)). Qed.
Print Assumptions C19_undeclared_environment.

Theorem C19_end_records_nothing : forall rd k fuel st t o a c l,
  lb o -> rb c -> Forall (etok py_tables) a -> a <> [] -> (length a < k)%nat ->
  assoc (spelled a) (environs st) = None ->
  end_environment py_tables rd (exec py_tables rd k) fuel st (o :: a ++ c :: l) t None
    = Ok (st, ([ActionT (pos t)], false, l)).
Proof. exact (fun rd => end_undeclared py_tables rd (eq_refl true)). Qed.
Print Assumptions C19_end_records_nothing.

(* the premises are met by the scan of \begin{ab} ... *)
Example C19_environment_example :
  let toks := fst (Scanner.scan (t_scan py_tables) (s2l "x \begin{ab} y \end{ab} \begin{ab}")) in
  match exec py_tables (fun _ => None) 100 (TSeq toks None [])
             (init_state py_tables (s2l "en") false false true) with
  | Ok (st', ASeq out _) => Some (unknowns st', fst (Utils.get_txt_pos out))
  | _ => None end
  = Some ([s2l "ab"], s2l "x  y  ").
Proof. vm_compute. reflexivity. Qed.

(* end to end through tex2txt(), any packages and options: for a document of
   the class the reported list is exactly the undeclared control words of its
   scan, once each, in order of first use *)
Theorem C19_tex2txt_list_for_the_class :
  forall is_word files lang multi simple mods latex repl unkn thresh fuel st out,
  init_parser py_tables (fun f => assoc f files) fuel (init_state py_tables lang multi simple true)
              (t_builtin py_tables) mods = Ok st ->
  doc_in_class py_tables (upd_unknowns (upd_extracted st []) []) latex = true ->
  run_tex2txt py_tables is_word files lang multi simple mods [] latex [] repl unkn thresh fuel
  = Ok out ->
  to_unknowns out
  = fold_left add_unknown (unames (macros st) (fst (Scanner.scan (t_scan py_tables) latex))) [].
Proof.
  exact (fun is_word files lang multi simple mods latex repl unkn thresh fuel st out =>
           tex2txt_class_unknowns py_tables is_word files lang multi simple mods latex repl unkn
                                  thresh fuel st out (eq_refl true) (fun c => eq_refl)
                                  (conj eq_refl eq_refl) (eq_refl true) (eq_refl true)).
Qed.
Print Assumptions C19_tex2txt_list_for_the_class.

(* a document of the class, run through the main loop *)
Example C19_class_example :
  let toks := fst (Scanner.scan (t_scan py_tables) (s2l "a \foo b % c
{d} \bar \foo")) in
  match exec py_tables (fun _ => None) 100 (TSeq toks None [])
             (init_state py_tables (s2l "en") false false true) with
  | Ok (st', ASeq out _) => Some (unknowns st', fst (Utils.get_txt_pos out))
  | _ => None end
  = Some ([s2l "\foo"; s2l "\bar"], s2l "a b d ").
Proof. vm_compute. reflexivity. Qed.

Example C19_nonvacuous :
  add_unknown (add_unknown (add_unknown [] [92; 97]%N) [92; 98]%N) [92; 97]%N
  = [[92; 97]; [92; 98]]%N.
Proof. reflexivity. Qed.
