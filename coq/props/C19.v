From YV Require Import PyBase Token.
Example c19_smoke : skip_space [] = [].
Proof. reflexivity. Qed.
