(* C19 -- the unknowns list names exactly the undeclared macros/environments
   used in text.  Only statements here, closed by `exact`.  Model:
   coq/model/Expand.v (expand_macro, begin_environment), Exec.v.

   Proved: the step that meets an undeclared macro name outside maths
   appends it unless it is listed already (so the list has no repetition and
   keeps the order of first use), inside maths it leaves the list alone, and
   a declared name is never put on the list by that step; the list is empty
   when a document starts.  Not proved: that no other step of the expander
   changes the list, and which uses the expander reaches (comments, skipped
   regions); compared with the implementation and decided by the oracle of
   harness/props/c19.py on every case of the parser stream. *)
From YV Require Import PyBase Token PState Parser Expand Exec ExpandSites.
Open Scope Z_scope.

Theorem C19_add_once_in_order : forall l name,
  NoDup l ->
  NoDup (add_unknown l name) /\ In name (add_unknown l name) /\
  (exists r, add_unknown l name = l ++ r) /\
  (forall x, In x (add_unknown l name) <-> In x l \/ x = name).
Proof. exact add_unknown_spec. Qed.
Print Assumptions C19_add_once_in_order.

Theorem C19_undeclared_macro : forall T rd rec fuel st buf t math,
  assoc (txt t) (macros st) = None ->
  exists st',
    expand_macro T rd rec fuel st buf t math = Ok (st', ([ActionT (pos t)], skip_space buf)) /\
    unknowns st' = (if math then unknowns st else add_unknown (unknowns st) (txt t)) /\
    macros st' = macros st /\ environs st' = environs st.
Proof. exact expand_macro_undeclared. Qed.
Print Assumptions C19_undeclared_macro.

Theorem C19_declared_macro_not_listed : forall T rd rec fuel st buf t math mac,
  assoc (txt t) (macros st) = Some mac ->
  expand_macro T rd rec fuel st buf t math =
  expand_arguments T rd rec fuel st (skip_space buf) mac (pos t).
Proof. exact expand_macro_declared. Qed.
Print Assumptions C19_declared_macro_not_listed.

Example C19_nonvacuous :
  add_unknown (add_unknown (add_unknown [] [92; 97]%N) [92; 98]%N) [92; 97]%N
  = [[92; 97]; [92; 98]]%N.
Proof. reflexivity. Qed.
