(* C08 -- LaTeX problems yield the full error mark at the right place, and
   only then.  Only statements here, closed by `exact`.  Model:
   coq/model/Utils.v (latex_error), Scanner.v, Parser.v (err), tables from
   /repo.

   Proved for every input: what latex_error returns (diagnostic = line and
   column of the position, complete mark, pinned, first character at the
   position when that lies inside the text); that each of the producers of a
   mark (scanner, expander helper) records a diagnostic in the same step; that
   plain text gives neither; and "only then", end to end for the document
   class of C02 (C08_documents_of_the_class_no_mark): a source text accepted
   by `doc_in_class` runs through `parser_work` without any diagnostic being
   recorded -- nothing of the parser state changes but the list of unknowns.
   Not proved: that each detection site of the
   expander passes the position of the faulty construct (the sites are
   compared with the implementation by the correspondence run on the
   C08 stream, diagnostics and marks included). *)
From YV Require Import PyBase ShellMap ShellMapProofs Token Utils Scanner PState Parser
                       LatexErrorProofs ScanPlain ExecPlain Exec ExecArgs ClassDecide Catalogue.
Open Scope Z_scope.

(* (1) the diagnostic carries line and column of p (text_loc is specified by
   C14_linecol: 1 + number of line breaks before p, 1 + distance to the line
   start); the tokens together hold the complete mark, all pinned; if p lies
   inside the text the first token is not empty and stands at p, a second
   part (text shorter than the mark) stays inside the text *)
Theorem C08_latex_error : forall mark verbose err p latex,
  0 <= p <= zlen latex ->
  let d := fst (latex_error mark verbose err p latex) in
  let ts := snd (latex_error mark verbose err p latex) in
  (d_line d, d_col d) = text_loc latex p /\ d_msg d = err /\
  flat_map txt ts = error_mark mark verbose err /\
  Forall (fun t => pfix t = true /\ tk t = KText) ts /\
  (p < zlen latex ->
   exists t r, ts = t :: r /\ pos t = p /\ txt t <> [] /\
               Forall (fun t => p <= pos t < zlen latex) r).
Proof. exact latex_error_spec. Qed.
Print Assumptions C08_latex_error.

(* (2) no mark without a diagnostic: the expander's helper records the
   diagnostic of the very call that makes the mark, and touches nothing else *)
Theorem C08_expander_mark_has_diagnostic : forall T st msg p,
  let r := err T st msg p in
  let le := latex_error (sp_mark (t_scan T)) (sp_verbose (t_scan T)) msg p (cur_latex st) in
  snd r = snd le /\ diags (fst r) = fst le :: diags st /\
  unknowns (fst r) = unknowns st /\ macros (fst r) = macros st.
Proof. exact err_spec. Qed.
Print Assumptions C08_expander_mark_has_diagnostic.

(* (3) the scanner: an error mark (the only pinned token it makes) comes
   with exactly one diagnostic, every other token with none *)
Theorem C08_scanner_mark_iff_diagnostic : forall T latex s start,
  let r := next_token (t_scan T) latex s start in
  (pfix (fst (fst r)) = true /\ length (snd r) = 1%nat) \/
  (pfix (fst (fst r)) = false /\ snd r = []).
Proof. exact next_token_mark_iff_diag. Qed.
Print Assumptions C08_scanner_mark_iff_diagnostic.

(* (4) a text without active characters produces neither: the scanner has
   no diagnostic, and by C06_plain_prose_fixed_point the output is the input *)
Theorem C08_plain_text_no_diagnostic : forall P latex okc,
  plainb P okc latex = true -> snd (scan P latex) = [].
Proof. exact (fun P latex okc H => proj2 (proj2 (scan_plain P latex okc H))). Qed.
Print Assumptions C08_plain_text_no_diagnostic.

Theorem C08_documents_of_the_class_no_mark : forall rd fuel st latex r,
  doc_in_class py_tables st latex = true ->
  parser_work py_tables (exec py_tables rd fuel) st latex = Ok r ->
  frame st (fst r) /\ diags (fst r) = diags st.
Proof.
  exact (fun rd => parser_work_class_frame py_tables rd (eq_refl true)).
Qed.
Print Assumptions C08_documents_of_the_class_no_mark.

Example C08_nonvacuous :
  let r := latex_error (sp_mark (t_scan py_tables)) false [120]%N 2 [97; 10; 98; 99; 100; 101; 102; 103; 104; 105; 106; 107; 108; 109; 110; 111; 112; 113]%N in
  (d_line (fst r), d_col (fst r)) = (2, 1) /\ map pos (snd r) = [2].
Proof. split; reflexivity. Qed.
