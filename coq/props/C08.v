From YV Require Import PyBase Token.
Example c08_smoke : skip_space [] = [].
Proof. reflexivity. Qed.
