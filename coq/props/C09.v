(* C09 -- user macro definitions expand by TeX substitution, in order, from
   any source.  Only statements here, closed by `exact`.  Model:
   coq/model/Parser.v (generate_replacements), Expand.v (expand_macro).

   Proved for every body and argument list: the replacement made for a use
   is the body with each #n replaced by the n-th actual argument, in order;
   argument tokens are inserted unchanged (text and position: C02), all other
   tokens are pinned inside the use (C04); an undeclared name (a use before
   its definition) is not expanded.  Not proved: the parsing of the
   definition commands and of the actual arguments, and the independence of
   the source of the definitions; these are compared with the
   implementation by the correspondence run on the C09 stream. *)
From YV Require Import PyBase Token PState Parser Expand ExpandSites.
Open Scope Z_scope.

(* (1) substitution: without the action tokens that only mark boundaries,
   the result has the kinds and texts of the body with arguments put in *)
Theorem C09_substitution : forall args body cur r,
  gen_repl args body cur = Ok r ->
  map shape (noact r) = map shape (noact (subst_body args body)).
Proof. exact gen_repl_subst. Qed.
Print Assumptions C09_substitution.

(* (2) every token of the result is a token of an actual argument (as it
   is), or a boundary action token at an end of an argument, or a body token
   pinned at the current position or at an end of an argument *)
Theorem C09_positions : forall args body cur r,
  gen_repl args body cur = Ok r ->
  Forall (fun t => (exists a, In a args /\ In t a) \/
                   (is_action t = true /\ arg_ends args (pos t)) \/
                   (pfix t = true /\ (pos t = cur \/ arg_ends args (pos t)))) r.
Proof. exact gen_repl_positions. Qed.
Print Assumptions C09_positions.

(* (3) a use before the definition: the name is not declared, nothing is
   expanded, the macro leaves an action token only *)
Theorem C09_use_before_definition : forall T rd rec fuel st buf t math,
  assoc (txt t) (macros st) = None ->
  exists st',
    expand_macro T rd rec fuel st buf t math = Ok (st', ([ActionT (pos t)], skip_ctl buf)) /\
    unknowns st' = (if math then unknowns st else add_unknown (unknowns st) (txt t)) /\
    macros st' = macros st /\ environs st' = environs st.
Proof. exact expand_macro_undeclared. Qed.
Print Assumptions C09_use_before_definition.

(* body `a#1b#1` with argument `XY` standing at 10, 11; use at 5 *)
Example C09_nonvacuous :
  let X := mk KText 10 [88]%N false in let Y := mk KText 11 [89]%N false in
  let a := mk KText 0 [97]%N false in let b := mk KText 0 [98]%N false in
  let h := mk (KArg 1) 0 [35; 49]%N false in
  exists r, generate_replacements [[X; Y]] [a; h; b; h] 5 = Ok r /\
            map (fun t => (txt t, pos t, pfix t)) (noact r) =
            [([97%N], 10, true); ([88%N], 10, false); ([89%N], 11, false);
             ([98%N], 11, true); ([88%N], 10, false); ([89%N], 11, false)].
Proof. eexists. split; reflexivity. Qed.
