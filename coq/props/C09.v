From YV Require Import PyBase Token.
Example c09_smoke : skip_space [] = [].
Proof. reflexivity. Qed.
