(* C09 -- user macro definitions expand by TeX substitution, in order, from
   any source.  Only statements here, closed by `exact`.  Model:
   coq/model/Parser.v (generate_replacements), Expand.v (expand_macro).

   Proved for every body and argument list: the replacement made for a use
   is the body with each #n replaced by the n-th actual argument, in order;
   argument tokens are inserted unchanged (text and position: C02), all other
   tokens are pinned inside the use (C04); an undeclared name (a use before
   its definition) is not expanded.  The actual arguments
   (C09_braced_call): a macro declared with n mandatory arguments and called
   with n braced groups collects exactly the contents of the groups, in
   order, goes on behind the last closing brace and leaves the parser state
   alone; its expansion is the body with #k replaced by the k-th group.
   Not proved: the parsing of the
   definition commands, optional and unbraced arguments, and the independence of
   the source of the definitions; these are compared with the
   implementation by the correspondence run on the C09 stream. *)
From Coq Require Import String.
From YV Require Import PyBase Token Scanner PState Parser Expand ExpandSites ExecArgs ArgSites Catalogue.
Open Scope Z_scope.

(* (1) substitution: without the action tokens that only mark boundaries,
   the result has the kinds and texts of the body with arguments put in *)
Theorem C09_substitution : forall args body cur r,
  gen_repl args body cur = Ok r ->
  map shape (noact r) = map shape (noact (subst_body args body)).
Proof. exact gen_repl_subst. Qed.
Print Assumptions C09_substitution.

(* (2) every token of the result is a token of an actual argument (as it
   is), or a boundary action token at an end of an argument, or a body token
   pinned at the current position or at an end of an argument *)
Theorem C09_positions : forall args body cur r,
  gen_repl args body cur = Ok r ->
  Forall (fun t => (exists a, In a args /\ In t a) \/
                   (is_action t = true /\ arg_ends args (pos t)) \/
                   (pfix t = true /\ (pos t = cur \/ arg_ends args (pos t)))) r.
Proof. exact gen_repl_positions. Qed.
Print Assumptions C09_positions.

(* (3) a use before the definition: the name is not declared, nothing is
   expanded, the macro leaves an action token only *)
Theorem C09_use_before_definition : forall T rd rec fuel st buf t math,
  assoc (txt t) (macros st) = None ->
  exists st',
    expand_macro T rd rec fuel st buf t math = Ok (st', ([ActionT (pos t)], skip_ctl buf)) /\
    unknowns st' = (if math then unknowns st else add_unknown (unknowns st) (txt t)) /\
    macros st' = macros st /\ environs st' = environs st.
Proof. exact expand_macro_undeclared. Qed.
Print Assumptions C09_use_before_definition.

(* body `a#1b#1` with argument `XY` standing at 10, 11; use at 5 *)
(* (4) the actual arguments of a call with braced groups *)
Theorem C09_braced_call : forall T rd rec fuel st buf rest mac start gs body st' ins rest',
  m_args mac = repeat AMand (length gs) -> m_extract mac = [] -> m_repl mac = RToks body ->
  groups gs buf rest ->
  expand_arguments T rd rec fuel st buf mac start = Ok (st', (ins, rest')) ->
  st' = st /\ rest' = rest /\
  map shape (noact ins) = map shape (noact (subst_body gs body)).
Proof. exact expand_braced_call_subst. Qed.
Print Assumptions C09_braced_call.

Theorem C09_groups_collected : forall T gs st buf rest n mac p,
  groups gs buf rest ->
  collect_args T st buf (repeat AMand (length gs)) n mac p = (st, gs, gs, rest).
Proof. exact collect_groups. Qed.
Print Assumptions C09_groups_collected.

(* on the scan of "{ab}{c} d" with the body  <#2|#1>  *)
Example C09_braced_call_example :
  let toks := fst (scan (t_scan py_tables) (s2l "{ab}{c} d")) in
  let h1 := mk (KArg 1) 0 (s2l "#1") false in let h2 := mk (KArg 2) 0 (s2l "#2") false in
  let body := [TextT 0 (s2l "<"); h2; TextT 0 (s2l "|"); h1; TextT 0 (s2l ">")] in
  let mac := {| m_name := s2l "\m"; m_args := [AMand; AMand]; m_repl := RToks body;
                m_defaults := []; m_extract := [] |} in
  match expand_arguments py_tables (fun _ => None) (fun _ _ => Fatal 0) 0
          (Exec.init_state py_tables (s2l "en") false false true) toks mac 99 with
  | Ok (_, (ins, rest)) => Some (flat_map txt (noact ins), flat_map txt rest)
  | _ => None end
  = Some (s2l "<c|ab>", s2l " d").
Proof. vm_compute. reflexivity. Qed.

Example C09_nonvacuous :
  let X := mk KText 10 [88]%N false in let Y := mk KText 11 [89]%N false in
  let a := mk KText 0 [97]%N false in let b := mk KText 0 [98]%N false in
  let h := mk (KArg 1) 0 [35; 49]%N false in
  exists r, generate_replacements [[X; Y]] [a; h; b; h] 5 = Ok r /\
            map (fun t => (txt t, pos t, pfix t)) (noact r) =
            [([97%N], 10, true); ([88%N], 10, false); ([89%N], 11, false);
             ([98%N], 11, true); ([88%N], 10, false); ([89%N], 11, false)].
Proof. eexists. split; reflexivity. Qed.
