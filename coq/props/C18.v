(* C18 -- extraction and inclusion tracking find exactly the included files,
   each once.  Only statements; proofs in proofs/IncludeProofs.v (the
   inclusion work list, shell.py:261-298) and proofs/ExtractProofs.v (what
   parse() returns with an extraction list, parser.py:134-176).

   Proved: (1)-(4) the work list, for every finite file system; (5) with an
   extraction list parse() returns the extracted sequences, glued, and
   nothing of the main text flow; (6) init_extractions empties the output of
   every macro and sets the extraction template to the first mandatory
   argument of exactly the listed macros.  Not proved: that each use of a
   listed macro in text that is kept appends exactly one sequence (and uses
   in comments, skipped regions, verbatim none); decided by the generator
   oracle of harness/props/c18.py and the differential run. *)
From YV Require Import PyBase Token PState Exec Include IncludeProofs ExtractProofs.

(* (1) for every finite file system, skip predicate and list of files the
   work list terminates within the fuel the model runs it with (cyclic and
   self inclusion included) *)
Theorem C18_terminates : forall skip fs include files,
  file_list skip fs include files <> OutOfFuel.
Proof. exact file_list_terminates. Qed.
Print Assumptions C18_terminates.

(* (2) with --include the result holds each file once and exactly the files
   reachable from the given ones through files that are not skipped, '.tex'
   appended to names that lack it *)
Theorem C18_closure : forall skip fs files res,
  file_list skip fs true files = Ok res ->
  NoDup res /\ (forall f, In f res <-> reach skip fs files f).
Proof. exact file_list_spec. Qed.
Print Assumptions C18_closure.

(* (3) the files of the command line come first, in their order (the result
   extends the list of files already accepted) *)
Theorem C18_order_prefix : forall skip fs fuel files todo done res,
  inv skip fs files todo done ->
  loop skip fs true fuel todo done = Ok res ->
  exists rest, res = done ++ rest.
Proof.
  intros skip fs fuel files todo done res Hinv H.
  destruct (loop_spec skip fs files fuel todo done res Hinv H) as (_ & _ & R). exact R.
Qed.
Print Assumptions C18_order_prefix.

(* (4) without --include: the given files without duplicates and skipped
   names, in the given order *)
Theorem C18_no_include : forall skip fs fuel todo done,
  (length todo < fuel)%nat ->
  loop skip fs false fuel todo done = Ok (done ++ dedup skip todo done).
Proof. exact loop_no_include. Qed.
Print Assumptions C18_no_include.

(* (5) extraction: the result of parse() is built from the extracted
   sequences only *)
Theorem C18_extraction_only : forall T rd fuel st latex define x xs st' toks,
  parse T rd fuel st latex define (x :: xs) = Ok (st', toks) ->
  assemble (extracted st') = Ok toks.
Proof. exact parse_extract_only. Qed.
Print Assumptions C18_extraction_only.

(* (6) every macro declared so far: same name and arguments, empty
   replacement, template = first mandatory argument iff listed; listed names
   that are not declared are added with one mandatory argument *)
Theorem C18_init_extractions : forall st extr,
  exists extra,
    macros (init_extractions st extr) =
      map (fun e => (fst e,
             {| m_name := m_name (snd e); m_args := m_args (snd e); m_repl := RToks [];
                m_defaults := m_defaults (snd e);
                m_extract := if mem_str (fst e) extr then first_mand (snd e) else [] |}))
          (macros st) ++ extra
    /\ Forall (fun e => m_repl (snd e) = RToks [] /\ m_args (snd e) = [AMand]
                        /\ In (fst e) extr) extra
    /\ environs (init_extractions st extr) = environs st.
Proof. exact init_extractions_spec. Qed.
Print Assumptions C18_init_extractions.

(* non-vacuity: a.tex includes b and a (cycle), b.tex includes c.tex and a;
   c.tex is skipped *)
Definition n_a : str := [97;46;116;101;120]%N.
Definition n_b : str := [98;46;116;101;120]%N.
Definition n_c : str := [99;46;116;101;120]%N.
Example C18_example :
  file_list (fun f => str_eqb f n_c)
    [(n_a, [[98]%N; [97]%N]); (n_b, [n_c; n_a])] true [n_a] = Ok [n_a; n_b].
Proof. vm_compute. reflexivity. Qed.
