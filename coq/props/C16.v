(* C16 -- HTML report: faithful source, each match once, content cannot break
   the markup.  Only statements; proofs in proofs/HtmlProofs.v.
   Model: coq/model/Html.v (byte-exact model of genhtml.py).
   Proved here: the escaping layer, the line splitting, and one region of
   the report: its body is a gap-free, overlap-free tiling of the source
   stretch it covers, every match is highlighted exactly once (in place or
   in the overlap list), a highlight is its escaped source span wrapped line
   by line; the regions partition the matches.  The context lines around the
   regions and the line numbering of generate_html are part of the executable
   model and are decided by the byte-exact correspondence run and the
   HTML-parsing oracle (see DESIGN.md), not yet by a theorem. *)
From Coq Require Import String Sorting.Permutation.
From YV Require Import PyBase ShellMap Html HtmlProofs HtmlRegion.

(* (1) protect_html is a character-wise map (the seven substitutions do not
   interfere), hence a homomorphism *)
Theorem C16_protect_spec : forall s, protect_html s = flat_map protect_char s.
Proof. exact protect_html_spec. Qed.
Theorem C16_protect_app : forall a b,
  protect_html (a ++ b) = protect_html a ++ protect_html b.
Proof. exact protect_html_app. Qed.
Print Assumptions C16_protect_spec.

(* (2) the four markup characters never become markup: escaped text consists of
   ordinary characters, the five entities and the line-break mark only *)
Theorem C16_protect_safe : forall s, safe_html (protect_html s).
Proof. exact protect_html_safe. Qed.
Print Assumptions C16_protect_safe.

(* (3) decoding the entities gives the source text back (tabs as 8 blanks) *)
Theorem C16_protect_roundtrip : forall s,
  decodes (protect_html s) (flat_map expand_tab s).
Proof. exact protect_html_decodes. Qed.
Print Assumptions C16_protect_roundtrip.

(* (4) splitting at the line-break mark and joining again loses nothing; a
   highlight only wraps each line of the escaped stretch into its tags *)
Theorem C16_split_lines : forall s, join_br (fun l => l) (split_br s) = s.
Proof. exact join_split_br. Qed.
Theorem C16_highlight_keeps_text : forall st stu m s lin unsure,
  exists pre post,
    generate_highlight st stu m s lin unsure =
      join_br (fun l => pre ++ l ++ post) (split_br (protect_html s)) /\
    join_br (fun l => l) (split_br (protect_html s)) = protect_html s.
Proof. exact highlight_keeps_text. Qed.
Print Assumptions C16_split_lines.
Print Assumptions C16_highlight_keeps_text.

(* (5) one region: the body renders a tiling, the overlap list the rest *)
Theorem C16_region_body : forall st stu tex hs last,
  region_body st stu tex hs last =
  (flat_map (render st stu tex) (tiles hs last),
   map (fun h => (hl st stu tex h, (h_lin h + 1)%Z)) (overl hs last)).
Proof. exact region_body_tiles. Qed.
Print Assumptions C16_region_body.

(* (6) every match of the region exactly once: highlighted in place or
   listed as overlapping *)
Theorem C16_each_match_once : forall hs last,
  Permutation hs (highs (tiles hs last) ++ overl hs last).
Proof. exact each_match_once. Qed.
Print Assumptions C16_each_match_once.

(* (7) the pieces tile the source stretch of the region, in order, and so
   the text content of the body is the escaped source stretch *)
Theorem C16_region_source : forall tex hs last,
  (0 <= last)%Z -> Forall (fun h => (h_beg h <= h_end h)%Z) hs ->
  flat_map (span tex) (tiles hs last) = zslice tex last (region_last hs last)
  /\ (last <= region_last hs last)%Z.
Proof. exact tiles_source. Qed.
Theorem C16_region_text : forall tex hs last,
  (0 <= last)%Z -> Forall (fun h => (h_beg h <= h_end h)%Z) hs ->
  flat_map (fun p => protect_html (span tex p)) (tiles hs last)
  = protect_html (zslice tex last (region_last hs last)).
Proof. exact region_text. Qed.
Print Assumptions C16_region_text.

(* (8) the highlighted text is the source span the match maps to, and the
   span is never empty or reversed *)
Theorem C16_highlight_is_span : forall st stu tex h,
  exists pre post,
    render st stu tex (PHigh h) =
      join_br (fun l => pre ++ l ++ post) (split_br (protect_html (span tex (PHigh h)))) /\
    join_br (fun l => l) (split_br (protect_html (span tex (PHigh h))))
      = protect_html (span tex (PHigh h)).
Proof. exact highlight_is_wrapped_span. Qed.
Theorem C16_span_order : forall is_alpha is_word tex cm m h,
  make_hdata is_alpha is_word tex cm m = Ok h -> (h_beg h < h_end h)%Z.
Proof. exact make_hdata_order. Qed.
Print Assumptions C16_span_order.

(* (9) the regions partition the matches: every match belongs to exactly one
   region, in order, and no region is empty *)
Theorem C16_regions_partition : forall hs, concat (group hs [] []) = hs.
Proof. exact group_partition. Qed.
Theorem C16_regions_nonempty : forall hs, Forall (fun r => r <> []) (group hs [] []).
Proof. exact group_regions_nonempty. Qed.
Print Assumptions C16_regions_partition.

(* non-vacuity *)
Example C16_example :
  protect_html (s2l "a<b> & ""x""") =
  s2l "a&lt;b&gt;&ensp;&amp;&ensp;&quot;x&quot;".
Proof. vm_compute. reflexivity. Qed.
