(* C16 -- HTML report: faithful source, each match once, content cannot break
   the markup.  Only statements; proofs in proofs/HtmlProofs.v.
   Model: coq/model/Html.v (byte-exact model of genhtml.py).
   Proved here: the escaping layer, the line splitting, and one region of
   the report: its body is a gap-free, overlap-free tiling of the source
   stretch it covers, every match is highlighted exactly once (in place or
   in the overlap list), a highlight is its escaped source span wrapped line
   by line; the regions partition the matches.  The line cells (coq/proofs/HtmlLines.v, HtmlCells.v): the cells
   of escaped source text are its lines, escaped, in order; a highlight wraps
   every line of its span on its own; the string written for one region is cut
   by add_line_numbers exactly at the line breaks of its source stretch --
   every cell is closed by a line-break mark and, its span / link tags
   dropped, is one escaped source line, in order -- provided the two style
   strings and the (escaped) rule URL hold no '<'; add_line_numbers gives the
   i-th cell the i-th number and fails exactly when the numbers run out.  The
   table of line starts lists the offset behind every line break, so the
   stretch between its entries b and e holds exactly e-b line breaks
   (C16_line_table); hence what the model's region_out writes for a region
   over the lines b..e-1 is cut into e-b cells for those lines plus one closing
   cell, the numbers listed for it are b..e-1 and one -1, and add_line_numbers
   pairs cell i with line b+i without running out of numbers
   (C16_region_numbered, coq/proofs/HtmlNumbers.v).  That every
   highlight of a region ends in front of or at the start of the region's last
   line e -- a premise of C16_region_numbered -- is derived for the regions
   generate_html forms (C16_highlights_end_inside_their_region,
   coq/proofs/HtmlEnds.v): for a text that ends with a line break (the shell
   appends one) and highlights that end inside the text, through make_hdata,
   the widening by the context, the clamp to the table and the grouping.
   That the highlights end inside the text follows from the position map
   holding offsets of the text (C16_highlights_end_inside_their_region_from_the_map;
   the map's range is C01/C14).  Premises of the region theorems that stay
   premises: the style strings and the escaped URL hold no '<'.  The context arithmetic of generate_html (which lines a
   region covers) and the no-match branch are part of the executable model and
   are decided by the byte-exact correspondence run and the HTML-parsing oracle
   (see DESIGN.md). *)
From Coq Require Import String Sorting.Permutation.
From YV Require Import PyBase ShellMap Html HtmlProofs HtmlRegion HtmlLines HtmlCells HtmlNumbers HtmlEnds Tables.

(* (1) protect_html is a character-wise map (the seven substitutions do not
   interfere), hence a homomorphism *)
Theorem C16_protect_spec : forall s, protect_html s = flat_map protect_char s.
Proof. exact protect_html_spec. Qed.
Theorem C16_protect_app : forall a b,
  protect_html (a ++ b) = protect_html a ++ protect_html b.
Proof. exact protect_html_app. Qed.
Print Assumptions C16_protect_spec.

(* (2) the four markup characters never become markup: escaped text consists of
   ordinary characters, the five entities and the line-break mark only *)
Theorem C16_protect_safe : forall s, safe_html (protect_html s).
Proof. exact protect_html_safe. Qed.
Print Assumptions C16_protect_safe.

(* (3) decoding the entities gives the source text back (tabs as 8 blanks) *)
Theorem C16_protect_roundtrip : forall s,
  decodes (protect_html s) (flat_map expand_tab s).
Proof. exact protect_html_decodes. Qed.
Print Assumptions C16_protect_roundtrip.

(* (4) splitting at the line-break mark and joining again loses nothing; a
   highlight only wraps each line of the escaped stretch into its tags *)
Theorem C16_split_lines : forall s, join_br (fun l => l) (split_br s) = s.
Proof. exact join_split_br. Qed.
Theorem C16_highlight_keeps_text : forall st stu m s lin unsure,
  exists pre post,
    generate_highlight st stu m s lin unsure =
      join_br (fun l => pre ++ l ++ post) (split_br (protect_html s)) /\
    join_br (fun l => l) (split_br (protect_html s)) = protect_html s.
Proof. exact highlight_keeps_text. Qed.
Print Assumptions C16_split_lines.
Print Assumptions C16_highlight_keeps_text.

(* (5) one region: the body renders a tiling, the overlap list the rest *)
Theorem C16_region_body : forall st stu tex hs last,
  region_body st stu tex hs last =
  (flat_map (render st stu tex) (tiles hs last),
   map (fun h => (hl st stu tex h, (h_lin h + 1)%Z)) (overl hs last)).
Proof. exact region_body_tiles. Qed.
Print Assumptions C16_region_body.

(* (6) every match of the region exactly once: highlighted in place or
   listed as overlapping *)
Theorem C16_each_match_once : forall hs last,
  Permutation hs (highs (tiles hs last) ++ overl hs last).
Proof. exact each_match_once. Qed.
Print Assumptions C16_each_match_once.

(* (7) the pieces tile the source stretch of the region, in order, and so
   the text content of the body is the escaped source stretch *)
Theorem C16_region_source : forall tex hs last,
  (0 <= last)%Z -> Forall (fun h => (h_beg h <= h_end h)%Z) hs ->
  flat_map (span tex) (tiles hs last) = zslice tex last (region_last hs last)
  /\ (last <= region_last hs last)%Z.
Proof. exact tiles_source. Qed.
Theorem C16_region_text : forall tex hs last,
  (0 <= last)%Z -> Forall (fun h => (h_beg h <= h_end h)%Z) hs ->
  flat_map (fun p => protect_html (span tex p)) (tiles hs last)
  = protect_html (zslice tex last (region_last hs last)).
Proof. exact region_text. Qed.
Print Assumptions C16_region_text.

(* (8) the highlighted text is the source span the match maps to, and the
   span is never empty or reversed *)
Theorem C16_highlight_is_span : forall st stu tex h,
  exists pre post,
    render st stu tex (PHigh h) =
      join_br (fun l => pre ++ l ++ post) (split_br (protect_html (span tex (PHigh h)))) /\
    join_br (fun l => l) (split_br (protect_html (span tex (PHigh h))))
      = protect_html (span tex (PHigh h)).
Proof. exact highlight_is_wrapped_span. Qed.
Theorem C16_span_order : forall is_alpha is_word tex cm m h,
  make_hdata is_alpha is_word tex cm m = Ok h -> (h_beg h < h_end h)%Z.
Proof. exact make_hdata_order. Qed.
Print Assumptions C16_span_order.

(* (9) the regions partition the matches: every match belongs to exactly one
   region, in order, and no region is empty *)
Theorem C16_regions_partition : forall hs, concat (group hs [] []) = hs.
Proof. exact group_partition. Qed.
Theorem C16_regions_nonempty : forall hs, Forall (fun r => r <> []) (group hs [] []).
Proof. exact group_regions_nonempty. Qed.
Print Assumptions C16_regions_partition.

(* (10) the line cells.  Escaped source text is cut at its line breaks: the
   cells are the source lines (line, ends with a line break?), escaped *)
Theorem C16_plain_cells : forall s,
  split_br (protect_html s) = map esc_line (split_nl [] s).
Proof. exact split_protect. Qed.
Theorem C16_lines_lose_nothing : forall s acc,
  flat_map (fun l : str * bool => fst l ++ (if snd l then [10%N] else [])) (split_nl acc s) = acc ++ s.
Proof. exact split_nl_join. Qed.
Theorem C16_lines_hold_no_break : forall s acc,
  Forall (fun c => c <> 10%N) acc ->
  Forall (fun l : str * bool => Forall (fun c => c <> 10%N) (fst l)) (split_nl acc s).
Proof. exact split_nl_no_break. Qed.
Print Assumptions C16_plain_cells.

(* (11) span tags never cross a line: every line of the span is wrapped on
   its own *)
Theorem C16_highlight_per_line : forall st stu m s lin unsure,
  exists pre post,
    generate_highlight st stu m s lin unsure =
      flat_map (fun l : str * bool =>
                  pre ++ protect_html (fst l) ++ post ++ (if snd l then br_nl else []))
               (split_nl [] s).
Proof. exact highlight_per_line. Qed.
Print Assumptions C16_highlight_per_line.

(* (12) one region as generate_html writes it (region_out): every cell ends
   with a line-break mark and, without the report's own tags, is one escaped
   line of the source stretch st..en, in order *)
Theorem C16_region_cells : forall st_ stu,
  no_lt st_ = true -> no_lt stu = true ->
  forall tex hs st en,
  (0 <= st)%Z -> (region_last hs st <= en)%Z ->
  Forall (fun h => (h_beg h <= h_end h)%Z) hs ->
  Forall (fun h => url_ok (h_m h)) hs ->
  let html := flat_map (render st_ stu tex) (tiles hs st)
              ++ protect_html (zslice tex (region_last hs st) en) ++ br_nl in
  exists cs : list (list atom),
    split_br html = map (fun r => (render_atoms r, true)) cs /\
    map (fun r => (render_atoms (untag r), true)) cs
      = map esc_line (split_nl [] (zslice tex st en ++ [10%N])).
Proof. exact region_cells. Qed.
Print Assumptions C16_region_cells.

(* (13) add_line_numbers: the i-th cell gets the i-th number; IndexError
   exactly when there are more cells than numbers *)
Theorem C16_number_rows : forall number_style ls nums,
  number_rows number_style ls nums =
  if Nat.leb (length ls) (length nums)
  then Ok (flat_map (fun p => row number_style (fst p) (snd p)) (combine ls nums))
  else Exc IndexError.
Proof. exact number_rows_spec. Qed.
Print Assumptions C16_number_rows.

(* (14) the table of line starts and the numbers of a region *)
Theorem C16_line_table : forall tex b e p q,
  (b <= e)%nat ->
  nth_error (line_starts tex) b = Some p -> nth_error (line_starts tex) e = Some q ->
  (p <= q <= length tex)%nat /\ count_char c_nl (pyslice tex p q) = (e - b)%nat.
Proof. exact stretch_breaks. Qed.
Print Assumptions C16_line_table.

Theorem C16_region_numbered : forall st_ stu number_style,
  no_lt st_ = true -> no_lt stu = true ->
  forall tex reg html ov nums,
  region_out st_ stu tex (line_starts tex) reg = Ok (html, ov, nums) ->
  (match reg with h0 :: _ => 0 <= h_beglin h0 <= max_endlin reg | [] => False end)%Z ->
  (forall en, start_at (line_starts tex) (max_endlin reg) = Ok en ->
              Forall (fun h => h_end h <= en) reg)%Z ->
  Forall (fun h => (h_beg h <= h_end h)%Z) reg ->
  Forall (fun h => url_ok (h_m h)) reg ->
  exists (cs : list (list atom)) b e p q,
    (match reg with h0 :: _ => Z.of_nat b = h_beglin h0 | [] => False end) /\
    Z.of_nat e = max_endlin reg /\
    nth_error (line_starts tex) b = Some p /\ nth_error (line_starts tex) e = Some q /\
    split_br html = map (fun r => (render_atoms r, true)) cs /\
    nums = zrange (Z.of_nat b) (Z.of_nat e) ++ [(-1)%Z] /\
    length cs = length nums /\
    map (fun r => (render_atoms (untag r), true)) cs
      = map esc_line (split_nl [] (pyslice tex p q ++ [10%N])) /\
    number_rows number_style (split_br html) nums =
      Ok (flat_map (fun x => row number_style (fst x) (snd x))
                   (combine (map (fun r => (render_atoms r, true)) cs) nums)).
Proof. exact region_out_numbered. Qed.
Print Assumptions C16_region_numbered.

(* the premise "every highlight ends in front of or at the start of the
   region's last line" of C16_region_numbered holds for every region that
   generate_html forms, whatever the context option (>= 0), the matches and
   the position map, when the text ends with a line break *)
Theorem C16_highlights_end_inside_their_region :
  forall is_alpha is_word context tex t cm ms hd,
  tex = t ++ [c_nl] -> (0 <= context)%Z ->
  mapR (make_hdata is_alpha is_word tex cm) ms = Ok hd ->
  Forall (fun h => (0 <= h_end h <= zlen tex)%Z) hd ->
  forall reg, In reg (group (map (widen context (zlen (line_starts tex))) hd) [] []) ->
  forall en, start_at (line_starts tex) (max_endlin reg) = Ok en ->
             Forall (fun h => (h_end h <= en)%Z) reg.
Proof. exact regions_hold_their_highlights. Qed.
Print Assumptions C16_highlights_end_inside_their_region.

(* ... and the highlights end inside the text when every entry of the position
   map is an offset of the text (1..len, negative when unsure), also behind the
   two extensions (macro name behind a lone backslash, rest of the word at an
   unsure position): with this the premise of C16_region_numbered rests on the
   position map alone *)
Theorem C16_highlights_end_inside_their_region_from_the_map :
  forall is_alpha is_word context tex t cm ms hd,
  tex = t ++ [c_nl] -> (0 <= context)%Z ->
  Forall (fun c => (Z.abs c <= zlen tex)%Z) cm ->
  mapR (make_hdata is_alpha is_word tex cm) ms = Ok hd ->
  Forall (fun h => (0 <= h_end h <= zlen tex)%Z) hd /\
  forall reg, In reg (group (map (widen context (zlen (line_starts tex))) hd) [] []) ->
  forall en, start_at (line_starts tex) (max_endlin reg) = Ok en ->
             Forall (fun h => (h_end h <= en)%Z) reg.
Proof. exact regions_hold_their_highlights_map. Qed.
Print Assumptions C16_highlights_end_inside_their_region_from_the_map.

(* non-vacuity: the last line of a text, context 1 -- the clamp cuts, the
   region ends with the table's last entry, which is the length of the text *)
Example C16_ends_example :
  let tex := s2l "ab" ++ [10%N] ++ s2l "cd" ++ [10%N] in
  let h := {| h_beg := 3; h_end := 5; h_unsure := false; h_lin := 1; h_beglin := 1;
              h_endlin := 2; h_m := {| hm_offset := 0; hm_length := 1; hm_message := [];
                hm_ctx_text := []; hm_ctx_offset := 0; hm_ctx_length := 1; hm_rule := [];
                hm_repls := []; hm_url := None |} |}%Z in
  h_endlin h = (count_nl_to tex (h_end h) + 1)%Z /\
  group [widen 1 (zlen (line_starts tex)) h] [] [] = [[widen 1 3 h]] /\
  start_at (line_starts tex) (max_endlin [widen 1 3 h]) = Ok 6%Z.
Proof. vm_compute. repeat split; reflexivity. Qed.

(* table obligation: the style strings of /repo's genhtml.py (regenerated on
   every run) meet the premise of the region theorems *)
Example C16_styles_of_repo :
  no_lt sh_highlight_style = true /\ no_lt sh_highlight_style_unsure = true.
Proof. vm_compute. split; reflexivity. Qed.

(* non-vacuity: a two-line stretch with a highlight across the line break *)
Example C16_cells_example :
  let tex := s2l "ab <c" ++ [10%N] ++ s2l "de f" ++ [10%N] ++ s2l "gh" in
  let m := {| hm_offset := 0; hm_length := 1; hm_message := s2l "m<"; hm_ctx_text := s2l "x";
              hm_ctx_offset := 0; hm_ctx_length := 1; hm_rule := s2l "R"; hm_repls := [];
              hm_url := Some (s2l "http://x/&lt;") |} in
  let h := {| h_beg := 3; h_end := 8; h_unsure := false; h_lin := 0; h_beglin := 0;
              h_endlin := 2; h_m := m |}%Z in
  (region_last [h] 0 <= 11)%Z /\ url_ok m /\
  map fst (split_nl [] (zslice tex 0 11 ++ [10%N])) = [s2l "ab <c"; s2l "de f"; []] /\
  map snd (split_br (flat_map (render (s2l "s") (s2l "u") tex) (tiles [h] 0)
                     ++ protect_html (zslice tex (region_last [h] 0) 11) ++ br_nl))
    = [true; true; true].
Proof. vm_compute. repeat split; try reflexivity; discriminate. Qed.

Example C16_region_out_example :
  let tex := s2l "ab <c" ++ [10%N] ++ s2l "de f" ++ [10%N] ++ s2l "gh" ++ [10%N] in
  let m := {| hm_offset := 0; hm_length := 1; hm_message := s2l "m<"; hm_ctx_text := s2l "x";
              hm_ctx_offset := 0; hm_ctx_length := 1; hm_rule := s2l "R"; hm_repls := [];
              hm_url := None |} in
  let h := {| h_beg := 3; h_end := 8; h_unsure := false; h_lin := 0; h_beglin := 0;
              h_endlin := 2; h_m := m |}%Z in
  exists html ov,
    region_out (s2l "s") (s2l "u") tex (line_starts tex) [h] = Ok (html, ov, [0; 1; -1]%Z) /\
    start_at (line_starts tex) 2 = Ok 11%Z /\ region_last [h] 0 = 8%Z /\
    map snd (split_br html) = [true; true; true].
Proof. eexists _, _. vm_compute. repeat split; reflexivity. Qed.

(* non-vacuity *)
Example C16_example :
  protect_html (s2l "a<b> & ""x""") =
  s2l "a&lt;b&gt;&ensp;&amp;&ensp;&quot;x&quot;".
Proof. vm_compute. reflexivity. Qed.
