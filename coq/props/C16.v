(* C16 -- HTML report: faithful source, each match once, content cannot break
   the markup.  Only statements; proofs in proofs/HtmlProofs.v.
   Model: coq/model/Html.v (byte-exact model of genhtml.py).
   Proved here: the escaping layer and the line splitting.  The region
   grouping / overlap list / line numbering of generate_html are part of the
   executable model and are decided by the byte-exact correspondence run and
   the HTML-parsing oracle (see DESIGN.md), not yet by a theorem. *)
From Coq Require Import String.
From YV Require Import PyBase Html HtmlProofs.

(* (1) protect_html is a character-wise map (the seven substitutions do not
   interfere), hence a homomorphism *)
Theorem C16_protect_spec : forall s, protect_html s = flat_map protect_char s.
Proof. exact protect_html_spec. Qed.
Theorem C16_protect_app : forall a b,
  protect_html (a ++ b) = protect_html a ++ protect_html b.
Proof. exact protect_html_app. Qed.
Print Assumptions C16_protect_spec.

(* (2) the four markup characters never become markup: escaped text consists of
   ordinary characters, the five entities and the line-break mark only *)
Theorem C16_protect_safe : forall s, safe_html (protect_html s).
Proof. exact protect_html_safe. Qed.
Print Assumptions C16_protect_safe.

(* (3) decoding the entities gives the source text back (tabs as 8 blanks) *)
Theorem C16_protect_roundtrip : forall s,
  decodes (protect_html s) (flat_map expand_tab s).
Proof. exact protect_html_decodes. Qed.
Print Assumptions C16_protect_roundtrip.

(* (4) splitting at the line-break mark and joining again loses nothing; a
   highlight only wraps each line of the escaped stretch into its tags *)
Theorem C16_split_lines : forall s, join_br (fun l => l) (split_br s) = s.
Proof. exact join_split_br. Qed.
Theorem C16_highlight_keeps_text : forall st stu m s lin unsure,
  exists pre post,
    generate_highlight st stu m s lin unsure =
      join_br (fun l => pre ++ l ++ post) (split_br (protect_html s)) /\
    join_br (fun l => l) (split_br (protect_html s)) = protect_html s.
Proof. exact highlight_keeps_text. Qed.
Print Assumptions C16_split_lines.
Print Assumptions C16_highlight_keeps_text.

(* non-vacuity *)
Example C16_example :
  protect_html (s2l "a<b> & ""x""") =
  s2l "a&lt;b&gt;&ensp;&amp;&ensp;&quot;x&quot;".
Proof. vm_compute. reflexivity. Qed.
