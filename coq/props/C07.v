(* C07 -- the filter is total: arbitrary input never crashes or hangs it.
   Only statements here, closed by `exact`.  Model: the whole filter.

   In the model every loop of the implementation is a recursion on fuel and
   every Python exception an explicit result Exc, so totality is two claims:
   the fuel is never used up, and Exc is never returned.  Proved for every
   input: both claims for the scanner, for the removal of pure action lines
   (the one loop of the filter whose termination is not evident: it pushes
   tokens back on its work list), for phrase replacement and for the
   multi-language split; and for the main loop of the expander on every
   token list of plain text, special sequences, undeclared control words,
   comments, braces and nested pass-through macros (C07_expander_total_on_class:
   the fuel is bounded by a weight of the token list (a macro weighs 5 plus
   the length of its body, any other token 1), the result is Ok); end to end
   for documents of the class in single- and multi-language mode
   (C07_tex2txt_total_on_class, C07_tex2txt_total_on_class_multi): with the packages loaded and the fuel above
   the weight of the scan, tex2txt() returns a result, whatever the
   replacement list and the other options.  Not proved: the same two claims
   for the expander on arbitrary input
   (coq/model/{Parser,Expand,Math,Exec}.v); there the check relies on the
   correspondence run (outcome class of model and implementation on the
   malformed stream) and on the oracle (no exception, no hang). *)
From Coq Require Import String.
From YV Require Import PyBase CharTables Token Utils Scanner Rpal PState Parser Exec Ml
                       Replace ReplaceProofs RpalProofs TotalProofs ExecPlain ExecUnk ExecArgs
                       ClassDecide Catalogue Tex2txt ClassRange.
Open Scope Z_scope.

(* (1) scanner: a pure function of the text; the fuel scan() passes is
   never used up -- any larger amount gives the same tokens *)
Theorem C07_scanner_total : forall P latex extra,
  scan_aux P latex (S (length latex) + extra) latex 0 = scan P latex.
Proof. exact scan_fuel_enough. Qed.
Print Assumptions C07_scanner_total.

(* (2) removal of pure action lines: returns for every token list (no
   IndexError, fuel 4n+4 suffices: the work list shrinks in every turn) *)
Theorem C07_action_lines_total : forall is_space tokens,
  exists r, remove_pure_action_lines is_space tokens = Ok r.
Proof. exact rpal_total. Qed.
Print Assumptions C07_action_lines_total.

(* (3) phrase replacement: returns for every text, position list of the
   same length and rule list *)
Theorem C07_replacements_total : forall is_space is_alpha is_word lines txt pos,
  length txt = length pos ->
  exists t' p', replace_phrases is_space is_alpha is_word txt pos lines = Ok (t', p')
                /\ length t' = length p'.
Proof. exact replace_phrases_total. Qed.
Print Assumptions C07_replacements_total.

(* (4) multi-language split: returns for every token stream, provided each
   language has a non-empty collection of placeholders ... *)
Theorem C07_language_split_total : forall is_space check_lang thresh toks main rot,
  rot_ok check_lang rot ->
  exists res, get_txt_pos_ml is_space check_lang thresh toks main rot = Ok res.
Proof. exact get_txt_pos_ml_total. Qed.
Print Assumptions C07_language_split_total.

(* ... which holds for the collections a parser of /repo starts with *)
Theorem C07_collections_present : forall lang multi simple reader,
  rot_ok (check_parser_lang py_tables)
         (rot_change (init_state py_tables lang multi simple reader)).
Proof. exact (fun lang multi simple reader =>
                rot_ok_init py_tables lang multi simple reader (eq_refl true)). Qed.
Print Assumptions C07_collections_present.

(* (5) the main loop of the expander terminates and returns on every token
   list of the class: no exception, no fatal exit, once the fuel exceeds the
   weight mu of the list *)
Theorem C07_expander_total_on_class : forall rd fuel toks rout st,
  bcl py_tables (macros st) toks -> (mu (macros st) toks < fuel)%nat ->
  exists r, exec py_tables rd fuel (TSeq toks None rout) st = Ok r.
Proof.
  exact (fun rd => exec_args_total py_tables rd (eq_refl true)).
Qed.
Print Assumptions C07_expander_total_on_class.

(* (6) at the level of a document: Parser.parser_work returns for every
   source text that the computable test doc_in_class accepts *)
Theorem C07_documents_of_the_class : forall rd st latex,
  doc_in_class py_tables st latex = true ->
  exists r, parser_work py_tables
              (exec py_tables rd (S (mu (macros st) (fst (scan (t_scan py_tables) latex)))))
              st latex = Ok r.
Proof.
  exact (fun rd => parser_work_class_total py_tables rd (eq_refl true) (fun c => eq_refl) (conj eq_refl eq_refl)).
Qed.
Print Assumptions C07_documents_of_the_class.

Example C07_nonvacuous :
  exists r, remove_pure_action_lines py_isspace
              [TextT 0 [97; 10]%N; ActionT 2; SpaceT 2 [10]%N; TextT 3 [98]%N] = Ok r
            /\ map txt r = [[97; 10]; [98]]%N.
Proof. eexists. split; reflexivity. Qed.

(* (7) end to end, single-language mode: with the parser set up (packages
   loaded without error) and enough fuel, tex2txt() returns a result for every
   document of the class, whatever replacement list and options *)
Theorem C07_tex2txt_total_on_class :
  forall is_word files lang simple mods latex repl unkn thresh fuel st,
  init_parser py_tables (fun f => assoc f files) fuel (init_state py_tables lang false simple true)
              (t_builtin py_tables) mods = Ok st ->
  doc_in_class py_tables (upd_unknowns (upd_extracted st []) []) latex = true ->
  (mu (macros st) (fst (Scanner.scan (t_scan py_tables) latex)) < fuel)%nat ->
  exists out,
    run_tex2txt py_tables is_word files lang false simple mods [] latex [] repl unkn thresh fuel
    = Ok out.
Proof.
  exact (fun is_word files lang simple mods latex repl unkn thresh fuel st =>
           tex2txt_class_total py_tables is_word files lang simple mods latex repl unkn thresh fuel st
                               (eq_refl true) (fun c => eq_refl) (conj eq_refl eq_refl)).
Qed.
Print Assumptions C07_tex2txt_total_on_class.

(* (8) the same in multi-language mode, provided every language has a
   placeholder collection when the document starts (C07_collections_present
   shows it for the parser as /repo creates it) *)
Theorem C07_tex2txt_total_on_class_multi :
  forall is_word files lang simple mods latex repl unkn thresh fuel st,
  init_parser py_tables (fun f => assoc f files) fuel (init_state py_tables lang true simple true)
              (t_builtin py_tables) mods = Ok st ->
  rot_ok (check_parser_lang py_tables) (rot_change st) ->
  doc_in_class py_tables (upd_unknowns (upd_extracted st []) []) latex = true ->
  (mu (macros st) (fst (Scanner.scan (t_scan py_tables) latex)) < fuel)%nat ->
  exists out,
    run_tex2txt py_tables is_word files lang true simple mods [] latex [] repl unkn thresh fuel
    = Ok out.
Proof.
  exact (fun is_word files lang simple mods latex repl unkn thresh fuel st =>
           tex2txt_class_total_ml py_tables is_word files lang simple mods latex repl unkn thresh
                                  fuel st (eq_refl true) (fun c => eq_refl) (conj eq_refl eq_refl)).
Qed.
Print Assumptions C07_tex2txt_total_on_class_multi.
