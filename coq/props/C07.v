From YV Require Import PyBase Token.
Example c07_smoke : skip_space [] = [].
Proof. reflexivity. Qed.
