(* C13 -- phrase replacement keeps text and position map consistent.
   Only statements here; each is closed by `exact` of a lemma proved in
   coq/proofs.  Model: coq/model/Replace.v (utils.replace_phrases and
   utils.substitute), character classes from coq/gen/CharTables.v. *)
From YV Require Import PyBase CharTables Replace ReplaceProofs PhraseLang C13Proofs.

Definition replace_phrases_py := replace_phrases py_isspace py_isalpha py_word.
Definition substitute_py := substitute py_isalpha py_word.

(* (1) for every text, every position list of the same length (monotone or
   not) and every list of rule lines, replace_phrases returns (no IndexError)
   and text and position list have equal length again *)
Theorem C13_length : forall lines txt pos,
  length txt = length pos ->
  exists t' p', replace_phrases_py txt pos lines = Ok (t', p')
                /\ length t' = length p'.
Proof. exact (replace_phrases_total py_isspace py_isalpha py_word). Qed.
Print Assumptions C13_length.

(* (2) one rule: the output is aligned with the input -- a character outside
   a replaced span is copied with its position (al_keep), a replaced span u
   with positions pu yields the replacement with positions rp such that the
   k-th inserted character has the k-th position of pu, the last one repeated
   (rpos_spec); spans are replaced where P_rule holds, characters are kept
   only where Q_rule holds *)
Theorem C13_outside_unchanged_inserted_positions : forall txt pos ws repl,
  length txt = length pos ->
  exists t' p', substitute_py txt pos ws repl = Ok (t', p') /\
    aligned repl (P_rule py_isalpha py_word ws txt)
                 (Q_rule py_isalpha py_word ws txt) 0 txt pos t' p'.
Proof. exact (substitute_aligned py_isalpha py_word). Qed.
Print Assumptions C13_outside_unchanged_inserted_positions.

(* (3) a replaced span is an occurrence of the phrase: the words separated by
   blanks/tabs with at most one line break, \b at the start if the phrase
   begins with a letter and at the end if it ends with one *)
Theorem C13_replaced_is_occurrence : forall ws txt i m,
  P_rule py_isalpha py_word ws txt i m -> occurrence ws txt i m /\ 1 <= m.
Proof. exact P_rule_occurrence. Qed.
Print Assumptions C13_replaced_is_occurrence.

(* (4) and conversely no occurrence is skipped: where a character is kept,
   no non-empty occurrence starts (leftmost, non-overlapping) *)
Theorem C13_kept_has_no_occurrence : forall lin txt i m,
  let ws := r_words (parse_rule py_isspace lin) in
  Q_rule py_isalpha py_word ws txt i -> occurrence ws txt i m -> m = 0.
Proof.
  intros lin txt i m ws. exact (Q_rule_no_occurrence ws txt i m (rule_words_ok lin)).
Qed.
Print Assumptions C13_kept_has_no_occurrence.

(* (5) never across a paragraph break: a separator holds at most one line
   break and the words of a rule hold none *)
Theorem C13_separator_one_line_break : forall s,
  sep_lang s -> count_char c_nl s <= 1.
Proof. exact sep_lang_one_nl. Qed.
Theorem C13_words_no_line_break : forall lin,
  Forall (fun w => count_char c_nl w = 0) (r_words (parse_rule py_isspace lin)).
Proof. exact rule_words_no_nl. Qed.
Print Assumptions C13_separator_one_line_break.
Print Assumptions C13_words_no_line_break.

(* (6) '#' starts a comment; a line without left-hand side is ignored *)
Theorem C13_comment : forall a b,
  Forall (fun c => c <> c_hash) a ->
  parse_rule py_isspace (a ++ c_hash :: b) = parse_rule py_isspace a.
Proof. exact (parse_rule_comment py_isspace). Qed.
Theorem C13_empty_lhs_ignored : forall lin lines txt pos,
  r_words (parse_rule py_isspace lin) = [] ->
  replace_phrases_py txt pos (lin :: lines) = replace_phrases_py txt pos lines.
Proof. exact (replace_phrases_skip py_isspace py_isalpha py_word). Qed.
Print Assumptions C13_comment.
Print Assumptions C13_empty_lhs_ignored.

(* non-vacuity: a concrete text, a non-monotone position list, two rules,
   one of them with a replacement longer than the phrase *)
(* multi-language mode: the list rewrites the parts of the main language and
   nothing else.  The run with the list and the run without it return the
   same languages in the same order; a part of another language is identical
   in both; a part of the main language is replace_phrases applied to the
   part of the run without the list (positions shifted to 1-based afterwards) *)
From YV Require Import PState Tex2txt ReplMl.
Theorem C13_multi_language_main_parts_only :
  forall T is_word files lang simple mods define latex extr lines unkn thresh fuel out out0,
  run_tex2txt T is_word files lang true simple mods define latex extr (Some lines) unkn thresh fuel = Ok out ->
  run_tex2txt T is_word files lang true simple mods define latex extr None unkn thresh fuel = Ok out0 ->
  exists ml ml',
    to_result out0 = TMulti (shift1 ml) /\ to_result out = TMulti (shift1 ml') /\
    Forall2 (same_or_replaced
               (fun t p => replace_phrases (t_is_space T) (t_is_alpha T) is_word t p lines) lang)
            ml ml'.
Proof. exact tex2txt_ml_replacements. Qed.
Print Assumptions C13_multi_language_main_parts_only.

Example C13_example :
  replace_phrases_py [115;111;32;10;100;97;115;115;32;120]%N
                     [9;8;7;6;5;4;3;2;1;0]%Z
                     [[115;111;32;100;97;115;115;32;38;32;115;111;100;97;115;115;115;115;115]%N;
                      [120;32;38]%N]
  = Ok ([115;111;100;97;115;115;115;115;115;32]%N, [9;8;7;6;5;4;3;2;2;1]%Z).
Proof. vm_compute. reflexivity. Qed.
Example C13_example_occurrence :
  P_rule py_isalpha py_word [[115;111]%N; [100;97;115;115]%N]
         [115;111;32;10;100;97;115;115;32;120]%N 0 8.
Proof. split; [vm_compute; reflexivity | repeat constructor]. Qed.
