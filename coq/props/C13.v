(* placeholder until the proofs are in: replaced below *)
From YV Require Import PyBase Replace.
Example c13_smoke : match_sep [32; 10; 32; 97]%N = Some (3, [97%N]).
Proof. reflexivity. Qed.
