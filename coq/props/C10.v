(* C10 -- inline maths becomes one rotating placeholder with its
   punctuation, nothing else.  Only statements here, closed by `exact`.
   Model: coq/model/Math.v (replace_section, rotate), tables from /repo.

   Proved for every formula that is one maths part: exactly one placeholder,
   the head of the rotated inline collection of the current language, with
   optional blank before/after and optional final punctuation, all pinned at
   the first maths token; the collection stays rotated; rotation is cyclic,
   the k-th formula gets entry k mod n; neighbours differ (the collections
   of /repo have no repetition and at least two entries).  Not proved: the
   maths parser that cuts the formula out of the token stream
   (run_math_section) and the treatment of \text parts; compared with the
   implementation by the correspondence run on the C10 stream. *)
From YV Require Import PyBase Token PState Parser Expand Math ExpandSites Catalogue.
Open Scope Z_scope.

Theorem C10_one_placeholder : forall T st ts fp nr out p ph rest0,
  first_pos ts = Ok p ->
  forallb (is_mspace) ts = false ->
  rotate (get_repls st false) = ph :: rest0 ->
  exists sp1 pc sp2 nr',
    replace_section T st true false [MPart ts] fp nr out =
      Ok (set_repls st false (ph :: rest0),
          out ++ sp1 ++ [TextF p ph] ++ pc ++ sp2, nr') /\
    sp1 = (match ts with
           | t0 :: _ => if is_mspace t0 then [SpaceF p s_space] else []
           | [] => [] end) /\
    (pc = [] \/ exists c, pc = [TextF p [c]] /\ last_char T ts = [c]
                          /\ mem_str [c] (t_math_punctuation T) = true) /\
    sp2 = (match rev ts with
           | t1 :: _ => if is_mspace t1 then [SpaceF p s_space] else []
           | [] => [] end) /\
    get_repls (set_repls st false (ph :: rest0)) false = ph :: rest0.
Proof. exact replace_section_inline. Qed.
Print Assumptions C10_one_placeholder.

(* successive formulas: cyclic *)
Theorem C10_rotation_cycle : forall l, Nat.iter (length l) rotate l = l.
Proof. exact rotate_cycle. Qed.
Theorem C10_kth_formula : forall l k,
  l <> [] -> hd_error (Nat.iter k rotate l) = nth_error l (k mod length l)%nat.
Proof. exact rotate_iter_head. Qed.
Print Assumptions C10_kth_formula.

(* neighbouring formulas never look like a repeated word *)
Theorem C10_neighbours_differ : forall l x y,
  NoDup l -> (2 <= length l)%nat -> hd_error l = Some x -> hd_error (rotate l) = Some y ->
  x <> y.
Proof. exact rotate_head_differs. Qed.
Theorem C10_collections_of_repo : forall k s,
  In (k, s) (t_langs py_tables) ->
  forall l, In l [ls_inline s; ls_display s; ls_change s] ->
  NoDup l /\ (2 <= length l)%nat.
Proof. exact (collections_ok_spec py_tables (eq_refl true)). Qed.
Print Assumptions C10_collections_of_repo.

(* the punctuation marks of /repo are the four of the property *)
Example C10_punctuation : t_math_punctuation py_tables = [[46]; [44]; [59]; [58]]%N.
Proof. reflexivity. Qed.
