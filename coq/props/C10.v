From YV Require Import PyBase Token.
Example c10_smoke : skip_space [] = [].
Proof. reflexivity. Qed.
