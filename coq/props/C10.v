(* C10 -- inline maths becomes one rotating placeholder with its
   punctuation, nothing else.  Only statements here, closed by `exact`.
   Model: coq/model/Math.v (replace_section, rotate), tables from /repo.

   Proved for every formula that is one maths part: exactly one placeholder,
   the head of the rotated inline collection of the current language, with
   optional blank before/after and optional final punctuation, all pinned at
   the first maths token; the collection stays rotated; rotation is cyclic,
   the k-th formula gets entry k mod n; neighbours differ (the collections
   of /repo have no repetition and at least two entries).  Through the loop
   of the maths parser (C10_formula_through_the_loop): for every inline
   formula whose body holds no declared control word, environment or
   paragraph break (undeclared control words such as \alpha are covered),
   whatever its length, `expand_inline_math` returns exactly: action token,
   [blank], the placeholder, [punctuation], [blank], action token, the rest
   of the text untouched behind the closing delimiter, the collection rotated
   by one.  Not proved: bodies with declared control words (they re-enter the
   expander) and the treatment of \text parts; compared with the
   implementation by the correspondence run on the C10 stream. *)
From Coq Require Import String Lia.
From YV Require Import PyBase Token Utils Scanner PState Parser Expand Math Exec ExpandSites MathSites
                       Catalogue.
Open Scope Z_scope.

Theorem C10_one_placeholder : forall T st ts fp nr out p ph rest0,
  first_pos ts = Ok p ->
  forallb (is_mspace) ts = false ->
  rotate (get_repls st false) = ph :: rest0 ->
  exists sp1 pc sp2 nr',
    replace_section T st true false [MPart ts] fp nr out =
      Ok (set_repls st false (ph :: rest0),
          out ++ sp1 ++ [TextF p ph] ++ pc ++ sp2, nr') /\
    sp1 = (match ts with
           | t0 :: _ => if is_mspace t0 then [SpaceF p s_space] else []
           | [] => [] end) /\
    (pc = [] \/ exists c, pc = [TextF p [c]] /\ last_char T ts = [c]
                          /\ mem_str [c] (t_math_punctuation T) = true) /\
    sp2 = (match rev ts with
           | t1 :: _ => if is_mspace t1 then [SpaceF p s_space] else []
           | [] => [] end) /\
    get_repls (set_repls st false (ph :: rest0)) false = ph :: rest0.
Proof. exact replace_section_inline. Qed.
Print Assumptions C10_one_placeholder.

Theorem C10_formula_through_the_loop : forall rd k st t body c rest p ph rest0,
  buf_is_space c = false -> tk c <> KPar -> mem_str (txt c) inline_stops = true ->
  Forall (mok st inline_stops) body -> (mmu body < k)%nat ->
  let ts := flat_map (mconv py_tables st) body in
  first_pos ts = Ok p ->
  forallb is_mspace ts = false ->
  rotate (get_repls st false) = ph :: rest0 ->
  exists sp1 pc sp2,
    expand_inline_math py_tables (exec py_tables rd k) st (body ++ c :: rest) t =
      Ok (set_repls st false (ph :: rest0),
          ([ActionT (pos t)] ++ sp1 ++ [TextF p ph] ++ pc ++ sp2 ++ [ActionT p], rest)) /\
    sp1 = (match ts with
           | t0 :: _ => if is_mspace t0 then [SpaceF p s_space] else []
           | [] => [] end) /\
    (pc = [] \/ exists ch, pc = [TextF p [ch]] /\ last_char py_tables ts = [ch]
                           /\ mem_str [ch] (t_math_punctuation py_tables) = true) /\
    sp2 = (match rev ts with
           | t1 :: _ => if is_mspace t1 then [SpaceF p s_space] else []
           | [] => [] end) /\
    get_repls (set_repls st false (ph :: rest0)) false = ph :: rest0.
Proof. exact (inline_math_plain py_tables). Qed.
Print Assumptions C10_formula_through_the_loop.

(* the premises on the scan of "$ a+b.$ x": second placeholder of the
   English collection, the full stop, pinned at the first maths token *)
Example C10_loop_example :
  let st0 := init_state py_tables (s2l "en") false false true in
  match fst (scan (t_scan py_tables) (s2l "$ a+\beta_i \leq b.$ x")) with
  | t :: r =>
      match expand_inline_math py_tables (exec py_tables (fun _ => None) 50) st0 r t with
      | Ok (st, (o, rest)) => Some (map (fun t => (tk t, pos t, txt t, pfix t)) o, length rest)
      | _ => None end
  | [] => None end
  = Some ([(KAction, 0, [], false); (KText, 2, s2l "C-C-C", true);
           (KText, 2, s2l ".", true); (KAction, 2, [], false)], 2%nat).
Proof. vm_compute. reflexivity. Qed.
Example C10_loop_example_premises :
  let st0 := init_state py_tables (s2l "en") false false true in
  match fst (scan (t_scan py_tables) (s2l "$ a+\beta_i \leq b.$ x")) with
  | t :: r => forallb (mokb st0 inline_stops) (firstn 11 r) = true /\
              option_map txt (nth_error r 11) = Some (s2l "$") /\
              (mmu (firstn 11 r) < 50)%nat
  | [] => False end.
Proof. vm_compute. repeat split; lia. Qed.

(* successive formulas: cyclic *)
Theorem C10_rotation_cycle : forall l, Nat.iter (length l) rotate l = l.
Proof. exact rotate_cycle. Qed.
Theorem C10_kth_formula : forall l k,
  l <> [] -> hd_error (Nat.iter k rotate l) = nth_error l (k mod length l)%nat.
Proof. exact rotate_iter_head. Qed.
Print Assumptions C10_kth_formula.

(* neighbouring formulas never look like a repeated word *)
Theorem C10_neighbours_differ : forall l x y,
  NoDup l -> (2 <= length l)%nat -> hd_error l = Some x -> hd_error (rotate l) = Some y ->
  x <> y.
Proof. exact rotate_head_differs. Qed.
Theorem C10_collections_of_repo : forall k s,
  In (k, s) (t_langs py_tables) ->
  forall l, In l [ls_inline s; ls_display s; ls_change s] ->
  NoDup l /\ (2 <= length l)%nat.
Proof. exact (collections_ok_spec py_tables (eq_refl true)). Qed.
Print Assumptions C10_collections_of_repo.

(* the punctuation marks of /repo are the four of the property *)
Example C10_punctuation : t_math_punctuation py_tables = [[46]; [44]; [59]; [58]]%N.
Proof. reflexivity. Qed.
