From YV Require Import PyBase Token.
Example c12_smoke : skip_space [] = [].
Proof. reflexivity. Qed.
