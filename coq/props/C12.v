(* C12 -- multi-language mode assigns every word to exactly one part of the
   right language.  Only statements here, closed by `exact`.  Model:
   coq/model/Ml.v (utils.get_txt_pos_ml).

   Proved for every token stream: language tokens only cut the stream -- the
   sections together hold exactly the text and the positions of the stream
   (nothing lost, nothing twice, order kept), which is what the
   single-language run returns; every part has as many positions as
   characters, and the positions of the parts (placeholders included) are
   positions of the stream.  The label, for an insertion in running text
   (C12_insertion_labelled): a stream  a, switch to l, b, switch back, c  with
   l different from the main language and no further language token is split
   into the text of a labelled with the main language, the text of b labelled
   l, the text of c labelled with the main language, in this order; behind a
   hard switch (\selectlanguage) everything carries the new language
   (C12_hard_switch_labelled); an insertion in the language already in force
   cuts nothing (C12_same_language_no_cut).  The threshold rule on three
   sections: a short insertion becomes a part of its own and its neighbours
   are joined around the placeholder (C12_short_insertion_joined), a long one
   stays between them (C12_long_insertion_kept).  The threshold pass on section
   lists of any length (coq/proofs/MlJoin.v): every section ends up in exactly
   one returned part, whole and unchanged, behind the sections that stood in
   front of it; between the sections of a part stands inserted material only
   (C12_threshold_pass_any_length); the sections of a part carry the language
   of the part (C12_part_language); and the table returned by get_txt_pos_ml
   lists under each language exactly the parts labelled with it, in order
   (C12_every_section_in_one_part); the placeholder written for a short
   insertion is the next one of the language-change collection of the
   surrounding part's language (C12_placeholder_of_part_language).  Not proved: the label under deeper nesting
   (the full stack discipline) and which insertions the threshold rule selects
   on longer lists; compared with the implementation and decided by the oracle
   of harness/props/c12.py on the C12 stream. *)
From Coq Require Import Sorting.Permutation.
From YV Require Import PyBase Token Utils Ml MlProofs MlInsert MlJoin.
Open Scope Z_scope.

Theorem C12_sections_conserve : forall toks stack back brk cur secs,
  let r := sections toks stack back brk cur secs in
  let g := get_txt_pos (rev cur ++ filter not_lang toks) in
  all_txt r = all_txt secs ++ fst g /\ all_pos r = all_pos secs ++ snd g.
Proof. exact sections_conserve. Qed.
Print Assumptions C12_sections_conserve.

Theorem C12_parts_positions : forall is_space check_lang thresh (R : Z -> Prop) toks main rot res,
  Forall (tok_R R) toks ->
  get_txt_pos_ml is_space check_lang thresh toks main rot = Ok res ->
  Forall (fun e => Forall (fun tp => length (fst tp) = length (snd tp)
                                     /\ Forall R (snd tp)) (snd e)) res.
Proof. exact get_txt_pos_ml_lengths. Qed.
Print Assumptions C12_parts_positions.

Theorem C12_insertion_labelled : forall a b c main l lb p1 p2 k1 k2,
  Forall (fun t => is_lang t = false) a ->
  Forall (fun t => is_lang t = false) b ->
  Forall (fun t => is_lang t = false) c ->
  str_eqb l main = false -> str_eqb lb l = false ->
  sections (a ++ LangT p1 l false false k1 :: b ++ LangT p2 lb true false k2 :: c)
           [main] false false [] []
  = stretch main false false a ++ stretch l false k1 b ++ stretch main true k2 c.
Proof. exact sections_insertion. Qed.
Print Assumptions C12_insertion_labelled.

Theorem C12_hard_switch_labelled : forall a b main l p1 k1,
  Forall (fun t => is_lang t = false) a ->
  Forall (fun t => is_lang t = false) b ->
  str_eqb l main = false ->
  sections (a ++ LangT p1 l false true k1 :: b) [main] false false [] []
  = stretch main false false a ++ stretch l false k1 b.
Proof. exact sections_hard_switch. Qed.
Print Assumptions C12_hard_switch_labelled.

Theorem C12_same_language_no_cut : forall a b c main lb p1 p2 k1 k2,
  Forall (fun t => is_lang t = false) a ->
  Forall (fun t => is_lang t = false) b ->
  Forall (fun t => is_lang t = false) c ->
  str_eqb lb main = false ->
  sections (a ++ LangT p1 main false false k1 :: b ++ LangT p2 lb true false k2 :: c)
           [main] false false [] []
  = stretch main false false (a ++ b ++ c).
Proof. exact sections_same_language. Qed.
Print Assumptions C12_same_language_no_cut.

(* the threshold rule *)
Theorem C12_short_insertion_joined : forall is_space check_lang thresh k s0 s1 s2 rot s0' rot',
  s_brk s1 = false -> s_back s1 = false ->
  str_eqb (s_lang s0) (s_lang s2) = true ->
  short_section is_space thresh s1 = true ->
  append_placeholder is_space check_lang rot s0 s1 = Ok (s0', rot') ->
  join_sections is_space check_lang thresh (S (S k)) [s0; s1; s2] rot []
  = Ok [s1; {| s_lang := s_lang s0'; s_back := s_back s0'; s_brk := s_brk s0';
               s_txt := s_txt s0' ++ s_txt s2; s_pos := s_pos s0' ++ s_pos s2 |}].
Proof. exact join_short_insertion. Qed.
Print Assumptions C12_short_insertion_joined.

Theorem C12_long_insertion_kept : forall is_space check_lang thresh k s0 s1 s2 rot,
  short_section is_space thresh s1 = false ->
  short_section is_space thresh s2 = false \/ s_brk s2 = true \/ s_back s2 = true ->
  join_sections is_space check_lang thresh (S (S (S k))) [s0; s1; s2] rot []
  = Ok [s0; s1; s2].
Proof. exact join_long_insertion. Qed.
Print Assumptions C12_long_insertion_kept.

(* the threshold pass, any number of sections *)
Theorem C12_threshold_pass_any_length : forall is_space check_lang thresh fuel secs rot res,
  Forall (fun s => length (s_txt s) = length (s_pos s)) secs ->
  join_sections is_space check_lang thresh fuel secs rot [] = Ok res ->
  exists groups,
    Forall2 glued res groups /\
    Permutation (concat groups) secs /\
    Forall (fun g => subseq g secs) groups.
Proof. exact join_sections_glued. Qed.
Print Assumptions C12_threshold_pass_any_length.

Theorem C12_part_language : forall o srcs, glued o srcs ->
  Forall (fun s => str_eqb (s_lang o) (s_lang s) = true) srcs.
Proof. exact glued_lang. Qed.
Theorem C12_part_positions_per_character : forall o srcs, glued o srcs ->
  Forall (fun s => length (s_txt s) = length (s_pos s)) srcs ->
  length (s_txt o) = length (s_pos o).
Proof. exact glued_lengths. Qed.
Print Assumptions C12_part_language.

(* the placeholder of a short insertion: from the language-change collection
   of the language of the part it is written into, the next one in rotation;
   around it at most the blank at each edge of the insertion *)
Theorem C12_placeholder_of_part_language : forall is_space check_lang rot sec incl sec' rot',
  blank is_space (s_txt incl) = false ->
  append_placeholder is_space check_lang rot sec incl = Ok (sec', rot') ->
  let key := check_lang (s_lang sec) in
  let coll := match find (fun e => str_eqb (fst e) key) rot with
              | Some e => snd e | None => [] end in
  exists x r ph rest e1 e2,
    coll = x :: r /\ r ++ [x] = ph :: rest /\
    s_txt sec' = s_txt sec ++ e1 ++ ph ++ e2 /\
    (e1 = [] \/ exists c, e1 = [c] /\ is_space c = true) /\
    (e2 = [] \/ exists c, e2 = [c] /\ is_space c = true) /\
    rot' = map (fun e => if str_eqb (fst e) key then (fst e, ph :: rest) else e) rot.
Proof. exact placeholder_of_part_language. Qed.
Print Assumptions C12_placeholder_of_part_language.

Theorem C12_every_section_in_one_part : forall is_space check_lang thresh toks main rot res,
  get_txt_pos_ml is_space check_lang thresh toks main rot = Ok res ->
  let secs := sections toks [main] false false [] [] in
  exists out groups,
    Forall2 glued out groups /\
    Permutation (concat groups) secs /\
    Forall (fun g => subseq g secs) groups /\
    forall l, parts_of l res = map part (filter (fun s => str_eqb (s_lang s) l) out).
Proof. exact ml_every_section_in_one_part. Qed.
Print Assumptions C12_every_section_in_one_part.

(* non-vacuity: two short insertions in one sentence, five sections, two
   parts for the main language would be wrong -- the sentence stays one part *)
Example C12_threshold_example :
  let en := [101; 110]%N in let de := [100; 101]%N in
  let sp := fun c => N.eqb c 32 in
  let T := fun p c => TextT p [c] in
  get_txt_pos_ml sp (fun l => l) 2
    ([T 0 65%N; SpaceT 1 [32%N]] ++ LangT 2 de false false false :: [T 3 66%N] ++
     LangT 4 [] true false false :: [SpaceT 5 [32%N]; T 6 67%N; SpaceT 7 [32%N]] ++
     LangT 8 de false false false :: [T 9 68%N] ++ LangT 10 [] true false false ::
     [SpaceT 11 [32%N]; T 12 69%N])
    en [(en, [[88]; [89]])]%N
  = Ok [(de, [([66]%N, [3]); ([68]%N, [9])]);
        (en, [([65; 32; 89; 32; 67; 32; 88; 32; 69]%N, [0; 1; 3; 5; 6; 7; 9; 11; 12])])].
Proof. vm_compute. reflexivity. Qed.

(* the main language from the babel options, on the tables of /repo
   (regenerated on every run): main=<language> wins wherever it stands,
   otherwise the last language option; other key=value options are skipped *)
From Coq Require Import String.
From YV Require Import PState Parser Catalogue.
Local Open Scope string_scope.
Example C12_main_language_option :
  let lt l := [LangT 0 (s2l l) false true true] in
  babel_inject py_tables [(s2l "main", Some (s2l "ngerman")); (s2l "english", None)] = lt "de-DE" /\
  babel_inject py_tables [(s2l "english", None); (s2l "main", Some (s2l "ngerman"))] = lt "de-DE" /\
  babel_inject py_tables [(s2l "ngerman", None); (s2l "english", None)] = lt "en-GB" /\
  babel_inject py_tables [(s2l "main", Some (s2l "klingon")); (s2l "russian", None);
                          (s2l "shorthands", Some (s2l "off"))] = lt "ru-RU" /\
  babel_inject py_tables [(s2l "shorthands", Some (s2l "off"))] = [].
Proof. vm_compute. repeat split; reflexivity. Qed.

Example C12_insertion_example :
  let en := [101; 110]%N in let de := [100; 101]%N in
  sections ([TextT 0 [65]%N; SpaceT 1 [32]%N] ++ LangT 2 de false false false ::
            [TextT 20 [66]%N] ++ LangT 21 [] true false false :: [SpaceT 22 [32]%N; TextT 23 [67]%N])
           [en] false false [] []
  = [{| s_lang := en; s_back := false; s_brk := false; s_txt := [65; 32]%N; s_pos := [0; 1] |};
     {| s_lang := de; s_back := false; s_brk := false; s_txt := [66]%N; s_pos := [20] |};
     {| s_lang := en; s_back := true; s_brk := false; s_txt := [32; 67]%N; s_pos := [22; 23] |}].
Proof. reflexivity. Qed.

Example C12_nonvacuous :
  let a := mk KText 0 [97]%N false in let b := mk KText 5 [98]%N false in
  let l := LangT 3 [100; 101]%N false false false in
  map (fun s => (s_lang s, s_txt s, s_pos s)) (sections [a; l; b] [[101; 110]%N] false false [] [])
  = [([101; 110]%N, [97]%N, [0]); ([100; 101]%N, [98]%N, [5])].
Proof. reflexivity. Qed.
