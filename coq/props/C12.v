(* C12 -- multi-language mode assigns every word to exactly one part of the
   right language.  Only statements here, closed by `exact`.  Model:
   coq/model/Ml.v (utils.get_txt_pos_ml).

   Proved for every token stream: language tokens only cut the stream -- the
   sections together hold exactly the text and the positions of the stream
   (nothing lost, nothing twice, order kept), which is what the
   single-language run returns; every part has as many positions as
   characters, and the positions of the parts (placeholders included) are
   positions of the stream.  Not proved: that the language label of a
   section is the language in force (the stack discipline of
   \selectlanguage, \foreignlanguage, otherlanguage) and the threshold rule
   for short insertions; compared with the implementation and decided by the
   oracle of harness/props/c12.py on the C12 stream. *)
From YV Require Import PyBase Token Utils Ml MlProofs.
Open Scope Z_scope.

Theorem C12_sections_conserve : forall toks stack back brk cur secs,
  let r := sections toks stack back brk cur secs in
  let g := get_txt_pos (rev cur ++ filter not_lang toks) in
  all_txt r = all_txt secs ++ fst g /\ all_pos r = all_pos secs ++ snd g.
Proof. exact sections_conserve. Qed.
Print Assumptions C12_sections_conserve.

Theorem C12_parts_positions : forall is_space check_lang thresh (R : Z -> Prop) toks main rot res,
  Forall (tok_R R) toks ->
  get_txt_pos_ml is_space check_lang thresh toks main rot = Ok res ->
  Forall (fun e => Forall (fun tp => length (fst tp) = length (snd tp)
                                     /\ Forall R (snd tp)) (snd e)) res.
Proof. exact get_txt_pos_ml_lengths. Qed.
Print Assumptions C12_parts_positions.

Example C12_nonvacuous :
  let a := mk KText 0 [97]%N false in let b := mk KText 5 [98]%N false in
  let l := LangT 3 [100; 101]%N false false false in
  map (fun s => (s_lang s, s_txt s, s_pos s)) (sections [a; l; b] [[101; 110]%N] false false [] [])
  = [([101; 110]%N, [97]%N, [0]); ([100; 101]%N, [98]%N, [5])].
Proof. reflexivity. Qed.
