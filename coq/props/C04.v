(* C04 -- generated text maps into the source span of the construct that
   generated it.  Only statements here, closed by `exact`.  Model:
   coq/model/{Parser,Expand,Math,Utils}.v.

   Proved, per generating step: tokens made by the handlers for citations,
   theorem titles and headings, by the expansion of a user macro body, by an
   inline formula, by a displayed equation in simple mode and by an error
   mark are pinned at the position of the construct's first token or at the
   position of one of its argument tokens.  End to end, for every document
   accepted by the computable test doc_in_class (plain text, special
   sequences, undeclared control words, comments, braces, nested
   pass-through macros, macros without arguments whose body is text): every
   visible one-line token that parser_work returns is a scanner token at its
   own place, or the tabulated text of a special sequence at the position of
   the sequence, or a token of the body of a macro pinned at the position of
   the macro call (C04_generated_text_of_the_class).  Not proved: the same for the
   remaining handlers and environments, and that the buffer positions
   handed to these steps are those of the construct; decided on the C04
   stream by the span oracle of harness/props/c04.py (every generated
   character inside the span of its construct) and the correspondence run. *)
From Coq Require Import String.
From YV Require Import PyBase CharTables Token Utils Scanner PState Parser Expand Math Exec
                       ExpandSites LatexErrorProofs ShellMap ScanFaithful RpalProofs ExecPlain
                       ExecUnk ExecArgs ClassDecide Catalogue.
Open Scope Z_scope.

Theorem C04_generated_text_of_the_class : forall rd fuel st latex r,
  doc_in_class py_tables st latex = true ->
  parser_work py_tables (exec py_tables rd fuel) st latex = Ok r ->
  let toks := fst (scan (t_scan py_tables) latex) in
  Forall (fun t => (In t toks /\ faithful latex t) \/
                   (exists s v, In s toks /\ faithful latex s /\ tk s = KSpecial /\
                                assoc (txt s) (t_special_values py_tables) = Some v /\
                                t = mk KText (pos s) v (pfix s)) \/
                   (exists m mac body b, In m toks /\ faithful latex m /\ tk m = KMacro /\
                                assoc (txt m) (macros st) = Some mac /\
                                m_repl mac = RToks body /\ In b body /\
                                t = set_pos_fix b (pos m)) \/
                   (exists s, In s toks /\ faithful latex s /\ tk s = KVerb false /\
                                t = mk KText (pos s) (txt s) (pfix s)))
         (filter (solid py_isspace) (snd r)).
Proof.
  exact (fun rd fuel st latex r Hd Hp =>
           proj1 (proj2 (parser_work_class py_tables rd (eq_refl true) (fun c => eq_refl)
                                           (conj eq_refl eq_refl) (eq_refl true) (eq_refl true) fuel st latex r Hd Hp))).
Qed.
Print Assumptions C04_generated_text_of_the_class.

(* a document with a macro \ua -> UA declared without arguments: the two
   letters of each use are pinned at the backslash of the call *)
Example C04_class_example :
  let ua := {| m_name := s2l "\ua"; m_args := [];
               m_repl := RToks [TextT 17 [85]%N; TextT 18 [65]%N];
               m_defaults := []; m_extract := [] |} in
  let st0 := upd_macros (init_state py_tables (s2l "en") false false true)
                        [(s2l "\ua", ua)] in
  let latex := s2l "ab \ua  cd \ua{} e" in
  doc_in_class py_tables st0 latex = true /\
  match parser_work py_tables (exec py_tables (fun _ => None) 200) st0 latex with
  | Ok r => Some (map (fun t => (txt t, pos t, pfix t)) (filter (solid py_isspace) (snd r)))
  | _ => None end
  = Some [([97]%N, 0, false); ([98]%N, 1, false); ([85]%N, 3, true); ([65]%N, 3, true);
          ([99]%N, 8, false); ([100]%N, 9, false); ([85]%N, 11, true); ([65]%N, 11, true);
          ([101]%N, 17, false)].
Proof. split; vm_compute; reflexivity. Qed.

Theorem C04_citation : forall T rd rec fuel st buf name args p st' o,
  run_handler T rd rec fuel HCite st buf name args p = Ok (st', o) ->
  Forall (in_construct args p) o /\ st' = st.
Proof. exact cite_in_construct. Qed.
Print Assumptions C04_citation.

Theorem C04_theorem_title : forall T rd rec fuel title st buf name args p st' o,
  run_handler T rd rec fuel (HTheorem title) st buf name args p = Ok (st', o) ->
  Forall (in_construct args p) o /\ st' = st.
Proof. exact theorem_title_in_construct. Qed.
Print Assumptions C04_theorem_title.

Theorem C04_heading_full_stop : forall T rd rec fuel st buf name args p st' o,
  run_handler T rd rec fuel HHeading st buf name args p = Ok (st', o) ->
  Forall (in_construct args p) o /\
  exists a2, arg args 2 = Ok a2 /\
             (o = a2 \/ exists lp, last_pos a2 = Ok lp /\ o = a2 ++ [TextT lp (s2l ".")]).
Proof. exact heading_in_construct. Qed.
Print Assumptions C04_heading_full_stop.

Theorem C04_macro_body : forall args body cur r,
  gen_repl args body cur = Ok r ->
  Forall (fun t => (exists a, In a args /\ In t a) \/
                   (is_action t = true /\ arg_ends args (pos t)) \/
                   (pfix t = true /\ (pos t = cur \/ arg_ends args (pos t)))) r.
Proof. exact gen_repl_positions. Qed.
Print Assumptions C04_macro_body.

Theorem C04_inline_formula : forall T st ts fp nr out p ph rest0,
  first_pos ts = Ok p ->
  forallb (is_mspace) ts = false ->
  rotate (get_repls st false) = ph :: rest0 ->
  exists sp1 pc sp2 nr',
    replace_section T st true false [MPart ts] fp nr out =
      Ok (set_repls st false (ph :: rest0),
          out ++ sp1 ++ [TextF p ph] ++ pc ++ sp2, nr') /\
    sp1 = (match ts with
           | t0 :: _ => if is_mspace t0 then [SpaceF p s_space] else []
           | [] => [] end) /\
    (pc = [] \/ exists c, pc = [TextF p [c]] /\ last_char T ts = [c]
                          /\ mem_str [c] (t_math_punctuation T) = true) /\
    sp2 = (match rev ts with
           | t1 :: _ => if is_mspace t1 then [SpaceF p s_space] else []
           | [] => [] end) /\
    get_repls (set_repls st false (ph :: rest0)) false = ph :: rest0.
Proof. exact replace_section_inline. Qed.
Print Assumptions C04_inline_formula.

Theorem C04_error_mark : forall mark verbose err p latex,
  0 <= p <= zlen latex ->
  let d := fst (latex_error mark verbose err p latex) in
  let ts := snd (latex_error mark verbose err p latex) in
  (d_line d, d_col d) = text_loc latex p /\ d_msg d = err /\
  flat_map txt ts = error_mark mark verbose err /\
  Forall (fun t => pfix t = true /\ tk t = KText) ts /\
  (p < zlen latex ->
   exists t r, ts = t :: r /\ pos t = p /\ txt t <> [] /\
               Forall (fun t => p <= pos t < zlen latex) r).
Proof. exact latex_error_spec. Qed.
Print Assumptions C04_error_mark.
