From YV Require Import PyBase Token.
Example c04_smoke : skip_space [] = [].
Proof. reflexivity. Qed.
