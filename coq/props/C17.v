(* C17 -- results do not depend on what was processed before.
   The theorem is structural (the model is a function and needs no store);
   its tie to /repo is the generated inventory of module-level state (an
   obligation re-proved on every run) and the differential history check of
   harness/props/c17.py, including requests to one --as-server process.
   One statement about the parser object itself (C17_class_document_frame):
   a document of the class of C02 leaves every component of the parser state
   as it was, except that undeclared names are appended to the list of
   unknowns -- so the result for the next document of the class does not
   depend on it. *)
From YV Require Import PyBase PState Parser Exec ExecArgs ClassDecide Catalogue Globals History HistoryProofs.

Theorem C17_globals_are_classified : forallb classified module_globals = true.
Proof. exact globals_are_classified. Qed.
Print Assumptions C17_globals_are_classified.

Theorem C17_frame : forall (G A R : Type) (f : A -> R) (g : G) (h : list A),
  fst (run_history G A R f g h) = g.
Proof. exact history_frame. Qed.
Theorem C17_independent : forall (G A R : Type) (f : A -> R) (g : G) (h : list A),
  snd (run_history G A R f g h) = map f h.
Proof. exact history_independent. Qed.
Print Assumptions C17_frame.
Print Assumptions C17_independent.

Theorem C17_class_document_frame : forall rd fuel st latex r,
  doc_in_class py_tables st latex = true ->
  parser_work py_tables (exec py_tables rd fuel) st latex = Ok r ->
  fst r = upd_unknowns st (unknowns (fst r)).
Proof.
  exact (fun rd fuel st latex r Hd Hp =>
           proj1 (parser_work_class_frame py_tables rd (eq_refl true) fuel st latex r Hd Hp)).
Qed.
Print Assumptions C17_class_document_frame.
