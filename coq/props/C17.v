(* C17 -- results do not depend on what was processed before.
   The theorem is structural (the model is a function and needs no store);
   its tie to /repo is the generated inventory of module-level state (an
   obligation re-proved on every run) and the differential history check of
   harness/props/c17.py, including requests to one --as-server process. *)
From YV Require Import PyBase Globals History HistoryProofs.

Theorem C17_globals_are_classified : forallb classified module_globals = true.
Proof. exact globals_are_classified. Qed.
Print Assumptions C17_globals_are_classified.

Theorem C17_frame : forall (G A R : Type) (f : A -> R) (g : G) (h : list A),
  fst (run_history G A R f g h) = g.
Proof. exact history_frame. Qed.
Theorem C17_independent : forall (G A R : Type) (f : A -> R) (g : G) (h : list A),
  snd (run_history G A R f g h) = map f h.
Proof. exact history_independent. Qed.
Print Assumptions C17_frame.
Print Assumptions C17_independent.
