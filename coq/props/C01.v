(* C01 -- every output character has exactly one source position, inside the
   source.  Only statements here; each is closed by `exact` of a lemma proved
   in coq/proofs.  Model: coq/model/{Scanner,Utils,Replace,Ml,Tex2txt}.v with
   the tables generated from /repo (coq/gen/Catalogue.v: py_tables).

   What is proved for every input: (1) lengths, end to end through the whole
   model of tex2txt(); (2) range for everything in front of and behind the
   expander -- scanner, error marks, get_txt_pos, phrase replacement, the
   multi-language split, the +1 of the wrapper.  Through the expander the
   range is proved for the document class of C02
   (C01_range_documents_of_the_class): for a source text accepted by
   doc_in_class, with any packages, replacements, single- or multi-language,
   every position tex2txt() returns lies in 1 .. len(source) -- the main loop
   and the action-line pass create no position (exec_args_R, rpal_R).  What is
   not proved: that the expander keeps the positions inside the text for
   documents outside the class (coq/model/{Parser,Expand,Math,Exec}.v);
   hypothesis of C01_range_behind_expander, checked at run time on every
   generated case by harness/props/c01.py. *)
From YV Require Import PyBase ShellMap Token Utils Scanner PState Parser Exec
                       Replace ReplaceProofs Ml MlProofs TokOk ScanOk Tex2txt
                       Tex2txtProofs ExecPlain ExecRange ClassDecide ClassRange Catalogue.
Open Scope Z_scope.

(* (1) whatever the options and the input, every returned text -- the single
   text, or every part of every language -- has a position list of its length *)
Theorem C01_lengths : forall T is_word files lang multi simple mods define latex
                             extr repl unkn thresh fuel out,
  run_tex2txt T is_word files lang multi simple mods define latex extr repl unkn
              thresh fuel = Ok out ->
  result_lengths_ok (to_result out).
Proof. exact run_tex2txt_lengths. Qed.
Print Assumptions C01_lengths.

(* (2a) table obligation, discharged for the tables read from /repo: no
   special sequence is empty or shorter than its replacement *)
Theorem C01_specials_wf : specials_wf py_tables.
Proof. exact (specials_wfb_ok py_tables (eq_refl true)). Qed.
Print Assumptions C01_specials_wf.

(* (2b) every token of the scanner lies inside the text with its whole extent *)
Theorem C01_scan_range : forall latex,
  Forall (tok_ok py_tables (zlen latex)) (fst (scan (t_scan py_tables) latex)).
Proof. exact (scan_ok py_tables C01_specials_wf). Qed.
Print Assumptions C01_scan_range.

(* (2c) an error mark raised at a position inside the text lies inside it,
   also when it is split at the end of the text *)
Theorem C01_error_mark_range : forall err p latex,
  0 <= p < zlen latex ->
  Forall (tok_ok py_tables (zlen latex))
         (snd (latex_error (sp_mark (t_scan py_tables)) (sp_verbose (t_scan py_tables))
                           err p latex)).
Proof. exact (latex_error_ok py_tables). Qed.
Print Assumptions C01_error_mark_range.

(* (2d) tokens that are ok give positions 0 <= p < n (reported as p + 1) *)
Theorem C01_get_txt_pos_range : forall n toks,
  Forall (tok_ok py_tables n) toks -> Forall (text_kind) toks ->
  Forall (fun x => 0 <= x < n) (snd (get_txt_pos toks)).
Proof. exact (get_txt_pos_range py_tables). Qed.
Print Assumptions C01_get_txt_pos_range.

(* (2e) phrase replacement invents no position *)
Theorem C01_replace_no_new_position : forall is_space is_alpha is_word lines txt pos t' p',
  length txt = length pos ->
  replace_phrases is_space is_alpha is_word txt pos lines = Ok (t', p') ->
  incl p' pos.
Proof. exact replace_phrases_incl. Qed.
Print Assumptions C01_replace_no_new_position.

(* (2f) nor does the multi-language split: lengths agree and every position
   of every part satisfies what the positions of all tokens satisfy *)
Theorem C01_ml_parts : forall is_space check_lang thresh (R : Z -> Prop) toks main rot res,
  Forall (tok_R R) toks ->
  get_txt_pos_ml is_space check_lang thresh toks main rot = Ok res ->
  Forall (fun e => Forall (fun tp => length (fst tp) = length (snd tp)
                                     /\ Forall R (snd tp)) (snd e)) res.
Proof. exact get_txt_pos_ml_lengths. Qed.
Print Assumptions C01_ml_parts.

(* (2g) together: if the tokens returned by the expander have their
   positions in 0 .. n-1, every position of every returned text lies in
   1 .. n (single text, all language parts, with and without replacements) *)
Theorem C01_range_behind_expander :
  forall n T is_word files lang multi simple mods define latex extr repl thresh fuel out,
  run_tex2txt T is_word files lang multi simple mods define latex extr repl false
              thresh fuel = Ok out ->
  (forall st st' toks,
     init_parser T (fun f => assoc f files) fuel (init_state T lang multi simple true)
                 (t_builtin T) mods = Ok st ->
     parse T (fun f => assoc f files) fuel st latex define extr = Ok (st', toks) ->
     Forall (tok_R (fun x => 0 <= x < n)) toks) ->
  result_ok (fun p => 1 <= p <= n) (to_result out).
Proof. exact run_tex2txt_range. Qed.
Print Assumptions C01_range_behind_expander.

(* (2h) end to end for the document class: no hypothesis on the expander *)
Theorem C01_range_documents_of_the_class :
  forall is_word files lang multi simple mods latex repl thresh fuel out,
  run_tex2txt py_tables is_word files lang multi simple mods [] latex [] repl false
              thresh fuel = Ok out ->
  (forall st,
     init_parser py_tables (fun f => assoc f files) fuel
                 (init_state py_tables lang multi simple true) (t_builtin py_tables) mods = Ok st ->
     doc_in_class py_tables (upd_unknowns (upd_extracted st []) []) latex = true) ->
  names_ok py_tables latex = true ->
  result_ok (fun p => 1 <= p <= zlen latex) (to_result out).
Proof.
  exact (fun is_word files lang multi simple mods latex repl thresh fuel out =>
           tex2txt_class_range py_tables is_word files lang multi simple mods latex repl thresh
                               fuel out (eq_refl true) C01_specials_wf (eq_refl true)).
Qed.
Print Assumptions C01_range_documents_of_the_class.

(* the premises on a concrete document (no packages loaded) *)
Example C01_class_example :
  let latex := [65; 32; 92; 102; 111; 111; 123; 98; 125; 32; 45; 45; 32; 99; 32; 37; 32; 100; 10; 101]%N in
  match init_parser py_tables (fun _ => None) 2000
                    (init_state py_tables [101; 110]%N false false true) (t_builtin py_tables) [] with
  | Ok st => doc_in_class py_tables (upd_unknowns (upd_extracted st []) []) latex
  | _ => false end = true /\
  names_ok py_tables latex = true /\
  match run_tex2txt py_tables (fun _ => false) [] [101; 110]%N false false [] [] latex [] None false
                    3 2000 with
  | Ok o => match to_result o with TSingle t p => Some p | _ => None end
  | _ => None end = Some [1; 2; 8; 10; 11; 13; 14; 15; 20].
Proof. vm_compute. repeat split. Qed.

(* the premises are met by real tokens: the scanner's output on a small text *)
Example C01_nonvacuous :
  let latex := [92; 102; 111; 111; 32; 97; 45; 45; 98; 10; 10; 99]%N in
  Forall (tok_ok py_tables (zlen latex)) (fst (scan (t_scan py_tables) latex)) /\
  snd (get_txt_pos [mk KText 3 [97;98]%N false; mk KText 9 [99]%N true]) = [3;4;9]%Z.
Proof. split; [apply C01_scan_range | reflexivity]. Qed.
