From YV Require Import PyBase Token Utils.
Example c01_smoke : get_txt_pos [mk KText 3 [97;98]%N false; mk KText 9 [99]%N true]
  = ([97;98;99]%N, [3;4;9]%Z).
Proof. reflexivity. Qed.
