(* C11 -- displayed equations follow the documented scheme and keep their
   punctuation.  Only statements here, closed by `exact`.  Model:
   coq/model/Math.v (expand_display_math, replace_section).

   Proved for every equation: with the simple-equations option the result
   is one placeholder of the display collection plus the final punctuation
   mark, pinned at the start of the equation; an equation environment
   declared as removed leaves at most its final punctuation mark; the
   rotation of the display collection is cyclic and neighbours differ
   (C10).  Not proved: the row/section scheme of the full mode (which
   parts advance the placeholder, operator words); decided on the C11
   stream by the structural oracle of harness/props/c11.py and by the
   correspondence run, which compares the exact placeholder sequence. *)
From YV Require Import PyBase Token PState Parser Expand Math ExpandSites Catalogue.
Open Scope Z_scope.

Theorem C11_simple_mode : forall T rec fuel st buf t ename st' o rest,
  expand_display_math T rec fuel st buf t ename false = Ok (st', (o, rest)) ->
  displayed_simple st' = true ->
  exists ph pc,
    hd_error (get_repls st' true) = Some ph /\
    o = [ActionT (pos t); SpaceF (pos t) [c_space; c_space]; TextF (pos t) ph]
        ++ pc ++ [ActionT (pos t)] /\
    (pc = [] \/ exists c, pc = [TextF (pos t) [c]]
                          /\ mem_str [c] (t_math_punctuation T) = true).
Proof. exact display_simple. Qed.
Print Assumptions C11_simple_mode.

Theorem C11_removed_environment : forall T rec fuel st buf t ename st' o rest,
  expand_display_math T rec fuel st buf t ename true = Ok (st', (o, rest)) ->
  exists lp, o = [ActionT lp] \/
             exists c, o = [TextF lp [c]] /\ mem_str [c] (t_math_punctuation T) = true.
Proof. exact display_removed. Qed.
Print Assumptions C11_removed_environment.

Theorem C11_rotation_cycle : forall l, Nat.iter (length l) rotate l = l.
Proof. exact rotate_cycle. Qed.
Theorem C11_collections_of_repo : forall k s,
  In (k, s) (t_langs py_tables) ->
  forall l, In l [ls_inline s; ls_display s; ls_change s] ->
  NoDup l /\ (2 <= length l)%nat.
Proof. exact (collections_ok_spec py_tables (eq_refl true)). Qed.
Print Assumptions C11_collections_of_repo.
