From YV Require Import PyBase Token.
Example c11_smoke : skip_space [] = [].
Proof. reflexivity. Qed.
