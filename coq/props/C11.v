(* C11 -- displayed equations follow the documented scheme and keep their
   punctuation.  Only statements here, closed by `exact`.  Model:
   coq/model/Math.v (expand_display_math, replace_section).

   Proved for every equation: with the simple-equations option the result
   is one placeholder of the display collection plus the final punctuation
   mark, pinned at the start of the equation (unless the equation has no end:
   then it keeps the rendering of the full mode with its error mark); an equation environment
   declared as removed leaves at most its final punctuation mark; the
   rotation of the display collection is cyclic and neighbours differ
   (C10).  Through the loop of the maths parser, full mode
   (C11_one_section_through_the_loop): a displayed equation of one section
   (no & and no line break) whose body holds no declared control word,
   environment or paragraph break, and holds an element, becomes exactly: two
   blanks, [blank], one placeholder of the display collection pinned at the
   first element, [final punctuation], [blank], between two action tokens;
   the collection is rotated by one, the text behind the closing delimiter is
   untouched.  Not proved: the row/section scheme for several sections (which
   parts advance the placeholder, operator words); decided on the C11
   stream by the structural oracle of harness/props/c11.py and by the
   correspondence run, which compares the exact placeholder sequence. *)
From Coq Require Import String Lia.
From YV Require Import PyBase Token Utils Scanner PState Parser Expand Math Exec ExpandSites MathSites
                       Catalogue.
Open Scope Z_scope.

Theorem C11_simple_mode : forall T rec fuel st buf t ename st' o rest,
  expand_display_math T rec fuel st buf t ename false = Ok (st', (o, rest)) ->
  displayed_simple st' = true ->
  (exists ph pc,
    hd_error (get_repls st' true) = Some ph /\
    o = [ActionT (pos t); SpaceF (pos t) [c_space; c_space]; TextF (pos t) ph]
        ++ pc ++ [ActionT (pos t)] /\
    (pc = [] \/ exists c, pc = [TextF (pos t) [c]]
                          /\ mem_str [c] (t_math_punctuation T) = true)) \/
  (* an equation without its end is left as the full mode renders it, with
     its error mark (C08) *)
  (exists out z,
    display_sections T rec fuel st buf (pos t) ename true true
      [ActionT (pos t); SpaceF (pos t) [c_space; c_space]] = Ok (st', out, rest, z, false)).
Proof. exact display_simple. Qed.
Print Assumptions C11_simple_mode.

Theorem C11_one_section_through_the_loop : forall rd k fuel st t ename body c rest p e ph rest0,
  buf_is_space c = false -> tk c <> KPar -> mem_str (txt c) display_stops = true ->
  str_eqb (txt c) (s2l "&") = false -> str_eqb (txt c) (s2l "\\") = false ->
  Forall (mok st display_stops) body -> (mmu body < k)%nat ->
  let ts := flat_map (mconv py_tables st) body in
  first_pos ts = Ok p ->
  forallb is_mspace ts = false ->
  has_elem py_tables ts = Some e ->
  rotate (get_repls st true) = ph :: rest0 ->
  displayed_simple st = false ->
  exists sp1 pc sp2 lp,
    expand_display_math py_tables (exec py_tables rd k) (S fuel) st (body ++ c :: rest) t ename false =
      Ok (set_repls st true (ph :: rest0),
          ([ActionT (pos t); SpaceF (pos t) [c_space; c_space]] ++ sp1 ++ [TextF (pos e) ph]
             ++ pc ++ sp2 ++ [ActionT lp], rest)) /\
    (lp = p \/ lp = pos e) /\
    sp1 = (match ts with
           | t0 :: _ => if is_mspace t0 then [SpaceF p s_space] else []
           | [] => [] end) /\
    (pc = [] \/ exists ch, pc = [TextF p [ch]] /\ last_char py_tables ts = [ch]
                           /\ mem_str [ch] (t_math_punctuation py_tables) = true) /\
    sp2 = (match rev ts with
           | t1 :: _ => if is_mspace t1 then [SpaceF p s_space] else []
           | [] => [] end).
Proof. exact (display_math_plain py_tables). Qed.
Print Assumptions C11_one_section_through_the_loop.

(* on the scan of "\[ \alpha + b = c, \] x": second placeholder of the English
   display collection at the first element, the comma, both pinned there *)
Example C11_loop_example :
  let st0 := init_state py_tables (s2l "en") false false true in
  match fst (scan (t_scan py_tables) (s2l "\[ \alpha + b = c, \] x")) with
  | t :: r =>
      forallb (mokb st0 display_stops) (firstn 12 r) = true /\
      option_map txt (nth_error r 12) = Some (s2l "\]") /\
      (mmu (firstn 12 r) < 50)%nat /\
      match expand_display_math py_tables (exec py_tables (fun _ => None) 50) 5 st0 r t
                                (s2l "equation") false with
      | Ok (st, (o, rest)) => Some (map (fun t => (tk t, pos t, txt t, pfix t)) o, length rest)
      | _ => None end
      = Some ([(KAction, 0, [], false); (KSpace, 0, s2l "  ", true);
               (KText, 3, s2l "V-V-V", true); (KText, 3, s2l ",", true);
               (KAction, 3, [], false)], 2%nat)
  | [] => False end.
Proof. vm_compute. repeat split; lia. Qed.

Theorem C11_removed_environment : forall T rec fuel st buf t ename st' o rest,
  expand_display_math T rec fuel st buf t ename true = Ok (st', (o, rest)) ->
  exists lp, o = [ActionT lp] \/
             exists c, o = [TextF lp [c]] /\ mem_str [c] (t_math_punctuation T) = true.
Proof. exact display_removed. Qed.
Print Assumptions C11_removed_environment.

Theorem C11_rotation_cycle : forall l, Nat.iter (length l) rotate l = l.
Proof. exact rotate_cycle. Qed.
Theorem C11_collections_of_repo : forall k s,
  In (k, s) (t_langs py_tables) ->
  forall l, In l [ls_inline s; ls_display s; ls_change s] ->
  NoDup l /\ (2 <= length l)%nat.
Proof. exact (collections_ok_spec py_tables (eq_refl true)). Qed.
Print Assumptions C11_collections_of_repo.
