(* C06 -- plain prose is a fixed point; special sequences follow the
   documented table.  Only statements here, closed by `exact`.  Model: the
   whole filter, coq/model/*.v, with the tables generated from /repo
   (coq/gen/Catalogue.v, Tables.v).

   (1) is proved end to end for every input, every language, package and
   class selection and every fuel: if tex2txt() returns at all, it returns
   the input with positions 1..n.  (2)-(4) are the scanner's longest-match
   rule, the copy of ordinary characters and the replacement step of the
   main loop; the table itself is read from /repo and compared with the
   documented one in (5). *)
From Coq Require Import String.
From YV Require Import PyBase CharTables ShellMap Token Utils Scanner PState Exec Tex2txt
                       ScanPlain ExecPlain SpecialsProofs RpalProofs ExecUnk ExecArgs ClassDecide
                       Catalogue.
Open Scope Z_scope.

(* table obligations, discharged by computation on the generated tables *)
Theorem C06_tables_ok : plain_tables_ok py_tables = true
                        /\ desc_lenb (sp_specials (t_scan py_tables)) = true.
Proof. exact (conj (eq_refl true) (eq_refl true)). Qed.
Print Assumptions C06_tables_ok.

(* (1) an input in which no %, #, backslash, special sequence or active
   character of any language occurs is returned unchanged, character i at
   position i (single-language mode, no replacement file) *)
Theorem C06_plain_prose_fixed_point :
  forall is_word files lang simple mods latex thresh fuel out,
  plain_doc py_tables latex ->
  run_tex2txt py_tables is_word files lang false simple mods [] latex [] None false
              thresh fuel = Ok out ->
  to_result out = TSingle latex (zseq 1 (length latex)).
Proof.
  exact (fun is_word files lang simple mods latex thresh fuel out =>
           plain_fixed_point py_tables is_word files lang simple mods latex thresh fuel out
                             (proj1 C06_tables_ok)).
Qed.
Print Assumptions C06_plain_prose_fixed_point.

(* (1') the same in multi-language mode: one part, labelled with the given
   language *)
Theorem C06_plain_prose_fixed_point_multi :
  forall is_word files lang simple mods latex thresh fuel out,
  plain_doc py_tables latex -> latex <> [] ->
  run_tex2txt py_tables is_word files lang true simple mods [] latex [] None false
              thresh fuel = Ok out ->
  to_result out = TMulti [(lang, [(latex, zseq 1 (length latex))])].
Proof.
  exact (fun is_word files lang simple mods latex thresh fuel out =>
           plain_fixed_point_multi py_tables is_word files lang simple mods latex thresh
                                   fuel out (proj1 C06_tables_ok)).
Qed.
Print Assumptions C06_plain_prose_fixed_point_multi.

(* (2) longest match *)
Theorem C06_longest_match : forall latex c s start t,
  let P := t_scan py_tables in
  sp_is_space P c = false -> N.eqb c c_percent = false -> N.eqb c c_hash = false ->
  find (fun t => starts_with t (c :: s)) (sp_specials P) = Some t ->
  next_token P latex (c :: s) start = (SpecialT start t, length t, [])
  /\ starts_with t (c :: s) = true
  /\ forall t', In t' (sp_specials P) -> starts_with t' (c :: s) = true ->
                (length t' <= length t)%nat.
Proof. exact (fun latex => next_token_special (t_scan py_tables) latex (proj2 C06_tables_ok)). Qed.
Print Assumptions C06_longest_match.

(* (3) every other character is copied unchanged *)
Theorem C06_other_characters_copied : forall P latex c s start,
  sp_is_space P c = false -> N.eqb c c_percent = false -> N.eqb c c_hash = false ->
  N.eqb c c_backslash = false ->
  find (fun t => starts_with t (c :: s)) (sp_specials P) = None ->
  next_token P latex (c :: s) start = (TextT start [c], 1%nat, []).
Proof. exact next_token_ordinary. Qed.
Print Assumptions C06_other_characters_copied.

(* (4) the replacement step *)
Theorem C06_replacement_step : forall T rd rec fuel st t b env_stop rout v,
  tk t = KSpecial ->
  forallb (fun x => negb (txt_is t x))
          [s2l "$"; s2l "\("; s2l "$$"; s2l "\["; s2l "\\"; s_lbrace; s_rbrace] = true ->
  assoc (txt t) (t_special_values T) = Some v ->
  step_seq T rd rec fuel st (t :: b) env_stop rout =
  rec (TSeq b env_stop (mk KText (pos t) v (pfix t) :: ActionT (pos t) :: rout)) st.
Proof. exact step_seq_special. Qed.
Theorem C06_line_break_step : forall T rd rec fuel st t b env_stop rout,
  tk t = KSpecial -> txt t = s2l "\\" ->
  step_seq T rd rec fuel st (t :: b) env_stop rout =
  (let '(st', rest) := Expand.parse_newline_option T st b true in
   rec (TSeq rest env_stop (SpaceT (pos t) s_space :: ActionT (pos t) :: rout)) st').
Proof. exact step_seq_newline. Qed.
Print Assumptions C06_replacement_step.

(* (4') end to end through the main loop, for every document of plain text,
   special sequences, undeclared control words, comments, braces and nested
   pass-through macros: the visible one-line text of the output is the text
   tokens of the document, each at its place, and for each special sequence
   its tabulated text at the position of the sequence (rtoks), in order; a
   line break \\ without option is one blank at its position *)
Theorem C06_specials_end_to_end : forall rd fuel toks st st' out,
  bcl py_tables (macros st) toks ->
  exec py_tables rd fuel (TSeq toks None []) st = Ok (st', ASeq out []) ->
  filter (solid py_isspace) out = filter (solid py_isspace) (texts (rtoks py_tables (macros st) toks)).
Proof.
  exact (fun rd fuel toks st st' out =>
           exec_args_positions py_tables rd (eq_refl true) (fun c => eq_refl) (conj eq_refl eq_refl) (eq_refl true)
                               fuel toks st st' out (eq_refl true)).
Qed.
Print Assumptions C06_specials_end_to_end.

(* a document of the class with the documented sequences *)
Example C06_class_example :
  let st0 := Exec.init_state py_tables (s2l "en") false false true in
  let latex := s2l "a\\ b -- c~d \% e" in
  ClassDecide.doc_in_class py_tables st0 latex = true /\
  match Parser.parser_work py_tables (exec py_tables (fun _ => None) 200) st0 latex with
  | Ok r => Some (get_txt_pos (snd r))
  | _ => None end
  = Some ([97; 32; 32; 98; 32; 8211; 32; 99; 160; 100; 32; 37; 32; 101]%N,
          [0; 1; 3; 4; 5; 6; 8; 9; 10; 11; 12; 13; 15; 16]).
Proof. split; vm_compute; reflexivity. Qed.

(* (5) the table read from /repo is the documented one *)
Example C06_documented_table :
  map (fun k => assoc (s2l k) (t_special_values py_tables))
      ["--"; "---"; "``"; "''"; "~"; "\,"; "\%"; "\&"; "\$"; "\#"; "\_"; "\{"; "\}"; "&"]%string
  = map Some [[8211]; [8212]; [8220]; [8221]; [160]; [8239]; [37]; [38]; [36]; [35]; [95];
              [123]; [125]; [32]]%N.
Proof. reflexivity. Qed.

(* the premise of (1) is met by ordinary prose *)
Example C06_nonvacuous :
  plainb (t_scan py_tables) (okc py_tables)
         (s2l "Plain prose, with (some) punctuation!  Two blanks.") = true.
Proof. reflexivity. Qed.
