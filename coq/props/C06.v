From YV Require Import PyBase Token.
Example c06_smoke : skip_space [] = [].
Proof. reflexivity. Qed.
