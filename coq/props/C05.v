(* C05 -- text flow is preserved: no paragraph break invented or lost, no
   words glued.  Only statements here, closed by `exact`.  Model:
   coq/model/Rpal.v (Parser.remove_pure_action_lines), the pass that keeps a
   line which became blank only because markup vanished from turning into a
   paragraph break.

   Proved for every token list: the pass terminates; it deletes white space
   only (every other character survives, in order); and where no markup
   vanished (no action token) it deletes nothing at all, so a line that was
   blank in the source stays.  Not proved: that exactly the lines emptied by
   markup are removed and that the expander leaves an action token for every
   construct that vanishes; decided on the C05 stream by the paragraph
   oracle of harness/props/c05.py and the correspondence run. *)
From YV Require Import PyBase CharTables Token Rpal RpalProofs.
Open Scope Z_scope.

Theorem C05_pass_total : forall is_space tokens,
  exists r, remove_pure_action_lines is_space tokens = Ok r.
Proof. exact rpal_total. Qed.
Print Assumptions C05_pass_total.

Theorem C05_only_white_space_deleted : forall is_space,
  is_space c_nl = true ->
  forall tokens r,
  Forall E0 tokens ->
  remove_pure_action_lines is_space tokens = Ok r ->
  nst is_space r = nst is_space tokens.
Proof. exact rpal_conserves. Qed.
Print Assumptions C05_only_white_space_deleted.

Theorem C05_source_blank_lines_stay : forall is_space tokens,
  Forall (fun t => is_action t = false) tokens ->
  remove_pure_action_lines is_space tokens = Ok (filter keep_out tokens).
Proof. exact rpal_no_action. Qed.
Print Assumptions C05_source_blank_lines_stay.

(* a line emptied by a label goes, the blank line of the source stays *)
Example C05_nonvacuous :
  exists r, remove_pure_action_lines py_isspace
              [TextT 0 [97]%N; SpaceT 1 [10]%N; ActionT 2; SpaceT 9 [10]%N;
               TextT 10 [98]%N; mk KPar 11 [10; 10]%N false; TextT 13 [99]%N] = Ok r
            /\ flat_map txt r = [97; 10; 98; 10; 10; 99]%N.
Proof. eexists. split; reflexivity. Qed.
