(* C05 -- text flow is preserved: no paragraph break invented or lost, no
   words glued.  Only statements here, closed by `exact`.  Model:
   coq/model/Rpal.v (Parser.remove_pure_action_lines), the pass that keeps a
   line which became blank only because markup vanished from turning into a
   paragraph break.

   Proved for every token list: the pass terminates; it deletes white space
   only (every other character survives, in order); and where no markup
   vanished (no action token) it deletes nothing at all, so a line that was
   blank in the source stays.  What the pass does to the text, exactly
   (C05_only_blank_lines_deleted): the text changes by deletions of a whole
   blank line (white space, then its line break) standing at the beginning of
   the text or directly behind a line break, or of trailing white space
   behind the last line break; nothing else.  Hence the words of the text are
   the same before and after -- none glued to its neighbour, none split
   (C05_words_neither_glued_nor_split) -- and on the list of lines only blank
   lines disappear: the lines that hold a word are the same, in order, and
   the number of lines does not grow, so no paragraph break is invented
   (C05_no_line_invented).  No gluing behind a macro argument
   (C05_skip_stops_at_argument_end): the skip of white space behind a control
   word stops at an action token, and the replacement of #n ends with one, so
   the blank behind the closing brace of an argument survives a control word
   as the last token of the argument.  Not proved: that exactly the lines emptied by
   markup are removed and that the expander leaves an action token for every
   construct that vanishes; decided on the C05 stream by the paragraph
   oracle of harness/props/c05.py and the correspondence run. *)
From Coq Require Import Relations.
From YV Require Import PyBase CharTables Token Rpal PState Parser Expand RpalProofs RpalLines ExpandSites.
Open Scope Z_scope.

Theorem C05_pass_total : forall is_space tokens,
  exists r, remove_pure_action_lines is_space tokens = Ok r.
Proof. exact rpal_total. Qed.
Print Assumptions C05_pass_total.

Theorem C05_only_white_space_deleted : forall is_space,
  is_space c_nl = true ->
  forall tokens r,
  Forall E0 tokens ->
  remove_pure_action_lines is_space tokens = Ok r ->
  nst is_space r = nst is_space tokens.
Proof. exact rpal_conserves. Qed.
Print Assumptions C05_only_white_space_deleted.

Theorem C05_source_blank_lines_stay : forall is_space tokens,
  Forall (fun t => is_action t = false) tokens ->
  remove_pure_action_lines is_space tokens = Ok (filter keep_out tokens).
Proof. exact rpal_no_action. Qed.
Print Assumptions C05_source_blank_lines_stay.

Theorem C05_only_blank_lines_deleted : forall is_space tokens r,
  Forall E0 tokens ->
  remove_pure_action_lines is_space tokens = Ok r ->
  dels is_space (flatt tokens) (flatt r).
Proof. exact rpal_lines. Qed.
Print Assumptions C05_only_blank_lines_deleted.

Theorem C05_words_neither_glued_nor_split : forall is_space,
  is_space c_nl = true ->
  forall tokens r,
  Forall E0 tokens ->
  remove_pure_action_lines is_space tokens = Ok r ->
  words is_space (flatt r) = words is_space (flatt tokens).
Proof. exact rpal_words. Qed.
Print Assumptions C05_words_neither_glued_nor_split.

Theorem C05_no_line_invented : forall is_space tokens r,
  Forall E0 tokens ->
  remove_pure_action_lines is_space tokens = Ok r ->
  clos_refl_trans _ (drop_blank is_space) (lines (flatt tokens)) (lines (flatt r)) /\
  filter (solid_line is_space) (lines (flatt r))
    = filter (solid_line is_space) (lines (flatt tokens)) /\
  (length (lines (flatt r)) <= length (lines (flatt tokens)))%nat.
Proof. exact rpal_solid_lines. Qed.
Print Assumptions C05_no_line_invented.

Theorem C05_skip_stops_at_argument_end : forall a b,
  is_action a = true -> skip_ctl (a :: b) = a :: b.
Proof. exact skip_ctl_at_action. Qed.
Print Assumptions C05_skip_stops_at_argument_end.

(* an undeclared control word in front of the end of an argument: nothing
   behind it is consumed *)
Theorem C05_control_word_at_argument_end : forall T rd rec fuel st t a b math,
  assoc (txt t) (macros st) = None -> is_action a = true ->
  exists st', expand_macro T rd rec fuel st (a :: b) t math
              = Ok (st', ([ActionT (pos t)], a :: b)).
Proof.
  exact (fun T rd rec fuel st t a b math Hm Ha =>
    match expand_macro_undeclared T rd rec fuel st (a :: b) t math Hm with
    | ex_intro _ st' (conj E _) =>
        ex_intro _ st' (eq_trans E (f_equal (fun r => Ok (st', ([ActionT (pos t)], r)))
                                            (skip_ctl_at_action a b Ha)))
    end).
Qed.
Print Assumptions C05_control_word_at_argument_end.

(* the notions, on an example: two lines emptied by labels go, the words and
   the blank line of the source stay *)
Example C05_words_lines_example :
  let toks := [TextT 0 [97; 32; 98]%N; SpaceT 3 [10]%N; ActionT 4; SpaceT 9 [32; 10]%N;
               ActionT 11; SpaceT 15 [10]%N; TextT 16 [99]%N;
               mk KPar 17 [10; 10]%N false; TextT 19 [100]%N] in
  words py_isspace (flatt toks) = [[97]; [98]; [99]; [100]]%N /\
  lines (flatt toks) = [[97; 32; 98]; [32]; []; [99]; []; [100]]%N /\
  match remove_pure_action_lines py_isspace toks with
  | Ok r => Some (lines (flatt r)) | _ => None end
  = Some [[97; 32; 98]; [99]; []; [100]]%N.
Proof. vm_compute. repeat split. Qed.

(* a line emptied by a label goes, the blank line of the source stays *)
Example C05_nonvacuous :
  exists r, remove_pure_action_lines py_isspace
              [TextT 0 [97]%N; SpaceT 1 [10]%N; ActionT 2; SpaceT 9 [10]%N;
               TextT 10 [98]%N; mk KPar 11 [10; 10]%N false; TextT 13 [99]%N] = Ok r
            /\ flat_map txt r = [97; 10; 98; 10; 10; 99]%N.
Proof. eexists. split; reflexivity. Qed.
