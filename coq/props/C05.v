From YV Require Import PyBase Token.
Example c05_smoke : skip_space [] = [].
Proof. reflexivity. Qed.
