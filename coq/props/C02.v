From YV Require Import PyBase Token Utils.
Example c02_smoke : tok_positions (mk KText 3 [97;98]%N false) = [3;4]%Z.
Proof. reflexivity. Qed.
