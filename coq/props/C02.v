(* C02 -- text copied from the document maps to exactly the offset where it
   stands.  Only statements here, closed by `exact`.  Model:
   coq/model/{Scanner,Utils}.v with the tables generated from /repo.

   Proved for every input: the scanner is faithful -- every token that is
   not pinned holds exactly the source characters at its position (running
   text, \verb and verbatim bodies, comments, macro names, special sequences
   alike), so a replaced special sequence sits at its first character; and
   get_txt_pos reports, for every character of such a token, the offset at
   which the source holds that character.  End to end through the main loop
   of the expander, for every document of plain text, undeclared control
   words, comments, braces and pass-through macros with braced arguments
   nested to any depth, and special sequences (C02_text_keeps_its_place):
   the text tokens leave the expander as the scanner made them -- same
   character, same position, same order --, a special sequence shows as its
   tabulated text at the position of its first character, the body of a
   declared macro without arguments shows pinned to the call, and nothing
   else of visible text is in the output.  Not proved: that the expander
   moves copied tokens without changing position or text (arguments of
   macros, \text in maths, footnotes); tied by the correspondence run and
   the copy oracle of harness/props/c02.py on every generated case. *)
From Coq Require Import String.
From YV Require Import PyBase CharTables ShellMap Token Utils Scanner Rpal PState Exec TokOk
                       ScanFaithful SpecialsProofs RpalProofs ExecPlain ExecUnk ExecArgs ClassDecide Parser
                       Catalogue.
Open Scope Z_scope.

(* (1) every scanner token is pinned (an error mark) or a copy of the source
   at its position *)
Theorem C02_scanner_faithful : forall P latex,
  Forall (faithful latex) (fst (scan P latex)).
Proof. exact scan_faithful. Qed.
Print Assumptions C02_scanner_faithful.

(* (2) get_txt_pos: character c reported at p means source[p] = c
   (0-based here; the wrapper adds 1, so source[p-1] = c there) *)
Theorem C02_copied_characters : forall latex toks,
  Forall (fun t => pfix t = false /\ src_at latex (pos t) (txt t)) toks ->
  Forall2 (copy_of latex) (fst (get_txt_pos toks)) (snd (get_txt_pos toks)).
Proof. exact get_txt_pos_copies. Qed.
Print Assumptions C02_copied_characters.

(* (3) a special sequence is replaced at the position of its first
   character: the token stands at `start`, where the sequence begins ... *)
Theorem C02_special_at_first_character : forall P latex,
  desc_lenb (sp_specials P) = true ->
  forall c s start t,
  sp_is_space P c = false -> N.eqb c c_percent = false -> N.eqb c c_hash = false ->
  find (fun t => starts_with t (c :: s)) (sp_specials P) = Some t ->
  next_token P latex (c :: s) start = (SpecialT start t, length t, [])
  /\ starts_with t (c :: s) = true
  /\ forall t', In t' (sp_specials P) -> starts_with t' (c :: s) = true ->
                (length t' <= length t)%nat.
Proof. exact next_token_special. Qed.
Print Assumptions C02_special_at_first_character.

(* ... and the main loop puts the replacement text at that same position *)
Theorem C02_special_replacement_position : forall T rd rec fuel st t b env_stop rout v,
  tk t = KSpecial ->
  forallb (fun x => negb (txt_is t x))
          [s2l "$"; s2l "\("; s2l "$$"; s2l "\["; s2l "\\"; s_lbrace; s_rbrace] = true ->
  assoc (txt t) (t_special_values T) = Some v ->
  Exec.step_seq T rd rec fuel st (t :: b) env_stop rout =
  rec (TSeq b env_stop (mk KText (pos t) v (pfix t) :: ActionT (pos t) :: rout)) st.
Proof. exact step_seq_special. Qed.
Print Assumptions C02_special_replacement_position.

(* (4) end to end for the class of documents described above *)
Theorem C02_text_keeps_its_place : forall rd fuel toks st st' out,
  bcl py_tables (macros st) toks ->
  exec py_tables rd fuel (TSeq toks None []) st = Ok (st', ASeq out []) ->
  filter (solid py_isspace) out = filter (solid py_isspace) (texts (rtoks py_tables (macros st) toks)).
Proof.
  exact (fun rd fuel toks st st' out =>
           exec_args_positions py_tables rd (eq_refl true) (fun c => eq_refl) (conj eq_refl eq_refl) (eq_refl true)
                               fuel toks st st' out (eq_refl true)).
Qed.
Print Assumptions C02_text_keeps_its_place.

(* (5) at the level of a document: if the computable test doc_in_class
   accepts the source text (no scanner error, no skip comment, the scan lies
   in the class), then the visible one-line text tokens returned by
   Parser.parser_work are exactly the scanner's text tokens, each holding the
   source characters at its position, and the tabulated replacement of each
   special sequence at the position of the sequence; in source order *)
Theorem C02_document_of_the_class : forall rd fuel st latex r,
  doc_in_class py_tables st latex = true ->
  parser_work py_tables (exec py_tables rd fuel) st latex = Ok r ->
  let toks := fst (scan (t_scan py_tables) latex) in
  filter (solid py_isspace) (snd r)
    = filter (solid py_isspace) (texts (rtoks py_tables (macros st) toks)) /\
  Forall (fun t => (In t toks /\ faithful latex t) \/
                   (exists s v, In s toks /\ faithful latex s /\ tk s = KSpecial /\
                                assoc (txt s) (t_special_values py_tables) = Some v /\
                                t = mk KText (pos s) v (pfix s)) \/
                   (exists m mac body b, In m toks /\ faithful latex m /\ tk m = KMacro /\
                                assoc (txt m) (macros st) = Some mac /\
                                m_repl mac = RToks body /\ In b body /\
                                t = set_pos_fix b (pos m)) \/
                   (exists s, In s toks /\ faithful latex s /\ tk s = KVerb false /\
                                t = mk KText (pos s) (txt s) (pfix s)))
         (filter (solid py_isspace) (snd r)) /\
  unknowns (fst r) = fold_left ExpandSites.add_unknown (unames (macros st) toks) (unknowns st) /\
  macros (fst r) = macros st.
Proof.
  exact (fun rd => parser_work_class py_tables rd (eq_refl true) (fun c => eq_refl)
                                     (conj eq_refl eq_refl) (eq_refl true) (eq_refl true)).
Qed.
Print Assumptions C02_document_of_the_class.

(* the test accepts ordinary documents *)
Example C02_class_membership :
  doc_in_class py_tables (Exec.init_state py_tables (s2l "en") false false true)
    (s2l "Some text -- with \emph{markup that is {not} declared}, a tie~here % comment
and a second line.

Next paragraph \unknown more.") = true.
Proof. vm_compute. reflexivity. Qed.

(* a document of the class: text in the argument of a user macro that passes
   its argument on, an undeclared macro with a group, a closing brace on a
   line of its own *)
Example C02_class_example :
  let um := {| m_name := s2l "\um"; m_args := [AMand];
               m_repl := RToks [mk (KArg 1) 0 (s2l "#1") false];
               m_defaults := []; m_extract := [] |} in
  let st0 := upd_macros (Exec.init_state py_tables (s2l "en") false false true)
                        [(s2l "\um", um)] in
  let toks := fst (scan (t_scan py_tables) (s2l "a \um{b \foo{c}
} d--e")) in
  match exec py_tables (fun _ => None) 200 (TSeq toks None []) st0 with
  | Ok (st', ASeq out _) =>
      Some (map (fun t => (txt t, pos t)) (filter (solid py_isspace) out), unknowns st')
  | _ => None end
  = Some ([([97]%N, 0); ([98]%N, 6); ([99]%N, 13); ([100]%N, 18); ([8211]%N, 19);
           ([101]%N, 21)], [s2l "\foo"]).
Proof. vm_compute. reflexivity. Qed.

(* the hypotheses are met: scanner and get_txt_pos on a small document *)
Example C02_nonvacuous :
  let latex := s2l "a -- b" in
  let toks := fst (scan (t_scan py_tables) latex) in
  map (fun t => (pos t, txt t)) toks =
    [(0, s2l "a"); (1, s2l " "); (2, s2l "--"); (4, s2l " "); (5, s2l "b")]
  /\ desc_lenb (sp_specials (t_scan py_tables)) = true.
Proof. split; reflexivity. Qed.

(* \verb material lies in the class: every character of it, including the
   dollar and the backslash, is copied at its own offset *)
Example C02_verb_example :
  let st0 := Exec.init_state py_tables (s2l "en") false false true in
  let latex := s2l "a \verb|x $y\z| b\\c" in
  doc_in_class py_tables st0 latex = true /\
  match Parser.parser_work py_tables (exec py_tables (fun _ => None) 200) st0 latex with
  | Ok r => Some (get_txt_pos (snd r)) | _ => None end
  = Some ([97; 32; 120; 32; 36; 121; 92; 122; 32; 98; 32; 99]%N,
          [0; 1; 8; 9; 10; 11; 12; 13; 15; 16; 17; 19]).
Proof. vm_compute. split; reflexivity. Qed.
