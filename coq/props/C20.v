(* C20 -- the shell's own checks mark the offending characters and honour the
   accepted patterns.  Only statements; proofs in proofs/ChecksProofs.v.
   Model: coq/model/Checks.v (yalafi/shell/checks.py), character classes from
   coq/gen/CharTables.v. *)
From YV Require Import PyBase CharTables Regex RegexProofs Checks ChecksProofs.

Definition single_py := single_letter_matches py_isalpha py_word.
Definition equation_py := equation_messages py_word py_res py_islower.
Definition hits_py := hits py_isalpha py_word.

(* (1) --single-letters: a message is produced exactly for the isolated
   letters of the text (a character of [^\W0-9_] with no word character on
   either side) whose position is not inside a hit of the accepted-pattern
   scan; it has length 1 *)
Theorem C20_single_sound_complete : forall plain opt msg,
  In msg (single_py plain (Some opt)) <->
  exists i, msg = mk_message plain i 1 /\ isolated_letter py_word plain i /\
            covered (hits_py (accept_list opt) plain) i = false.
Proof. exact (single_letter_messages py_isalpha py_word). Qed.
Print Assumptions C20_single_sound_complete.

(* (2) every such letter is marked once *)
Theorem C20_single_once : forall plain opt,
  NoDup (map m_offset (single_py plain (Some opt))).
Proof. exact (single_letter_once py_isalpha py_word). Qed.
Print Assumptions C20_single_once.

(* (3) a hit of the accepted-pattern scan is an occurrence of one accepted
   pattern, with a word boundary where the pattern begins / ends with a
   letter *)
Theorem C20_hit_is_accepted_occurrence : forall pats plain b m,
  In (b, m) (hits_py pats plain) ->
  1 <= m /\ b + m <= length plain /\
  exists p, In p pats /\ m = length p /\
    (exists r, skipn b plain = p ++ r) /\
    (first_alpha py_isalpha p = true ->
       wb py_word (prev_char_at plain b) (hd_error (skipn b plain)) = true) /\
    (last_alpha py_isalpha p = true ->
       wb py_word (nth_error (skipn b plain) (m - 1))
                  (nth_error (skipn b plain) m) = true).
Proof. exact (hit_is_accepted_occurrence py_isalpha py_word). Qed.
Print Assumptions C20_hit_is_accepted_occurrence.

(* (4) the context excerpt marks the same characters as offset and length do
   in the submitted text (tab and line break shown as blank) *)
Theorem C20_context_marks_same : forall txt o l,
  o + l <= length txt ->
  let c := create_context txt o l in
  cx_length c = l /\
  pyslice (cx_text c) (cx_offset c) (cx_offset c + l) =
    map ctx_char (pyslice txt o (o + l)).
Proof. exact context_marks_same. Qed.
Print Assumptions C20_context_marks_same.

(* (5) --equation-punctuation: the messages are the matches of the scan that
   are not accepted; such a match starts with a placeholder between word
   boundaries, no alternative of which is followed by another placeholder,
   and behind which comes neither a full stop nor a lower-case word; offset
   and length lie inside the text *)
Theorem C20_equation_messages : forall plain pls msg,
  In msg (equation_py plain pls) <->
  exists i m, msg = mk_message plain i m /\
    In (i, m, false) (finditer_x (equ_match py_word py_res py_islower pls) plain).
Proof. exact (equation_messages_spec py_word py_res py_islower). Qed.
Theorem C20_equation_reported_is_rejected : forall plain pls i m,
  In (i, m, false) (finditer_x (equ_match py_word py_res py_islower pls) plain) ->
  1 <= m /\ i + m <= length plain /\
  rejected_at py_word py_res py_islower pls plain i m.
Proof. exact (equation_reported_is_rejected py_word py_res py_islower). Qed.
Theorem C20_equation_none_skipped : forall plain pls j,
  j < length plain ->
  (forall i m ok,
     In (i, m, ok) (finditer_x (equ_match py_word py_res py_islower pls) plain) ->
     ~ (i <= j < i + m)) ->
  equ_lengths py_word pls (prev_char_at plain j) (skipn j plain) = [] \/
  exists ok, equ_match py_word py_res py_islower pls (prev_char_at plain j)
               (skipn j plain) = Some (0, ok).
Proof. exact (equation_none_skipped py_word py_res py_islower). Qed.
Print Assumptions C20_equation_messages.
Print Assumptions C20_equation_reported_is_rejected.
Print Assumptions C20_equation_none_skipped.

(* non-vacuity *)
Example C20_example_single :
  map m_offset (single_py [65;32;98;32;83;46;160;53;32;120]%N (Some [83;46;126]%N))
  = [0; 2; 9].
Proof. vm_compute. reflexivity. Qed.
Example C20_example_equation :
  map (fun m => (m_offset m, m_length m))
      (equation_py [85;45;85;32;84;104;101;32;85;45;85;46;32;85;45;85;44;32;85;45;85;32;105;115]%N
                   [[85;45;85]%N])
  = [(0, 7)].
Proof. vm_compute. reflexivity. Qed.
