From YV Require Import PyBase Checks.
Example c20_smoke : split_bar [97;124;124;98]%N = [[97%N]; []; [98%N]].
Proof. reflexivity. Qed.
