(* C05: what Parser.remove_pure_action_lines does to the text, exactly.
   The text of the token list changes only by deletions of one of two shapes:
   a whole blank line (white space without line break, then its line break)
   standing at the beginning of the text or directly behind a line break; or
   trailing white space (without line break) behind the last line break.
   Consequences (below): the words of the text -- the maximal runs of
   characters that are no white space -- are the same before and after, so no
   two words are glued and none is split; and the number of line breaks
   between two consecutive words never grows, so no paragraph break (two or
   more line breaks between words) is invented. *)
From Coq Require Import Lia Relations.
From YV Require Import PyBase PyBaseProofs ShellMap ShellMapProofs Token Rpal RpalProofs.
Open Scope Z_scope.

Section RpalLines.
  Variable is_space : char -> bool.
  Hypothesis Hnl : is_space c_nl = true.
  Notation eval := (eval is_space).
  Notation rpal_loop := (rpal_loop is_space).
  Notation blank := (blank_str is_space).

  (* white space without line break *)
  Definition wsb (w : str) : Prop := blank w = true /\ has_nl w = false.
  (* the text so far is empty or ends with a line break *)
  Definition at_bol (p : str) : Prop := p = [] \/ exists p', p = p' ++ [c_nl].

  Inductive del : str -> str -> Prop :=
    | del_line p w q : at_bol p -> wsb w -> del (p ++ w ++ c_nl :: q) (p ++ q)
    | del_tail p w : at_bol p -> wsb w -> del (p ++ w) p.
  Definition dels : str -> str -> Prop := clos_refl_trans str del.

  Definition flat (l : list etok) : str := flat_map (fun e => txt (e_tok e)) l.
  Definition flatt (l : list tok) : str := flat_map txt l.
  Lemma flat_app a b : flat (a ++ b) = flat a ++ flat b.
  Proof. apply flat_map_app. Qed.

  (* ---------------- strings ---------------- *)
  Lemma has_nl_app a b : has_nl (a ++ b) = has_nl a || has_nl b.
  Proof. unfold has_nl. apply existsb_app. Qed.
  Lemma blank_app a b : blank (a ++ b) = blank a && blank b.
  Proof. unfold blank_str. apply forallb_app. Qed.
  Lemma wsb_nil : wsb [].
  Proof. split; reflexivity. Qed.
  Lemma wsb_app a b : wsb a -> wsb b -> wsb (a ++ b).
  Proof.
    intros [A1 A2] [B1 B2]. split; [rewrite blank_app, A1, B1 | rewrite has_nl_app, A2, B2];
      reflexivity.
  Qed.

  Lemma rsplit x :
    match rfind_index (N.eqb c_nl) x with
    | Some i => firstn (S i) x = firstn i x ++ [c_nl] /\
                skipn i x = c_nl :: skipn (S i) x /\
                has_nl (skipn (S i) x) = false
    | None => has_nl x = false
    end.
  Proof.
    induction x as [|c x IH]; [reflexivity|]. cbn [rfind_index].
    destruct (rfind_index (N.eqb c_nl) x) as [j|].
    - destruct IH as (I1 & I2 & I3). split; [|split].
      + change (firstn (S (S j)) (c :: x)) with (c :: firstn (S j) x). rewrite I1. reflexivity.
      + exact I2.
      + exact I3.
    - destruct (N.eqb c_nl c) eqn:E.
      + apply N.eqb_eq in E. subst c. split; [reflexivity|]. split; [reflexivity | exact IH].
      + unfold has_nl in *. cbn [existsb]. rewrite E, IH. reflexivity.
  Qed.

  Lemma fsplit x :
    match find_index (N.eqb c_nl) x with
    | Some i => x = firstn i x ++ c_nl :: skipn (S i) x /\ has_nl (firstn i x) = false
    | None => has_nl x = false
    end.
  Proof.
    induction x as [|c x IH]; [reflexivity|]. cbn [find_index].
    destruct (N.eqb c_nl c) eqn:E.
    - apply N.eqb_eq in E. subst c. split; reflexivity.
    - destruct (find_index (N.eqb c_nl) x) as [j|]; cbn [option_map].
      + destruct IH as (I1 & I2). split.
        * cbn [firstn skipn app]. f_equal. exact I1.
        * cbn [firstn]. unfold has_nl in *. cbn [existsb]. rewrite E, I2. reflexivity.
      + unfold has_nl in *. cbn [existsb]. rewrite E, IH. reflexivity.
  Qed.

  (* ---------------- the flags say what they should ---------------- *)
  Definition FT (e : etok) : Prop :=
    let x := txt (e_tok e) in
    (e_blank e = true -> wsb x) /\
    (e_start e = true -> x = [] \/ (has_nl x = true /\ blank (after_last_nl x) = true)) /\
    (e_end e = true -> x = [] \/ (has_nl x = true /\ blank (before_first_nl x) = true)).
  (* a token that can start a line to be removed holds a line break *)
  Definition TI (e : etok) : Prop := e_start e = true -> has_nl (txt (e_tok e)) = true.
  (* a token that can end such a line holds a line break or is the last one *)
  Fixpoint EI (l : list etok) : Prop :=
    match l with
    | [] => True
    | e :: r => (e_end e = true -> has_nl (txt (e_tok e)) = true \/ r = []) /\ EI r
    end.

  Lemma FT_eval t : E0 t -> FT (eval t).
  Proof.
    intros He. unfold FT, Rpal.eval. destruct (is_action t) eqn:Ea;
      cbn [e_tok e_blank e_start e_end].
    - rewrite (He (or_introl Ea)). repeat split; intros; try discriminate; reflexivity.
    - split; [|split]; intros H; apply andb_true_iff in H; destruct H as [H1 H2].
      + split; [exact H2 | apply negb_true_iff; exact H1].
      + right. split; assumption.
      + right. split; assumption.
  Qed.
  Lemma FT_sentinel p : FT (with_start (eval (TextT p []))) /\ FT (with_end (eval (TextT p []))).
  Proof. split; (split; [intros _; apply wsb_nil | split; intros _; left; reflexivity]). Qed.
  Lemma TI_eval t : TI (eval t).
  Proof.
    unfold TI, Rpal.eval. destruct (is_action t); cbn [e_tok e_start]; [discriminate|].
    intros H. apply andb_true_iff in H. apply H.
  Qed.
  Lemma end_eval t : e_end (eval t) = true -> has_nl (txt t) = true.
  Proof.
    unfold Rpal.eval. destruct (is_action t); cbn [e_end]; [discriminate|].
    intros H. apply andb_true_iff in H. apply H.
  Qed.

  Lemma EI_app a b : EI (a ++ b) -> EI b.
  Proof. induction a as [|e a IH]; [auto|]. cbn [app EI]. intros [_ H]. apply IH, H. Qed.
  Lemma EI_mid a e b : EI (a ++ e :: b) -> e_end e = true ->
    has_nl (txt (e_tok e)) = true \/ b = [].
  Proof. intros H. apply EI_app in H. cbn [EI] in H. apply H. Qed.

  Lemma flat_blank l : Forall (fun e => e_blank e = true) l -> Forall FT l -> wsb (flat l).
  Proof.
    induction 1 as [|e l He Hl IH]; intros HF; [apply wsb_nil|].
    inversion HF as [|? ? Fe Fl]; subst. cbn [flat flat_map]. apply wsb_app.
    - destruct Fe as (Fb & _). apply Fb, He.
    - apply IH, Fl.
  Qed.

  (* the cut of the first token of a removed line *)
  Definition cut1 (x : str) : str :=
    match rfind_index (N.eqb c_nl) x with Some i => firstn (S i) x | None => [] end.
  Definition cut2 (x : str) : str :=
    match find_index (N.eqb c_nl) x with Some i => skipn (S i) x | None => [] end.

  Lemma start_cut e o :
    FT e -> e_start e = true ->
    (has_nl (txt (e_tok e)) = false -> at_bol o) ->
    exists w1, txt (e_tok e) = cut1 (txt (e_tok e)) ++ w1 /\ wsb w1 /\
               at_bol (o ++ cut1 (txt (e_tok e))).
  Proof.
    intros (_ & Fs & _) Hs Ho. specialize (Fs Hs). unfold cut1.
    pose proof (rsplit (txt (e_tok e))) as R. unfold after_last_nl in Fs.
    destruct (rfind_index (N.eqb c_nl) (txt (e_tok e))) as [i|].
    - destruct R as (R1 & R2 & R3).
      exists (skipn (S i) (txt (e_tok e))). split; [symmetry; apply firstn_skipn|]. split.
      + split; [|exact R3]. destruct Fs as [Fs|[_ Fs]].
        * rewrite Fs. destruct i; reflexivity.
        * rewrite R2 in Fs. unfold blank_str in Fs. cbn [forallb] in Fs.
          apply andb_true_iff in Fs. apply Fs.
      + right. exists (o ++ firstn i (txt (e_tok e))). rewrite R1, app_assoc. reflexivity.
    - destruct Fs as [Fs|[Fs _]]; [|congruence].
      exists []. rewrite Fs. split; [reflexivity|]. split; [apply wsb_nil|].
      rewrite app_nil_r. apply Ho. rewrite Fs. reflexivity.
  Qed.

  Lemma end_cut e :
    FT e -> (e_end e = true \/ e_blank e = true) ->
    let x := txt (e_tok e) in
    (exists w2, x = w2 ++ c_nl :: cut2 x /\ wsb w2) \/
    (has_nl x = false /\ cut2 x = [] /\ wsb x).
  Proof.
    intros (Fb & _ & Fe) Hc x. unfold cut2. subst x.
    pose proof (fsplit (txt (e_tok e))) as R. unfold before_first_nl in Fe.
    destruct (find_index (N.eqb c_nl) (txt (e_tok e))) as [j|].
    - destruct R as (R1 & R2). left. exists (firstn j (txt (e_tok e))). split; [exact R1|].
      split; [|exact R2].
      assert (Hh : has_nl (txt (e_tok e)) = true).
      { rewrite R1, has_nl_app. unfold has_nl at 2. cbn [existsb]. rewrite N.eqb_refl.
        rewrite Bool.orb_true_r. reflexivity. }
      destruct Hc as [Hc|Hc].
      + destruct (Fe Hc) as [E|[_ E]]; [rewrite E in Hh; discriminate | exact E].
      + destruct (Fb Hc) as [_ E]. congruence.
    - right. split; [exact R|]. split; [reflexivity|]. destruct Hc as [Hc|Hc].
      + destruct (Fe Hc) as [E|[E _]]; [rewrite E; apply wsb_nil | congruence].
      + apply Fb, Hc.
  Qed.

  Definition HeadInv (pending out : list etok) : Prop :=
    match pending with
    | t :: _ => e_start t = true -> has_nl (txt (e_tok t)) = false -> at_bol (flat out)
    | [] => True
    end.

  Definition Inv (pending out : list etok) : Prop :=
    Forall FT pending /\ Forall (fun e => E0 (e_tok e)) pending /\
    Forall TI (tl pending) /\ EI pending /\ HeadInv pending out.

  Lemma flat_langs buf :
    Forall (fun e => E0 (e_tok e)) buf ->
    flat (filter (fun e => is_lang (e_tok e)) buf) = [].
  Proof.
    induction 1 as [|e l He Hl IH]; [reflexivity|]. cbn [filter].
    destruct (is_lang (e_tok e)) eqn:El; [|exact IH].
    cbn [flat flat_map]. rewrite (He (or_intror El)). exact IH.
  Qed.

  Lemma dels_refl s : dels s s.
  Proof. apply rt_refl. Qed.
  Lemma dels_step a b c : del a b -> dels b c -> dels a c.
  Proof. intros H1 H2. eapply rt_trans; [apply rt_step; exact H1 | exact H2]. Qed.

  Lemma rpal_loop_lines : forall fuel pending out res,
    rpal_loop fuel pending out = Ok res ->
    Inv pending out ->
    dels (flat out ++ flat pending) (flat res).
  Proof.
    induction fuel as [|k IH]; intros pending out res H HI; [discriminate|].
    destruct pending as [|t p]; cbn [Rpal.rpal_loop] in H.
    { inversion H; subst. cbn [flat flat_map]. rewrite app_nil_r. apply dels_refl. }
    destruct HI as (HF & HE & HT & HEI & HH). cbn [tl] in HT.
    inversion HF as [|? ? Ft Fp]; subst. inversion HE as [|? ? Et Ep]; subst.
    assert (Hhead : forall (q : list etok) o, Forall TI q -> HeadInv q o).
    { intros q o Hq. destruct q as [|e q]; [exact I|]. cbn [HeadInv]. intros A B.
      inversion Hq as [|? ? Te _]; subst. rewrite (Te A) in B. discriminate. }
    destruct (negb (e_start t)) eqn:Est.
    { apply IH in H.
      - rewrite flat_app, <- app_assoc in H. change (t :: p) with ([t] ++ p).
        rewrite flat_app. exact H.
      - split; [exact Fp|]. split; [exact Ep|]. split; [destruct p; [constructor|]; inversion HT; assumption|].
        split; [apply HEI | apply Hhead; exact HT]. }
    apply negb_false_iff in Est.
    destruct (collect p [t]) as [[buf b] rest] eqn:Ec.
    pose proof (collect_struct _ _ _ _ _ Ec) as (pre & Hpre & Hcases).
    pose proof (collect_app _ _ _ _ _ Ec) as [Eb _]. cbn [rev app] in Eb.
    assert (HFb : Forall FT (buf ++ rest)) by (rewrite Eb; exact HF).
    assert (HEb : Forall (fun e => E0 (e_tok e)) (buf ++ rest)) by (rewrite Eb; exact HE).
    apply Forall_app in HFb. destruct HFb as [HFbuf HFrest].
    apply Forall_app in HEb. destruct HEb as [HEbuf HErest].
    assert (HTrest : Forall TI rest).
    { cbn [rev app] in Hcases. destruct Hcases as [(E1 & E2 & E3)|(x & E1 & E2 & E3)].
      - subst rest. constructor.
      - rewrite E2 in HT. apply Forall_app in HT. destruct HT as [_ HT].
        inversion HT; assumption. }
    assert (HEIrest : EI rest).
    { rewrite <- Eb in HEI. apply EI_app in HEI. exact HEI. }
    replace (flat (t :: p)) with (flat buf ++ flat rest) by (rewrite <- flat_app, Eb; reflexivity).
    destruct (rev buf) as [|lst rb] eqn:Er; [discriminate|].
    assert (Ebuf : buf = rev rb ++ [lst]).
    { rewrite <- (rev_involutive buf), Er. reflexivity. }
    destruct (b && Nat.ltb 1 (length buf) && existsb (fun e => is_action (e_tok e)) buf) eqn:Ecnd.
    - apply andb_true_iff in Ecnd. destruct Ecnd as [Ecnd _].
      apply andb_true_iff in Ecnd. destruct Ecnd as [Hb Hlt]. apply Nat.ltb_lt in Hlt. subst b.
      (* buf = t :: mid ++ [lst]; mid blank; lst ends a line, or is blank and the last token *)
      assert (Hst : exists mid, buf = t :: mid ++ [lst] /\ Forall (fun e => e_blank e = true) mid /\
                                ((e_end lst = true /\ (has_nl (txt (e_tok lst)) = true \/ rest = []))
                                 \/ (e_blank lst = true /\ rest = []))).
      { cbn [rev app] in Hcases. destruct Hcases as [(E1 & E2 & E3)|(x & E1 & E2 & E3)].
        - subst pre. assert (p <> []) as Hp.
          { intros E. subst p. rewrite E1 in Hlt. simpl in Hlt. lia. }
          destruct (exists_last Hp) as (mid & l' & El). subst p.
          rewrite E1 in Ebuf. change (t :: mid ++ [l']) with ((t :: mid) ++ [l']) in Ebuf.
          apply app_inj_tail in Ebuf. destruct Ebuf as [_ El]. subst l'.
          apply Forall_app in Hpre. destruct Hpre as [Hm Hl].
          exists mid. split; [exact E1|]. split; [exact Hm|]. right.
          split; [inversion Hl; assumption | exact E2].
        - rewrite E1 in Ebuf. change (t :: pre ++ [x]) with ((t :: pre) ++ [x]) in Ebuf.
          apply app_inj_tail in Ebuf. destruct Ebuf as [_ El]. subst x.
          exists pre. split; [exact E1|]. split; [exact Hpre|]. left.
          assert (Hend : e_end lst = true) by (apply E3; reflexivity).
          split; [exact Hend|].
          assert (HEI2 : EI ((t :: pre) ++ lst :: rest)).
          { cbn [app]. rewrite <- E2. exact HEI. }
          apply (EI_mid _ _ _ HEI2 Hend). }
      destruct Hst as (mid & Ebm & Hmid & Hlst).
      assert (Flst : FT lst /\ E0 (e_tok lst) /\ Forall FT mid).
      { rewrite Ebm in HFbuf, HEbuf.
        inversion HFbuf as [|? ? _ HG]; subst. apply Forall_app in HG. destruct HG as [HG1 HG].
        inversion HEbuf as [|? ? _ HG2]; subst. apply Forall_app in HG2. destruct HG2 as [_ HG2].
        split; [inversion HG; assumption|]. split; [inversion HG2; assumption | exact HG1]. }
      destruct Flst as (Flst & Elst & Fmid).
      match type of H with Rpal.rpal_loop _ k (?s :: Rpal.eval _ ?t2 :: rest) (out ++ Rpal.eval _ ?t1 :: ?lg) = _ =>
        set (t2' := t2) in *; set (t1' := t1) in *; set (langs := lg) in * end.
      assert (Ht1 : txt t1' = cut1 (txt (e_tok t))) by reflexivity.
      assert (Ht2 : txt t2' = cut2 (txt (e_tok lst))).
      { unfold t2', cut2. destruct (find_index (N.eqb c_nl) (txt (e_tok lst)));
          [destruct (pfix (e_tok lst))|]; reflexivity. }
      assert (Hlangs : flat langs = []) by (apply flat_langs; exact HEbuf).
      assert (E2' : E0 t2').
      { unfold t2'. intros Hk.
        assert (txt (e_tok lst) = []) as Hx.
        { apply Elst. destruct (find_index (N.eqb c_nl) (txt (e_tok lst)));
            [destruct (pfix (e_tok lst))|]; exact Hk. }
        rewrite Hx. simpl. reflexivity. }
      destruct (start_cut t (flat out) Ft Est (HH Est)) as (w1 & Ex1 & Hw1 & Hbol).
      assert (Hwm : wsb (flat mid)) by (apply flat_blank; assumption).
      assert (Hc2 : e_end lst = true \/ e_blank lst = true)
        by (destruct Hlst as [[A _]|[A _]]; [left | right]; exact A).
      pose proof (end_cut lst Flst Hc2) as Hcut. cbv zeta in Hcut.
      apply IH in H.
      + (* one deletion, then the rest of the loop *)
        eapply dels_step; [|exact H].
        rewrite !flat_app. cbn [flat flat_map]. rewrite !e_tok_eval. fold (flat langs). fold (flat rest).
        rewrite Hlangs, Ht1, Ht2. cbn [app]. rewrite app_nil_r.
        rewrite Ebm. cbn [flat flat_map]. rewrite flat_map_app. fold (flat mid).
        cbn [flat_map]. rewrite app_nil_r.
        change (txt (e_tok (with_start (eval (TextT (pos t2') []))))) with (@nil char).
        set (C1 := cut1 (txt (e_tok t))) in *. set (C2 := cut2 (txt (e_tok lst))) in *.
        destruct Hcut as [(w2 & Ex2 & Hw2)|(Hn2 & Ec2 & Hw2)].
        * match goal with |- del ?a ?b =>
            replace a with ((flat out ++ C1) ++ (w1 ++ flat mid ++ w2) ++ c_nl :: (C2 ++ flat rest));
            [replace b with ((flat out ++ C1) ++ (C2 ++ flat rest))|] end.
          -- apply del_line; [exact Hbol|]. apply wsb_app; [exact Hw1|]. apply wsb_app; assumption.
          -- cbn [app]. reflexivity.
          -- rewrite Ex1, Ex2. rewrite <- !app_assoc. cbn [app]. rewrite <- ?app_assoc. reflexivity.
        * assert (Hr0 : rest = []).
          { destruct Hlst as [[_ [A|A]]|[_ A]]; [congruence | exact A | exact A]. }
          subst rest. cbn [flat flat_map]. rewrite Ec2, !app_nil_r.
          match goal with |- del ?a ?b =>
            replace a with ((flat out ++ C1) ++ (w1 ++ flat mid ++ txt (e_tok lst)));
            [replace b with (flat out ++ C1)|] end.
          -- apply del_tail; [exact Hbol|]. apply wsb_app; [exact Hw1|]. apply wsb_app; assumption.
          -- cbn [app]. rewrite ?app_nil_r. reflexivity.
          -- rewrite Ex1. rewrite <- ?app_assoc. reflexivity.
      + split; [|split; [|split; [|split]]].
        * constructor; [apply FT_sentinel|]. constructor; [apply FT_eval; exact E2' | exact HFrest].
        * constructor; [intros [Hk|Hk]; discriminate|].
          constructor; [rewrite e_tok_eval; exact E2' | exact HErest].
        * cbn [tl]. constructor; [apply TI_eval | exact HTrest].
        * cbn [EI]. split; [intros Hx; discriminate Hx|]. split; [|exact HEIrest].
          intros Hx. left. rewrite e_tok_eval. apply end_eval. exact Hx.
        * cbn [HeadInv]. intros _ _. rewrite flat_app. cbn [flat flat_map].
          rewrite e_tok_eval. fold (flat langs). rewrite Hlangs, app_nil_r, Ht1. exact Hbol.
    - assert (Elst : E0 (e_tok lst)).
      { rewrite Ebuf in HEbuf. apply Forall_app in HEbuf. destruct HEbuf as [_ HG].
        inversion HG; subst. assumption. }
      destruct (Nat.ltb 1 (length buf)).
      + apply IH in H.
        * rewrite flat_app in H. cbn [flat flat_map] in H. rewrite e_tok_eval in H.
          fold (flat rest) in H.
          rewrite Ebuf at 1. rewrite Ebuf in H at 1. rewrite removelast_last in H.
          rewrite flat_app. cbn [flat flat_map]. rewrite app_nil_r, <- !app_assoc.
          rewrite <- !app_assoc in H. exact H.
        * split; [|split; [|split; [|split]]].
          -- constructor; [apply FT_eval; exact Elst | exact HFrest].
          -- constructor; [rewrite e_tok_eval; exact Elst | exact HErest].
          -- exact HTrest.
          -- cbn [EI]. split; [|exact HEIrest]. intros Hx. left. rewrite e_tok_eval.
             apply end_eval. exact Hx.
          -- cbn [HeadInv]. intros A B.
             rewrite (TI_eval (e_tok lst) A) in B. discriminate.
      + apply IH in H.
        * rewrite flat_app, <- app_assoc in H. exact H.
        * split; [exact HFrest|]. split; [exact HErest|].
          split; [destruct rest; [constructor|]; inversion HTrest; assumption|].
          split; [exact HEIrest | apply Hhead; exact HTrest].
  Qed.

  Lemma EI_map_eval l z : EI (map eval l ++ [z]).
  Proof.
    induction l as [|t l IHl]; cbn [map app EI].
    - split; [intros _; right; reflexivity | exact I].
    - split; [|exact IHl]. intros Hx. left. rewrite e_tok_eval. apply end_eval. exact Hx.
  Qed.

  (* the pass as a whole *)
  Theorem rpal_lines tokens r :
    Forall E0 tokens ->
    remove_pure_action_lines is_space tokens = Ok r ->
    dels (flatt tokens) (flatt r).
  Proof.
    intros HE H. unfold remove_pure_action_lines in H.
    set (toks := filter _ tokens) in *.
    set (first := with_start (eval (TextT 0 []))) in *.
    set (last := with_end (eval (TextT _ []))) in *.
    destruct (Rpal.rpal_loop _ _ (first :: map eval toks ++ [last]) []) as [res| | |] eqn:El;
      try discriminate.
    cbn [rbind] in H. inversion H; subst r. clear H.
    assert (HEt : Forall E0 toks).
    { apply Forall_forall. intros t Ht. apply filter_In in Ht. rewrite Forall_forall in HE.
      apply HE, Ht. }
    apply rpal_loop_lines in El.
    - assert (Hout : forall l, flatt (filter keep_out (map e_tok l)) = flat l).
      { induction l as [|e l IHl]; [reflexivity|]. cbn [map filter]. unfold keep_out at 1.
        destruct (txt (e_tok e)) eqn:Et.
        - destruct (is_lang (e_tok e)); cbn [flatt flat flat_map]; rewrite ?Et; cbn [app]; exact IHl.
        - cbn [flatt flat flat_map]. rewrite Et. f_equal. exact IHl. }
      rewrite Hout. cbn [flat flat_map app] in El. fold (flat (map eval toks ++ [last])) in El.
      rewrite flat_app in El. cbn [flat flat_map] in El. rewrite !app_nil_r in El.
      assert (Hm : flat (map eval toks) = flatt toks).
      { clear. induction toks as [|t l IHl]; [reflexivity|]. cbn [map flat flatt flat_map].
        rewrite e_tok_eval. f_equal. exact IHl. }
      assert (Hf : flatt toks = flatt tokens).
      { unfold toks. clear. induction tokens as [|t l IHl]; [reflexivity|].
        cbn [filter]. destruct (txt t) eqn:Et.
        - destruct (is_action t || is_lang t); cbn [flatt flat_map]; rewrite ?Et; cbn [app]; exact IHl.
        - cbn [flatt flat_map]. rewrite Et. f_equal. exact IHl. }
      rewrite Hm, Hf in El. exact El.
    - split; [|split; [|split; [|split]]].
      + constructor; [apply FT_sentinel|]. apply Forall_app. split.
        * apply Forall_forall. intros e He. apply in_map_iff in He.
          destruct He as (t & Et & Hin). subst e. apply FT_eval.
          rewrite Forall_forall in HEt. apply HEt, Hin.
        * constructor; [apply FT_sentinel | constructor].
      + constructor; [intros [Hk|Hk]; discriminate|]. apply Forall_app. split.
        * apply Forall_forall. intros e He. apply in_map_iff in He.
          destruct He as (t & Et & Hin). subst e. rewrite e_tok_eval.
          rewrite Forall_forall in HEt. apply HEt, Hin.
        * constructor; [intros [Hk|Hk]; discriminate | constructor].
      + cbn [tl]. apply Forall_app. split.
        * apply Forall_forall. intros e He. apply in_map_iff in He.
          destruct He as (t & Et & Hin). subst e. apply TI_eval.
        * constructor; [intros Hx; discriminate Hx | constructor].
      + cbn [EI]. split; [intros Hx; discriminate Hx | apply EI_map_eval].
      + cbn [HeadInv]. intros _ _. left. reflexivity.
  Qed.

  (* ================================================================ *)
  (*  what the deletions mean for words and for lines                   *)
  (* ================================================================ *)
  (* split at every character that satisfies f *)
  Fixpoint splitp (f : char -> bool) (s : str) : list str :=
    match s with
    | [] => [[]]
    | c :: r => if f c then [] :: splitp f r
                else match splitp f r with
                     | w :: ws => (c :: w) :: ws
                     | [] => [[c]]
                     end
    end.
  Lemma splitp_ne f s : splitp f s <> [].
  Proof.
    destruct s as [|c r]; cbn [splitp]; [discriminate|].
    destruct (f c); [discriminate|]. destruct (splitp f r); discriminate.
  Qed.
  Lemma splitp_sep f a c b : f c = true -> splitp f (a ++ c :: b) = splitp f a ++ splitp f b.
  Proof.
    intros Hc. induction a as [|x a IH]; cbn [app splitp].
    - rewrite Hc. reflexivity.
    - destruct (f x); [rewrite IH; reflexivity|]. rewrite IH.
      pose proof (splitp_ne f a) as Hn. destruct (splitp f a) as [|w ws]; [contradiction|].
      reflexivity.
  Qed.
  Lemma splitp_none f w : existsb f w = false -> splitp f w = [w].
  Proof.
    induction w as [|c w IH]; [reflexivity|]. cbn [existsb splitp]. intros H.
    apply orb_false_iff in H. destruct H as [H1 H2]. rewrite H1, (IH H2). reflexivity.
  Qed.

  (* the words of a text: maximal runs of characters that are no white space *)
  Definition nonempty (w : str) : bool := match w with [] => false | _ => true end.
  Definition words (s : str) : list str := filter nonempty (splitp is_space s).
  (* the lines of a text *)
  Definition lines (s : str) : list str := splitp (N.eqb c_nl) s.

  Lemma words_sep a c b : is_space c = true -> words (a ++ c :: b) = words a ++ words b.
  Proof. intros H. unfold words. rewrite (splitp_sep _ _ _ _ H). apply filter_app. Qed.
  Lemma words_blank_app w q : blank w = true -> words (w ++ q) = words q.
  Proof.
    induction w as [|c w IH]; [reflexivity|]. unfold blank_str. cbn [forallb]. intros H.
    apply andb_true_iff in H. destruct H as [H1 H2].
    change ((c :: w) ++ q) with ([] ++ c :: (w ++ q)). rewrite (words_sep [] c _ H1).
    apply IH, H2.
  Qed.
  Lemma words_blank w : blank w = true -> words w = [].
  Proof. intros H. rewrite <- (app_nil_r w). rewrite (words_blank_app w [] H). reflexivity. Qed.

  (* no two words are glued, none is split, none is lost *)
  Theorem del_words s s' : del s s' -> words s = words s'.
  Proof.
    intros [p w q Hp [Hw _]|p w Hp [Hw _]].
    - destruct Hp as [Hp|[p' Hp]]; subst p.
      + cbn [app]. rewrite (words_sep w c_nl q Hnl), (words_blank w Hw). reflexivity.
      + rewrite <- !app_assoc. cbn [app]. rewrite !(words_sep p' c_nl _ Hnl).
        rewrite (words_sep w c_nl q Hnl), (words_blank w Hw). reflexivity.
    - destruct Hp as [Hp|[p' Hp]]; subst p.
      + cbn [app]. apply words_blank, Hw.
      + rewrite <- !app_assoc. cbn [app]. rewrite !(words_sep p' c_nl _ Hnl).
        rewrite (words_blank w Hw). reflexivity.
  Qed.
  Theorem dels_words s s' : dels s s' -> words s = words s'.
  Proof.
    induction 1 as [a b H|a|a b c _ IH1 _ IH2]; [apply del_words; exact H | reflexivity | congruence].
  Qed.

  (* on the list of lines: a blank line is taken out, or the last line,
     being blank, is emptied; nothing else *)
  Inductive drop_blank : list str -> list str -> Prop :=
    | drop_line l1 w l2 : wsb w -> l2 <> [] -> drop_blank (l1 ++ w :: l2) (l1 ++ l2)
    | drop_last l1 w : wsb w -> drop_blank (l1 ++ [w]) (l1 ++ [[]]).

  Lemma lines_sep a b : lines (a ++ c_nl :: b) = lines a ++ lines b.
  Proof. apply splitp_sep. apply N.eqb_refl. Qed.
  Lemma lines_one w : has_nl w = false -> lines w = [w].
  Proof. apply splitp_none. Qed.

  Theorem del_lines s s' : del s s' -> drop_blank (lines s) (lines s').
  Proof.
    intros [p w q Hp Hw|p w Hp Hw]; pose proof Hw as [_ Hn].
    - destruct Hp as [Hp|[p' Hp]]; subst p.
      + cbn [app]. rewrite lines_sep, (lines_one w Hn).
        apply (drop_line [] w (lines q) Hw). apply splitp_ne.
      + rewrite <- !app_assoc. cbn [app]. rewrite !lines_sep, (lines_one w Hn).
        apply (drop_line (lines p') w (lines q) Hw). apply splitp_ne.
    - destruct Hp as [Hp|[p' Hp]]; subst p.
      + cbn [app]. rewrite (lines_one w Hn). apply (drop_last [] w Hw).
      + rewrite <- !app_assoc. cbn [app]. rewrite !lines_sep, (lines_one w Hn).
        apply (drop_last (lines p') w Hw).
  Qed.
  Theorem dels_lines s s' : dels s s' -> clos_refl_trans _ drop_blank (lines s) (lines s').
  Proof.
    induction 1 as [a b H|a|a b c _ IH1 _ IH2].
    - apply rt_step, del_lines, H.
    - apply rt_refl.
    - eapply rt_trans; eassumption.
  Qed.

  (* so: the lines that hold a word are the same before and after, in order;
     no line break and no line is invented *)
  Definition solid_line (l : str) : bool := negb (blank l).
  Lemma drop_blank_solid a b : drop_blank a b -> filter solid_line a = filter solid_line b.
  Proof.
    intros [l1 w l2 [Hw _] _|l1 w [Hw _]]; rewrite !filter_app; cbn [filter];
      unfold solid_line at 2; rewrite Hw; cbn [negb]; reflexivity.
  Qed.
  Theorem dels_solid_lines s s' :
    dels s s' -> filter solid_line (lines s) = filter solid_line (lines s') /\
                 (length (lines s') <= length (lines s))%nat.
  Proof.
    intros H. apply dels_lines in H.
    induction H as [a b H|a|a b c _ [IH1 IH1'] _ [IH2 IH2']].
    - split; [apply drop_blank_solid; exact H|].
      destruct H as [l1 w l2 _ _|l1 w _]; rewrite !app_length; cbn [length]; lia.
    - split; [reflexivity | lia].
    - split; [congruence | lia].
  Qed.

  (* the pass, in these terms *)
  Theorem rpal_words tokens r :
    Forall E0 tokens ->
    remove_pure_action_lines is_space tokens = Ok r ->
    words (flatt r) = words (flatt tokens).
  Proof. intros HE H. symmetry. apply dels_words. apply rpal_lines; assumption. Qed.

  Theorem rpal_solid_lines tokens r :
    Forall E0 tokens ->
    remove_pure_action_lines is_space tokens = Ok r ->
    clos_refl_trans _ drop_blank (lines (flatt tokens)) (lines (flatt r)) /\
    filter solid_line (lines (flatt r)) = filter solid_line (lines (flatt tokens)) /\
    (length (lines (flatt r)) <= length (lines (flatt tokens)))%nat.
  Proof.
    intros HE H. pose proof (rpal_lines tokens r HE H) as D.
    split; [apply dels_lines; exact D|].
    destruct (dels_solid_lines _ _ D) as [A B]. split; [symmetry; exact A | exact B].
  Qed.
End RpalLines.
