(* C01 through the expander, for the document class of ExecArgs: the main
   loop creates no position.  For any predicate R on positions: if every
   position of every token of the buffer satisfies R, so does every position
   of every token the loop returns (action-line pass included).  Generated
   text is pinned at the first position of the token that generated it; the
   text of a special sequence is not longer than the sequence (table
   obligation). *)
From Coq Require Import Lia String.
From YV Require Import PyBase PyBaseProofs ShellMap Token Utils Scanner Rpal PState
                       Parser Expand Math Exec TokOk ScanOk ScanPlain RpalProofs
                       ExecPlain ExpandSites SpecialsProofs ExecUnk ExecArgs MlProofs RpalRange.
Open Scope Z_scope.

Section ExecRange.
  Variable T : tables.
  Variable rd : str -> option str.
  Hypothesis Htab : plain_tables_ok T = true.
  Variable R : Z -> Prop.
  Notation tok_R := (MlProofs.tok_R R).
  Notation isp := (t_is_space T).

  (* no replacement text is longer than its special sequence *)
  Definition values_short : bool :=
    forallb (fun e => Nat.leb (length (snd e)) (length (fst e))) (t_special_values T).
  Hypothesis Hshort : values_short = true.

  Lemma value_short k v : assoc k (t_special_values T) = Some v -> (length v <= length k)%nat.
  Proof.
    unfold values_short in Hshort. rewrite forallb_forall in Hshort.
    induction (t_special_values T) as [|[k' v'] l IH]; cbn [assoc]; [discriminate|].
    destruct (str_eqb k k') eqn:E.
    - intros H. inversion H; subst. apply str_eqb_eq in E. subst k'.
      specialize (Hshort (k, v) (or_introl eq_refl)). cbn [fst snd] in Hshort.
      apply Nat.leb_le. exact Hshort.
    - apply IH. intros x Hx. apply Hshort. right. exact Hx.
  Qed.

  (* a token whose positions are fine; a control word has a name *)
  Definition tR (t : tok) : Prop := tok_R t /\ (tk t = KMacro -> txt t <> []).

  Lemma tok_R_empty t : txt t = [] -> tok_R t.
  Proof. intros E. unfold MlProofs.tok_R, tok_positions. rewrite E. destruct (pfix t); constructor. Qed.
  Lemma tR_action p : tR (ActionT p).
  Proof. split; [apply tok_R_empty; reflexivity | discriminate]. Qed.
  Lemma tR_void p : tR (VoidT p).
  Proof. split; [apply tok_R_empty; reflexivity | discriminate]. Qed.

  (* the first position of a token with text *)
  Lemma tok_R_pos t : tok_R t -> txt t <> [] -> R (pos t).
  Proof.
    unfold MlProofs.tok_R, tok_positions. intros H Hn. destruct (txt t) as [|c r]; [contradiction|].
    cbn [length repeat zseq] in H. destruct (pfix t); inversion H; assumption.
  Qed.
  Lemma pinned_R p (s : str) : R p -> Forall R (repeat p (length s)).
  Proof. intros H. apply Forall_forall. intros x Hx. apply repeat_spec in Hx. subst x. exact H. Qed.

  (* text put at the place of a token, not longer than the token *)
  Lemma replaced_R t v : tok_R t -> (length v <= length (txt t))%nat ->
    tok_R (mk KText (pos t) v (pfix t)).
  Proof.
    unfold MlProofs.tok_R, tok_positions. cbn [pfix pos txt mk]. intros H L. destruct (pfix t).
    - apply (Forall_repeat_le R (pos t) _ _ L H).
    - replace (length v) with (Nat.min (length v) (length (txt t))) by lia.
      apply Forall_zseq_prefix. exact H.
  Qed.

  Lemma skip_ctl_sub b : Forall tR b -> Forall tR (skip_ctl b).
  Proof.
    induction 1 as [|t b Ht Hb IH]; [constructor|]. cbn [skip_ctl].
    destruct (buf_is_space t && negb (is_lang t) && negb (is_action t)); [exact IH|].
    constructor; assumption.
  Qed.

  Theorem exec_args_R : forall fuel toks rout st st' a,
    bcl T (macros st) toks -> Forall tR toks -> Forall tok_R rout ->
    exec T rd fuel (TSeq toks None rout) st = Ok (st', a) ->
    match a with ASeq out _ => Forall tok_R out | _ => True end.
  Proof.
    induction fuel as [|k IH]; intros toks rout st st' a Hc HT HR H; [discriminate|].
    cbn [exec step] in H. inversion Hc as [E0|t b Ht Hb E0|m o a0 c l Hm Ho Hcl Hbal Ha Hl E0|m body l Hm Hl E0|t l Ht Hn Hl E0]; subst.
    - cbn [step_seq] in H.
      destruct (remove_pure_action_lines isp (rev rout)) as [o| | |] eqn:Er; try discriminate.
      cbn [rbind] in H. inversion H; subst.
      apply (rpal_R isp R (rev rout) o); [apply Forall_rev; exact HR | exact Er].
    - inversion HT as [|? ? [Rt Nt] HTb]; subst.
      inversion Ht as [? He|? Hk Hd Hm|? Hk Hi|? Hk Htx|? Hk Hbr|? v Hk Hi Hv|? Hpin Hg|? Hk Hnl]; subst.
      + rewrite (step_seq_etok T rd Htab) in H by exact He.
        eapply IH; [exact Hb | exact HTb | | exact H]. constructor; assumption.
      + destruct (step_macro_frame T rd (exec T rd k) k st t b None rout Hk Hd Hm) as (st1 & Es & Fr).
        rewrite Es in H. destruct (skip_space_bcl T _ _ Hb) as (pre & _ & _ & _ & Hrest).
        eapply IH; [| | exact HR | exact H].
        * rewrite (frame_macros _ _ Fr).
          constructor; [apply u_action; [left|]; reflexivity | exact Hrest].
        * constructor; [apply tR_action | apply skip_ctl_sub; exact HTb].
      + rewrite (step_comment T rd) in H by assumption.
        eapply IH; [exact Hb | exact HTb | exact HR | exact H].
      + rewrite (step_action T rd Htab) in H by assumption.
        eapply IH; [exact Hb | exact HTb | | exact H]. constructor; assumption.
      + rewrite (step_brace T rd) in H by assumption.
        eapply IH; [exact Hb | exact HTb | | exact H].
        constructor; [apply tok_R_empty; reflexivity | exact HR].
      + rewrite (step_special T rd _ _ _ _ _ _ _ v Hk Hi Hv) in H.
        eapply IH; [exact Hb | exact HTb | | exact H].
        constructor; [apply replaced_R; [exact Rt | apply value_short; exact Hv]|].
        constructor; [apply tok_R_empty; reflexivity | exact HR].
      + rewrite (step_seq_gtok T rd Htab) in H by exact Hg.
        eapply IH; [exact Hb | exact HTb | | exact H]. constructor; assumption.
      + rewrite (step_verb T rd) in H by exact Hk.
        eapply IH; [exact Hb | exact HTb | | exact H].
        constructor; [apply replaced_R; [exact Rt | lia]|].
        constructor; [apply tok_R_empty; reflexivity | exact HR].
    - inversion HT as [|? ? Rm HT1]; subst. inversion HT1 as [|? ? Ro HT2]; subst.
      apply Forall_app in HT2. destruct HT2 as [HTa HT3]. inversion HT3 as [|? ? Rc HTl]; subst.
      destruct (step_pass T rd (exec T rd k) k st m o a0 c l None rout Hm Ho Hcl Hbal)
        as (a' & x & y & Ea' & Hx & Hy & Es).
      rewrite Es in H.
      assert (Ha' : bcl T (macros st) a').
      { rewrite Ea'. destruct a0 as [|z a1]; [|exact Ha].
        constructor; [apply u_action; [right|]; reflexivity | constructor]. }
      eapply IH; [| | exact HR | exact H].
      + constructor; [apply u_action; [left|]; reflexivity|].
        constructor; [apply u_action; [left|]; reflexivity|].
        apply bcl_app; [exact Ha'|].
        constructor; [apply u_action; [left|]; reflexivity | exact Hl].
      + constructor; [apply tR_action|]. constructor; [apply tR_action|].
        apply Forall_app. split.
        * rewrite Ea'. destruct a0 as [|z a1]; [constructor; [apply tR_void | constructor] | exact HTa].
        * constructor; [apply tR_action | exact HTl].
    - rewrite (step_const T rd (exec T rd k) k st m body l None rout Hm) in H.
      destruct (skip_space_bcl T _ _ Hl) as (pre & _ & _ & _ & Hrest).
      inversion HT as [|? ? [Rm Nm] HTl]; subst.
      destruct Hm as (Hk & Hd & mac & Hma & Hargs & Hrepl & Hext & Hbody).
      assert (Rp : R (pos m)) by (apply tok_R_pos; [exact Rm | apply Nm; exact Hk]).
      assert (Hg : Forall (fun t => pfix t = true /\ gtok T t)
                          (map (fun b => set_pos_fix b (pos m)) body)).
      { apply Forall_forall. intros t Ht. apply in_map_iff in Ht.
        destruct Ht as (b0 & Eb0 & Hin). subst t. rewrite Forall_forall in Hbody.
        split; [reflexivity | apply gtok_pinned; apply Hbody; exact Hin]. }
      eapply IH; [| | exact HR | exact H].
      + constructor; [apply u_action; [left|]; reflexivity|]. apply bcl_app; [|exact Hrest].
        clear - Hg. induction Hg as [|t g' [Hp Ht] Hg' IHg]; [constructor|].
        apply b_one; [apply u_gen; assumption | exact IHg].
      + constructor; [apply tR_action|]. apply Forall_app. split; [|apply skip_ctl_sub; exact HTl].
        apply Forall_forall. intros t Ht. apply in_map_iff in Ht.
        destruct Ht as (b0 & Eb0 & Hin). subst t. split.
        * unfold MlProofs.tok_R, tok_positions. cbn [pfix pos txt set_pos_fix]. apply pinned_R, Rp.
        * cbn [tk set_pos_fix]. rewrite Forall_forall in Hbody. specialize (Hbody b0 Hin).
          destruct Hbody as [_ Hkind]. cbn [tk txt pos pfix mk] in Hkind.
          intros Ek. rewrite Ek in Hkind. contradiction.
    - rewrite (step_newline T rd (exec T rd k) k st t l None rout Ht Hn) in H.
      inversion HT as [|? ? [Rt Nt] HTl]; subst.
      eapply IH; [exact Hl | exact HTl | | exact H].
      destruct Ht as [_ Etx].
      constructor; [|constructor; [apply tok_R_empty; reflexivity | exact HR]].
      unfold MlProofs.tok_R, tok_positions. cbn. constructor; [|constructor].
      apply tok_R_pos; [exact Rt | rewrite Etx; discriminate].
  Qed.
End ExecRange.
