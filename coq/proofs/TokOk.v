(* TokOk: the position invariant behind property C01.  A token is ok for a
   text of n characters if its position lies inside the text and, unless it
   is pinned (pos_fix), its whole extent does.  The extent that matters is
   the text a token can contribute to the output. *)
From Coq Require Import Lia.
From YV Require Import PyBase PyBaseProofs ShellMap Token Utils PState.
Open Scope Z_scope.

Section TokOk.
  Variable T : tables.

  Definition special_len (s : str) : Z :=
    match assoc s (t_special_values T) with
    | Some v => zlen v
    | None => zlen s
    end.

  (* characters a token may put into the output, at least 1 so that the
     position itself is inside the text *)
  Definition ext (t : tok) : Z :=
    match tk t with
    | KText | KSpace | KPar | KVerb false => Z.max 1 (zlen (txt t))
    | KVerb true => zlen (txt t) + 1      (* room for the \end behind it *)
    | KSpecial => Z.max 1 (special_len (txt t))
    | _ => 1
    end.

  Definition tok_ok (n : Z) (t : tok) : Prop :=
    0 <= pos t /\ (if pfix t then pos t < n else pos t + ext t <= n).

  Lemma ext_pos t : 1 <= ext t.
  Proof.
    unfold ext, zlen. destruct (tk t) as [| | | | | | | | | |[]| | | | | | | |]; lia.
  Qed.

  Lemma tok_ok_pos n t : tok_ok n t -> 0 <= pos t < n.
  Proof.
    unfold tok_ok. pose proof (ext_pos t). destruct (pfix t); lia.
  Qed.

  (* a pinned token at the position of an ok token is ok, whatever its text *)
  Lemma pinned_ok n k p s : 0 <= p < n -> tok_ok n (mk k p s true).
  Proof. unfold tok_ok. simpl. lia. Qed.

  Lemma set_pos_fix_ok n t p : 0 <= p < n -> tok_ok n (set_pos_fix t p).
  Proof. unfold tok_ok, set_pos_fix. simpl. lia. Qed.

  (* a token without output text of its own at an ok position *)
  Lemma unit_ok n k p s f :
    0 <= p < n ->
    (match k with KText | KSpace | KPar | KVerb _ | KSpecial => False | _ => True end) ->
    tok_ok n (mk k p s f).
  Proof.
    intros Hp Hk. unfold tok_ok, ext. simpl.
    destruct f; [lia|]. destruct k as [| | | | | | | | | |[]| | | | | | | |];
      try contradiction; lia.
  Qed.

  Lemma action_ok n p : 0 <= p < n -> tok_ok n (ActionT p).
  Proof. intros. apply unit_ok; [assumption | exact I]. Qed.
  Lemma void_ok n p : 0 <= p < n -> tok_ok n (VoidT p).
  Proof. intros. apply unit_ok; [assumption | exact I]. Qed.
  Lemma lang_ok n p l b h k : 0 <= p < n -> tok_ok n (LangT p l b h k).
  Proof. intros. apply unit_ok; [assumption | exact I]. Qed.
  Lemma macro_ok n p s : 0 <= p < n -> tok_ok n (MacroT p s).
  Proof. intros. apply unit_ok; [assumption | exact I]. Qed.

  (* a one-character text or space at an ok position *)
  Lemma char_ok n k p c f :
    0 <= p < n ->
    (match k with KText | KSpace | KPar => True | _ => False end) ->
    tok_ok n (mk k p [c] f).
  Proof.
    intros Hp Hk. unfold tok_ok, ext, zlen. simpl.
    destruct f; [lia|]. destruct k; try contradiction; simpl; lia.
  Qed.

  (* ---- get_txt_pos ---- *)
  Lemma zseq_length s k : length (zseq s k) = k.
  Proof. revert s; induction k as [|k IH]; intros s; simpl; [reflexivity | f_equal; apply IH]. Qed.

  Lemma zseq_range s k x : In x (zseq s k) -> s <= x < s + Z.of_nat k.
  Proof.
    revert s; induction k as [|k IH]; intros s H; simpl in H; [contradiction|].
    destruct H as [H|H]; [lia|]. apply IH in H. lia.
  Qed.

  Lemma tok_positions_length t : length (tok_positions t) = length (txt t).
  Proof.
    unfold tok_positions. destruct (pfix t); [apply repeat_length | apply zseq_length].
  Qed.

  Theorem get_txt_pos_length toks :
    length (fst (get_txt_pos toks)) = length (snd (get_txt_pos toks)).
  Proof.
    induction toks as [|t toks IH]; simpl; [reflexivity|].
    destruct (get_txt_pos toks) as [s p]. simpl in *.
    rewrite !app_length, tok_positions_length. lia.
  Qed.

  (* the kinds that can carry text into the output *)
  Definition text_kind (t : tok) : Prop :=
    match tk t with
    | KText | KSpace | KPar | KVerb false => True
    | _ => txt t = []
    end.

  Lemma tok_positions_range n t x :
    tok_ok n t -> text_kind t -> In x (tok_positions t) -> 0 <= x < n.
  Proof.
    unfold tok_ok, tok_positions, text_kind, ext. intros [H0 H1] Hk Hin.
    destruct (pfix t).
    - apply repeat_spec in Hin. subst x. lia.
    - apply zseq_range in Hin. unfold zlen in *.
      destruct (tk t) as [| | | | | | | | | |[]| | | | | | | |];
        try (rewrite Hk in Hin; simpl in Hin; lia); lia.
  Qed.

  Theorem get_txt_pos_range n toks :
    Forall (tok_ok n) toks -> Forall text_kind toks ->
    Forall (fun x => 0 <= x < n) (snd (get_txt_pos toks)).
  Proof.
    induction 1 as [|t toks Ht Hts IH]; intros Hk; simpl; [constructor|].
    inversion Hk as [|? ? Hk1 Hk2]; subst.
    destruct (get_txt_pos toks) as [s p]. simpl in *.
    apply Forall_app. split; [|apply IH; exact Hk2].
    apply Forall_forall. intros x Hx. eapply tok_positions_range; eauto.
  Qed.
End TokOk.
