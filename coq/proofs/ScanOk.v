(* ScanOk: every token the scanner yields is ok for the text it scanned
   (its extent lies inside the text), and the diagnostics' tokens too. *)
From Coq Require Import Lia.
From YV Require Import PyBase PyBaseProofs ShellMap Token Utils Scanner PState TokOk.
Open Scope Z_scope.

Lemma find_index_lt {A} (f : A -> bool) l i : find_index f l = Some i -> (i < length l)%nat.
Proof.
  revert i; induction l as [|x l IH]; intros i H; simpl in H; [discriminate|].
  destruct (f x); [inversion H; simpl; lia|].
  destruct (find_index f l) as [j|]; [|discriminate]. inversion H; subst.
  specialize (IH j eq_refl). simpl. lia.
Qed.

Lemma index_where_le f s : (index_where f s <= length s)%nat.
Proof.
  unfold index_where. destruct (find_index f s) as [i|] eqn:E; [|lia].
  apply find_index_lt in E. lia.
Qed.

Lemma starts_with_len' p : forall s, starts_with p s = true -> (length p <= length s)%nat.
Proof.
  induction p as [|x p IH]; intros [|y s] H; simpl in *; try lia; try discriminate.
  apply andb_true_iff in H. destruct H as [_ H]. apply IH in H. lia.
Qed.

Lemma find_sub_le sub : forall s e,
  find_sub sub s = Some e -> (e + length sub <= length s)%nat.
Proof.
  induction s as [|c s IH]; intros e H.
  - simpl in H. destruct (starts_with sub []) eqn:E; [|discriminate].
    inversion H; subst. apply starts_with_len' in E. simpl in *. lia.
  - simpl in H. destruct (starts_with sub (c :: s)) eqn:E.
    + inversion H; subst. apply starts_with_len' in E. lia.
    + destruct (find_sub sub s) as [j|] eqn:Ej; [|discriminate].
      inversion H; subst. specialize (IH j eq_refl). simpl. lia.
Qed.

Section ScanOk.
  Variable T : tables.
  Notation P := (t_scan T).
  Notation tok_ok := (tok_ok T).

  (* table obligations: a special sequence is non-empty and its replacement
     is not longer than the sequence; '#' alone is replaced by one character *)
  Definition specials_wf : Prop :=
    Forall (fun k => k <> [] /\ special_len T k <= zlen k) (sp_specials P) /\
    special_len T [c_hash] <= 1.

  Hypothesis Hwf : specials_wf.

  (* ---- latex_error ---- *)
  Lemma latex_error_ok err p latex :
    0 <= p < zlen latex ->
    Forall (tok_ok (zlen latex))
           (snd (latex_error (sp_mark P) (sp_verbose P) err p latex)).
  Proof.
    intros Hp. unfold latex_error. cbn [snd].
    set (mk_ := error_mark (sp_mark P) (sp_verbose P) err).
    set (mx := Z.min (zlen mk_) (zlen latex - p)).
    destruct (mx <? zlen mk_) eqn:E.
    - apply Z.ltb_lt in E. constructor; [apply pinned_ok; lia|].
      constructor; [|constructor]. apply pinned_ok. unfold mx in *. lia.
    - constructor; [apply pinned_ok; lia | constructor].
  Qed.

  Lemma err_token_ok latex err start :
    0 <= start < zlen latex ->
    tok_ok (zlen latex) (snd (err_token P latex err start)).
  Proof.
    intros H. unfold err_token.
    destruct (latex_error (sp_mark P) (sp_verbose P) err start latex) as [d ts].
    simpl. apply pinned_ok. exact H.
  Qed.

  Lemma special_find_ok s t :
    find (fun t => starts_with t s) (sp_specials P) = Some t ->
    t <> [] /\ special_len T t <= zlen t /\ (length t <= length s)%nat.
  Proof.
    intros H. apply find_some in H. destruct H as [Hin Hs].
    destruct Hwf as [Hf _]. rewrite Forall_forall in Hf.
    destruct (Hf t Hin) as [A B]. repeat split; auto.
    apply starts_with_len'. exact Hs.
  Qed.

  (* ---- one token ---- *)
  Lemma next_token_ok latex s start :
    s <> [] -> 0 <= start -> start + zlen s = zlen latex ->
    let '(t, k, ds) := next_token P latex s start in
    (1 <= k <= length s)%nat /\ tok_ok (zlen latex) t.
  Proof.
    intros Hs H0 Hlen. destruct s as [|c s']; [contradiction|].
    assert (HL : zlen (c :: s') = Z.of_nat (S (length s'))) by reflexivity.
    assert (Hstart : 0 <= start < zlen latex) by (rewrite <- Hlen, HL; lia).
    cbn [next_token].
    destruct (is_sp P c) eqn:Esp.
    { (* space *)
      pose proof (index_where_le (fun x => negb (is_sp P x)) s') as Hi.
      set (n := S (index_where (fun x => negb (is_sp P x)) s')).
      assert (Hn : (1 <= n <= S (length s'))%nat) by (unfold n; lia).
      assert (Hfl : length (firstn n (c :: s')) = n)
        by (rewrite firstn_length; simpl; lia).
      destruct (Nat.ltb _ 2); (split; [simpl; lia|]);
        unfold tok_ok, ext, zlen; cbn [tk pos txt pfix mk]; rewrite Hfl;
        unfold zlen in *; simpl in *; lia. }
    destruct (N.eqb c c_percent) eqn:Epc.
    { (* comment *)
      pose proof (index_where_le (N.eqb c_nl) s') as Hi.
      set (p := S (index_where (N.eqb c_nl) s')).
      set (after := skipn (S p) (c :: s')).
      pose proof (index_where_le (fun x => negb (is_sp P x)) after) as Hj.
      set (nns := Nat.min (S p + index_where (fun x => negb (is_sp P x)) after)
                          (length (c :: s'))).
      set (p' := Nat.min p (length (c :: s'))).
      assert (Hp' : (1 <= p' <= length (c :: s'))%nat) by (unfold p', p; cbn [length]; lia).
      assert (Hnn : (1 <= nns <= length (c :: s'))%nat) by (unfold nns, p; cbn [length]; lia).
      destruct (Nat.eqb _ 0); (split; [assumption|]);
        apply unit_ok; try exact I; lia. }
    destruct (N.eqb c c_hash) eqn:Eh.
    { (* argument token or '#' *)
      destruct Hwf as [_ Hh].
      assert (Hsp : tok_ok (zlen latex) (SpecialT start [c])).
      { apply N.eqb_eq in Eh. subst c. unfold tok_ok, ext. cbn [tk pos txt pfix SpecialT mk].
        unfold zlen in *. simpl in *. lia. }
      destruct s' as [|d s'']; [split; [simpl; lia | exact Hsp]|].
      destruct (sp_is_decimal P d).
      - split; [simpl; lia|]. apply unit_ok; [lia | exact I].
      - split; [simpl; lia | exact Hsp]. }
    destruct (find (fun t => starts_with t (c :: s')) (sp_specials P)) as [t|] eqn:Ef.
    { destruct (special_find_ok _ _ Ef) as (A & B & C).
      split.
      - destruct t; [contradiction|]. simpl in *. lia.
      - unfold tok_ok, ext. cbn [tk pos txt pfix SpecialT mk].
        unfold zlen in *. split; [lia|].
        assert (1 <= Z.of_nat (length t)) by (destruct t; [contradiction | simpl; lia]).
        lia. }
    destruct (N.eqb c c_backslash) eqn:Eb.
    2:{ split; [simpl; lia|]. apply char_ok; [lia | exact I]. }
    (* macro *)
    pose proof (index_where_le (fun x => negb (sp_macro_char P x)) s') as Hi.
    set (n0 := index_where (fun x => negb (sp_macro_char P x)) s') in *.
    set (n := match n0, s' with O, _ :: _ => 1%nat | _, _ => n0 end).
    assert (Hn : (n <= length s')%nat).
    { unfold n. clearbody n0. destruct n0; destruct s'; simpl in *; lia. }
    set (mac := firstn (S n) (c :: s')).
    set (len := S n).
    assert (Hlen' : (1 <= len <= S (length s'))%nat) by (unfold len; lia).
    assert (Hctl : forall k, match k with KText | KSpace | KPar | KVerb _ | KSpecial => False
                                     | _ => True end ->
                   tok_ok (zlen latex) (mk k start mac false))
      by (intros k Hk; apply unit_ok; [lia | exact Hk]).
    destruct (str_eqb mac s_begin).
    { (* verbatim *)
      set (rest := skipn len (c :: s')).
      pose proof (index_where_le (fun x => negb (is_sp P x)) rest) as Hk.
      set (k := index_where (fun x => negb (is_sp P x)) rest).
      set (at_ := skipn k rest).
      destruct (Nat.eqb k (length rest) || Nat.ltb 1 _ || negb (starts_with s_verbatim_br at_)) eqn:Ec.
      { split; [simpl; lia | apply Hctl; exact I]. }
      apply orb_false_iff in Ec. destruct Ec as [_ Ev].
      apply negb_false_iff in Ev. apply starts_with_len' in Ev.
      assert (Hrest : length rest = (S (length s') - len)%nat)
        by (unfold rest; rewrite skipn_length; simpl; lia).
      assert (Hat : length at_ = (length rest - k)%nat)
        by (unfold at_; rewrite skipn_length; lia).
      change (length s_verbatim_br) with 10%nat in Ev.
      set (body := skipn 10 at_).
      assert (Hbody : length body = (length at_ - 10)%nat)
        by (unfold body; rewrite skipn_length; lia).
      destruct (find_sub s_end_verbatim body) as [e|] eqn:Ee.
      - apply find_sub_le in Ee. change (length s_end_verbatim) with 14%nat in Ee.
        split; [simpl; lia|].
        unfold tok_ok, ext. cbn [tk pos txt pfix mk].
        assert (Hfe : length (firstn e body) = e) by (rewrite firstn_length; lia).
        unfold zlen in *. rewrite Hfe. simpl in *. lia.
      - pose proof (err_token_ok latex e_missing_verbatim start Hstart) as He.
        destruct (err_token P latex e_missing_verbatim start) as [d t].
        split; [simpl; lia | exact He]. }
    destruct (str_eqb mac s_end); [split; [simpl; lia | apply Hctl; exact I]|].
    destruct (str_eqb mac s_item); [split; [simpl; lia | apply Hctl; exact I]|].
    destruct (str_eqb mac s_verb).
    { (* \verb *)
      destruct (skipn len (c :: s')) as [|dl body] eqn:Es.
      - pose proof (err_token_ok latex e_bad_verb start Hstart) as He.
        destruct (err_token P latex e_bad_verb start) as [d t].
        split; [simpl; lia | exact He].
      - assert (Hsk : (S (length body) = S (length s') - len)%nat).
        { pose proof (f_equal (@length _) Es) as HL2. rewrite skipn_length in HL2.
          simpl in HL2. simpl. lia. }
        pose proof (index_where_le (fun x => N.eqb x dl || N.eqb x c_nl) body) as Hk.
        set (k := index_where (fun x => N.eqb x dl || N.eqb x c_nl) body).
        destruct (nth_error body k) as [x|] eqn:En.
        + assert (Hklt : (k < length body)%nat)
            by (apply nth_error_Some; rewrite En; discriminate).
          destruct (N.eqb x c_nl).
          * pose proof (err_token_ok latex e_bad_verb start Hstart) as He.
            destruct (err_token P latex e_bad_verb start) as [d t].
            split; [simpl; lia | exact He].
          * split; [simpl; lia|].
            unfold tok_ok, ext. cbn [tk pos txt pfix mk].
            assert (Hfk : length (firstn k body) = k) by (rewrite firstn_length; lia).
            unfold zlen in *. rewrite Hfk. simpl in *. lia.
        + pose proof (err_token_ok latex e_bad_verb start Hstart) as He.
          destruct (err_token P latex e_bad_verb start) as [d t].
          split; [simpl; lia | exact He]. }
    destruct (existsb (str_eqb mac) (sp_accents P));
      (split; [simpl; lia | apply Hctl; exact I]).
  Qed.

  (* ---- the whole text ---- *)
  Lemma scan_aux_ok latex : forall fuel s start,
    0 <= start -> start + zlen s = zlen latex ->
    Forall (tok_ok (zlen latex)) (fst (scan_aux P latex fuel s start)).
  Proof.
    induction fuel as [|k IH]; intros s start H0 Hlen; simpl; [constructor|].
    destruct s as [|c s']; [constructor|].
    pose proof (next_token_ok latex (c :: s') start ltac:(discriminate) H0 Hlen) as Hn.
    destruct (next_token P latex (c :: s') start) as [[t n] ds].
    destruct Hn as [Hn Ht].
    set (n' := Nat.max n 1).
    assert (Hn' : (1 <= n' <= length (c :: s'))%nat) by (unfold n'; lia).
    specialize (IH (skipn n' (c :: s')) (start + Z.of_nat n')).
    destruct (scan_aux P latex k (skipn n' (c :: s')) (start + Z.of_nat n')) as [ts ds'].
    simpl. constructor; [exact Ht|]. apply IH; [lia|].
    unfold zlen in *. rewrite skipn_length. lia.
  Qed.

  Theorem scan_ok latex : Forall (tok_ok (zlen latex)) (fst (scan P latex)).
  Proof. unfold scan. apply scan_aux_ok; [lia | unfold zlen; lia]. Qed.
End ScanOk.

(* the table obligation as a computation, so that it can be discharged for
   the tables generated from /repo *)
Definition specials_wfb (T : tables) : bool :=
  forallb (fun k => negb (match k with [] => true | _ => false end)
                    && (special_len T k <=? zlen k))
          (sp_specials (t_scan T))
  && (special_len T [c_hash] <=? 1).

Lemma specials_wfb_ok T : specials_wfb T = true -> specials_wf T.
Proof.
  unfold specials_wfb, specials_wf. intros H.
  apply andb_true_iff in H. destruct H as [H1 H2]. split; [|apply Z.leb_le; exact H2].
  apply Forall_forall. intros k Hk. rewrite forallb_forall in H1.
  specialize (H1 k Hk). apply andb_true_iff in H1. destruct H1 as [Ha Hb].
  split; [destruct k; [discriminate Ha | discriminate] | apply Z.leb_le; exact Hb].
Qed.
