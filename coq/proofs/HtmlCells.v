(* C16, the line cells of one region of the report.  The region is written
   as: the tiling of its source stretch (plain pieces escaped, highlights
   wrapped line by line), the rest of the last line, one more line-break mark.
   add_line_numbers cuts this string at the line-break marks.  Provided the
   style strings and the rule URL hold no '<', the cuts fall exactly at the
   line breaks of the source: every cell is closed by a mark, and every cell,
   its span / link tags dropped, is one escaped line of the stretch, in
   order. *)
From Coq Require Import Lia String Ascii.
From YV Require Import PyBase PyBaseProofs ShellMap Html HtmlProofs HtmlRegion HtmlLines.
Local Open Scope list_scope.

Definition no_lt (c : str) : bool := forallb (fun x => negb (N.eqb x 60)) c.
Lemma no_lt_app a b : no_lt (a ++ b) = no_lt a && no_lt b.
Proof. apply forallb_app. Qed.
Lemma no_lt_nob c : no_lt c = true -> nob c = true.
Proof.
  induction c as [|x c IH]; intros H; [reflexivity|]. cbn [no_lt forallb] in H.
  apply andb_true_iff in H. destruct H as [H1 H2]. cbn [nob].
  apply negb_true_iff in H1. rewrite H1. cbn [andb]. apply IH. exact H2.
Qed.
Lemma protect_char_no_lt c : N.eqb c 10 = false -> no_lt (protect_char c) = true.
Proof.
  intros E7. unfold protect_char.
  destruct (N.eqb c 38) eqn:E1; [reflexivity|].
  destruct (N.eqb c 34) eqn:E2; [reflexivity|].
  destruct (N.eqb c 60) eqn:E3; [reflexivity|].
  destruct (N.eqb c 62) eqn:E4; [reflexivity|].
  destruct (N.eqb c 9) eqn:E5; [reflexivity|].
  destruct (N.eqb c 32) eqn:E6; [reflexivity|].
  rewrite E7. cbn [no_lt forallb]. rewrite E3. reflexivity.
Qed.

Definition chunk_nolt (a : atom) : Prop :=
  match a with ABr => True | AChunk _ c => no_lt c = true end.
Lemma chunk_nolt_ok a : chunk_nolt a -> chunk_ok a.
Proof. destruct a as [|tg c]; [trivial | apply no_lt_nob]. Qed.
Lemma atoms_of_nolt s : Forall chunk_nolt (atoms_of s).
Proof.
  unfold atoms_of. induction s as [|c s IH]; [constructor|]. cbn [map]. constructor; [|exact IH].
  destruct (N.eqb c 10) eqn:E; [exact I | apply protect_char_no_lt; exact E].
Qed.

Lemma render_atoms_app a b : render_atoms (a ++ b) = render_atoms a ++ render_atoms b.
Proof. apply flat_map_app. Qed.
Lemma atoms_of_app a b : atoms_of (a ++ b) = atoms_of a ++ atoms_of b.
Proof. apply map_app. Qed.

(* no '<' in any cell of a string without '<' outside its marks *)
Lemma rows_no_lt : forall l acc, Forall chunk_nolt l -> no_lt acc = true ->
  Forall (fun r : str * bool => no_lt (fst r) = true) (rows acc l).
Proof.
  induction l as [|a l IH]; intros acc Hl Ha; cbn [rows].
  - destruct acc; constructor; [exact Ha | constructor].
  - inversion Hl as [|? ? H1 H2]; subst. destruct a as [|tg c].
    + constructor; [exact Ha | apply IH; [exact H2 | reflexivity]].
    + apply IH; [exact H2|]. rewrite no_lt_app, Ha. exact H1.
Qed.

(* msg.replace('<br>\n', '\n') of such a string holds no '<' *)
Lemma replaced_no_lt l : Forall chunk_nolt l ->
  no_lt (join_br (fun x => x)
           (map (fun r : list N * bool => (fst r ++ (if snd r then [c_nl] else []), false))
                (split_br (render_atoms l)))) = true.
Proof.
  intros Hl. unfold split_br.
  rewrite (split_atoms l (Forall_impl _ chunk_nolt_ok Hl) []). cbn [rev].
  pose proof (rows_no_lt l [] Hl eq_refl) as Hr.
  induction Hr as [|r rs H1 H2 IH]; [reflexivity|].
  cbn [map]. rewrite join_br_cons. cbn [fst snd]. rewrite !no_lt_app, H1, IH.
  destruct (snd r); reflexivity.
Qed.

Section Cells.
  Variable style style_unsure : str.
  Hypothesis Hstyle : no_lt style = true.
  Hypothesis Hstyle_u : no_lt style_unsure = true.
  Notation begin_tag := (begin_tag style style_unsure).
  Notation render := (render style style_unsure).

  Definition url_ok (m : hmatch) : Prop :=
    match hm_url m with Some u => no_lt u = true | None => True end.

  (* the opening and the closing tags of a highlight: no line-break mark can
     start inside them *)
  Lemma begin_tag_nob m lin unsure : url_ok m ->
    nob (fst (begin_tag m lin unsure)) = true /\
    nob (snd (begin_tag m lin unsure) ++ s2l "</span>") = true.
  Proof.
    intros Hu. unfold Html.begin_tag.
    match goal with |- context [join_br (fun x => x) (map ?f (split_br ?m0))] =>
      set (msg0 := m0); set (msg := join_br (fun x => x) (map f (split_br msg0))) end.
    assert (Hm : no_lt msg = true).
    { set (L := atoms_of (hm_message m) ++ [AChunk false [c_nl]]
                ++ atoms_of (s2l "Line " ++ dec (Z.to_N lin)
                             ++ (if unsure then s2l "+" else []) ++ s2l ": >>>"
                             ++ zslice (hm_ctx_text m) (hm_ctx_offset m)
                                       (hm_ctx_offset m + hm_ctx_length m)
                             ++ s2l "<<<")
                ++ atoms_of (s2l "    (Rule ID: " ++ hm_rule m ++ s2l ")")
                ++ [AChunk false [c_nl]; AChunk false (s2l "Suggestion: ")]
                ++ atoms_of (join_semicolon (hm_repls m))
                ++ [AChunk false [c_nl]; AChunk false (s2l "Context: ")]
                ++ atoms_of (zslice (hm_ctx_text m) 0 (hm_ctx_offset m) ++ s2l ">>>"
                             ++ zslice (hm_ctx_text m) (hm_ctx_offset m)
                                       (hm_ctx_offset m + hm_ctx_length m)
                             ++ s2l "<<<"
                             ++ zslice (hm_ctx_text m) (hm_ctx_offset m + hm_ctx_length m)
                                       (zlen (hm_ctx_text m)))).
      assert (EL : msg0 = render_atoms L).
      { unfold L, msg0. rewrite !render_atoms_app, !render_atoms_of.
        cbn [render_atoms flat_map]. rewrite ?app_nil_r, <- ?app_assoc. reflexivity. }
      unfold msg. rewrite EL. apply replaced_no_lt. unfold L.
      repeat (apply Forall_app; split); try apply atoms_of_nolt;
        repeat constructor. }
    assert (Htag : forall sty, no_lt sty = true ->
              nob (s2l "<span style=""" ++ sty ++ s2l """ title=""" ++ msg ++ s2l """>") = true).
    { intros sty Hs. apply nob_app; [reflexivity|]. apply nob_app; [apply no_lt_nob; exact Hs|].
      apply nob_app; [reflexivity|]. apply nob_app; [apply no_lt_nob; exact Hm | reflexivity]. }
    assert (Hsty : no_lt (if unsure then style_unsure else style) = true)
      by (destruct unsure; assumption).
    unfold url_ok in Hu. destruct (hm_url m) as [u|]; cbn [fst snd].
    - split.
      + apply nob_app; [apply Htag; exact Hsty|]. apply nob_app; [reflexivity|].
        apply nob_app; [apply no_lt_nob; exact Hu | reflexivity].
      + reflexivity.
    - split; [apply Htag; exact Hsty | reflexivity].
  Qed.

  Definition pre_of (h : hdata) : str := fst (begin_tag (h_m h) (h_lin h + 1) (h_unsure h)).
  Definition post_of (h : hdata) : str :=
    snd (begin_tag (h_m h) (h_lin h + 1) (h_unsure h)) ++ s2l "</span>".

  (* a piece of the tiling as atoms *)
  Definition line_atoms (h : hdata) (l : str * bool) : list atom :=
    AChunk true (pre_of h) :: atoms_of (fst l) ++ AChunk true (post_of h)
      :: (if snd l then [ABr] else []).
  Definition patoms (tex : str) (p : piece) : list atom :=
    match p with
    | PPlain a b => atoms_of (zslice tex a b)
    | PHigh h => flat_map (line_atoms h) (split_nl [] (span tex p))
    end.

  Lemma render_patoms tex p : render_atoms (patoms tex p) = render tex p.
  Proof.
    destruct p as [a b|h]; cbn [patoms HtmlRegion.render].
    - apply render_atoms_of.
    - unfold line_atoms, pre_of, post_of, hl, Html.generate_highlight. cbn [span].
      destruct (begin_tag (h_m h) (h_lin h + 1) (h_unsure h)) as [pre eh]. cbn [fst snd].
      rewrite split_protect. unfold join_br.
      generalize (split_nl [] (zslice tex (h_beg h) (h_end h))) as ls.
      induction ls as [|l ls IH]; [reflexivity|].
      cbn [flat_map map]. rewrite render_atoms_app, IH. f_equal.
      unfold render_atoms at 1. cbn [flat_map]. fold (render_atoms (atoms_of (fst l) ++ AChunk true (eh ++ s2l "</span>") :: (if snd l then [ABr] else []))).
      rewrite render_atoms_app, render_atoms_of. unfold esc_line. cbn [fst snd].
      unfold render_atoms. cbn [flat_map]. destruct (snd l); cbn [flat_map];
        rewrite ?app_nil_r, <- ?app_assoc; reflexivity.
  Qed.

  Lemma patoms_ok tex p :
    match p with PHigh h => url_ok (h_m h) | _ => True end ->
    Forall chunk_ok (patoms tex p).
  Proof.
    destruct p as [a b|h]; intros Hu; cbn [patoms].
    - apply atoms_of_ok.
    - destruct (begin_tag_nob (h_m h) (h_lin h + 1) (h_unsure h) Hu) as [N1 N2].
      generalize (split_nl [] (span tex (PHigh h))) as ls.
      induction ls as [|l ls IH]; [constructor|]. cbn [flat_map]. apply Forall_app. split; [|exact IH].
      unfold line_atoms. constructor; [exact N1|]. apply Forall_app. split; [apply atoms_of_ok|].
      constructor; [exact N2|]. destruct (snd l); repeat constructor.
  Qed.

  (* dropping the report's own tags *)
  Definition untag (l : list atom) : list atom :=
    filter (fun a => match a with AChunk true _ => false | _ => true end) l.
  Lemma untag_app a b : untag (a ++ b) = untag a ++ untag b.
  Proof. apply filter_app. Qed.
  Lemma untag_atoms_of s : untag (atoms_of s) = atoms_of s.
  Proof.
    unfold untag, atoms_of. induction s as [|c s IH]; [reflexivity|]. cbn [map filter].
    destruct (N.eqb c 10); rewrite IH; reflexivity.
  Qed.

  Lemma atoms_of_lines : forall s acc,
    flat_map (fun l : str * bool => atoms_of (fst l) ++ (if snd l then [ABr] else []))
             (split_nl acc s) = atoms_of (acc ++ s).
  Proof.
    induction s as [|c s IH]; intros acc; cbn [split_nl].
    - destruct acc; [reflexivity|]. cbn [flat_map fst snd]. rewrite !app_nil_r. reflexivity.
    - destruct (N.eqb c 10) eqn:E.
      + cbn [flat_map fst snd]. rewrite IH. rewrite <- app_assoc. cbn [app].
        rewrite atoms_of_app. f_equal. unfold atoms_of. cbn [map]. rewrite E. reflexivity.
      + rewrite IH. rewrite <- app_assoc. reflexivity.
  Qed.

  Lemma untag_patoms tex p : untag (patoms tex p) = atoms_of (span tex p).
  Proof.
    destruct p as [a b|h]; cbn [patoms].
    - apply untag_atoms_of.
    - pose proof (atoms_of_lines (span tex (PHigh h)) []) as El. cbn [app] in El. rewrite <- El. clear El.
      generalize (split_nl [] (span tex (PHigh h))) as ls.
      induction ls as [|l ls IH]; [reflexivity|]. cbn [flat_map]. rewrite untag_app, IH. f_equal.
      unfold line_atoms. cbn [untag filter]. fold (untag (atoms_of (fst l) ++ AChunk true (post_of h) :: (if snd l then [ABr] else []))).
      rewrite untag_app, untag_atoms_of. f_equal. cbn [untag filter]. destruct (snd l); reflexivity.
  Qed.

  (* cutting a list of atoms at the marks *)
  Fixpoint cells (acc l : list atom) : list (list atom) :=
    match l with
    | [] => []
    | ABr :: l' => acc :: cells [] l'
    | a :: l' => cells (acc ++ [a]) l'
    end.

  Lemma rows_cells : forall l acc,
    rows (render_atoms acc) (l ++ [ABr]) =
    map (fun r => (render_atoms r, true)) (cells acc (l ++ [ABr])).
  Proof.
    induction l as [|a l IH]; intros acc; cbn [app rows cells map].
    - reflexivity.
    - destruct a as [|tg c].
      + cbn [map]. f_equal. apply (IH []).
      + rewrite <- IH. f_equal. rewrite render_atoms_app. unfold render_atoms at 3.
        cbn [flat_map]. rewrite app_nil_r. reflexivity.
  Qed.

  Lemma untag_cells : forall l acc,
    cells (untag acc) (untag l) = map untag (cells acc l).
  Proof.
    induction l as [|a l IH]; intros acc; [reflexivity|].
    destruct a as [|tg c].
    - cbn [untag filter cells map]. f_equal. apply (IH []).
    - destruct tg.
      + cbn [untag filter cells]. fold (untag l). rewrite <- IH. rewrite untag_app.
        cbn [untag filter]. rewrite app_nil_r. reflexivity.
      + cbn [untag filter cells]. fold (untag l). rewrite <- IH. rewrite untag_app. reflexivity.
  Qed.

  (* ---- one region ---- *)
  Theorem region_cells tex hs st en :
    0 <= st -> region_last hs st <= en ->
    Forall (fun h => h_beg h <= h_end h) hs ->
    Forall (fun h => url_ok (h_m h)) hs ->
    let html := flat_map (render tex) (tiles hs st)
                ++ protect_html (zslice tex (region_last hs st) en) ++ br_nl in
    exists cs : list (list atom),
      split_br html = map (fun r => (render_atoms r, true)) cs /\
      map (fun r => (render_atoms (untag r), true)) cs
        = map esc_line (split_nl [] (zslice tex st en ++ [10%N])).
  Proof.
    intros H0 Hen Hf Hu html.
    set (ra := flat_map (patoms tex) (tiles hs st) ++ atoms_of (zslice tex (region_last hs st) en)).
    assert (Eh : html = render_atoms (ra ++ [ABr])).
    { assert (E1 : render_atoms (flat_map (patoms tex) (tiles hs st)) = flat_map (render tex) (tiles hs st)).
      { generalize (tiles hs st) as ps. induction ps as [|p ps IH]; [reflexivity|].
        cbn [flat_map]. rewrite render_atoms_app, render_patoms, IH. reflexivity. }
      assert (E2 : render_atoms [ABr] = br_nl).
      { unfold render_atoms. cbn [flat_map]. apply app_nil_r. }
      unfold html, ra. rewrite !render_atoms_app, render_atoms_of, E1, E2, <- app_assoc. reflexivity. }
    assert (Hpa : forall ps, Forall (fun p => match p with PHigh h => url_ok (h_m h) | _ => True end) ps ->
                             Forall chunk_ok (flat_map (patoms tex) ps)).
    { intros ps Ht. induction Ht as [|p ps Hp Hps IH]; [constructor|]. cbn [flat_map]. apply Forall_app.
      split; [apply patoms_ok; exact Hp | exact IH]. }
    assert (Ht : forall st0, Forall (fun p => match p with PHigh h => url_ok (h_m h) | _ => True end) (tiles hs st0)).
    { clear - Hu. induction Hu as [|h hs Hh Hhs IH]; intros st0; cbn [tiles]; [constructor|].
      destruct (h_beg h <? st0); [apply IH|]. constructor; [exact I|]. constructor; [exact Hh | apply IH]. }
    assert (Hok : Forall chunk_ok (ra ++ [ABr])).
    { apply Forall_app. split; [|repeat constructor]. unfold ra. apply Forall_app.
      split; [apply Hpa, Ht | apply atoms_of_ok]. }
    exists (cells [] (ra ++ [ABr])). split.
    - rewrite Eh. unfold split_br. rewrite (split_atoms _ Hok []). cbn [rev].
      change (@nil N) with (render_atoms []). apply rows_cells.
    - assert (Eu : untag ra = atoms_of (zslice tex st en)).
      { unfold ra. rewrite untag_app, untag_atoms_of.
        destruct (tiles_source tex hs st H0 Hf) as [Es Hle].
        rewrite <- (zslice_app tex st (region_last hs st) en) by lia.
        rewrite atoms_of_app. f_equal. rewrite <- Es.
        generalize (tiles hs st) as ps. induction ps as [|p ps IH]; [reflexivity|].
        cbn [flat_map]. rewrite untag_app, untag_patoms, IH, atoms_of_app. reflexivity. }
      rewrite <- (map_map untag (fun r => (render_atoms r, true))).
      rewrite <- (untag_cells (ra ++ [ABr]) []). cbn [untag filter].
      fold (untag (ra ++ [ABr])). rewrite untag_app, Eu. cbn [untag filter].
      rewrite <- rows_cells. cbn [render_atoms flat_map].
      replace (atoms_of (zslice tex st en) ++ [ABr]) with (atoms_of (zslice tex st en ++ [10%N]))
        by (rewrite atoms_of_app; reflexivity).
      change (@nil N) with (protect_html []). apply rows_lines.
  Qed.
End Cells.
