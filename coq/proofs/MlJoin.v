(* C12, the threshold pass for any number of sections: every section the
   splitting produced ends up in exactly one returned part, unchanged and
   whole (text and positions), behind the sections that stood before it in
   the same part; between the sections of a part only inserted material
   stands (the placeholder with the blanks at the edges of the insertion, as
   many positions as characters); all sections of a part carry the language
   the part is labelled with, its flags are those of its first section. *)
From Coq Require Import Lia Sorting.Permutation.
From YV Require Import PyBase PyBaseProofs ShellMap Token Utils Ml MlProofs.
Open Scope Z_scope.

Section MlJoin.
  Variable is_space : char -> bool.
  Variable check_lang : str -> str.
  Variable thresh : nat.
  Notation append_placeholder := (append_placeholder is_space check_lang).
  Notation join_sections := (join_sections is_space check_lang thresh).

  Definition grow (o : lsec) (t : str) (p : list Z) : lsec :=
    {| s_lang := s_lang o; s_back := s_back o; s_brk := s_brk o;
       s_txt := s_txt o ++ t; s_pos := s_pos o ++ p |}.

  (* a returned part o and the sections it is made of, in textual order *)
  Inductive glued : lsec -> list lsec -> Prop :=
    | g_one s : glued s [s]
    | g_ins o srcs t p : glued o srcs -> length t = length p -> glued (grow o t p) srcs
    | g_app o srcs s : glued o srcs -> str_eqb (s_lang o) (s_lang s) = true ->
                       glued (grow o (s_txt s) (s_pos s)) (srcs ++ [s]).

  (* l is a subsequence of m *)
  Inductive subseq {A} : list A -> list A -> Prop :=
    | ss_nil m : subseq [] m
    | ss_take x l m : subseq l m -> subseq (x :: l) (x :: m)
    | ss_skip x l m : subseq l m -> subseq l (x :: m).
  Lemma subseq_refl {A} (l : list A) : subseq l l.
  Proof. induction l; constructor; assumption. Qed.
  Lemma subseq_app_l {A} (p l m : list A) : subseq l m -> subseq (p ++ l) (p ++ m).
  Proof. intros H. induction p; [exact H | constructor; assumption]. Qed.
  Lemma subseq_skip_mid {A} (g : list A) x l m :
    subseq l (g ++ m) -> subseq l (g ++ x :: m).
  Proof.
    revert l. induction g as [|y g IH]; intros l H; cbn [app] in *.
    - constructor. exact H.
    - inversion H; subst; [constructor | constructor; apply IH; assumption
                           | apply ss_skip; apply IH; assumption].
  Qed.
  Lemma subseq_one_mid {A} (g : list A) x m : subseq [x] (g ++ x :: m).
  Proof. induction g; cbn [app]; constructor; [constructor | assumption]. Qed.
  Lemma subseq_tail {A} (l m : list A) x : subseq l m -> subseq l (x :: m).
  Proof. apply ss_skip. Qed.

  (* the text of a part starts with the text of its first section, and every
     section of the part has the language of the part *)
  Lemma glued_lang o srcs : glued o srcs ->
    Forall (fun s => str_eqb (s_lang o) (s_lang s) = true) srcs.
  Proof.
    induction 1 as [s|o srcs t p H IH E|o srcs s H IH E].
    - constructor; [apply str_eqb_eq; reflexivity | constructor].
    - exact IH.
    - apply Forall_app. split; [exact IH | constructor; [exact E | constructor]].
  Qed.
  Lemma glued_lengths o srcs : glued o srcs ->
    Forall (fun s => length (s_txt s) = length (s_pos s)) srcs ->
    length (s_txt o) = length (s_pos o).
  Proof.
    induction 1 as [s|o srcs t p H IH E|o srcs s H IH E]; intros HF.
    - inversion HF; assumption.
    - cbn [grow s_txt s_pos]. rewrite !app_length, (IH HF), E. reflexivity.
    - apply Forall_app in HF. destruct HF as [HF1 HF2]. inversion HF2; subst.
      cbn [grow s_txt s_pos]. rewrite !app_length, (IH HF1). lia.
  Qed.
  Lemma glued_nonempty o srcs : glued o srcs -> srcs <> [].
  Proof.
    induction 1 as [s|o srcs t p H IH E|o srcs s H IH E]; [discriminate | exact IH|].
    destruct srcs; discriminate.
  Qed.

  (* what append_placeholder does to the section in front: it grows *)
  Lemma append_grows rot sec incl sec' rot' :
    length (s_txt incl) = length (s_pos incl) ->
    append_placeholder rot sec incl = Ok (sec', rot') ->
    exists t p, sec' = grow sec t p /\ length t = length p.
  Proof.
    intros HL. unfold Ml.append_placeholder.
    destruct (blank is_space (s_txt incl)).
    - intros H. inversion H; subst. exists (s_txt incl), (s_pos incl). split; [reflexivity | exact HL].
    - set (key := check_lang (s_lang sec)).
      destruct (match match find (fun e => str_eqb (fst e) key) rot with
                      | Some e => snd e | None => [] end with
                | [] => [] | x :: r => r ++ [x] end) as [|ph r]; [discriminate|].
      destruct (py_nth (s_pos incl) _) as [p0| | |]; cbn [rbind]; try discriminate.
      unfold edge_first, edge_last.
      destruct (s_txt incl) as [|c0 r0] eqn:Et.
      + cbn [rev rbind]. intros H. inversion H; subst.
        eexists _, _. split; [reflexivity|]. cbn [fst snd app].
        rewrite !app_length, repeat_length. cbn. lia.
      + assert (E1 : exists e1, (if is_space c0 then do q <- py_nth (s_pos incl) 0; Ok ([c0], [q])
                                 else Ok ([], [])) = e1) by (eexists; reflexivity).
        destruct E1 as [e1 E1]. rewrite E1. destruct e1 as [[t1 p1]| | |]; cbn [rbind]; try discriminate.
        assert (L1 : length t1 = length p1).
        { destruct (is_space c0).
          - destruct (py_nth (s_pos incl) 0); cbn [rbind] in E1; try discriminate.
            inversion E1; reflexivity.
          - inversion E1; reflexivity. }
        destruct (rev (c0 :: r0)) as [|c1 r1].
        * cbn [rbind]. intros H. inversion H; subst. eexists _, _. split; [reflexivity|].
          cbn [fst snd]. rewrite !app_length, repeat_length, L1. cbn. lia.
        * assert (E2 : exists e2, (if is_space c1 then do q <- py_last (s_pos incl); Ok ([c1], [q])
                                   else Ok ([], [])) = e2) by (eexists; reflexivity).
          destruct E2 as [e2 E2]. rewrite E2. destruct e2 as [[t2 p2]| | |]; cbn [rbind]; try discriminate.
          assert (L2 : length t2 = length p2).
          { destruct (is_space c1).
            - destruct (py_last (s_pos incl)); cbn [rbind] in E2; try discriminate.
              inversion E2; reflexivity.
            - inversion E2; reflexivity. }
          intros H. inversion H; subst. eexists _, _. split; [reflexivity|].
          cbn [fst snd]. rewrite !app_length, repeat_length, L1, L2. reflexivity.
  Qed.

  (* the placeholder comes from the language-change collection of the part
     it is written into (the language of sec), rotated by one; around it at
     most the blank at each edge of the insertion *)
  Theorem placeholder_of_part_language rot sec incl sec' rot' :
    blank is_space (s_txt incl) = false ->
    append_placeholder rot sec incl = Ok (sec', rot') ->
    let key := check_lang (s_lang sec) in
    let coll := match find (fun e => str_eqb (fst e) key) rot with
                | Some e => snd e | None => [] end in
    exists x r ph rest e1 e2,
      coll = x :: r /\ r ++ [x] = ph :: rest /\
      s_txt sec' = s_txt sec ++ e1 ++ ph ++ e2 /\
      (e1 = [] \/ exists c, e1 = [c] /\ is_space c = true) /\
      (e2 = [] \/ exists c, e2 = [c] /\ is_space c = true) /\
      rot' = map (fun e => if str_eqb (fst e) key then (fst e, ph :: rest) else e) rot.
  Proof.
    intros Hb H key coll. unfold Ml.append_placeholder in H. rewrite Hb in H.
    fold key in H. fold coll in H.
    destruct coll as [|x r] eqn:Ec; [discriminate|].
    destruct (r ++ [x]) as [|ph rest] eqn:Er.
    { exfalso. apply (app_cons_not_nil r [] x). symmetry. exact Er. }
    destruct (py_nth (s_pos incl) _) as [p0| | |]; cbn [rbind] in H; try discriminate.
    assert (E1 : (exists t1 p1, edge_first is_space incl = Ok (t1, p1) /\
                 (t1 = [] \/ exists c, t1 = [c] /\ is_space c = true)) \/
                 (forall v, edge_first is_space incl <> Ok v)).
    { unfold edge_first. destruct (s_txt incl) as [|c0 r0]; [left; eexists _, _; split; [reflexivity | left; reflexivity]|].
      destruct (is_space c0) eqn:Es.
      - destruct (py_nth (s_pos incl) 0) as [q| | |]; cbn [rbind].
        + left. eexists _, _. split; [reflexivity|]. right. exists c0. split; [reflexivity | exact Es].
        + right. intros v C; discriminate.
        + right. intros v C; discriminate.
        + right. intros v C; discriminate.
      - left. eexists _, _. split; [reflexivity | left; reflexivity]. }
    destruct E1 as [(t1 & p1 & E1 & Ht1)|E1]; [|destruct (edge_first is_space incl); cbn [rbind] in H; try discriminate; exfalso; eapply E1; reflexivity].
    rewrite E1 in H. cbn [rbind] in H.
    assert (E2 : (exists t2 p2, edge_last is_space incl = Ok (t2, p2) /\
                 (t2 = [] \/ exists c, t2 = [c] /\ is_space c = true)) \/
                 (forall v, edge_last is_space incl <> Ok v)).
    { unfold edge_last. destruct (rev (s_txt incl)) as [|c1 r1]; [left; eexists _, _; split; [reflexivity | left; reflexivity]|].
      destruct (is_space c1) eqn:Es.
      - destruct (py_last (s_pos incl)) as [q| | |]; cbn [rbind].
        + left. eexists _, _. split; [reflexivity|]. right. exists c1. split; [reflexivity | exact Es].
        + right. intros v C; discriminate.
        + right. intros v C; discriminate.
        + right. intros v C; discriminate.
      - left. eexists _, _. split; [reflexivity | left; reflexivity]. }
    destruct E2 as [(t2 & p2 & E2 & Ht2)|E2]; [|destruct (edge_last is_space incl); cbn [rbind] in H; try discriminate; exfalso; eapply E2; reflexivity].
    rewrite E2 in H. cbn [rbind] in H. inversion H; subst sec' rot'.
    exists x, r, ph, rest, t1, t2. cbn [s_txt fst snd].
    repeat split; try assumption; reflexivity.
  Qed.

  (* the work list: its first entry may already be a gluing *)
  Theorem join_glued : forall fuel h g0 rest rot out res,
    glued h g0 ->
    Forall (fun s => length (s_txt s) = length (s_pos s)) (g0 ++ rest) ->
    join_sections fuel (h :: rest) rot out = Ok res ->
    exists parts groups,
      res = out ++ parts /\
      Forall2 glued parts groups /\
      Permutation (concat groups) (g0 ++ rest) /\
      Forall (fun g => subseq g (g0 ++ rest)) groups.
  Proof.
    induction fuel as [|k IH]; intros h g0 rest rot out res Hg HL H; [discriminate|].
    cbn [Ml.join_sections] in H. destruct rest as [|s1 rest].
    - inversion H; subst. exists [h], [g0]. rewrite app_nil_r.
      split; [reflexivity|]. split; [constructor; [exact Hg | constructor]|].
      cbn [concat]. rewrite app_nil_r. split; [apply Permutation_refl|].
      constructor; [apply subseq_refl | constructor].
    - assert (HL1 : length (s_txt s1) = length (s_pos s1)).
      { apply Forall_app in HL. destruct HL as [_ HL2]. inversion HL2; assumption. }
      destruct (negb (s_brk s1) && negb (s_back s1)
                && match rest with [] => true | s2 :: _ => str_eqb (s_lang h) (s_lang s2) end
                && short_section is_space thresh s1) eqn:Ec.
      + destruct (append_placeholder rot h s1) as [[h' rot']| | |] eqn:Ea; cbn [rbind] in H;
          try discriminate.
        destruct (append_grows rot h s1 h' rot' HL1 Ea) as (t & p & Eh & Etp). subst h'.
        assert (Hg' : glued (grow h t p) g0) by (apply g_ins; assumption).
        destruct rest as [|s2 rest'].
        * (* the insertion is the last section *)
          destruct (IH (grow h t p) g0 [] rot' (out ++ [s1]) res Hg') as (parts & groups & Er & HF & HP & HS).
          { apply Forall_app in HL. rewrite app_nil_r. apply HL. }
          { exact H. }
          exists (s1 :: parts), ([s1] :: groups).
          split; [rewrite Er, <- app_assoc; reflexivity|].
          split; [constructor; [apply g_one | exact HF]|].
          rewrite app_nil_r in HP, HS. split.
          -- cbn [concat app]. apply (Permutation_trans (perm_skip s1 HP)).
             apply Permutation_cons_append.
          -- constructor; [apply subseq_one_mid|].
             eapply Forall_impl; [|exact HS]. intros g Hs.
             replace (g0 ++ [s1]) with (g0 ++ s1 :: []) by reflexivity.
             apply subseq_skip_mid. rewrite app_nil_r. exact Hs.
        * (* the sentence goes on in the same part *)
          apply andb_true_iff in Ec. destruct Ec as [Ec _].
          apply andb_true_iff in Ec. destruct Ec as [_ El].
          change {| s_lang := s_lang (grow h t p); s_back := s_back (grow h t p);
                    s_brk := s_brk (grow h t p);
                    s_txt := s_txt (grow h t p) ++ s_txt s2;
                    s_pos := s_pos (grow h t p) ++ s_pos s2 |}
            with (grow (grow h t p) (s_txt s2) (s_pos s2)) in H.
          assert (Hg2 : glued (grow (grow h t p) (s_txt s2) (s_pos s2)) (g0 ++ [s2])).
          { apply g_app; [exact Hg' | exact El]. }
          destruct (IH _ (g0 ++ [s2]) rest' rot' (out ++ [s1]) res Hg2) as (parts & groups & Er & HF & HP & HS).
          { apply Forall_app in HL. destruct HL as [HLa HLb].
            inversion HLb as [|? ? _ HLc]; subst. rewrite <- app_assoc. apply Forall_app.
            split; [exact HLa | exact HLc]. }
          { exact H. }
          exists (s1 :: parts), ([s1] :: groups).
          split; [rewrite Er, <- app_assoc; reflexivity|].
          split; [constructor; [apply g_one | exact HF]|].
          rewrite <- app_assoc in HP, HS. cbn [app] in HP, HS. split.
          -- cbn [concat app]. apply Permutation_cons_app. exact HP.
          -- constructor; [apply subseq_one_mid|].
             eapply Forall_impl; [|exact HS]. intros g Hs. apply subseq_skip_mid. exact Hs.
      + (* the part in front is complete *)
        destruct (IH s1 [s1] rest rot (out ++ [h]) res (g_one s1)) as (parts & groups & Er & HF & HP & HS).
        { apply Forall_app in HL. apply HL. }
        { exact H. }
        exists (h :: parts), (g0 :: groups).
        split; [rewrite Er, <- app_assoc; reflexivity|].
        split; [constructor; [exact Hg | exact HF]|].
        cbn [app] in HP, HS. split.
        * cbn [concat]. apply Permutation_app_head. exact HP.
        * constructor.
          -- rewrite <- (app_nil_r g0) at 1. apply subseq_app_l. constructor.
          -- eapply Forall_impl; [|exact HS]. intros g Hs.
             clear - Hs. induction g0 as [|x g0 IHg]; [exact Hs | cbn [app]; apply ss_skip; exact IHg].
  Qed.

  (* from the list of sections the splitting produced *)
  Theorem join_sections_glued fuel secs rot res :
    Forall (fun s => length (s_txt s) = length (s_pos s)) secs ->
    join_sections fuel secs rot [] = Ok res ->
    exists groups,
      Forall2 glued res groups /\
      Permutation (concat groups) secs /\
      Forall (fun g => subseq g secs) groups.
  Proof.
    intros HL H. destruct secs as [|h rest].
    - destruct fuel; [discriminate|]. cbn [Ml.join_sections] in H. inversion H; subst.
      exists []. split; [constructor|]. split; [apply Permutation_refl | constructor].
    - destruct (join_glued fuel h [h] rest rot [] res (g_one h) HL H) as (parts & groups & Er & HF & HP & HS).
      cbn [app] in Er. subst res. exists groups. repeat split; assumption.
  Qed.

  (* ---- the table of parts per language ---- *)
  Definition part (s : lsec) : str * list Z := (s_txt s, s_pos s).
  Definition parts_of (l : str) (tbl : list (str * list (str * list Z))) : list (str * list Z) :=
    flat_map (fun e => if str_eqb (fst e) l then snd e else []) tbl.

  Lemma parts_of_app l a b : parts_of l (a ++ b) = parts_of l a ++ parts_of l b.
  Proof. unfold parts_of. apply flat_map_app. Qed.

  Lemma parts_of_absent l tbl :
    existsb (fun e => str_eqb (fst e) l) tbl = false -> parts_of l tbl = [].
  Proof.
    induction tbl as [|e tbl IH]; [reflexivity|]. cbn [existsb]. intros H.
    apply orb_false_iff in H. destruct H as [H1 H2]. unfold parts_of. cbn [flat_map].
    rewrite H1. cbn [app]. apply IH. exact H2.
  Qed.

  Definition upd (k : str) (x : str * list Z) (e : str * list (str * list Z)) :=
    if str_eqb (fst e) k then (fst e, snd e ++ [x]) else e.
  Lemma upd_key k x e : fst (upd k x e) = fst e.
  Proof. unfold upd. destruct (str_eqb (fst e) k); reflexivity. Qed.
  Lemma map_upd_keys k x tbl : map fst (map (upd k x) tbl) = map fst tbl.
  Proof. rewrite map_map. apply map_ext. intros e. apply upd_key. Qed.

  Lemma parts_of_upd_other l k x tbl : str_eqb k l = false ->
    parts_of l (map (upd k x) tbl) = parts_of l tbl.
  Proof.
    intros Hn. induction tbl as [|e tbl IH]; [reflexivity|].
    unfold parts_of in *. cbn [map flat_map]. rewrite IH. f_equal.
    unfold upd. destruct (str_eqb (fst e) k) eqn:E; [|reflexivity].
    cbn [fst snd]. apply str_eqb_eq in E. rewrite E, Hn. destruct (str_eqb k l); reflexivity.
  Qed.
  Lemma parts_of_upd_same k x tbl :
    NoDup (map fst tbl) -> existsb (fun e => str_eqb (fst e) k) tbl = true ->
    parts_of k (map (upd k x) tbl) = parts_of k tbl ++ [x].
  Proof.
    induction tbl as [|e tbl IH]; intros Hnd Hex; [discriminate|].
    cbn [map] in Hnd. inversion Hnd as [|? ? Hni Hnd']; subst.
    unfold parts_of in *. cbn [map flat_map].
    destruct (str_eqb (fst e) k) eqn:E.
    - assert (Eu : upd k x e = (fst e, snd e ++ [x])) by (unfold upd; rewrite E; reflexivity).
      rewrite Eu. cbn [fst snd]. rewrite E.
      assert (Hab : existsb (fun e0 => str_eqb (fst e0) k) tbl = false).
      { destruct (existsb (fun e0 => str_eqb (fst e0) k) tbl) eqn:Ex; [|reflexivity].
        exfalso. apply existsb_exists in Ex. destruct Ex as (e' & Hin & He').
        apply str_eqb_eq in E. apply str_eqb_eq in He'. apply Hni. rewrite E, <- He'.
        apply in_map. exact Hin. }
      pose proof (parts_of_absent k tbl Hab) as Z1. unfold parts_of in Z1.
      assert (Z2 : flat_map (fun e0 => if str_eqb (fst e0) k then snd e0 else []) (map (upd k x) tbl) = []).
      { apply (parts_of_absent k (map (upd k x) tbl)). rewrite <- Hab.
        clear. induction tbl as [|e' tbl IH']; [reflexivity|]. cbn [map existsb].
        rewrite upd_key, IH'. reflexivity. }
      rewrite Z1, Z2, !app_nil_r. reflexivity.
    - assert (Eu : upd k x e = e) by (unfold upd; rewrite E; reflexivity).
      rewrite Eu, E. cbn [existsb] in Hex. rewrite E in Hex. cbn [orb] in Hex.
      rewrite (IH Hnd' Hex). reflexivity.
  Qed.

  Lemma NoDup_app_one {A} (l : list A) x : NoDup l -> ~ In x l -> NoDup (l ++ [x]).
  Proof.
    induction 1 as [|y l Hy Hl IH]; intros Hx; cbn [app].
    - constructor; [intros [] | constructor].
    - constructor.
      + intros Hin. apply in_app_or in Hin. destruct Hin as [Hin|[Hin|[]]]; [exact (Hy Hin)|].
        subst. apply Hx. left. reflexivity.
      + apply IH. intros Hin. apply Hx. right. exact Hin.
  Qed.

  Theorem group_lang_spec : forall out acc l,
    NoDup (map fst acc) ->
    parts_of l (group_lang out acc) =
    parts_of l acc ++ map part (filter (fun s => str_eqb (s_lang s) l) out).
  Proof.
    induction out as [|s out IH]; intros acc l Hnd; cbn [group_lang filter map].
    - rewrite app_nil_r. reflexivity.
    - destruct (existsb (fun e => str_eqb (fst e) (s_lang s)) acc) eqn:Ex.
      + change (map (fun e => if str_eqb (fst e) (s_lang s) then (fst e, snd e ++ [(s_txt s, s_pos s)]) else e) acc)
          with (map (upd (s_lang s) (part s)) acc).
        rewrite IH by (rewrite map_upd_keys; exact Hnd).
        destruct (str_eqb (s_lang s) l) eqn:El.
        * apply str_eqb_eq in El. subst l. rewrite (parts_of_upd_same _ _ _ Hnd Ex).
          cbn [map]. rewrite <- app_assoc. reflexivity.
        * rewrite (parts_of_upd_other l _ _ _ El). reflexivity.
      + rewrite IH.
        * rewrite parts_of_app. unfold parts_of at 2. cbn [flat_map fst snd].
          destruct (str_eqb (s_lang s) l); cbn [map app]; rewrite ?app_nil_r, <- ?app_assoc; reflexivity.
        * rewrite map_app. cbn [map fst]. apply NoDup_app_one; [exact Hnd|].
          intros Hin. apply in_map_iff in Hin. destruct Hin as (e & Ee & Hin).
          assert (X : existsb (fun e => str_eqb (fst e) (s_lang s)) acc = true).
          { apply existsb_exists. exists e. split; [exact Hin | apply str_eqb_eq; exact Ee]. }
          congruence.
  Qed.

  (* end to end through get_txt_pos_ml *)
  Theorem ml_every_section_in_one_part toks main rot res :
    get_txt_pos_ml is_space check_lang thresh toks main rot = Ok res ->
    let secs := sections toks [main] false false [] [] in
    exists out groups,
      Forall2 glued out groups /\
      Permutation (concat groups) secs /\
      Forall (fun g => subseq g secs) groups /\
      forall l, parts_of l res = map part (filter (fun s => str_eqb (s_lang s) l) out).
  Proof.
    intros H secs. unfold get_txt_pos_ml in H. fold secs in H.
    destruct (join_sections (S (length secs)) secs rot []) as [out| | |] eqn:Ej; try discriminate.
    cbn [rbind] in H. inversion H; subst res.
    assert (HL : Forall (fun s => length (s_txt s) = length (s_pos s)) secs).
    { pose proof (sections_ok (fun _ => True) toks [main] false false [] []) as Hs.
      eapply Forall_impl; [|apply Hs].
      - intros s [A _]. exact A.
      - apply Forall_forall. intros t _. unfold tok_R. apply Forall_forall. intros; exact I.
      - constructor.
      - constructor. }
    destruct (join_sections_glued _ secs rot out HL Ej) as (groups & HF & HP & HS).
    exists out, groups. repeat split; try assumption.
    intros l. rewrite group_lang_spec by constructor. reflexivity.
  Qed.
End MlJoin.
