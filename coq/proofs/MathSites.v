(* C10, through the maths loop: an inline formula whose body holds no control
   word, environment or paragraph break.  The loop of the maths parser turns
   every token of the body into a maths token by itself (element, operator,
   maths space, or nothing), stops at the closing delimiter, and the formula
   is rendered as: a blank if it starts with maths space; exactly one
   placeholder, the one the rotation brings to the front; the formula's last
   character if that is a punctuation mark; a blank if it ends with maths
   space -- between two action tokens, all of it pinned at the first maths
   token; the collection stays rotated by one. *)
From Coq Require Import Lia String.
From YV Require Import PyBase PyBaseProofs ShellMap Token Utils Scanner Rpal PState
                       Parser Expand Math Exec ExpandSites.
Open Scope Z_scope.

Section MathSites.
  Variable T : tables.
  Variable rd : str -> option str.

  (* a token the maths loop converts by itself; a control word qualifies if
     it is not declared (and no maths text macro): it leaves one maths token *)
  Definition mok (st : pstate) (stops : list str) (t : tok) : Prop :=
    match tk t with
    | KPar | KBegin | KEnd => False
    | KMacro => assoc (txt t) (macros st) = None /\
                mem_str (txt t) (math_text_macros st) = false
    | _ => True end /\
    (buf_is_space t = false -> mem_str (txt t) stops = false).

  Definition mokb (st : pstate) (stops : list str) (t : tok) : bool :=
    match tk t with
    | KPar | KBegin | KEnd => false
    | KMacro => match assoc (txt t) (macros st) with None => true | Some _ => false end
                && negb (mem_str (txt t) (math_text_macros st))
    | _ => true end
    && (buf_is_space t || negb (mem_str (txt t) stops)).
  Lemma mokb_ok st stops t : mokb st stops t = true -> mok st stops t.
  Proof.
    unfold mokb, mok. intros H. apply andb_true_iff in H. destruct H as [H1 H2]. split.
    - destruct (tk t); try discriminate; try exact I.
      apply andb_true_iff in H1. destruct H1 as [A B].
      destruct (assoc (txt t) (macros st)); [discriminate|]. split; [reflexivity|].
      apply negb_true_iff in B. exact B.
    - intros Hs. rewrite Hs in H2. cbn [orb] in H2. apply negb_true_iff in H2. exact H2.
  Qed.

  Definition mconv (st : pstate) (t : tok) : list tok :=
    if buf_is_space t then [] else
    match tk t with
    | KMathElem | KMathOper | KMathSpace => [t]
    | KMacro =>
        if mem_str (txt t) (t_math_space T) then [mk KMathSpace (pos t) s_space false]
        else if mem_str (txt t) (math_operators st) then [mk KMathOper (pos t) (txt t) false]
        else if mem_str (txt t) (t_math_ignore T) then []
        else [mk KMathElem (pos t) (txt t) false]
    | _ => if mem_str (txt t) (t_math_ignore T) then []
           else if mem_str (txt t) (t_math_space T)
           then [mk KMathSpace (pos t) s_space false]
           else if mem_str (txt t) (math_operators st)
           then [mk KMathOper (pos t) (special_txt T t) false]
           else [mk KMathElem (pos t) (special_txt T t) false]
    end.

  Lemma mconv_math st t : Forall (fun x => is_math_tok x = true) (mconv st t).
  Proof.
    unfold mconv. destruct (buf_is_space t); [constructor|].
    destruct (tk t) eqn:Ek;
      try (destruct (mem_str (txt t) (t_math_ignore T)); [constructor|];
           destruct (mem_str (txt t) (t_math_space T)); [repeat constructor|];
           destruct (mem_str (txt t) (math_operators st)); repeat constructor);
      try (destruct (mem_str (txt t) (t_math_space T)); [repeat constructor|];
           destruct (mem_str (txt t) (math_operators st)); [repeat constructor|];
           destruct (mem_str (txt t) (t_math_ignore T)); repeat constructor);
      constructor; try constructor; unfold is_math_tok; rewrite Ek; reflexivity.
  Qed.

  (* fuel: a control word takes three turns, any other token at most one *)
  Definition mwt (t : tok) : nat := match tk t with KMacro => 3%nat | _ => 1%nat end.
  Definition mmu (l : list tok) : nat := fold_right (fun t n => (mwt t + n)%nat) 0%nat l.
  Lemma mmu_app a b : mmu (a ++ b) = (mmu a + mmu b)%nat.
  Proof. induction a as [|x a IH]; [reflexivity|]. cbn [app mmu fold_right]. fold (mmu (a ++ b)).
         fold (mmu a). rewrite IH. lia. Qed.

  (* the skip behind a control word, seen from inside a formula *)
  Lemma skip_ctl_split b : exists pre, b = pre ++ skip_ctl b /\
    Forall (fun t => buf_is_space t = true) pre.
  Proof.
    induction b as [|t b IH]; [exists []; split; [reflexivity | constructor]|].
    cbn [skip_ctl]. destruct (buf_is_space t && negb (is_lang t) && negb (is_action t)) eqn:E.
    - apply andb_true_iff in E. destruct E as [E _].
      apply andb_true_iff in E. destruct E as [E _]. destruct IH as (pre & E1 & F).
      exists (t :: pre). split; [cbn [app]; f_equal; exact E1 | constructor; assumption].
    - exists []. split; [reflexivity | constructor].
  Qed.
  Lemma skip_ctl_app b c rest : buf_is_space c = false ->
    skip_ctl (b ++ c :: rest) = skip_ctl b ++ c :: rest.
  Proof.
    intros Hc. induction b as [|t b IH]; cbn [app skip_ctl].
    - rewrite Hc. reflexivity.
    - destruct (buf_is_space t && negb (is_lang t) && negb (is_action t)); [exact IH | reflexivity].
  Qed.
  Lemma mconv_spaces st pre : Forall (fun t => buf_is_space t = true) pre ->
    flat_map (mconv st) pre = [].
  Proof.
    induction 1 as [|t l Ht Hl IH]; [reflexivity|]. cbn [flat_map]. rewrite IH.
    unfold mconv. rewrite Ht. reflexivity.
  Qed.

  Lemma math_loop stops es start st c rest :
    buf_is_space c = false -> tk c <> KPar -> mem_str (txt c) stops = true ->
    mem_str s_space stops = false ->
    forall fuel body out,
      Forall (mok st stops) body -> (mmu body < fuel)%nat ->
      exec T rd fuel (TMath (body ++ c :: rest) start stops es out) st
        = Ok (st, AMath (finish_math (out ++ flat_map (mconv st) body)) (Some c) rest).
  Proof.
    intros Hc Hk Hs Hsp. induction fuel as [|k IHk]; intros body out Hb Hf; [lia|].
    induction body as [|t b IHb] in out, Hb, Hf |- *.
    - cbn [exec step app flat_map].
      unfold step_math. cbn [skip_space]. rewrite Hc, Hs, app_nil_r.
      destruct (tk c); try reflexivity. contradiction.
    - inversion Hb as [|? ? [Ht1 Ht2] Hb']; subst.
      cbn [mmu fold_right] in Hf. fold (mmu b) in Hf.
      assert (Hw : (1 <= mwt t)%nat) by (unfold mwt; destruct (tk t); lia).
      destruct (buf_is_space t) eqn:Esp.
      + (* skipped together with the next step *)
        assert (E : exec T rd (S k) (TMath ((t :: b) ++ c :: rest) start stops es out) st
                    = exec T rd (S k) (TMath (b ++ c :: rest) start stops es out) st).
        { cbn [exec step app]. unfold step_math. cbn [skip_space]. rewrite Esp. reflexivity. }
        rewrite E. rewrite (IHb out Hb') by lia.
        cbn [flat_map]. unfold mconv at 2. rewrite Esp. reflexivity.
      + specialize (Ht2 eq_refl).
        cbn [exec step app]. unfold step_math. cbn [skip_space]. rewrite Esp, Ht2.
        assert (Hm : out ++ flat_map (mconv st) (t :: b)
                     = (out ++ mconv st t) ++ flat_map (mconv st) b)
          by (cbn [flat_map]; rewrite app_assoc; reflexivity).
        rewrite Hm. unfold mconv at 1. rewrite Esp.
        destruct (tk t) eqn:Ek; try contradiction;
          try (rewrite (IHk b _ Hb') by (unfold mwt in Hf; rewrite Ek in Hf; lia); reflexivity);
          try (destruct (mem_str (txt t) (t_math_ignore T));
               [rewrite app_nil_r; apply IHk; [exact Hb' | unfold mwt in Hf; rewrite Ek in Hf; lia]|];
               destruct (mem_str (txt t) (t_math_space T));
               [apply IHk; [exact Hb' | unfold mwt in Hf; rewrite Ek in Hf; lia]|];
               destruct (mem_str (txt t) (math_operators st)); apply IHk;
               (exact Hb' || (unfold mwt in Hf; rewrite Ek in Hf; lia))).
        (* an undeclared control word *)
        destruct Ht1 as [Hund Htm]. rewrite Htm.
        unfold expand_macro. rewrite Hund. cbn [orb rbind].
        rewrite (skip_ctl_app b c rest Hc).
        destruct (skip_ctl_split b) as (pre & Eb & Hpre).
        assert (Hb2 : Forall (mok st stops) (skip_ctl b)).
        { rewrite Eb in Hb'. apply Forall_app in Hb'. apply Hb'. }
        assert (Hmu2 : (mmu (skip_ctl b) <= mmu b)%nat).
        { rewrite Eb at 2. rewrite mmu_app. lia. }
        assert (Hfm : flat_map (mconv st) b = flat_map (mconv st) (skip_ctl b)).
        { rewrite Eb at 1. rewrite flat_map_app, (mconv_spaces st pre Hpre). reflexivity. }
        assert (Hact : mok st stops (ActionT (pos t))).
        { split; [exact I | intros X; discriminate X]. }
        unfold mwt in Hf. rewrite Ek in Hf.
        assert (Hmt : forall m, (tk m = KMathSpace \/ tk m = KMathOper \/ tk m = KMathElem) ->
                      mem_str (txt m) stops = false ->
                      exec T rd k (TMath ((m :: ActionT (pos t) :: skip_ctl b) ++ c :: rest)
                                         start stops es out) st
                      = Ok (st, AMath (finish_math ((out ++ [m]) ++ flat_map (mconv st) b))
                                      (Some c) rest)).
        { intros m Hkm Hsm.
          rewrite (IHk (m :: ActionT (pos t) :: skip_ctl b) out).
          - cbn [flat_map]. rewrite Hfm.
            assert (Em : mconv st m = [m]).
            { unfold mconv. destruct Hkm as [X|[X|X]]; unfold buf_is_space; rewrite X; reflexivity. }
            rewrite Em. cbn [app]. rewrite <- app_assoc. reflexivity.
          - constructor; [|constructor; [exact Hact | exact Hb2]].
            split; [destruct Hkm as [X|[X|X]]; rewrite X; exact I | intros _; exact Hsm].
          - cbn [mmu fold_right]. fold (mmu (skip_ctl b)).
            assert (mwt m = 1%nat) by (unfold mwt; destruct Hkm as [X|[X|X]]; rewrite X; reflexivity).
            assert (mwt (ActionT (pos t)) = 1%nat) by reflexivity. lia. }
        destruct (mem_str (txt t) (t_math_space T)).
        * apply (Hmt (mk KMathSpace (pos t) s_space false)); [left; reflexivity | exact Hsp].
        * destruct (mem_str (txt t) (math_operators st)).
          -- apply (Hmt (mk KMathOper (pos t) (txt t) false)); [right; left; reflexivity | exact Ht2].
          -- rewrite Hund. cbn [orb]. destruct (mem_str (txt t) (t_math_ignore T)); cbn [negb].
             ++ rewrite app_nil_r.
                assert (H0 : exec T rd k (TMath ((ActionT (pos t) :: skip_ctl b) ++ c :: rest)
                                                start stops es out) st
                             = Ok (st, AMath (finish_math (out ++ flat_map (mconv st) b))
                                             (Some c) rest)).
                { rewrite (IHk (ActionT (pos t) :: skip_ctl b) out).
                  - cbn [flat_map]. rewrite Hfm. reflexivity.
                  - constructor; assumption.
                  - cbn [mmu fold_right]. fold (mmu (skip_ctl b)).
                    assert (mwt (ActionT (pos t)) = 1%nat) by reflexivity. lia. }
                exact H0.
             ++ apply (Hmt (mk KMathElem (pos t) (txt t) false));
                  [right; right; reflexivity | exact Ht2].
  Qed.

  Lemma detect_all : forall ts cur,
    Forall (fun x => is_math_tok x = true) ts -> (ts <> [] \/ cur <> []) ->
    detect_math_parts ts cur = [MPart (rev cur ++ ts)].
  Proof.
    induction ts as [|t ts IH]; intros cur Hm Hne.
    - cbn [detect_math_parts]. destruct cur as [|x cur]; [destruct Hne; contradiction|].
      rewrite app_nil_r. reflexivity.
    - inversion Hm as [|? ? Ht Hts]; subst. cbn [detect_math_parts]. rewrite Ht.
      rewrite (IH (t :: cur) Hts) by (right; discriminate).
      cbn [rev]. rewrite <- app_assoc. reflexivity.
  Qed.

  Lemma finish_math_id ts :
    Forall (fun x => is_math_tok x = true) ts -> finish_math ts = ts.
  Proof.
    induction 1 as [|t ts Ht Hts IH]; [reflexivity|]. unfold finish_math in *. cbn [filter].
    unfold is_math_tok in Ht. destruct (tk t); try discriminate; rewrite IH; reflexivity.
  Qed.

  Lemma last_pos_snoc l x : last_pos (l ++ [x]) = Ok (pos x).
  Proof. unfold last_pos, py_last. rewrite rev_app_distr. reflexivity. Qed.

  Definition inline_stops : list str := [s2l "$"; s2l "\)"].

  Theorem inline_math_plain k st t body c rest p ph rest0 :
    buf_is_space c = false -> tk c <> KPar -> mem_str (txt c) inline_stops = true ->
    Forall (mok st inline_stops) body -> (mmu body < k)%nat ->
    let ts := flat_map (mconv st) body in
    first_pos ts = Ok p ->
    forallb is_mspace ts = false ->
    rotate (get_repls st false) = ph :: rest0 ->
    exists sp1 pc sp2,
      expand_inline_math T (exec T rd k) st (body ++ c :: rest) t =
        Ok (set_repls st false (ph :: rest0),
            ([ActionT (pos t)] ++ sp1 ++ [TextF p ph] ++ pc ++ sp2 ++ [ActionT p], rest)) /\
      sp1 = (match ts with
             | t0 :: _ => if is_mspace t0 then [SpaceF p s_space] else []
             | [] => [] end) /\
      (pc = [] \/ exists ch, pc = [TextF p [ch]] /\ last_char T ts = [ch]
                             /\ mem_str [ch] (t_math_punctuation T) = true) /\
      sp2 = (match rev ts with
             | t1 :: _ => if is_mspace t1 then [SpaceF p s_space] else []
             | [] => [] end) /\
      get_repls (set_repls st false (ph :: rest0)) false = ph :: rest0.
  Proof.
    intros Hc Hk Hs Hb Hf ts Hp Hsp Hrot.
    assert (Hm : Forall (fun x => is_math_tok x = true) ts).
    { unfold ts. clear. induction body as [|x b IH]; [constructor|].
      cbn [flat_map]. apply Forall_app. split; [apply mconv_math | exact IH]. }
    assert (Hne : ts <> []).
    { intros E. rewrite E in Hp. discriminate. }
    unfold expand_inline_math, run_math_section.
    change [s2l "$"; s2l "\)"] with inline_stops.
    rewrite (math_loop inline_stops None (pos t) st c rest Hc Hk Hs eq_refl k body [] Hb Hf).
    cbn [rbind fst snd app]. fold ts. rewrite (finish_math_id ts Hm).
    rewrite (detect_all ts [] Hm (or_introl Hne)). cbn [rev app].
    destruct (replace_section_inline T st ts false true [ActionT (pos t)] p ph rest0 Hp Hsp Hrot)
      as (sp1 & pc & sp2 & nr' & E & E1 & E2 & E3 & E4).
    rewrite E. cbn [rbind].
    assert (Hl : last_pos ([ActionT (pos t)] ++ sp1 ++ [TextF p ph] ++ pc ++ sp2) = Ok p).
    { assert (Hsp2 : sp2 = [] \/ sp2 = [SpaceF p s_space]).
      { rewrite E3. destruct (rev ts) as [|t1 r]; [left; reflexivity|].
        destruct (is_mspace t1); [right | left]; reflexivity. }
      destruct Hsp2 as [Z2|Z2]; rewrite Z2.
      - rewrite app_nil_r. destruct E2 as [Z1|(ch & Z1 & _)]; rewrite Z1.
        + rewrite app_nil_r.
          replace ([ActionT (pos t)] ++ sp1 ++ [TextF p ph])
            with (([ActionT (pos t)] ++ sp1) ++ [TextF p ph]) by (rewrite <- app_assoc; reflexivity).
          apply last_pos_snoc.
        + replace ([ActionT (pos t)] ++ sp1 ++ [TextF p ph] ++ [TextF p [ch]])
            with (([ActionT (pos t)] ++ sp1 ++ [TextF p ph]) ++ [TextF p [ch]])
            by (rewrite <- !app_assoc; reflexivity).
          apply last_pos_snoc.
      - replace ([ActionT (pos t)] ++ sp1 ++ [TextF p ph] ++ pc ++ [SpaceF p s_space])
          with (([ActionT (pos t)] ++ sp1 ++ [TextF p ph] ++ pc) ++ [SpaceF p s_space])
          by (rewrite <- !app_assoc; reflexivity).
        apply last_pos_snoc. }
    rewrite Hl. cbn [rbind].
    exists sp1, pc, sp2. split; [|repeat split; assumption].
    f_equal. f_equal. f_equal. rewrite <- !app_assoc. reflexivity.
  Qed.

  (* ---------------- displayed equations ---------------- *)
  (* the first section of an equation that holds an element: one placeholder
     of the display collection at the position of the element *)
  Theorem replace_section_display_first st ts out p e ph rest0 :
    first_pos ts = Ok p ->
    forallb is_mspace ts = false ->
    has_elem T ts = Some e ->
    rotate (get_repls st true) = ph :: rest0 ->
    exists sp1 pc sp2 nr',
      replace_section T st false true [MPart ts] false true out =
        Ok (set_repls st true (ph :: rest0),
            out ++ sp1 ++ [TextF (pos e) ph] ++ pc ++ sp2, nr') /\
      sp1 = (match ts with
             | t0 :: _ => if is_mspace t0 then [SpaceF p s_space] else []
             | [] => [] end) /\
      (pc = [] \/ exists c, pc = [TextF p [c]] /\ last_char T ts = [c]
                            /\ mem_str [c] (t_math_punctuation T) = true) /\
      sp2 = (match rev ts with
             | t1 :: _ => if is_mspace t1 then [SpaceF p s_space] else []
             | [] => [] end).
  Proof.
    intros Hp Hsp He Hrot. cbn [replace_section]. rewrite Hp. cbn [rbind]. rewrite Hsp, He.
    cbn [negb andb orb]. rewrite Hrot, get_set_repls. cbn [rbind].
    set (sp1 := match ts with
                | t0 :: _ => if is_mspace t0 then [SpaceF p s_space] else []
                | [] => [] end).
    set (sp2 := match rev ts with
                | t1 :: _ => if is_mspace t1 then [SpaceF p s_space] else []
                | [] => [] end).
    assert (E1 : match ts with
                 | t0 :: _ => if is_mspace t0 then out ++ [SpaceF p s_space] else out
                 | [] => out end = out ++ sp1).
    { unfold sp1. destruct ts as [|t0 r]; [rewrite app_nil_r; reflexivity|].
      destruct (is_mspace t0); [reflexivity | rewrite app_nil_r; reflexivity]. }
    rewrite E1.
    assert (E0 : forall o : list tok,
               match leading_op ts with
               | Some _ => o | None => o end = o) by (intros; destruct (leading_op ts); reflexivity).
    rewrite E0.
    assert (Et : forall (o : list tok) (b : bool),
               (let o' := o in
                match rev ts with
                | t1 :: _ => if is_mspace t1 then o' ++ [SpaceF p s_space] else o'
                | [] => o' end) = o ++ sp2).
    { intros o _. unfold sp2. destruct (rev ts) as [|t1 r]; [rewrite app_nil_r; reflexivity|].
      destruct (is_mspace t1); [reflexivity | rewrite app_nil_r; reflexivity]. }
    cbv zeta in Et.
    destruct (last_char T ts) as [|c lc] eqn:Elc.
    - exists sp1, [], sp2. eexists. split; [|split; [reflexivity|split; [left; reflexivity|reflexivity]]].
      rewrite (Et _ true). rewrite <- !app_assoc. reflexivity.
    - destruct (mem_str (c :: lc) (t_math_punctuation T)) eqn:Em.
      + assert (lc = []) as Hl.
        { unfold last_char in Elc. destruct (rev (strip _ _)) as [|x y]; inversion Elc; reflexivity. }
        subst lc. exists sp1, [TextF p [c]], sp2. eexists.
        split; [|split; [reflexivity|split; [right; exists c; repeat split; assumption|reflexivity]]].
        rewrite (Et _ true). rewrite <- !app_assoc. reflexivity.
      + exists sp1, [], sp2. eexists. split; [|split; [reflexivity|split; [left; reflexivity|reflexivity]]].
        rewrite (Et _ true). rewrite <- !app_assoc. reflexivity.
  Qed.

  Definition display_stops : list str := [s2l "&"; s2l "\\"; s2l "$$"; s2l "\]"].

  Lemma simple_set_repls st d l : displayed_simple (set_repls st d l) = displayed_simple st.
  Proof. unfold set_repls. destruct d; reflexivity. Qed.

  (* a displayed equation of one section (no & and no line break) whose body
     holds no declared control word: two blanks, [blank], one placeholder of
     the display collection at the first element, [punctuation], [blank],
     between two action tokens; the rest of the text untouched *)
  Theorem display_math_plain k fuel st t ename body c rest p e ph rest0 :
    buf_is_space c = false -> tk c <> KPar -> mem_str (txt c) display_stops = true ->
    str_eqb (txt c) (s2l "&") = false -> str_eqb (txt c) (s2l "\\") = false ->
    Forall (mok st display_stops) body -> (mmu body < k)%nat ->
    let ts := flat_map (mconv st) body in
    first_pos ts = Ok p ->
    forallb is_mspace ts = false ->
    has_elem T ts = Some e ->
    rotate (get_repls st true) = ph :: rest0 ->
    displayed_simple st = false ->
    exists sp1 pc sp2 lp,
      expand_display_math T (exec T rd k) (S fuel) st (body ++ c :: rest) t ename false =
        Ok (set_repls st true (ph :: rest0),
            ([ActionT (pos t); SpaceF (pos t) [c_space; c_space]] ++ sp1 ++ [TextF (pos e) ph]
               ++ pc ++ sp2 ++ [ActionT lp], rest)) /\
      (lp = p \/ lp = pos e) /\
      sp1 = (match ts with
             | t0 :: _ => if is_mspace t0 then [SpaceF p s_space] else []
             | [] => [] end) /\
      (pc = [] \/ exists ch, pc = [TextF p [ch]] /\ last_char T ts = [ch]
                             /\ mem_str [ch] (t_math_punctuation T) = true) /\
      sp2 = (match rev ts with
             | t1 :: _ => if is_mspace t1 then [SpaceF p s_space] else []
             | [] => [] end).
  Proof.
    intros Hc Hk Hs Hamp Hbs Hb Hf ts Hp Hsp He Hrot Hsimple.
    assert (Hm : Forall (fun x => is_math_tok x = true) ts).
    { unfold ts. clear. induction body as [|x b IH]; [constructor|].
      cbn [flat_map]. apply Forall_app. split; [apply mconv_math | exact IH]. }
    assert (Hne : ts <> []).
    { intros E. rewrite E in Hp. discriminate. }
    unfold expand_display_math. cbn [display_sections]. unfold run_math_section.
    change [s2l "&"; s2l "\\"; s2l "$$"; s2l "\]"] with display_stops.
    rewrite (math_loop display_stops (Some ename) (pos t) st c rest Hc Hk Hs eq_refl k body [] Hb Hf).
    cbn [rbind fst snd app]. fold ts. rewrite (finish_math_id ts Hm).
    rewrite (detect_all ts [] Hm (or_introl Hne)). cbn [rev app negb].
    destruct (replace_section_display_first st ts
                [ActionT (pos t); SpaceF (pos t) [c_space; c_space]] p e ph rest0 Hp Hsp He Hrot)
      as (sp1 & pc & sp2 & nr' & E & E1 & E2 & E3).
    rewrite E. cbn [rbind]. rewrite Hamp, Hbs. cbn [rbind].
    set (out := [ActionT (pos t); SpaceF (pos t) [c_space; c_space]] ++ sp1 ++ [TextF (pos e) ph] ++ pc ++ sp2).
    assert (Hl : exists lp, last_pos out = Ok lp /\ (lp = p \/ lp = pos e)).
    { unfold out.
      assert (Hsp2 : sp2 = [] \/ sp2 = [SpaceF p s_space]).
      { rewrite E3. destruct (rev ts) as [|t1 r]; [left; reflexivity|].
        destruct (is_mspace t1); [right | left]; reflexivity. }
      destruct Hsp2 as [Z2|Z2]; rewrite Z2.
      - rewrite app_nil_r. destruct E2 as [Z1|(ch & Z1 & _)]; rewrite Z1.
        + rewrite app_nil_r. exists (pos e). split; [|right; reflexivity].
          replace ([ActionT (pos t); SpaceF (pos t) [c_space; c_space]] ++ sp1 ++ [TextF (pos e) ph])
            with (([ActionT (pos t); SpaceF (pos t) [c_space; c_space]] ++ sp1) ++ [TextF (pos e) ph])
            by (rewrite <- app_assoc; reflexivity).
          exact (last_pos_snoc _ _).
        + exists p. split; [|left; reflexivity].
          replace ([ActionT (pos t); SpaceF (pos t) [c_space; c_space]] ++ sp1 ++ [TextF (pos e) ph] ++ [TextF p [ch]])
            with (([ActionT (pos t); SpaceF (pos t) [c_space; c_space]] ++ sp1 ++ [TextF (pos e) ph]) ++ [TextF p [ch]])
            by (rewrite <- !app_assoc; reflexivity).
          exact (last_pos_snoc _ _).
      - exists p. split; [|left; reflexivity].
        replace ([ActionT (pos t); SpaceF (pos t) [c_space; c_space]] ++ sp1 ++ [TextF (pos e) ph] ++ pc ++ [SpaceF p s_space])
          with (([ActionT (pos t); SpaceF (pos t) [c_space; c_space]] ++ sp1 ++ [TextF (pos e) ph] ++ pc) ++ [SpaceF p s_space])
          by (rewrite <- !app_assoc; reflexivity).
        exact (last_pos_snoc _ _). }
    destruct Hl as (lp & Hl & Hlp). rewrite Hl. cbn [rbind].
    rewrite simple_set_repls, Hsimple.
    exists sp1, pc, sp2, lp. split; [|repeat split; assumption].
    unfold out. f_equal. f_equal. f_equal. rewrite <- !app_assoc. reflexivity.
  Qed.
End MathSites.
