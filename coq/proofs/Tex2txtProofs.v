(* C01, length claim, end to end on the model of tex2txt(): whatever the
   expander returns, every text comes with a position list of its length. *)
From Coq Require Import Lia.
From YV Require Import PyBase PyBaseProofs ShellMap Token Utils Scanner PState
                       Parser Exec Replace ReplaceProofs Ml MlProofs TokOk Tex2txt.
Open Scope Z_scope.

(* R: a predicate on 0-based positions *)
Definition part_ok (R : Z -> Prop) (tp : str * list Z) : Prop :=
  length (fst tp) = length (snd tp) /\ Forall R (snd tp).

Definition result_ok (R : Z -> Prop) (r : t2t_result) : Prop :=
  match r with
  | TSingle t p => part_ok R (t, p)
  | TMulti parts => Forall (fun e => Forall (part_ok R) (snd e)) parts
  end.

Definition result_lengths_ok (r : t2t_result) : Prop := result_ok (fun _ => True) r.

Lemma repl_parts_ok R (f : str -> list Z -> result (str * list Z)) :
  (forall t p t' p', part_ok R (t, p) -> f t p = Ok (t', p') -> part_ok R (t', p')) ->
  forall ps res,
  Forall (part_ok R) ps ->
  (fix gp (ps : list (str * list Z)) : result (list (str * list Z)) :=
     match ps with
     | [] => Ok []
     | (t, p) :: ps' => do tp <- f t p; do r <- gp ps'; Ok (tp :: r)
     end) ps = Ok res ->
  Forall (part_ok R) res.
Proof.
  intros Hf. induction ps as [|[t p] ps IH]; intros res Hps H.
  - inversion H; subst. constructor.
  - inversion Hps as [|? ? H1 H2]; subst.
    destruct (f t p) as [[t' p']| | |] eqn:E; try discriminate. cbn [rbind] in H.
    match type of H with context [rbind ?x _] => destruct x as [r| | |] eqn:Er end;
      try discriminate.
    cbn [rbind] in H. inversion H; subst.
    constructor; [eapply Hf; [exact H1 | exact E] | apply IH; [exact H2 | reflexivity]].
Qed.

Lemma Forall_map_shift (R : Z -> Prop) l :
  Forall R l -> Forall (fun p => R (p - 1)) (map (fun n => n + 1) l).
Proof.
  induction 1 as [|x l Hx Hl IH]; simpl; constructor; [|exact IH].
  replace (x + 1 - 1) with x by lia. exact Hx.
Qed.

(* Everything behind the expander keeps lengths equal and invents no
   position: if the positions of all tokens returned by the expander satisfy
   R (0-based), the positions of every returned text satisfy R (1-based). *)
Theorem run_tex2txt_R (R : Z -> Prop) T is_word files lang multi simple mods define
        latex extr repl unkn thresh fuel out :
  run_tex2txt T is_word files lang multi simple mods define latex extr repl unkn
              thresh fuel = Ok out ->
  (forall st st' toks,
     init_parser T (fun f => assoc f files) fuel (init_state T lang multi simple true)
                 (t_builtin T) mods = Ok st ->
     parse T (fun f => assoc f files) fuel st latex define extr = Ok (st', toks) ->
     Forall (tok_R R) toks) ->
  (unkn = true -> R 0) ->
  result_ok (fun p => R (p - 1)) (to_result out).
Proof.
  unfold run_tex2txt. intros H Hparse Hun.
  destruct (init_parser _ _ _ _ _ _) as [st| | |] eqn:Ei; try discriminate. cbn [rbind] in H.
  destruct (parse _ _ _ _ _ _ _) as [[st' toks]| | |] eqn:Ep; try discriminate.
  cbn [rbind] in H.
  specialize (Hparse st st' toks eq_refl Ep).
  cbv zeta in H.
  set (repl_f := fun (t : str) (p : list Z) =>
                   match repl with
                   | Some lines => replace_phrases (t_is_space T) (t_is_alpha T) is_word t p lines
                   | None => Ok (t, p)
                   end) in *.
  assert (Hrepl : forall t p t' p', part_ok R (t, p) -> repl_f t p = Ok (t', p') ->
                                    part_ok R (t', p')).
  { intros t p t' p' [Hl HR] E. unfold repl_f in E. simpl in Hl, HR. destruct repl as [lines|].
    - destruct (replace_phrases_total (t_is_space T) (t_is_alpha T) is_word lines t p Hl)
        as (t2 & p2 & E2 & L2).
      pose proof (replace_phrases_incl (t_is_space T) (t_is_alpha T) is_word lines t p t' p' Hl E)
        as Hi.
      rewrite E2 in E. inversion E; subst. split; [exact L2|]. simpl.
      apply Forall_forall. intros x Hx. rewrite Forall_forall in HR. apply HR, Hi, Hx.
    - inversion E; subst. split; assumption. }
  destruct multi; cbn [negb] in H.
  - (* multi-language *)
    destruct (get_txt_pos_ml _ _ _ _ _ _) as [ml| | |] eqn:Eml; try discriminate.
    cbn [rbind] in H.
    pose proof (get_txt_pos_ml_lengths _ _ _ R _ _ _ _ Hparse Eml) as Hml.
    match type of H with context [rbind ?x _] => destruct x as [ml2| | |] eqn:E2 end;
      try discriminate.
    cbn [rbind] in H. inversion H; subst. cbn [to_result result_ok].
    assert (Hml2 : Forall (fun e => Forall (part_ok R) (snd e)) ml2).
    { clear H Eml. revert ml2 E2. induction Hml as [|[lg parts] l Hp Hl IH]; intros ml2 E2.
      - inversion E2; subst. constructor.
      - destruct (str_eqb lg lang).
        + match type of E2 with context [rbind ?x _] => destruct x as [parts'| | |] eqn:Ep' end;
            try discriminate.
          cbn [rbind] in E2.
          match type of E2 with context [rbind ?x _] => destruct x as [r| | |] eqn:Er end;
            try discriminate.
          cbn [rbind] in E2. inversion E2; subst.
          constructor; [|apply IH; reflexivity]. simpl.
          eapply repl_parts_ok; [exact Hrepl | exact Hp | exact Ep'].
        + cbn [rbind] in E2.
          match type of E2 with context [rbind ?x _] => destruct x as [r| | |] eqn:Er end;
            try discriminate.
          cbn [rbind] in E2. inversion E2; subst.
          constructor; [exact Hp | apply IH; reflexivity]. }
    apply Forall_forall. intros e He. apply in_map_iff in He.
    destruct He as (e0 & Ee & Hin). subst e. simpl.
    rewrite Forall_forall in Hml2. specialize (Hml2 e0 Hin).
    apply Forall_forall. intros tp Htp. apply in_map_iff in Htp.
    destruct Htp as (tp0 & Et & Hin0). subst tp.
    rewrite Forall_forall in Hml2. destruct (Hml2 tp0 Hin0) as [L0 R0].
    split; simpl; [rewrite map_length; exact L0 | apply Forall_map_shift; exact R0].
  - (* single text *)
    pose proof (get_txt_pos_length toks) as L.
    pose proof (get_txt_pos_R R toks Hparse) as HR.
    destruct (get_txt_pos toks) as [t p]. simpl in L, HR. cbv beta iota in H.
    destruct (repl_f t p) as [[t' p']| | |] eqn:E; pose proof E as E0;
      unfold repl_f in E0; rewrite E0 in H; try discriminate. cbn [rbind] in H.
    destruct (Hrepl _ _ _ _ (conj L HR) E) as [L' R'].
    destruct unkn; cbv beta iota zeta in H; inversion H; subst;
      cbn [to_result result_ok]; split; simpl; try rewrite map_length.
    + rewrite repeat_length; reflexivity.
    + apply Forall_map_shift. apply Forall_repeat. apply Hun. reflexivity.
    + exact L'.
    + apply Forall_map_shift. exact R'.
Qed.

(* C01, lengths, unconditionally *)
Theorem run_tex2txt_lengths T is_word files lang multi simple mods define latex
        extr repl unkn thresh fuel out :
  run_tex2txt T is_word files lang multi simple mods define latex extr repl unkn
              thresh fuel = Ok out ->
  result_lengths_ok (to_result out).
Proof.
  intros H. unfold result_lengths_ok.
  apply (run_tex2txt_R (fun _ => True) _ _ _ _ _ _ _ _ _ _ _ _ _ _ _ H); [|intros; exact I].
  intros st st' toks _ _. apply Forall_forall. intros t _. unfold tok_R.
  apply Forall_forall. intros; exact I.
Qed.

(* C01, range: positions 0 .. n-1 of the expander's tokens give 1 .. n *)
Theorem run_tex2txt_range n T is_word files lang multi simple mods define latex
        extr repl thresh fuel out :
  run_tex2txt T is_word files lang multi simple mods define latex extr repl false
              thresh fuel = Ok out ->
  (forall st st' toks,
     init_parser T (fun f => assoc f files) fuel (init_state T lang multi simple true)
                 (t_builtin T) mods = Ok st ->
     parse T (fun f => assoc f files) fuel st latex define extr = Ok (st', toks) ->
     Forall (tok_R (fun x => 0 <= x < n)) toks) ->
  result_ok (fun p => 1 <= p <= n) (to_result out).
Proof.
  intros H Hp.
  assert (Hq : forall l, Forall (fun p => 0 <= p - 1 < n) l -> Forall (fun p => 1 <= p <= n) l).
  { intros l Hl. eapply Forall_impl; [|exact Hl]. cbv beta. intros a Ha. lia. }
  assert (E : forall r, result_ok (fun p => 0 <= p - 1 < n) r ->
                        result_ok (fun p => 1 <= p <= n) r).
  { intros [t p|parts]; cbn [result_ok]; unfold part_ok; cbn [fst snd].
    - intros [L R]. split; [exact L | apply Hq; exact R].
    - intros HF. eapply Forall_impl; [|exact HF]. cbv beta. intros e He.
      eapply Forall_impl; [|exact He]. cbv beta. intros tp [L R].
      split; [exact L | apply Hq; exact R]. }
  apply E.
  apply (run_tex2txt_R (fun x => 0 <= x < n) T is_word files lang multi simple mods define
           latex extr repl false thresh fuel out H Hp).
  discriminate.
Qed.
