(* Proofs about coq/model/Ml.v (get_txt_pos_ml): text and position list of
   every part have equal length (C01); the sections hold exactly the
   characters of the token stream (C12). *)
From Coq Require Import Lia.
From YV Require Import PyBase PyBaseProofs ShellMap Token Utils PState TokOk Ml.
Open Scope Z_scope.

Section MlProofs.
  Variable is_space : char -> bool.
  Variable check_lang : str -> str.
  Variable thresh : nat.

  (* R: any predicate on positions, e.g. lying inside the source *)
  Variable R : Z -> Prop.
  Definition tok_R (t : tok) : Prop := Forall R (tok_positions t).

  Definition sec_ok (s : lsec) : Prop :=
    length (s_txt s) = length (s_pos s) /\ Forall R (s_pos s).

  Lemma get_txt_pos_R toks : Forall tok_R toks -> Forall R (snd (get_txt_pos toks)).
  Proof.
    induction 1 as [|t toks Ht Hts IH]; simpl; [constructor|].
    destruct (get_txt_pos toks) as [s p]. simpl in *.
    apply Forall_app. split; [exact Ht | exact IH].
  Qed.

  Lemma get_txt_pos_len toks :
    length (fst (get_txt_pos toks)) = length (snd (get_txt_pos toks)).
  Proof.
    induction toks as [|t toks IH]; simpl; [reflexivity|].
    destruct (get_txt_pos toks) as [s p]. simpl in *.
    rewrite !app_length. unfold tok_positions.
    destruct (pfix t); [rewrite repeat_length | rewrite zseq_length]; lia.
  Qed.

  Lemma flush_ok stack back brk cur secs :
    Forall tok_R cur ->
    Forall sec_ok secs -> Forall sec_ok (flush stack back brk cur secs).
  Proof.
    intros Hc H. unfold flush. pose proof (get_txt_pos_len (rev cur)) as L.
    pose proof (get_txt_pos_R (rev cur) (Forall_rev Hc)) as HR.
    destruct (get_txt_pos (rev cur)) as [t p]. simpl in L, HR.
    destruct t as [|c t]; [exact H|].
    apply Forall_app. split; [exact H|]. constructor; [|constructor].
    unfold sec_ok. simpl. split; [exact L | exact HR].
  Qed.

  Lemma sections_ok : forall toks stack back brk cur secs,
    Forall tok_R toks -> Forall tok_R cur ->
    Forall sec_ok secs -> Forall sec_ok (sections toks stack back brk cur secs).
  Proof.
    induction toks as [|t r IH]; intros stack back brk cur secs Ht Hc H; simpl.
    - apply flush_ok; assumption.
    - inversion Ht as [|? ? Ht1 Ht2]; subst.
      destruct (tk t);
        try (apply IH; [exact Ht2 | constructor; [exact Ht1 | exact Hc] | exact H]).
      destruct (str_eqb lang _); [apply IH; assumption|].
      destruct (back0 && _ && _); [apply IH; assumption|].
      apply IH; [exact Ht2 | constructor |]. apply flush_ok; assumption.
  Qed.

  Lemma py_nth_in {A} (l : list A) i x : py_nth l i = Ok x -> In x l.
  Proof.
    unfold py_nth. destruct (nth_error l i) eqn:E; intros H; inversion H; subst.
    eapply nth_error_In. exact E.
  Qed.
  Lemma py_last_in {A} (l : list A) x : py_last l = Ok x -> In x l.
  Proof.
    unfold py_last. destruct (rev l) as [|y r] eqn:E; intros H; inversion H; subst.
    apply in_rev. rewrite E. left. reflexivity.
  Qed.

  Lemma edge_first_len incl a b :
    Forall R (s_pos incl) ->
    edge_first is_space incl = Ok (a, b) -> length a = length b /\ Forall R b.
  Proof.
    intros HR. unfold edge_first.
    destruct (s_txt incl) as [|c t]; [intros H; inversion H; split; [reflexivity|constructor]|].
    destruct (is_space c); [|intros H; inversion H; split; [reflexivity|constructor]].
    destruct (py_nth (s_pos incl) 0) as [q| | |] eqn:E; simpl; intros H; inversion H; subst.
    split; [reflexivity|]. constructor; [|constructor].
    rewrite Forall_forall in HR. apply HR. eapply py_nth_in. exact E.
  Qed.
  Lemma edge_last_len incl a b :
    Forall R (s_pos incl) ->
    edge_last is_space incl = Ok (a, b) -> length a = length b /\ Forall R b.
  Proof.
    intros HR. unfold edge_last.
    destruct (rev (s_txt incl)) as [|c t]; [intros H; inversion H; split; [reflexivity|constructor]|].
    destruct (is_space c); [|intros H; inversion H; split; [reflexivity|constructor]].
    destruct (py_last (s_pos incl)) as [q| | |] eqn:E; simpl; intros H; inversion H; subst.
    split; [reflexivity|]. constructor; [|constructor].
    rewrite Forall_forall in HR. apply HR. eapply py_last_in. exact E.
  Qed.

  Lemma Forall_repeat {A} (P : A -> Prop) x n : P x -> Forall P (repeat x n).
  Proof. intros H. induction n; simpl; constructor; assumption. Qed.

  Lemma append_placeholder_ok rot sec incl sec' rot' :
    sec_ok sec -> sec_ok incl ->
    append_placeholder is_space check_lang rot sec incl = Ok (sec', rot') ->
    sec_ok sec'.
  Proof.
    unfold append_placeholder, sec_ok. intros [Hs Rs] [Hi Ri].
    destruct (blank is_space (s_txt incl)).
    - intros H; inversion H; subst. simpl. rewrite !app_length.
      split; [lia | apply Forall_app; split; assumption].
    - match goal with |- context [match ?r with [] => _ | _ => _ end] =>
        destruct r as [|ph rr] end; [discriminate|].
      destruct (py_nth (s_pos incl) _) as [p0| | |] eqn:E0; try discriminate. cbn [rbind].
      destruct (edge_first is_space incl) as [[a1 b1]| | |] eqn:E1; try discriminate.
      cbn [rbind].
      destruct (edge_last is_space incl) as [[a2 b2]| | |] eqn:E2; try discriminate.
      cbn [rbind fst snd]. intros H; inversion H; subst. cbn [s_txt s_pos].
      apply (edge_first_len _ _ _ Ri) in E1. apply (edge_last_len _ _ _ Ri) in E2.
      destruct E1 as [L1 R1]. destruct E2 as [L2 R2].
      rewrite !app_length, repeat_length. split; [lia|].
      apply Forall_app. split; [exact Rs|]. apply Forall_app. split; [exact R1|].
      apply Forall_app. split; [|exact R2]. apply Forall_repeat.
      rewrite Forall_forall in Ri. apply Ri. eapply py_nth_in. exact E0.
  Qed.

  Lemma join_sections_ok : forall fuel secs rot out res,
    Forall sec_ok secs -> Forall sec_ok out ->
    join_sections is_space check_lang thresh fuel secs rot out = Ok res ->
    Forall sec_ok res.
  Proof.
    induction fuel as [|k IH]; intros secs rot out res Hs Ho H; simpl in H;
      [discriminate|].
    destruct secs as [|s0 [|s1 rest]].
    - inversion H; subst. exact Ho.
    - inversion H; subst. apply Forall_app. split; [exact Ho | exact Hs].
    - inversion Hs as [|? ? H0 Hs1]; subst. inversion Hs1 as [|? ? H1 Hr]; subst.
      destruct (negb (s_brk s1) && negb (s_back s1) && _ && _).
      + destruct (append_placeholder is_space check_lang rot s0 s1) as [[s0' rot']| | |] eqn:Ea;
          try discriminate. simpl in H.
        pose proof (append_placeholder_ok _ _ _ _ _ H0 H1 Ea) as H0'.
        assert (Ho' : Forall sec_ok (out ++ [s1]))
          by (apply Forall_app; split; [exact Ho | constructor; [exact H1 | constructor]]).
        destruct rest as [|s2 rest'].
        * eapply IH; [| exact Ho' | exact H]. constructor; [exact H0' | constructor].
        * inversion Hr as [|? ? H2 Hr']; subst.
          eapply IH; [| exact Ho' | exact H]. constructor; [|exact Hr'].
          unfold sec_ok in *. simpl. rewrite !app_length.
          destruct H0' as [La Ra]. destruct H2 as [Lb Rb].
          split; [lia | apply Forall_app; split; assumption].
      + eapply IH; [| | exact H].
        * constructor; assumption.
        * apply Forall_app. split; [exact Ho | constructor; [exact H0 | constructor]].
  Qed.

  Lemma group_lang_ok : forall out acc,
    Forall sec_ok out ->
    Forall (fun e => Forall (fun tp => length (fst tp) = length (snd tp) /\ Forall R (snd tp)) (snd e)) acc ->
    Forall (fun e => Forall (fun tp => length (fst tp) = length (snd tp) /\ Forall R (snd tp)) (snd e))
           (group_lang out acc).
  Proof.
    induction out as [|s r IH]; intros acc Ho Ha; simpl; [exact Ha|].
    inversion Ho as [|? ? Hs Hr]; subst. apply IH; [exact Hr|].
    destruct (existsb _ acc).
    - apply Forall_forall. intros e He. apply in_map_iff in He.
      destruct He as (e0 & Ee & Hin). rewrite Forall_forall in Ha.
      specialize (Ha e0 Hin). destruct (str_eqb (fst e0) (s_lang s)); subst e; simpl.
      + apply Forall_app. split; [exact Ha | constructor; [exact Hs | constructor]].
      + exact Ha.
    - apply Forall_app. split; [exact Ha|]. constructor; [|constructor]. simpl.
      constructor; [exact Hs | constructor].
  Qed.

  (* C01 for the multi-language mode: every part of every language comes
     with a position list of the same length *)
  Theorem get_txt_pos_ml_lengths toks main rot res :
    Forall tok_R toks ->
    get_txt_pos_ml is_space check_lang thresh toks main rot = Ok res ->
    Forall (fun e => Forall (fun tp => length (fst tp) = length (snd tp) /\ Forall R (snd tp)) (snd e)) res.
  Proof.
    unfold get_txt_pos_ml. intros Ht H.
    destruct (join_sections _ _ _ _ _ rot []) as [out| | |] eqn:Ej; try discriminate.
    simpl in H. inversion H; subst.
    apply group_lang_ok; [|constructor].
    eapply join_sections_ok; [| constructor | exact Ej].
    apply sections_ok; [exact Ht | constructor | constructor].
  Qed.

  (* ---- C12: the sections hold exactly the characters of the stream ---- *)
  Lemma get_txt_pos_app a b :
    get_txt_pos (a ++ b) =
    (fst (get_txt_pos a) ++ fst (get_txt_pos b), snd (get_txt_pos a) ++ snd (get_txt_pos b)).
  Proof.
    induction a as [|t a IH]; simpl; [destruct (get_txt_pos b); reflexivity|].
    rewrite IH. destruct (get_txt_pos a) as [s p]. simpl. rewrite <- !app_assoc. reflexivity.
  Qed.

  Definition all_txt (secs : list lsec) : str := flat_map s_txt secs.
  Definition all_pos (secs : list lsec) : list Z := flat_map s_pos secs.
  Definition not_lang (t : tok) : bool := negb (is_lang t).

  Lemma flush_conserve stack back brk cur secs :
    all_txt (flush stack back brk cur secs) = all_txt secs ++ fst (get_txt_pos (rev cur)) /\
    all_pos (flush stack back brk cur secs) = all_pos secs ++ snd (get_txt_pos (rev cur)).
  Proof.
    unfold flush. pose proof (get_txt_pos_len (rev cur)) as L.
    destruct (get_txt_pos (rev cur)) as [t p]. simpl in *.
    destruct t as [|c t].
    - destruct p; [|discriminate]. rewrite !app_nil_r. split; reflexivity.
    - unfold all_txt, all_pos. rewrite !flat_map_app. simpl. rewrite !app_nil_r.
      split; reflexivity.
  Qed.

  (* language tokens only cut the stream: text and positions of all sections
     together are text and positions of the stream without them *)
  Theorem sections_conserve : forall toks stack back brk cur secs,
    let r := sections toks stack back brk cur secs in
    let g := get_txt_pos (rev cur ++ filter not_lang toks) in
    all_txt r = all_txt secs ++ fst g /\ all_pos r = all_pos secs ++ snd g.
  Proof.
    induction toks as [|t r IH]; intros stack back brk cur secs; cbn zeta.
    - simpl. rewrite app_nil_r. apply flush_conserve.
    - cbn [sections filter]. remember (not_lang t) as nl eqn:Hnl.
      unfold not_lang, is_lang in Hnl.
      destruct (tk t) eqn:Ek; subst nl; cbn [negb];
        try (specialize (IH stack back brk (t :: cur) secs); cbn zeta in IH;
             simpl rev in IH; rewrite <- app_assoc in IH; exact IH).
      destruct (str_eqb lang _); [apply IH|].
      destruct (back0 && _ && _); [apply IH|].
      match goal with |- context [sections r ?st ?b ?k [] ?sc] =>
        specialize (IH st b k [] sc) end.
      cbn zeta in IH. simpl rev in IH. simpl app in IH.
      destruct (flush_conserve stack back brk cur secs) as [F1 F2].
      rewrite F1, F2 in IH. rewrite get_txt_pos_app. cbn [fst snd].
      rewrite <- !app_assoc in IH. exact IH.
  Qed.
End MlProofs.
