(* C09, the actual arguments: a macro declared with n mandatory arguments,
   called with n braced groups.  The arguments the expander collects are the
   contents of the groups, in order; the buffer goes on behind the last
   closing brace; the state is untouched; and the expansion of a macro whose
   replacement is a token list is the body with every #k replaced by the
   k-th group (gen_repl_subst), behind one action token. *)
From Coq Require Import Lia String.
From YV Require Import PyBase PyBaseProofs ShellMap Token Utils Scanner Rpal PState
                       Parser Expand Math Exec TokOk ScanOk ScanPlain RpalProofs
                       ExecPlain ExpandSites SpecialsProofs ExecUnk ExecArgs.
Open Scope Z_scope.

Section ArgSites.
  Variable T : tables.
  Variable rd : str -> option str.
  Variable rec : recfun.

  (* n braced groups, one behind the other, then the rest of the text *)
  Inductive groups : list (list tok) -> list tok -> list tok -> Prop :=
    | g_nil rest : groups [] rest rest
    | g_cons o a c gs buf rest :
        lb o -> rb c -> bal a -> a <> [] -> groups gs buf rest ->
        groups (a :: gs) (o :: a ++ c :: buf) rest.

  Lemma one_group st o a c buf n mac p :
    lb o -> rb c -> bal a -> a <> [] ->
    one_arg T st (o :: a ++ c :: buf) AMand n mac p = (st, a, a, buf, pos o).
  Proof.
    intros Ho Hc Ha Hne. destruct (lb_txt o Ho) as [O1 O2]. destruct Ho as [Ok_ Ot].
    unfold one_arg.
    assert (Hs : skip_space (o :: a ++ c :: buf) = o :: a ++ c :: buf).
    { cbn [skip_space]. unfold buf_is_space. rewrite Ok_. reflexivity. }
    rewrite Hs, O2. unfold arg_buffer, arg_buffer_c. rewrite Hs, Ok_, O1.
    cbn [negb]. rewrite Bool.andb_false_r.
    rewrite (arg_collect_group a c buf Ha Hc).
    destruct a as [|x a']; [contradiction | reflexivity].
  Qed.

  Theorem collect_groups : forall gs st buf rest n mac p,
    groups gs buf rest ->
    collect_args T st buf (repeat AMand (length gs)) n mac p = (st, gs, gs, rest).
  Proof.
    induction gs as [|a gs IH]; intros st buf rest n mac p Hg; inversion Hg; subst.
    - reflexivity.
    - cbn [length repeat collect_args].
      match goal with Ho : lb ?o, Hc : rb ?c, Hb : bal a, Hn : a <> [] |- _ =>
        rewrite (one_group st o a c _ n mac p Ho Hc Hb Hn) end.
      match goal with Hr : groups gs _ rest |- _ => rewrite (IH st _ rest (S n) mac _ Hr) end.
      reflexivity.
  Qed.

  (* the expansion of \m{a1}...{an} for \newcommand{\m}[n]{body} *)
  Theorem expand_braced_call fuel st buf rest mac start gs body :
    m_args mac = repeat AMand (length gs) -> m_extract mac = [] -> m_repl mac = RToks body ->
    groups gs buf rest ->
    expand_arguments T rd rec fuel st buf mac start =
      (do g <- generate_replacements gs body start; Ok (st, (ActionT start :: g, rest))).
  Proof.
    intros Ha He Hr Hg. unfold expand_arguments. rewrite Ha.
    rewrite (collect_groups gs st buf rest 0 mac start Hg). rewrite He, Hr. reflexivity.
  Qed.

  (* ... is the body with #k replaced by the k-th group, in order *)
  Theorem expand_braced_call_subst fuel st buf rest mac start gs body st' ins rest' :
    m_args mac = repeat AMand (length gs) -> m_extract mac = [] -> m_repl mac = RToks body ->
    groups gs buf rest ->
    expand_arguments T rd rec fuel st buf mac start = Ok (st', (ins, rest')) ->
    st' = st /\ rest' = rest /\
    map shape (noact ins) = map shape (noact (subst_body gs body)).
  Proof.
    intros Ha He Hr Hg H.
    rewrite (expand_braced_call fuel st buf rest mac start gs body Ha He Hr Hg) in H.
    unfold generate_replacements in H.
    destruct (prep_pos gs body start) as [cur| | |]; cbn [rbind] in H; try discriminate.
    destruct (gen_repl gs body cur) as [g| | |] eqn:Eg; cbn [rbind] in H; try discriminate.
    inversion H; subst. split; [reflexivity|]. split; [reflexivity|].
    unfold noact. cbn [filter is_action tk ActionT mk negb].
    apply (gen_repl_subst gs body cur g Eg).
  Qed.

  (* a macro declared with an empty replacement (\label, \index, ...): the
     contents of its groups never reach the output *)
  Theorem dropped_arguments fuel st buf rest mac start gs :
    m_args mac = repeat AMand (length gs) -> m_extract mac = [] -> m_repl mac = RToks [] ->
    groups gs buf rest ->
    expand_arguments T rd rec fuel st buf mac start = Ok (st, ([ActionT start], rest)).
  Proof.
    intros Ha He Hr Hg.
    rewrite (expand_braced_call fuel st buf rest mac start gs [] Ha He Hr Hg).
    reflexivity.
  Qed.
End ArgSites.
