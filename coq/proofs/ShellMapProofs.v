(* Proofs about coq/model/ShellMap.v (properties C14, C15). *)
From Coq Require Import Lia Sorting.Sorted Sorting.Permutation.
From YV Require Import PyBase PyBaseProofs ShellMap.
Open Scope Z_scope.

(* ------------------------------------------------------------------ *)
(*  indexing                                                            *)
(* ------------------------------------------------------------------ *)

Lemma py_index_ok {A} (l : list A) (i : Z) :
  0 <= i < zlen l -> exists x, py_index l i = Ok x /\ nth_error l (Z.to_nat i) = Some x.
Proof.
  intros Hi. unfold py_index, zlen in *.
  destruct (i <? 0) eqn:E1; [apply Z.ltb_lt in E1; lia|].
  destruct ((i <? 0) || (Z.of_nat (length l) <=? i)) eqn:E2.
  - apply orb_true_iff in E2. destruct E2 as [E2|E2];
      [apply Z.ltb_lt in E2 | apply Z.leb_le in E2]; lia.
  - destruct (nth_error l (Z.to_nat i)) as [x|] eqn:En.
    + exists x. split; reflexivity.
    + apply nth_error_None in En. lia.
Qed.

(* ------------------------------------------------------------------ *)
(*  map_match_position                                                  *)
(* ------------------------------------------------------------------ *)

(* the clamped indices are always valid for a non-empty map: the function
   never raises (C15), whatever offset and length are *)
Theorem map_match_position_total offset length_ latex cm :
  cm <> [] -> exists off len, map_match_position offset length_ latex cm = Ok (off, len).
Proof.
  intros Hne. unfold map_match_position.
  assert (Hn : 1 <= zlen cm).
  { unfold zlen. destruct cm; [contradiction | simpl; lia]. }
  set (beg := Z.min (Z.max 0 offset) (zlen cm - 1)).
  set (en := Z.min (Z.max 0 (beg + length_ - 1)) (zlen cm - 1)).
  destruct (py_index_ok cm beg) as (cb & Eb & _); [unfold beg; lia|].
  destruct (py_index_ok cm en) as (ce & Ee & _); [unfold en; lia|].
  rewrite Eb, Ee. simpl. eexists; eexists; reflexivity.
Qed.

(* both ends of the reported span are positions taken from the map *)
Theorem map_match_position_in_map offset length_ latex cm off len :
  map_match_position offset length_ latex cm = Ok (off, len) ->
  exists cb ce, In cb cm /\ In ce cm /\ off = Z.abs cb - 1 /\
    len = correct_mark_macroname off (Z.abs ce - Z.abs cb + 1) latex.
Proof.
  unfold map_match_position.
  set (beg := Z.min (Z.max 0 offset) (zlen cm - 1)).
  set (en := Z.min (Z.max 0 (beg + length_ - 1)) (zlen cm - 1)).
  unfold py_index.
  destruct (((if beg <? 0 then beg + zlen cm else beg) <? 0)
           || (zlen cm <=? (if beg <? 0 then beg + zlen cm else beg)));
    [discriminate|].
  destruct (nth_error cm (Z.to_nat (if beg <? 0 then beg + zlen cm else beg)))
    as [cb|] eqn:Eb; [|discriminate].
  simpl.
  destruct (((if en <? 0 then en + zlen cm else en) <? 0)
           || (zlen cm <=? (if en <? 0 then en + zlen cm else en)));
    [discriminate|].
  destruct (nth_error cm (Z.to_nat (if en <? 0 then en + zlen cm else en)))
    as [ce|] eqn:Ee; [|discriminate].
  simpl. intros H. inversion H; subst.
  exists cb, ce. apply nth_error_In in Eb. apply nth_error_In in Ee.
  repeat split; auto.
Qed.

(* exactness: if the map is exact on the flagged span (consecutive source
   positions p0, p0+1, ... as for a copied word), the reported offset and
   length select that very word *)
Theorem map_position_exact o l latex cm p0 :
  0 <= o -> 1 <= l -> o + l <= zlen cm -> 1 <= p0 ->
  (forall k, 0 <= k < l -> nth_error cm (Z.to_nat (o + k)) = Some (p0 + k)) ->
  map_match_position o l latex cm =
    Ok (p0 - 1, correct_mark_macroname (p0 - 1) l latex).
Proof.
  intros Ho Hl Hol Hp Hex. unfold map_match_position.
  replace (Z.min (Z.max 0 o) (zlen cm - 1)) with o by lia.
  replace (Z.min (Z.max 0 (o + l - 1)) (zlen cm - 1)) with (o + l - 1) by lia.
  destruct (py_index_ok cm o) as (cb & Eb & Nb); [lia|].
  destruct (py_index_ok cm (o + l - 1)) as (ce & Ee & Ne); [lia|].
  rewrite Eb, Ee. simpl.
  pose proof (Hex 0 ltac:(lia)) as H0. rewrite Z.add_0_r in H0.
  pose proof (Hex (l - 1) ltac:(lia)) as H1.
  replace (o + (l - 1)) with (o + l - 1) in H1 by lia.
  rewrite Nb in H0. rewrite Ne in H1. inversion H0; inversion H1; subst.
  replace (Z.abs (p0 + 0)) with p0 by lia.
  replace (Z.abs (p0 + (l - 1))) with (p0 + l - 1) by lia.
  replace (p0 + l - 1 - p0 + 1) with l by lia. reflexivity.
Qed.

(* the macro-name correction changes a length only for a lone backslash and
   then stays inside the text *)
Lemma take_while_length_le {A} (f : A -> bool) l : (length (take_while f l) <= length l)%nat.
Proof. induction l as [|x l IH]; simpl; [lia|]. destruct (f x); simpl; lia. Qed.

Theorem correct_mark_macroname_range off len latex :
  let len' := correct_mark_macroname off len latex in
  len' = len \/ (len = 1 /\ 2 <= len' /\ off + len' <= zlen latex).
Proof.
  simpl. unfold correct_mark_macroname.
  destruct ((len =? 1) && (0 <=? off) && (off <? zlen latex - 1)) eqn:E;
    [|left; reflexivity].
  apply andb_true_iff in E. destruct E as [E E3].
  apply andb_true_iff in E. destruct E as [E1 E2].
  apply Z.eqb_eq in E1. apply Z.leb_le in E2. apply Z.ltb_lt in E3.
  destruct (skipn (Z.to_nat off) latex) as [|c rest] eqn:Es; [left; reflexivity|].
  destruct (N.eqb c c_backslash); [|left; reflexivity].
  destruct (length (take_while is_ascii_letter rest)) as [|k] eqn:Ek;
    [left; reflexivity|].
  right. split; [exact E1|]. split; [lia|].
  pose proof (take_while_length_le is_ascii_letter rest) as Hle.
  pose proof (f_equal (@length _) Es) as HL. rewrite skipn_length in HL.
  simpl in HL. unfold zlen in *. lia.
Qed.

(* ------------------------------------------------------------------ *)
(*  line and column                                                     *)
(* ------------------------------------------------------------------ *)

Lemma rfind_index_spec {A} (f : A -> bool) (l : list A) :
  match rfind_index f l with
  | Some i => (i < length l)%nat /\
              (exists x, nth_error l i = Some x /\ f x = true) /\
              Forall (fun x => f x = false) (skipn (S i) l)
  | None => Forall (fun x => f x = false) l
  end.
Proof.
  induction l as [|x l IH]; simpl; [constructor|].
  destruct (rfind_index f l) as [i|].
  - destruct IH as (Hi & (y & Hy & Fy) & Hrest). split; [lia|]. split.
    + exists y. split; assumption.
    + exact Hrest.
  - destruct (f x) eqn:E.
    + split; [lia|]. split; [exists x; split; auto|]. simpl. exact IH.
    + constructor; assumption.
Qed.

Lemma norm_idx_id (e : Z) (n : nat) : 0 <= e <= Z.of_nat n -> norm_idx e n = Z.to_nat e.
Proof.
  intros H. unfold norm_idx. destruct (e <? 0) eqn:E; [apply Z.ltb_lt in E; lia|].
  f_equal. lia.
Qed.

(* for an offset inside the text: the line start ls is at most off, the
   characters between ls and off hold no line break, ls is 0 or stands right
   behind a line break, and line-1 counts the line breaks before off.
   This determines line and column uniquely (they are the inverse of
   "offset of line and column"). *)
Theorem linecol_spec tex off :
  0 <= off <= zlen tex ->
  let ls := line_start_to tex off in
  0 <= ls <= off /\
  Forall (fun c => N.eqb c_nl c = false)
         (pyslice tex (Z.to_nat ls) (Z.to_nat off)) /\
  (ls = 0 \/ nth_error tex (Z.to_nat (ls - 1)) = Some c_nl) /\
  fst (text_loc tex off) - 1 = Z.of_nat (count_char c_nl (firstn (Z.to_nat off) tex)) /\
  snd (text_loc tex off) = off - ls + 1.
Proof.
  intros Hoff ls. subst ls.
  unfold text_loc, count_nl_to, line_start_to, zlen in *. cbn [fst snd].
  rewrite norm_idx_id by lia.
  set (n := Z.to_nat off).
  assert (Hn : (n <= length tex)%nat) by lia.
  pose proof (rfind_index_spec (N.eqb c_nl) (firstn n tex)) as R.
  destruct (rfind_index (N.eqb c_nl) (firstn n tex)) as [i|] eqn:Ei.
  - destruct R as (Hi & (x & Hx & Fx) & Hrest).
    rewrite firstn_length in Hi.
    apply N.eqb_eq in Fx. subst x.
    split; [lia|]. split.
    + replace (Z.to_nat (Z.of_nat (S i))) with (S i) by lia.
      unfold pyslice.
      replace (firstn (n - S i) (skipn (S i) tex)) with (skipn (S i) (firstn n tex)).
      * exact Hrest.
      * rewrite skipn_firstn_comm. reflexivity.
    + split.
      * right. replace (Z.to_nat (Z.of_nat (S i) - 1)) with i by lia.
        rewrite nth_error_firstn_lt in Hx by lia. exact Hx.
      * split; [lia | reflexivity].
  - split; [lia|]. split.
    + unfold pyslice. change (Z.to_nat 0) with 0%nat. rewrite skipn_O.
      replace (n - 0)%nat with n by lia. exact R.
    + split; [left; reflexivity|]. split; [lia | reflexivity].
Qed.

(* the formats report the same place: JSON/XML numbers are the 0-based
   line / column of the first character and the 0-based line / 1-based end
   column of the last character *)
Theorem formats_agree tex off len :
  json_loc tex off len =
    (fst (text_loc tex off) - 1, snd (text_loc tex off) - 1,
     fst (text_loc tex (off + len - 1)) - 1, snd (text_loc tex (off + len - 1))).
Proof.
  unfold json_loc, text_loc. cbn [fst snd].
  repeat match goal with |- (_, _) = (_, _) => f_equal end; lia.
Qed.

Theorem xml_agrees_json tex off len : xml_loc tex off len false = json_loc tex off len.
Proof. reflexivity. Qed.

(* xml-b: columns are UTF-8 byte lengths of the same stretches of the line *)
Theorem xml_bytes_spec tex off len :
  xml_loc tex off len true =
    (count_nl_to tex off,
     utf8_len (zslice tex (line_start_to tex off) off),
     count_nl_to tex (off + len - 1),
     utf8_len (zslice tex (line_start_to tex (off + len - 1)) (off + len - 1 + 1))).
Proof. reflexivity. Qed.

Lemma utf8_len_ascii s :
  Forall (fun c => N.ltb c 128 = true) s -> utf8_len s = zlen s.
Proof.
  unfold utf8_len, zlen. induction 1 as [|c s Hc Hs IH]; [reflexivity|].
  simpl fold_right. unfold utf8_len_char at 1. rewrite Hc.
  simpl length. lia.
Qed.

(* ------------------------------------------------------------------ *)
(*  stable sort                                                         *)
(* ------------------------------------------------------------------ *)

Definition key_le (x y : Z * pmatch) : Prop := fst x <= fst y.

Lemma insert_stable_perm x l : Permutation (x :: l) (insert_stable x l).
Proof.
  induction l as [|y l IH]; simpl; [apply Permutation_refl|].
  destruct (fst x <=? fst y); [apply Permutation_refl|].
  eapply perm_trans; [apply perm_swap|]. apply perm_skip. exact IH.
Qed.

Lemma sort_stable_perm l : Permutation l (sort_stable l).
Proof.
  induction l as [|x l IH]; simpl; [constructor|].
  eapply perm_trans; [apply perm_skip; exact IH | apply insert_stable_perm].
Qed.

Lemma insert_stable_sorted x l :
  StronglySorted key_le l -> StronglySorted key_le (insert_stable x l).
Proof.
  induction 1 as [|y l Hs IH Hf]; simpl; [repeat constructor|].
  destruct (fst x <=? fst y) eqn:E.
  - apply Z.leb_le in E. constructor; [constructor; assumption|].
    constructor; [exact E|].
    eapply Forall_impl; [|exact Hf]. unfold key_le. intros; lia.
  - apply Z.leb_gt in E. constructor; [exact IH|].
    assert (Hp := insert_stable_perm x l).
    apply (Permutation_Forall (P := key_le y) Hp).
    constructor; [unfold key_le; lia | exact Hf].
Qed.

Theorem sort_stable_sorted l : StronglySorted key_le (sort_stable l).
Proof.
  induction l as [|x l IH]; simpl; [constructor|].
  apply insert_stable_sorted. exact IH.
Qed.

(* stability: elements with the same key keep their order *)
Lemma filter_insert_stable k x l :
  StronglySorted key_le l ->
  filter (fun y => fst y =? k) (insert_stable x l) =
  filter (fun y => fst y =? k) (x :: l).
Proof.
  induction 1 as [|y l Hs IH Hf]; [reflexivity|]. simpl.
  destruct (fst x <=? fst y) eqn:E; [reflexivity|].
  apply Z.leb_gt in E. simpl. rewrite IH. simpl.
  destruct (fst x =? k) eqn:Ex; destruct (fst y =? k) eqn:Ey; try reflexivity.
  apply Z.eqb_eq in Ex. apply Z.eqb_eq in Ey. lia.
Qed.

Theorem sort_stable_stable k l :
  filter (fun y => fst y =? k) (sort_stable l) = filter (fun y => fst y =? k) l.
Proof.
  induction l as [|x l IH]; [reflexivity|]. simpl sort_stable.
  rewrite filter_insert_stable by apply sort_stable_sorted.
  simpl. rewrite IH. reflexivity.
Qed.
