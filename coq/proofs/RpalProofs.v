(* Proofs about coq/model/Rpal.v (Parser.remove_pure_action_lines):
   without action tokens the pass deletes nothing (C05: a line that was
   blank in the source still separates paragraphs; C06). *)
From Coq Require Import Lia.
From YV Require Import PyBase PyBaseProofs ShellMap ShellMapProofs Token Rpal.
Open Scope Z_scope.

Section RpalProofs.
  Variable is_space : char -> bool.
  Notation eval := (eval is_space).
  Notation rpal_loop := (rpal_loop is_space).

  Definition no_action (l : list etok) : Prop :=
    Forall (fun e => is_action (e_tok e) = false) l.

  Lemma e_tok_eval t : e_tok (eval t) = t.
  Proof. unfold Rpal.eval. destruct (is_action t); reflexivity. Qed.

  Lemma collect_app : forall p acc buf b rest,
    collect p acc = (buf, b, rest) ->
    buf ++ rest = rev acc ++ p /\ (length acc <= length buf)%nat.
  Proof.
    induction p as [|t p IH]; intros acc buf b rest H; simpl in H.
    - inversion H; subst. rewrite rev_length. split; [reflexivity | lia].
    - destruct (e_end t).
      + inversion H; subst. simpl. rewrite <- app_assoc. simpl.
        rewrite app_length, rev_length. simpl. split; [reflexivity | lia].
      + destruct (negb (e_blank t)).
        * inversion H; subst. simpl. rewrite <- app_assoc. simpl.
          rewrite app_length, rev_length. simpl. split; [reflexivity | lia].
        * apply IH in H. destruct H as [H1 H2]. simpl in H1, H2.
          rewrite <- app_assoc in H1. simpl in H1. split; [exact H1 | lia].
  Qed.

  Lemma no_action_exists l : no_action l -> existsb (fun e => is_action (e_tok e)) l = false.
  Proof.
    induction 1 as [|e l He Hl IH]; simpl; [reflexivity|]. rewrite He, IH. reflexivity.
  Qed.

  Lemma rpal_loop_no_action : forall fuel pending out,
    (length pending < fuel)%nat -> no_action pending ->
    exists res, rpal_loop fuel pending out = Ok res /\
                map e_tok res = map e_tok (out ++ pending).
  Proof.
    induction fuel as [|k IH]; intros pending out Hf Hn; [lia|].
    destruct pending as [|t p]; cbn [Rpal.rpal_loop].
    - exists out. rewrite app_nil_r. split; reflexivity.
    - inversion Hn as [|? ? Ht Hp]; subst. simpl in Hf.
      destruct (negb (e_start t)).
      + destruct (IH p (out ++ [t]) ltac:(lia) Hp) as (res & E & M).
        exists res. split; [exact E|]. rewrite M, <- app_assoc. reflexivity.
      + destruct (collect p [t]) as [[buf b] rest] eqn:Ec.
        apply collect_app in Ec. destruct Ec as [Eb Hl]. simpl in Eb, Hl.
        assert (Hbr : no_action (buf ++ rest)) by (rewrite Eb; exact Hn).
        apply Forall_app in Hbr. destruct Hbr as [Hb Hr].
        destruct (rev buf) as [|lst rb] eqn:Er.
        { apply (f_equal (@length _)) in Er. rewrite rev_length in Er. simpl in Er. lia. }
        rewrite (no_action_exists buf Hb), Bool.andb_false_r.
        assert (Ebuf : buf = rev rb ++ [lst]).
        { rewrite <- (rev_involutive buf), Er. reflexivity. }
        assert (Hlen : (length buf + length rest = S (length p))%nat).
        { apply (f_equal (@length _)) in Eb. rewrite app_length in Eb. simpl in Eb. exact Eb. }
        destruct (Nat.ltb 1 (length buf)) eqn:E1.
        * apply Nat.ltb_lt in E1.
          assert (Hn' : no_action (eval (e_tok lst) :: rest)).
          { constructor; [|exact Hr]. rewrite e_tok_eval.
            rewrite Ebuf in Hb. apply Forall_app in Hb. destruct Hb as [_ Hb].
            inversion Hb; assumption. }
          destruct (IH (eval (e_tok lst) :: rest) (out ++ removelast buf)
                       ltac:(simpl; lia) Hn') as (res & E & M).
          exists res. split; [exact E|]. rewrite M.
          rewrite Ebuf at 1. rewrite removelast_last.
          replace (t :: p) with (buf ++ rest) by exact Eb.
          rewrite Ebuf. rewrite !map_app. simpl. rewrite e_tok_eval.
          rewrite <- !app_assoc. reflexivity.
        * destruct (IH rest (out ++ buf) ltac:(lia) Hr) as (res & E & M).
          exists res. split; [exact E|]. rewrite M, <- app_assoc.
          replace (t :: p) with (buf ++ rest) by exact Eb. reflexivity.
  Qed.

  (* without action tokens nothing is removed but tokens with empty text *)
  Theorem rpal_no_action tokens :
    Forall (fun t => is_action t = false) tokens ->
    remove_pure_action_lines is_space tokens = Ok (filter keep_out tokens).
  Proof.
    intros Hn. unfold remove_pure_action_lines.
    set (toks := filter _ tokens).
    assert (Ht : toks = filter keep_out tokens).
    { unfold toks. clear toks. induction Hn as [|t l Ht Hl IH]; simpl; [reflexivity|].
      unfold keep_out at 1. rewrite Ht. simpl. destruct (txt t); rewrite IH; reflexivity. }
    set (first := with_start (eval (TextT 0 []))).
    set (last := with_end (eval (TextT _ []))).
    assert (Hna : no_action (first :: map eval toks ++ [last])).
    { constructor; [reflexivity|]. apply Forall_app. split; [|constructor; [reflexivity|constructor]].
      apply Forall_forall. intros e He. apply in_map_iff in He. destruct He as (t & Et & Hin).
      subst e. rewrite e_tok_eval. rewrite Ht in Hin. apply filter_In in Hin.
      rewrite Forall_forall in Hn. apply Hn. apply Hin. }
    destruct (rpal_loop_no_action (4 * length (first :: map eval toks ++ [last]) + 4)
                (first :: map eval toks ++ [last]) [] ltac:(lia) Hna) as (res & E & M).
    rewrite E. cbn [rbind]. f_equal. rewrite M. simpl.
    rewrite map_app, map_map. simpl.
    rewrite (map_ext _ (fun x => x) e_tok_eval), map_id.
    rewrite filter_app. simpl. rewrite app_nil_r.
    rewrite Ht. clear. induction tokens as [|t l IH]; simpl; [reflexivity|].
    destruct (keep_out t) eqn:E; simpl; [rewrite E, IH; reflexivity | exact IH].
  Qed.

  (* ================================================================ *)
  (*  totality (C07): the pass returns for every token list            *)
  (* ================================================================ *)
  (* flags of an action token *)
  Definition K (e : etok) : Prop :=
    is_action (e_tok e) = true -> e_start e = false /\ e_end e = false /\ e_blank e = true.
  (* the last pending token is no action token *)
  Definition J (p : list etok) : Prop :=
    forall l x, p = l ++ [x] -> is_action (e_tok x) = false.

  Lemma K_eval t : K (eval t).
  Proof.
    unfold K, Rpal.eval. destruct (is_action t) eqn:E; simpl; [auto|].
    intros H. congruence.
  Qed.
  Lemma K_nonaction e : is_action (e_tok e) = false -> K e.
  Proof. unfold K. intros H H'. congruence. Qed.

  Lemma J_tail t p : J (t :: p) -> J p.
  Proof. intros H l x E. apply (H (t :: l) x). rewrite E. reflexivity. Qed.

  Lemma J_suffix a b : b <> [] -> J (a ++ b) -> J b.
  Proof.
    intros _ H l x E. apply (H (a ++ l) x). rewrite E, app_assoc. reflexivity.
  Qed.

  Lemma J_replace_front a a' b : b <> [] -> J (a ++ b) -> J (a' ++ b).
  Proof.
    intros Hb H l x E. apply J_suffix in H; [|exact Hb].
    destruct (exists_last Hb) as (lb & xb & Eb). subst b.
    rewrite app_assoc in E. apply app_inj_tail in E. destruct E as [_ E]. subst x.
    apply (H lb xb). reflexivity.
  Qed.

  Lemma collect_last : forall p acc buf b rest,
    acc <> [] -> Forall K p -> J (rev acc ++ p) ->
    collect p acc = (buf, b, rest) ->
    exists l x, buf = l ++ [x] /\ is_action (e_tok x) = false.
  Proof.
    induction p as [|t p IH]; intros acc buf b rest Ha HK HJ H; simpl in H.
    - inversion H; subst. rewrite app_nil_r in HJ.
      assert (rev acc <> []) as Hr.
      { intros E. apply (f_equal (@rev _)) in E. rewrite rev_involutive in E. exact (Ha E). }
      destruct (exists_last Hr) as (l & x & E). exists l, x. split; [exact E|].
      apply (HJ l x E).
    - inversion HK as [|? ? Kt Kp]; subst.
      assert (Hna : e_end t = true \/ e_blank t = false -> is_action (e_tok t) = false).
      { intros Hc. destruct (is_action (e_tok t)) eqn:E; [|reflexivity].
        destruct (Kt E) as (_ & He & Hb). destruct Hc; congruence. }
      destruct (e_end t) eqn:Ee.
      + inversion H; subst. exists (rev acc), t. split; [reflexivity | apply Hna; left; reflexivity].
      + destruct (e_blank t) eqn:Eb; simpl in H.
        * eapply IH; [| exact Kp | | exact H]; [discriminate|].
          simpl. rewrite <- app_assoc. exact HJ.
        * inversion H; subst. exists (rev acc), t.
          split; [reflexivity | apply Hna; right; reflexivity].
  Qed.

  Lemma is_action_set t s p :
    is_action (set_pos (set_txt t s) p) = is_action t /\ is_action (set_txt t s) = is_action t.
  Proof. split; reflexivity. Qed.

  Lemma rpal_loop_total : forall fuel pending out,
    (length pending < fuel)%nat -> Forall K pending -> J pending ->
    exists res, rpal_loop fuel pending out = Ok res.
  Proof.
    induction fuel as [|k IH]; intros pending out Hf HK HJ; [lia|].
    destruct pending as [|t p]; cbn [Rpal.rpal_loop]; [eexists; reflexivity|].
    inversion HK as [|? ? Kt Kp]; subst. simpl in Hf.
    destruct (negb (e_start t)) eqn:Est.
    { apply IH; [lia | exact Kp | eapply J_tail; exact HJ]. }
    apply negb_false_iff in Est.
    destruct (collect p [t]) as [[buf b] rest] eqn:Ec.
    pose proof (collect_last p [t] buf b rest ltac:(discriminate) Kp HJ Ec) as (lb & lst' & Elb & Hlst).
    apply collect_app in Ec. destruct Ec as [Eb Hl]. simpl in Eb, Hl.
    assert (Hlen : (length buf + length rest = S (length p))%nat).
    { apply (f_equal (@length _)) in Eb. rewrite app_length in Eb. simpl in Eb. exact Eb. }
    assert (HKr : Forall K rest).
    { assert (Forall K (buf ++ rest)) as HH by (rewrite Eb; exact HK).
      apply Forall_app in HH. apply HH. }
    assert (HJ' : J (buf ++ rest)) by (rewrite Eb; exact HJ).
    destruct (rev buf) as [|lst rb] eqn:Er.
    { apply (f_equal (@length _)) in Er. rewrite rev_length in Er. simpl in Er. lia. }
    assert (Elst : lst = lst').
    { rewrite Elb, rev_app_distr in Er. simpl in Er. inversion Er. reflexivity. }
    subst lst'.
    (* the new pending lists keep J *)
    assert (HJnew : forall front, (forall x, In x front -> True) ->
              (rest = [] -> exists f x, front = f ++ [x] /\ is_action (e_tok x) = false) ->
              J (front ++ rest)).
    { intros front _ Hfr. destruct rest as [|r0 rest'] eqn:Erest.
      - destruct (Hfr eq_refl) as (f & x & Ef & Hx). rewrite app_nil_r.
        intros l y E. rewrite Ef in E. apply app_inj_tail in E. destruct E as [_ E].
        subst y. exact Hx.
      - eapply J_replace_front; [discriminate | exact HJ']. }
    destruct (b && Nat.ltb 1 (length buf) && existsb (fun e => is_action (e_tok e)) buf) eqn:Ecnd.
    - (* a pure action line is removed: at least three tokens are involved *)
      apply andb_true_iff in Ecnd. destruct Ecnd as [Ecnd Hex].
      apply andb_true_iff in Ecnd. destruct Ecnd as [_ Hlt]. apply Nat.ltb_lt in Hlt.
      assert (H3 : (3 <= length buf)%nat).
      { destruct buf as [|x [|y [|z buf3]]]; simpl in *; try lia. exfalso.
        inversion Eb; subst x. inversion Er; subst.
        simpl in Hex. rewrite Hlst in Hex. simpl in Hex. repeat rewrite Bool.orb_false_r in Hex.
        destruct (Kt Hex) as (Hs & _). congruence. }
      match goal with |- exists res, rpal_loop k (?s :: ?e2 :: rest) ?o = Ok res =>
        apply (IH (s :: e2 :: rest) o) end.
      + simpl. lia.
      + constructor; [apply K_nonaction; reflexivity|].
        constructor; [apply K_eval | exact HKr].
      + match goal with |- J (?s :: ?e2 :: rest) =>
          change (J ([s; e2] ++ rest)); apply HJnew; [auto|];
          intros _; exists [s], e2; split; [reflexivity|] end.
        rewrite e_tok_eval.
        destruct (find_index (N.eqb c_nl) (txt (e_tok lst))); [destruct (pfix (e_tok lst))|];
          exact Hlst.
    - destruct (Nat.ltb 1 (length buf)) eqn:E1.
      + apply Nat.ltb_lt in E1.
        apply (IH (eval (e_tok lst) :: rest) (out ++ removelast buf)).
        * simpl. lia.
        * constructor; [apply K_eval | exact HKr].
        * change (J ([eval (e_tok lst)] ++ rest)). apply HJnew; [auto|].
          intros _. exists [], (eval (e_tok lst)). split; [reflexivity|].
          rewrite e_tok_eval. exact Hlst.
      + apply Nat.ltb_ge in E1. apply (IH rest (out ++ buf)); [lia | exact HKr |].
        destruct rest as [|r0 rest']; [intros l x E; destruct l; discriminate|].
        eapply J_suffix; [discriminate | exact HJ'].
  Qed.

  Theorem rpal_total tokens : exists r, remove_pure_action_lines is_space tokens = Ok r.
  Proof.
    unfold remove_pure_action_lines.
    set (toks := filter _ tokens).
    set (first := with_start (eval (TextT 0 []))).
    set (last := with_end (eval (TextT _ []))).
    destruct (rpal_loop_total (4 * length (first :: map eval toks ++ [last]) + 4)
                (first :: map eval toks ++ [last]) []) as (res & E).
    - lia.
    - constructor; [apply K_nonaction; reflexivity|]. apply Forall_app. split.
      + apply Forall_forall. intros e He. apply in_map_iff in He.
        destruct He as (t & Et & _). subst e. apply K_eval.
      + constructor; [apply K_nonaction; reflexivity | constructor].
    - intros l x E. change (first :: map eval toks ++ [last])
        with ((first :: map eval toks) ++ [last]) in E.
      apply app_inj_tail in E. destruct E as [_ E]. subst x. reflexivity.
    - rewrite E. cbn [rbind]. eexists. reflexivity.
  Qed.

  (* ================================================================ *)
  (*  conservation (C03, C05): the pass deletes white space only        *)
  (* ================================================================ *)
  Hypothesis Hnl : is_space c_nl = true.

  Definition ns (s : str) : str := filter (fun c => negb (is_space c)) s.
  Definition nsl (l : list etok) : str := flat_map (fun e => ns (txt (e_tok e))) l.
  Definition nst (l : list tok) : str := flat_map (fun t => ns (txt t)) l.

  (* action and language tokens carry no text *)
  Definition E0 (t : tok) : Prop := is_action t = true \/ is_lang t = true -> txt t = [].
  (* the flags say what they should *)
  Definition F (e : etok) : Prop :=
    (e_blank e = true -> ns (txt (e_tok e)) = []) /\
    (e_start e = true -> ns (after_last_nl (txt (e_tok e))) = []) /\
    (e_end e = true -> ns (before_first_nl (txt (e_tok e))) = []).

  Lemma ns_app a b : ns (a ++ b) = ns a ++ ns b.
  Proof. apply filter_app. Qed.
  Lemma nsl_app a b : nsl (a ++ b) = nsl a ++ nsl b.
  Proof. apply flat_map_app. Qed.
  Lemma ns_blank s : forallb is_space s = true -> ns s = [].
  Proof.
    induction s as [|c s IH]; simpl; intros H; [reflexivity|].
    apply andb_true_iff in H. destruct H as [H1 H2]. rewrite H1. simpl. apply IH, H2.
  Qed.
  Lemma ns_nil_app a b : ns (a ++ b) = [] -> ns a = [] /\ ns b = [].
  Proof. rewrite ns_app. apply app_eq_nil. Qed.
  Lemma ns_skipn n s : ns s = [] -> ns (skipn n s) = [].
  Proof. intros H. rewrite <- (firstn_skipn n s) in H. apply ns_nil_app in H. apply H. Qed.
  Lemma ns_firstn n s : ns s = [] -> ns (firstn n s) = [].
  Proof. intros H. rewrite <- (firstn_skipn n s) in H. apply ns_nil_app in H. apply H. Qed.

  Lemma F_eval t : E0 t -> F (eval t).
  Proof.
    intros He. unfold F, Rpal.eval. destruct (is_action t) eqn:Ea; cbn [e_tok e_blank e_start e_end].
    - rewrite (He (or_introl Ea)). repeat split; intros; try discriminate; reflexivity.
    - repeat split; intros H; apply andb_true_iff in H; destruct H as [_ H];
        apply ns_blank; exact H.
  Qed.
  Lemma F_sentinel p : F (with_start (eval (TextT p []))) /\ F (with_end (eval (TextT p []))).
  Proof. split; repeat split; intros; reflexivity. Qed.

  (* what collect returns *)
  Lemma collect_struct : forall p acc buf b rest,
    collect p acc = (buf, b, rest) ->
    exists pre, Forall (fun e => e_blank e = true) pre /\
      ((buf = rev acc ++ pre /\ rest = [] /\ p = pre) \/
       (exists x, buf = rev acc ++ pre ++ [x] /\ p = pre ++ x :: rest /\
                  (b = true -> e_end x = true))).
  Proof.
    induction p as [|t p IH]; intros acc buf b rest H; simpl in H.
    - inversion H; subst. exists []. split; [constructor|]. left.
      rewrite app_nil_r. repeat split.
    - destruct (e_end t) eqn:Ee.
      + inversion H; subst. exists []. split; [constructor|]. right. exists t.
        simpl. repeat split. intros _. exact Ee.
      + destruct (negb (e_blank t)) eqn:Eb.
        * inversion H; subst. exists []. split; [constructor|]. right. exists t.
          simpl. repeat split. discriminate.
        * apply negb_false_iff in Eb. apply IH in H.
          destruct H as (pre & Hpre & [(E1 & E2 & E3)|(x & E1 & E2 & E3)]).
          -- exists (t :: pre). split; [constructor; assumption|]. left.
             subst. simpl. rewrite <- app_assoc. repeat split.
          -- exists (t :: pre). split; [constructor; assumption|]. right. exists x.
             subst. simpl. rewrite <- !app_assoc. repeat split. exact E3.
  Qed.

  Lemma nsl_blank l : Forall (fun e => e_blank e = true) l -> Forall F l -> nsl l = [].
  Proof.
    induction 1 as [|e l He Hl IH]; intros HF; [reflexivity|].
    inversion HF as [|? ? Fe Fl]; subst. simpl. destruct Fe as (Fb & _ & _).
    rewrite (Fb He), (IH Fl). reflexivity.
  Qed.

  Lemma tl_ns a (s : str) : ns (a :: s) = [] -> ns s = [].
  Proof. simpl. destruct (negb (is_space a)); [discriminate | auto]. Qed.

  (* the cut of the first token of a removed line keeps its visible text *)
  Lemma cut_start x :
    ns (after_last_nl x) = [] ->
    ns (match rfind_index (N.eqb c_nl) x with Some i => firstn (S i) x | None => [] end) = ns x.
  Proof.
    unfold after_last_nl. destruct (rfind_index (N.eqb c_nl) x) as [i|]; intros H.
    - rewrite <- (firstn_skipn (S i) x) at 2. rewrite ns_app.
      assert (ns (skipn (S i) x) = []) as E.
      { destruct (skipn i x) as [|a r] eqn:Es.
        - assert (skipn (S i) x = []) as E'.
          { apply skipn_all2. apply skipn_nil_ge in Es. lia. }
          rewrite E'. reflexivity.
        - assert (skipn (S i) x = r) as E'.
          { change (S i) with (1 + i)%nat. rewrite Nat.add_comm, <- skipn_skipn_add, Es. reflexivity. }
          rewrite E'. eapply tl_ns. exact H. }
      rewrite E, app_nil_r. reflexivity.
    - simpl. symmetry. exact H.
  Qed.

  Lemma find_index_nth {A} (f : A -> bool) : forall l i,
    find_index f l = Some i -> exists a, nth_error l i = Some a /\ f a = true.
  Proof.
    induction l as [|x l IH]; intros i H; simpl in H; [discriminate|].
    destruct (f x) eqn:E.
    - inversion H; subst. exists x. split; [reflexivity | exact E].
    - destruct (find_index f l) as [j|]; simpl in H; [|discriminate].
      inversion H; subst. apply IH. reflexivity.
  Qed.

  (* the cut of the last token: only its blank head up to the line break goes *)
  Lemma cut_end x :
    ns (before_first_nl x) = [] \/ ns x = [] ->
    ns (match find_index (N.eqb c_nl) x with Some i => skipn (S i) x | None => [] end) = ns x.
  Proof.
    unfold before_first_nl. destruct (find_index (N.eqb c_nl) x) as [i|] eqn:Ei; intros H.
    - destruct H as [H|H]; [|rewrite H; apply ns_skipn; exact H].
      destruct (find_index_nth _ _ _ Ei) as (a & Ha & Hc). apply N.eqb_eq in Hc. subst a.
      rewrite <- (firstn_skipn (S i) x) at 2. rewrite ns_app.
      assert (firstn (S i) x = firstn i x ++ [c_nl]) as Ef.
      { clear H Ei. revert x Ha. induction i as [|i IH]; intros x Ha; destruct x as [|c x];
          try discriminate; simpl in *.
        - inversion Ha; subst. reflexivity.
        - f_equal. apply IH. exact Ha. }
      rewrite Ef, ns_app, H. simpl. rewrite Hnl. reflexivity.
    - destruct H as [H|H]; simpl; symmetry; exact H.
  Qed.

  Lemma rpal_loop_conserves : forall fuel pending out res,
    rpal_loop fuel pending out = Ok res ->
    Forall F pending -> Forall (fun e => E0 (e_tok e)) pending ->
    nsl res = nsl out ++ nsl pending.
  Proof.
    induction fuel as [|k IH]; intros pending out res H HF HE; [discriminate|].
    destruct pending as [|t p]; cbn [Rpal.rpal_loop] in H.
    { inversion H; subst. simpl. rewrite app_nil_r. reflexivity. }
    inversion HF as [|? ? Ft Fp]; subst. inversion HE as [|? ? Et Ep]; subst.
    destruct (negb (e_start t)) eqn:Est.
    { apply IH in H; [|exact Fp | exact Ep]. rewrite H, nsl_app, <- app_assoc.
      change (t :: p) with ([t] ++ p). rewrite (nsl_app [t] p). reflexivity. }
    apply negb_false_iff in Est.
    destruct (collect p [t]) as [[buf b] rest] eqn:Ec.
    pose proof (collect_struct _ _ _ _ _ Ec) as (pre & Hpre & Hcases).
    pose proof (collect_app _ _ _ _ _ Ec) as [Eb _]. simpl in Eb.
    assert (HFb : Forall F (buf ++ rest)) by (rewrite Eb; exact HF).
    assert (HEb : Forall (fun e => E0 (e_tok e)) (buf ++ rest)) by (rewrite Eb; exact HE).
    apply Forall_app in HFb. destruct HFb as [HFbuf HFrest].
    apply Forall_app in HEb. destruct HEb as [HEbuf HErest].
    replace (nsl (t :: p)) with (nsl buf ++ nsl rest) by (rewrite <- nsl_app, Eb; reflexivity).
    destruct (rev buf) as [|lst rb] eqn:Er; [discriminate|].
    assert (Ebuf : buf = rev rb ++ [lst]).
    { rewrite <- (rev_involutive buf), Er. reflexivity. }
    destruct (b && Nat.ltb 1 (length buf) && existsb (fun e => is_action (e_tok e)) buf) eqn:Ecnd.
    - apply andb_true_iff in Ecnd. destruct Ecnd as [Ecnd _].
      apply andb_true_iff in Ecnd. destruct Ecnd as [Hb Hlt]. apply Nat.ltb_lt in Hlt. subst b.
      (* buf = t :: mid ++ [lst], mid blank, lst ends a line or is blank *)
      assert (Hst : exists mid, buf = t :: mid ++ [lst] /\ nsl mid = [] /\
                                (e_end lst = true \/ e_blank lst = true)).
      { simpl in Hcases. destruct Hcases as [(E1 & E2 & E3)|(x & E1 & E2 & E3)].
        - subst pre. assert (p <> []) as Hp.
          { intros E. subst p. rewrite E1 in Hlt. simpl in Hlt. lia. }
          destruct (exists_last Hp) as (mid & l' & El). subst p.
          rewrite E1 in Ebuf. change (t :: mid ++ [l']) with ((t :: mid) ++ [l']) in Ebuf.
          apply app_inj_tail in Ebuf. destruct Ebuf as [_ El]. subst l'.
          apply Forall_app in Hpre. destruct Hpre as [Hm Hl].
          exists mid. split; [exact E1|]. split.
          + apply nsl_blank; [exact Hm|]. rewrite E1 in HFbuf.
            inversion HFbuf as [|? ? _ HH]; subst. apply Forall_app in HH. apply HH.
          + right. inversion Hl; assumption.
        - rewrite E1 in Ebuf. change (t :: pre ++ [x]) with ((t :: pre) ++ [x]) in Ebuf.
          apply app_inj_tail in Ebuf. destruct Ebuf as [_ El]. subst x.
          exists pre. split; [exact E1|]. split.
          + apply nsl_blank; [exact Hpre|]. rewrite E1 in HFbuf.
            inversion HFbuf as [|? ? _ HH]; subst. apply Forall_app in HH. apply HH.
          + left. apply E3. reflexivity. }
      destruct Hst as (mid & Ebm & Hmid & Hlst).
      assert (Flst : F lst /\ E0 (e_tok lst)).
      { rewrite Ebm in HFbuf, HEbuf. split.
        - inversion HFbuf as [|? ? _ HH]; subst. apply Forall_app in HH. destruct HH as [_ HH].
          inversion HH; assumption.
        - inversion HEbuf as [|? ? _ HH]; subst. apply Forall_app in HH. destruct HH as [_ HH].
          inversion HH; assumption. }
      destruct Flst as [Flst Elst].
      match type of H with rpal_loop k (?s :: eval ?t2 :: rest) (out ++ eval ?t1 :: ?lg) = _ =>
        set (t2' := t2) in *; set (t1' := t1) in *; set (langs := lg) in * end.
      assert (Ht1 : ns (txt t1') = ns (txt (e_tok t))).
      { unfold t1'. cbn [txt set_txt]. apply cut_start. destruct Ft as (_ & Fs & _). apply Fs, Est. }
      assert (Ht2 : ns (txt t2') = ns (txt (e_tok lst))).
      { assert (Hc := cut_end (txt (e_tok lst))).
        assert (Hpre2 : ns (before_first_nl (txt (e_tok lst))) = [] \/ ns (txt (e_tok lst)) = []).
        { destruct Flst as (Fb & _ & Fe). destruct Hlst as [H1|H1]; [left; apply Fe, H1 | right; apply Fb, H1]. }
        specialize (Hc Hpre2). unfold t2'.
        destruct (find_index (N.eqb c_nl) (txt (e_tok lst))); [destruct (pfix (e_tok lst))|];
          cbn [txt set_txt set_pos]; exact Hc. }
      assert (Hlangs : nsl langs = []).
      { unfold langs. clear - HEbuf. induction buf as [|e l IHl]; [reflexivity|].
        inversion HEbuf as [|? ? He Hl]; subst. simpl.
        destruct (is_lang (e_tok e)) eqn:El; [|apply IHl; exact Hl].
        simpl. rewrite (He (or_intror El)). simpl. apply IHl. exact Hl. }
      assert (E2' : E0 t2').
      { unfold t2'. intros Hk.
        assert (txt (e_tok lst) = []) as Hx.
        { apply Elst. destruct (find_index (N.eqb c_nl) (txt (e_tok lst)));
            [destruct (pfix (e_tok lst))|]; exact Hk. }
        rewrite Hx. simpl. reflexivity. }
      apply IH in H.
      + rewrite H. rewrite !nsl_app. cbn [nsl flat_map]. rewrite !e_tok_eval.
        fold (nsl langs). fold (nsl rest). rewrite Hlangs, Ht1, Ht2.
        rewrite Ebm. cbn [nsl flat_map]. rewrite flat_map_app. fold (nsl mid). rewrite Hmid.
        simpl. rewrite !app_nil_r, <- !app_assoc. reflexivity.
      + constructor; [apply F_sentinel|]. constructor; [apply F_eval; exact E2' | exact HFrest].
      + constructor; [intros [Hk|Hk]; discriminate|].
        constructor; [rewrite e_tok_eval; exact E2' | exact HErest].
    - assert (Elst : E0 (e_tok lst) /\ True).
      { rewrite Ebuf in HEbuf. apply Forall_app in HEbuf. destruct HEbuf as [_ HH].
        inversion HH; subst. split; [assumption | exact I]. }
      destruct Elst as [Elst _].
      destruct (Nat.ltb 1 (length buf)).
      + apply IH in H.
        * rewrite H, !nsl_app. cbn [nsl flat_map]. rewrite e_tok_eval.
          rewrite Ebuf at 2. rewrite Ebuf at 1. rewrite removelast_last, nsl_app.
          cbn [nsl flat_map]. rewrite app_nil_r, <- !app_assoc. reflexivity.
        * constructor; [apply F_eval; exact Elst | exact HFrest].
        * constructor; [rewrite e_tok_eval; exact Elst | exact HErest].
      + apply IH in H; [|exact HFrest | exact HErest].
        rewrite H, nsl_app, <- app_assoc. reflexivity.
  Qed.

  (* every character that is no white space survives the pass, in order,
     and none is invented *)
  Theorem rpal_conserves tokens r :
    Forall E0 tokens ->
    remove_pure_action_lines is_space tokens = Ok r ->
    nst r = nst tokens.
  Proof.
    intros HE H. unfold remove_pure_action_lines in H.
    set (toks := filter _ tokens) in *.
    set (first := with_start (eval (TextT 0 []))) in *.
    set (last := with_end (eval (TextT _ []))) in *.
    destruct (rpal_loop _ (first :: map eval toks ++ [last]) []) as [res| | |] eqn:El;
      try discriminate.
    cbn [rbind] in H. inversion H; subst r. clear H.
    assert (HEt : Forall E0 toks).
    { apply Forall_forall. intros t Ht. apply filter_In in Ht. rewrite Forall_forall in HE.
      apply HE, Ht. }
    apply rpal_loop_conserves in El.
    - assert (Hout : forall l, nst (filter keep_out (map e_tok l)) = nsl l).
      { induction l as [|e l IHl]; [reflexivity|]. simpl. unfold keep_out at 1.
        destruct (txt (e_tok e)) eqn:Et.
        - destruct (is_lang (e_tok e)); simpl; rewrite ?Et; simpl; exact IHl.
        - simpl. rewrite Et, IHl. reflexivity. }
      rewrite Hout, El. simpl. rewrite nsl_app. simpl. rewrite app_nil_r.
      assert (Hm : nsl (map eval toks) = nst toks).
      { clear. induction toks as [|t l IHl]; [reflexivity|]. simpl.
        rewrite e_tok_eval, IHl. reflexivity. }
      rewrite Hm. unfold toks. clear. induction tokens as [|t l IHl]; [reflexivity|].
      simpl. destruct (txt t) eqn:Et.
      + destruct (is_action t || is_lang t); simpl; rewrite ?Et; simpl; exact IHl.
      + simpl. rewrite Et, IHl. reflexivity.
    - constructor; [apply F_sentinel|]. apply Forall_app. split.
      + apply Forall_forall. intros e He. apply in_map_iff in He.
        destruct He as (t & Et & Hin). subst e. apply F_eval.
        rewrite Forall_forall in HEt. apply HEt, Hin.
      + constructor; [apply F_sentinel | constructor].
    - constructor; [intros [Hk|Hk]; discriminate|]. apply Forall_app. split.
      + apply Forall_forall. intros e He. apply in_map_iff in He.
        destruct He as (t & Et & Hin). subst e. rewrite e_tok_eval.
        rewrite Forall_forall in HEt. apply HEt, Hin.
      + constructor; [intros [Hk|Hk]; discriminate | constructor].
  Qed.

  (* ================================================================ *)
  (*  tokens of visible text on one line pass untouched (C02)           *)
  (* ================================================================ *)
  (* a token is solid: no line break in its text, not blank *)
  Definition solid (t : tok) : bool :=
    negb (has_nl (txt t)) && negb (blank_str is_space (txt t)).
  Definition sols (l : list etok) : list tok := filter solid (map e_tok l).
  (* line breaks stand in white space only; action and language tokens
     carry no text *)
  Definition G (t : tok) : Prop :=
    (has_nl (txt t) = true -> blank_str is_space (txt t) = true) /\ E0 t.
  Definition F2 (e : etok) : Prop :=
    (e_blank e = true \/ e_start e = true \/ e_end e = true) -> solid (e_tok e) = false.

  Lemma sols_app a b : sols (a ++ b) = sols a ++ sols b.
  Proof. unfold sols. rewrite map_app. apply filter_app. Qed.

  Lemma solid_nil t : txt t = [] -> solid t = false.
  Proof. intros E. unfold solid. rewrite E. reflexivity. Qed.
  Lemma solid_blank t : blank_str is_space (txt t) = true -> solid t = false.
  Proof. intros E. unfold solid. rewrite E. apply Bool.andb_false_r. Qed.
  Lemma solid_nl t : has_nl (txt t) = true -> solid t = false.
  Proof. intros E. unfold solid. rewrite E. reflexivity. Qed.

  Lemma F2_eval t : G t -> F2 (eval t).
  Proof.
    intros [Hg He]. unfold F2, Rpal.eval.
    destruct (is_action t) eqn:Ea; cbn [e_tok e_blank e_start e_end].
    - intros _. apply solid_nil. apply He. left. exact Ea.
    - intros [H|[H|H]]; apply andb_true_iff in H; destruct H as [H1 H2].
      + apply solid_blank. exact H2.
      + apply solid_nl. exact H1.
      + apply solid_nl. exact H1.
  Qed.
  Lemma F2_sentinel p : F2 (with_start (eval (TextT p []))) /\ F2 (with_end (eval (TextT p []))).
  Proof. split; intros _; reflexivity. Qed.

  Lemma blank_skipn n x : blank_str is_space x = true -> blank_str is_space (skipn n x) = true.
  Proof.
    unfold blank_str. intros H. rewrite forallb_forall in *. intros c Hc. apply H.
    rewrite <- (firstn_skipn n x). apply in_or_app. right. exact Hc.
  Qed.

  Lemma has_nl_false_find x : has_nl x = false -> find_index (N.eqb c_nl) x = None.
  Proof.
    unfold has_nl. induction x as [|c x IH]; [reflexivity|]. cbn [existsb find_index].
    destruct (N.eqb c_nl c) eqn:E; cbn [orb]; intros H; [discriminate H|].
    rewrite (IH H). reflexivity.
  Qed.

  (* the cut second token stays harmless *)
  Lemma G_cut t :
    G t ->
    let t2' := match find_index (N.eqb c_nl) (txt t) with
               | Some i => let t' := set_txt t (skipn (S i) (txt t)) in
                           if pfix t then t' else set_pos t' (pos t + Z.of_nat (S i))
               | None => set_pos (set_txt t []) (pos t + Z.of_nat (length (txt t)))
               end in
    G t2' /\ solid t2' = false.
  Proof.
    intros [Hg He]. cbv zeta.
    assert (Hk : forall s p, is_action (set_pos (set_txt t s) p) = is_action t /\
                              is_lang (set_pos (set_txt t s) p) = is_lang t /\
                              is_action (set_txt t s) = is_action t /\
                              is_lang (set_txt t s) = is_lang t) by (intros; repeat split).
    destruct (has_nl (txt t)) eqn:Enl.
    - (* blank text: every suffix is blank *)
      specialize (Hg eq_refl).
      destruct (find_index (N.eqb c_nl) (txt t)) as [i|].
      + assert (Hb := blank_skipn (S i) _ Hg).
        destruct (pfix t).
        * split; [split; [intros _; exact Hb|]|apply solid_blank; exact Hb].
          intros HX. cbn [txt set_txt]. rewrite (He HX). destruct i; reflexivity.
        * split; [split; [intros _; exact Hb|]|apply solid_blank; exact Hb].
          intros HX. cbn [txt set_txt set_pos]. rewrite (He HX). destruct i; reflexivity.
      + split; [split; [intros _; reflexivity | intros _; reflexivity] | reflexivity].
    - rewrite (has_nl_false_find _ Enl).
      split; [split; [intros _; reflexivity | intros _; reflexivity] | reflexivity].
  Qed.

  Lemma rfind_has_nl x i :
    rfind_index (N.eqb c_nl) x = Some i -> has_nl (firstn (S i) x) = true.
  Proof.
    intros H. pose proof (rfind_index_spec (N.eqb c_nl) x) as Sp. rewrite H in Sp.
    destruct Sp as (Hi & (c & Hc & Fc) & _). unfold has_nl. apply existsb_exists.
    exists c. split; [|exact Fc]. apply nth_error_In with (n := i).
    rewrite nth_error_firstn_lt by lia. exact Hc.
  Qed.

  Lemma blank_not_solid l :
    Forall (fun e => e_blank e = true) l -> Forall F2 l -> sols l = [].
  Proof.
    induction 1 as [|e l He Hl IHl]; intros HH; [reflexivity|].
    inversion HH as [|? ? Fe Fl]; subst. unfold sols in *. cbn [map filter].
    rewrite (Fe (or_introl He)). apply IHl. exact Fl.
  Qed.

  Lemma rpal_loop_solid : forall fuel pending out res,
    rpal_loop fuel pending out = Ok res ->
    Forall F2 pending -> Forall (fun e => G (e_tok e)) pending ->
    sols res = sols out ++ sols pending.
  Proof.
    induction fuel as [|k IH]; intros pending out res H HF HE; [discriminate|].
    destruct pending as [|t p]; cbn [Rpal.rpal_loop] in H.
    { inversion H; subst. unfold sols at 3. simpl. rewrite app_nil_r. reflexivity. }
    inversion HF as [|? ? Ft Fp]; subst. inversion HE as [|? ? Et Ep]; subst.
    destruct (negb (e_start t)) eqn:Est.
    { apply IH in H; [|exact Fp | exact Ep]. rewrite H, sols_app, <- app_assoc.
      change (t :: p) with ([t] ++ p). rewrite (sols_app [t] p). reflexivity. }
    apply negb_false_iff in Est.
    destruct (collect p [t]) as [[buf b] rest] eqn:Ec.
    pose proof (collect_struct _ _ _ _ _ Ec) as (pre & Hpre & Hcases).
    pose proof (collect_app _ _ _ _ _ Ec) as [Eb _]. simpl in Eb.
    assert (HFb : Forall F2 (buf ++ rest)) by (rewrite Eb; exact HF).
    assert (HEb : Forall (fun e => G (e_tok e)) (buf ++ rest)) by (rewrite Eb; exact HE).
    apply Forall_app in HFb. destruct HFb as [HFbuf HFrest].
    apply Forall_app in HEb. destruct HEb as [HEbuf HErest].
    replace (sols (t :: p)) with (sols buf ++ sols rest) by (rewrite <- sols_app, Eb; reflexivity).
    destruct (rev buf) as [|lst rb] eqn:Er; [discriminate|].
    assert (Ebuf : buf = rev rb ++ [lst]).
    { rewrite <- (rev_involutive buf), Er. reflexivity. }
    assert (Glst : G (e_tok lst)).
    { rewrite Ebuf in HEbuf. apply Forall_app in HEbuf. destruct HEbuf as [_ HH].
      inversion HH; assumption. }
    destruct (b && Nat.ltb 1 (length buf) && existsb (fun e => is_action (e_tok e)) buf) eqn:Ecnd.
    - apply andb_true_iff in Ecnd. destruct Ecnd as [Ecnd _].
      apply andb_true_iff in Ecnd. destruct Ecnd as [Hb Hlt]. apply Nat.ltb_lt in Hlt. subst b.
      (* nothing in buf is solid *)
      assert (Hbuf0 : sols buf = []).
      { assert (St : solid (e_tok t) = false) by (apply Ft; right; left; exact Est).
        simpl in Hcases. destruct Hcases as [(E1 & E2 & E3)|(x & E1 & E2 & E3)].
        - rewrite E1 in HFbuf |- *. inversion HFbuf as [|? ? _ HH]; subst.
          change (t :: pre) with ([t] ++ pre). rewrite sols_app.
          rewrite (blank_not_solid pre Hpre HH). unfold sols. cbn [map filter]. rewrite St.
          reflexivity.
        - rewrite E1 in HFbuf |- *. inversion HFbuf as [|? ? _ HH]; subst.
          apply Forall_app in HH. destruct HH as [HHp HHx].
          inversion HHx as [|? ? Fx _]; subst.
          change (t :: pre ++ [x]) with ([t] ++ pre ++ [x]). rewrite !sols_app.
          rewrite (blank_not_solid pre Hpre HHp). unfold sols. cbn [map filter].
          rewrite St, (Fx (or_intror (or_intror (E3 eq_refl)))). reflexivity. }
      match type of H with rpal_loop k (?s :: eval ?t2 :: rest) (out ++ eval ?t1 :: ?lg) = _ =>
        set (t2' := t2) in *; set (t1' := t1) in *; set (langs := lg) in * end.
      assert (GS : G t2' /\ solid t2' = false) by (exact (G_cut (e_tok lst) Glst)).
      destruct GS as [G2 S2].
      assert (S1 : solid t1' = false).
      { unfold t1'. destruct (rfind_index (N.eqb c_nl) (txt (e_tok t))) as [i|] eqn:Erf.
        - apply solid_nl. cbn [txt set_txt]. apply rfind_has_nl. exact Erf.
        - apply solid_nil. reflexivity. }
      assert (Slangs : sols langs = []).
      { unfold langs. clear - HEbuf. induction buf as [|e l IHl]; [reflexivity|].
        inversion HEbuf as [|? ? He Hl]; subst. cbn [filter].
        destruct (is_lang (e_tok e)) eqn:El; [|apply IHl; exact Hl].
        unfold sols. cbn [map filter]. destruct He as [_ He].
        rewrite (solid_nil _ (He (or_intror El))). apply IHl. exact Hl. }
      apply IH in H.
      + rewrite H, !sols_app.
        assert (A1 : sols (eval t1' :: langs) = []).
        { change (eval t1' :: langs) with ([eval t1'] ++ langs). rewrite sols_app, Slangs.
          unfold sols. cbn [map filter]. rewrite e_tok_eval, S1. reflexivity. }
        assert (A2 : sols (with_start (eval (TextT (pos t2') [])) :: eval t2' :: rest) = sols rest).
        { change (with_start (eval (TextT (pos t2') [])) :: eval t2' :: rest)
            with ([with_start (eval (TextT (pos t2') [])); eval t2'] ++ rest).
          rewrite sols_app. unfold sols at 1. cbn [map filter]. rewrite e_tok_eval, S2.
          reflexivity. }
        rewrite A1, A2, Hbuf0, app_nil_r. reflexivity.
      + constructor; [apply F2_sentinel|]. constructor; [apply F2_eval; exact G2 | exact HFrest].
      + constructor; [split; [intros _; reflexivity | intros _; reflexivity]|].
        constructor; [rewrite e_tok_eval; exact G2 | exact HErest].
    - destruct (Nat.ltb 1 (length buf)).
      + apply IH in H.
        * rewrite H, !sols_app.
          assert (A1 : sols (eval (e_tok lst) :: rest) = sols [lst] ++ sols rest).
          { change (eval (e_tok lst) :: rest) with ([eval (e_tok lst)] ++ rest).
            rewrite sols_app. unfold sols at 1 3. cbn [map filter]. rewrite e_tok_eval.
            reflexivity. }
          assert (A2 : sols buf = sols (removelast buf) ++ sols [lst]).
          { rewrite Ebuf at 1 2. rewrite removelast_last, sols_app. reflexivity. }
          rewrite A1, A2, <- !app_assoc. reflexivity.
        * constructor; [apply F2_eval; exact Glst | exact HFrest].
        * constructor; [rewrite e_tok_eval; exact Glst | exact HErest].
      + apply IH in H; [|exact HFrest | exact HErest].
        rewrite H, sols_app, <- app_assoc. reflexivity.
  Qed.

  (* every token of visible text that stands on one line leaves the pass as
     it entered: same text, same position, same order *)
  Theorem rpal_keeps_solid tokens r :
    Forall G tokens ->
    remove_pure_action_lines is_space tokens = Ok r ->
    filter solid r = filter solid tokens.
  Proof.
    intros HG H. unfold remove_pure_action_lines in H.
    set (toks := filter _ tokens) in *.
    set (first := with_start (eval (TextT 0 []))) in *.
    set (last := with_end (eval (TextT _ []))) in *.
    destruct (rpal_loop _ (first :: map eval toks ++ [last]) []) as [res| | |] eqn:El;
      try discriminate.
    cbn [rbind] in H. inversion H; subst r. clear H.
    assert (HGt : Forall G toks).
    { apply Forall_forall. intros t Ht. apply filter_In in Ht. rewrite Forall_forall in HG.
      apply HG, Ht. }
    apply rpal_loop_solid in El.
    - assert (Hout : forall l, filter solid (filter keep_out (map e_tok l)) = sols l).
      { induction l as [|e l IHl]; [reflexivity|]. unfold sols in *. cbn [map filter].
        unfold keep_out at 1. destruct (txt (e_tok e)) eqn:Et.
        - rewrite (solid_nil _ Et). destruct (is_lang (e_tok e)); cbn [filter];
            rewrite ?(solid_nil _ Et); exact IHl.
        - cbn [filter]. rewrite IHl. reflexivity. }
      rewrite Hout, El.
      change (first :: map eval toks ++ [last]) with ([first] ++ map eval toks ++ [last]).
      rewrite !sols_app.
      assert (Z0 : sols [] = []) by reflexivity.
      assert (Z1 : sols [first] = []) by reflexivity.
      assert (Z2 : sols [last] = []) by reflexivity.
      rewrite Z0, Z1, Z2. cbn [app]. rewrite app_nil_r.
      assert (Hm : sols (map eval toks) = filter solid toks).
      { unfold sols. rewrite map_map. rewrite (map_ext _ (fun x => x) e_tok_eval), map_id.
        reflexivity. }
      rewrite Hm. unfold toks. clear. induction tokens as [|t l IHl]; [reflexivity|].
      cbn [filter]. destruct (txt t) eqn:Et.
      + rewrite (solid_nil _ Et). destruct (is_action t || is_lang t); cbn [filter];
          rewrite ?(solid_nil _ Et); exact IHl.
      + cbn [filter]. rewrite IHl. reflexivity.
    - constructor; [apply F2_sentinel|]. apply Forall_app. split.
      + apply Forall_forall. intros e He. apply in_map_iff in He.
        destruct He as (t & Et & Hin). subst e. apply F2_eval.
        rewrite Forall_forall in HGt. apply HGt, Hin.
      + constructor; [apply F2_sentinel | constructor].
    - constructor; [split; [intros _; reflexivity | intros _; reflexivity]|].
      apply Forall_app. split.
      + apply Forall_forall. intros e He. apply in_map_iff in He.
        destruct He as (t & Et & Hin). subst e. rewrite e_tok_eval.
        rewrite Forall_forall in HGt. apply HGt, Hin.
      + constructor; [split; [intros _; reflexivity | intros _; reflexivity] | constructor].
  Qed.
End RpalProofs.
