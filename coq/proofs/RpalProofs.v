(* Proofs about coq/model/Rpal.v (Parser.remove_pure_action_lines):
   without action tokens the pass deletes nothing (C05: a line that was
   blank in the source still separates paragraphs; C06). *)
From Coq Require Import Lia.
From YV Require Import PyBase PyBaseProofs Token Rpal.
Open Scope Z_scope.

Section RpalProofs.
  Variable is_space : char -> bool.
  Notation eval := (eval is_space).
  Notation rpal_loop := (rpal_loop is_space).

  Definition no_action (l : list etok) : Prop :=
    Forall (fun e => is_action (e_tok e) = false) l.

  Lemma e_tok_eval t : e_tok (eval t) = t.
  Proof. unfold Rpal.eval. destruct (is_action t); reflexivity. Qed.

  Lemma collect_app : forall p acc buf b rest,
    collect p acc = (buf, b, rest) ->
    buf ++ rest = rev acc ++ p /\ (length acc <= length buf)%nat.
  Proof.
    induction p as [|t p IH]; intros acc buf b rest H; simpl in H.
    - inversion H; subst. rewrite rev_length. split; [reflexivity | lia].
    - destruct (e_end t).
      + inversion H; subst. simpl. rewrite <- app_assoc. simpl.
        rewrite app_length, rev_length. simpl. split; [reflexivity | lia].
      + destruct (negb (e_blank t)).
        * inversion H; subst. simpl. rewrite <- app_assoc. simpl.
          rewrite app_length, rev_length. simpl. split; [reflexivity | lia].
        * apply IH in H. destruct H as [H1 H2]. simpl in H1, H2.
          rewrite <- app_assoc in H1. simpl in H1. split; [exact H1 | lia].
  Qed.

  Lemma no_action_exists l : no_action l -> existsb (fun e => is_action (e_tok e)) l = false.
  Proof.
    induction 1 as [|e l He Hl IH]; simpl; [reflexivity|]. rewrite He, IH. reflexivity.
  Qed.

  Lemma rpal_loop_no_action : forall fuel pending out,
    (length pending < fuel)%nat -> no_action pending ->
    exists res, rpal_loop fuel pending out = Ok res /\
                map e_tok res = map e_tok (out ++ pending).
  Proof.
    induction fuel as [|k IH]; intros pending out Hf Hn; [lia|].
    destruct pending as [|t p]; cbn [Rpal.rpal_loop].
    - exists out. rewrite app_nil_r. split; reflexivity.
    - inversion Hn as [|? ? Ht Hp]; subst. simpl in Hf.
      destruct (negb (e_start t)).
      + destruct (IH p (out ++ [t]) ltac:(lia) Hp) as (res & E & M).
        exists res. split; [exact E|]. rewrite M, <- app_assoc. reflexivity.
      + destruct (collect p [t]) as [[buf b] rest] eqn:Ec.
        apply collect_app in Ec. destruct Ec as [Eb Hl]. simpl in Eb, Hl.
        assert (Hbr : no_action (buf ++ rest)) by (rewrite Eb; exact Hn).
        apply Forall_app in Hbr. destruct Hbr as [Hb Hr].
        destruct (rev buf) as [|lst rb] eqn:Er.
        { apply (f_equal (@length _)) in Er. rewrite rev_length in Er. simpl in Er. lia. }
        rewrite (no_action_exists buf Hb), Bool.andb_false_r.
        assert (Ebuf : buf = rev rb ++ [lst]).
        { rewrite <- (rev_involutive buf), Er. reflexivity. }
        assert (Hlen : (length buf + length rest = S (length p))%nat).
        { apply (f_equal (@length _)) in Eb. rewrite app_length in Eb. simpl in Eb. exact Eb. }
        destruct (Nat.ltb 1 (length buf)) eqn:E1.
        * apply Nat.ltb_lt in E1.
          assert (Hn' : no_action (eval (e_tok lst) :: rest)).
          { constructor; [|exact Hr]. rewrite e_tok_eval.
            rewrite Ebuf in Hb. apply Forall_app in Hb. destruct Hb as [_ Hb].
            inversion Hb; assumption. }
          destruct (IH (eval (e_tok lst) :: rest) (out ++ removelast buf)
                       ltac:(simpl; lia) Hn') as (res & E & M).
          exists res. split; [exact E|]. rewrite M.
          rewrite Ebuf at 1. rewrite removelast_last.
          replace (t :: p) with (buf ++ rest) by exact Eb.
          rewrite Ebuf. rewrite !map_app. simpl. rewrite e_tok_eval.
          rewrite <- !app_assoc. reflexivity.
        * destruct (IH rest (out ++ buf) ltac:(lia) Hr) as (res & E & M).
          exists res. split; [exact E|]. rewrite M, <- app_assoc.
          replace (t :: p) with (buf ++ rest) by exact Eb. reflexivity.
  Qed.

  (* without action tokens nothing is removed but tokens with empty text *)
  Theorem rpal_no_action tokens :
    Forall (fun t => is_action t = false) tokens ->
    remove_pure_action_lines is_space tokens = Ok (filter keep_out tokens).
  Proof.
    intros Hn. unfold remove_pure_action_lines.
    set (toks := filter _ tokens).
    assert (Ht : toks = filter keep_out tokens).
    { unfold toks. clear toks. induction Hn as [|t l Ht Hl IH]; simpl; [reflexivity|].
      unfold keep_out at 1. rewrite Ht. simpl. destruct (txt t); rewrite IH; reflexivity. }
    set (first := with_start (eval (TextT 0 []))).
    set (last := with_end (eval (TextT _ []))).
    assert (Hna : no_action (first :: map eval toks ++ [last])).
    { constructor; [reflexivity|]. apply Forall_app. split; [|constructor; [reflexivity|constructor]].
      apply Forall_forall. intros e He. apply in_map_iff in He. destruct He as (t & Et & Hin).
      subst e. rewrite e_tok_eval. rewrite Ht in Hin. apply filter_In in Hin.
      rewrite Forall_forall in Hn. apply Hn. apply Hin. }
    destruct (rpal_loop_no_action (4 * length (first :: map eval toks ++ [last]) + 4)
                (first :: map eval toks ++ [last]) [] ltac:(lia) Hna) as (res & E & M).
    rewrite E. cbn [rbind]. f_equal. rewrite M. simpl.
    rewrite map_app, map_map. simpl.
    rewrite (map_ext _ (fun x => x) e_tok_eval), map_id.
    rewrite filter_app. simpl. rewrite app_nil_r.
    rewrite Ht. clear. induction tokens as [|t l IH]; simpl; [reflexivity|].
    destruct (keep_out t) eqn:E; simpl; [rewrite E, IH; reflexivity | exact IH].
  Qed.
End RpalProofs.
