(* C03, hidden text: the regions between the comment marks LT-SKIP-BEGIN and
   LT-SKIP-END.  For every token list whose marks are paired (each opening
   mark is followed by a closing one), the pass in front of the expander hands
   on exactly the tokens outside the regions, in order, without the marks, and
   leaves the parser state alone: nothing inside a region reaches the
   expander. *)
From Coq Require Import Lia.
From YV Require Import PyBase PyBaseProofs ShellMap Token Utils Scanner PState Parser.
Open Scope Z_scope.

Section SkipProofs.
  Variable T : tables.
  Notation obeg := (is_skip (t_comment_skip_begin T)).
  Notation oend := (is_skip (t_comment_skip_end T)).

  (* input with paired marks / what is left of it *)
  Inductive regions : list tok -> list tok -> Prop :=
    | r_done toks : Forall (fun t => obeg t = false) toks -> regions toks toks
    | r_reg before b mid e after out :
        Forall (fun t => obeg t = false) before -> obeg b = true ->
        Forall (fun t => oend t = false) mid -> oend e = true ->
        regions after out ->
        regions (before ++ b :: mid ++ e :: after) (before ++ out).

  Lemma find_index_first {A} (f : A -> bool) a x r :
    Forall (fun y => f y = false) a -> f x = true ->
    find_index f (a ++ x :: r) = Some (length a).
  Proof.
    induction 1 as [|y a Hy Ha IH]; intros Hx; cbn [app find_index length].
    - rewrite Hx. reflexivity.
    - rewrite Hy, (IH Hx). reflexivity.
  Qed.
  Lemma find_index_nothing {A} (f : A -> bool) l :
    Forall (fun x => f x = false) l -> find_index f l = None.
  Proof. induction 1 as [|x l Hx Hl IH]; simpl; [reflexivity|]. rewrite Hx, IH. reflexivity. Qed.

  Lemma firstn_len_app {A} (a b : list A) : firstn (length a) (a ++ b) = a.
  Proof. induction a as [|x a IH]; [destruct b; reflexivity|]. cbn [length app firstn]. rewrite IH. reflexivity. Qed.
  Lemma skipn_len_app {A} (a b : list A) : skipn (length a) (a ++ b) = b.
  Proof. induction a as [|x a IH]; [reflexivity|]. cbn [length app skipn]. exact IH. Qed.

  Theorem skip_regions_spec st latex : forall toks out,
    regions toks out ->
    forall fuel, (length toks < fuel)%nat ->
    skip_regions T fuel st latex toks = (st, out).
  Proof.
    induction 1 as [toks Hn|before b mid e after out Hb Hbm Hm He Hr IH]; intros fuel Hf.
    - destruct fuel as [|k]; [lia|]. cbn [skip_regions].
      rewrite (find_index_nothing _ _ Hn). reflexivity.
    - destruct fuel as [|k]; [lia|]. cbn [skip_regions].
      rewrite (find_index_first _ before b (mid ++ e :: after) Hb Hbm).
      rewrite firstn_len_app.
      assert (Es : skipn (S (length before)) (before ++ b :: mid ++ e :: after) = mid ++ e :: after).
      { change (S (length before)) with (1 + length before)%nat.
        rewrite Nat.add_comm, <- skipn_skipn_add. rewrite skipn_len_app. reflexivity. }
      rewrite Es. rewrite (find_index_first _ mid e after Hm He).
      assert (Es2 : skipn (S (length mid)) (mid ++ e :: after) = after).
      { change (S (length mid)) with (1 + length mid)%nat.
        rewrite Nat.add_comm, <- skipn_skipn_add. rewrite skipn_len_app. reflexivity. }
      rewrite Es2. rewrite (IH k).
      + reflexivity.
      + rewrite !app_length in Hf. cbn [length] in Hf. rewrite app_length in Hf. cbn [length] in Hf. lia.
  Qed.

  (* what is handed on holds no token of a region and no mark *)
  Theorem regions_drop toks out :
    regions toks out ->
    Forall (fun t => obeg t = false) out /\
    exists dropped, length toks = (length out + length dropped)%nat /\
                    (forall t, In t toks <-> In t out \/ In t dropped).
  Proof.
    induction 1 as [toks Hn|before b mid e after out Hb Hbm Hm He Hr [IH1 (dr & IH2 & IH3)]].
    - split; [exact Hn|]. exists []. split; [simpl; lia|]. intros t. simpl. tauto.
    - split; [apply Forall_app; split; assumption|].
      exists (b :: mid ++ e :: dr). split.
      + rewrite !app_length. cbn [length]. rewrite !app_length. cbn [length]. lia.
      + intros t. rewrite !in_app_iff. cbn [In]. rewrite !in_app_iff. cbn [In]. rewrite IH3. tauto.
  Qed.
End SkipProofs.
