(* A decision procedure for the document class of ExecArgs.v: bclb returns
   true only for token lists of the class (soundness), so that membership of
   a concrete document can be computed and the class theorems be applied to
   it. *)
From Coq Require Import Lia String.
From YV Require Import PyBase PyBaseProofs ShellMap Token Utils Scanner Rpal PState
                       Parser Expand Math Exec TokOk ScanOk ScanPlain RpalProofs
                       ExecPlain ExpandSites ExecUnk ExecArgs.
Open Scope Z_scope.

Section Decide.
  Variable T : tables.
  Notation P := (t_scan T).

  Definition etokb (t : tok) : bool :=
    negb (pfix t) &&
    match tk t with
    | KText => match txt t with
               | [c] => negb (sp_is_space P c) && negb (N.eqb c c_backslash) && okc T c
                        && forallb (fun x => negb (starts_with x [c])) (sp_specials P)
               | _ => false end
    | KSpace | KPar => match txt t with
                       | c :: _ => sp_is_space P c && forallb (sp_is_space P) (txt t)
                       | [] => false end
    | _ => false
    end.

  Lemma etokb_ok t : etokb t = true -> etok T t.
  Proof.
    unfold etokb, etok, ptok. intros H. apply andb_true_iff in H. destruct H as [Hp H].
    apply negb_true_iff in Hp. split; [exact Hp|].
    destruct (tk t); try discriminate.
    - destruct (txt t) as [|c [|d r]] eqn:Et; try discriminate.
      repeat (apply andb_true_iff in H; destruct H as [H ?]).
      exists c. split; [reflexivity|]. split; [apply negb_true_iff; assumption|].
      split; [intros E; subst c; discriminate|]. split; [assumption|].
      intros x Hx. match goal with X : forallb _ _ = true |- _ =>
        rewrite forallb_forall in X; specialize (X x Hx); apply negb_true_iff in X; exact X end.
    - destruct (txt t) as [|c r] eqn:Et; [discriminate|].
      apply andb_true_iff in H. destruct H as [H1 H2]. exists c, r. repeat split; assumption.
    - destruct (txt t) as [|c r] eqn:Et; [discriminate|].
      apply andb_true_iff in H. destruct H as [H1 H2]. exists c, r. repeat split; assumption.
  Qed.

  (* body tokens of a macro: plain text, pinned or not *)
  Definition gtokb (t : tok) : bool := etokb (mk (tk t) (pos t) (txt t) false).
  Lemma gtokb_ok t : gtokb t = true -> gtok T t.
  Proof. intros H. apply etokb_ok in H. exact H. Qed.

  Definition constmb (ms : list (str * macro)) (t : tok) : option (list tok) :=
    match tk t with
    | KMacro =>
        if txt_is t (s2l "\def") then None
        else match assoc (txt t) ms with
             | Some mac =>
                 match m_args mac, m_repl mac, m_extract mac with
                 | [], RToks body, [] => if forallb gtokb body then Some body else None
                 | _, _, _ => None
                 end
             | None => None
             end
    | _ => None
    end.
  Lemma constmb_ok ms t body : constmb ms t = Some body -> constm T ms t body.
  Proof.
    unfold constmb, constm. destruct (tk t) eqn:Ek; try discriminate.
    destruct (txt_is t (s2l "\def")) eqn:Ed; [discriminate|].
    destruct (assoc (txt t) ms) as [mac|] eqn:Em; [|discriminate].
    destruct (m_args mac) eqn:Ea; try discriminate.
    destruct (m_repl mac) as [b|h] eqn:Er; try discriminate.
    destruct (m_extract mac) eqn:Ee; try discriminate.
    destruct (forallb gtokb b) eqn:Eb; [|discriminate].
    intros H. inversion H; subst. split; [reflexivity|]. split; [reflexivity|].
    exists mac. repeat split; try assumption.
    apply Forall_forall. intros x Hx. rewrite forallb_forall in Eb. apply gtokb_ok, Eb, Hx.
  Qed.

  Definition uclsb (ms : list (str * macro)) (t : tok) : bool :=
    etokb t
    || match tk t with
       | KMacro => negb (txt_is t (s2l "\def"))
                   && match assoc (txt t) ms with None => true | Some _ => false end
       | KComment => inert_txt t
       | KVerb false => negb (has_nl (txt t))
       | KAction | KVoid => match txt t with [] => true | _ => false end
       | KSpecial => str_eqb (txt t) s_lbrace || str_eqb (txt t) s_rbrace
                     || (inert_txt t && match assoc (txt t) (t_special_values T) with
                                        | Some _ => true | None => false end)
       | _ => false
       end.

  Lemma uclsb_ok ms t : uclsb ms t = true -> ucls T ms t.
  Proof.
    unfold uclsb. intros H. apply orb_true_iff in H. destruct H as [H|H].
    { apply u_plain. apply etokb_ok. exact H. }
    destruct (tk t) eqn:Ek; try discriminate.
    - apply u_comment; assumption.
    - apply orb_true_iff in H. destruct H as [H|H].
      + apply orb_true_iff in H. apply u_brace; [exact Ek|].
        destruct H as [H|H]; apply str_eqb_eq in H; [left | right]; exact H.
      + apply andb_true_iff in H. destruct H as [H1 H2].
        destruct (assoc (txt t) (t_special_values T)) as [v|] eqn:Ev; [|discriminate].
        eapply u_special; eassumption.
    - apply andb_true_iff in H. destruct H as [H1 H2]. apply negb_true_iff in H1.
      destruct (assoc (txt t) ms) eqn:Em; [discriminate|]. apply u_macro; assumption.
    - destruct environ; [discriminate|]. apply negb_true_iff in H. apply u_verb; assumption.
    - destruct (txt t) eqn:Et; [|discriminate]. apply u_action; [left; exact Ek | exact Et].
    - destruct (txt t) eqn:Et; [|discriminate]. apply u_action; [right; exact Ek | exact Et].
  Qed.

  Definition is_arg1 (t : tok) : bool :=
    match is_arg t with Some 1%nat => true | _ => false end.
  Definition passmb (ms : list (str * macro)) (t : tok) : bool :=
    match tk t with
    | KMacro =>
        negb (txt_is t (s2l "\def"))
        && match assoc (txt t) ms with
           | Some mac =>
               match m_args mac, m_repl mac, m_extract mac with
               | [AMand], RToks [a1], [] => is_arg1 a1
               | _, _, _ => false
               end
           | None => false
           end
    | _ => false
    end.

  Lemma passmb_ok ms t : passmb ms t = true -> passm ms t.
  Proof.
    unfold passmb, passm. destruct (tk t) eqn:Ek; try discriminate. intros H.
    apply andb_true_iff in H. destruct H as [H1 H2]. apply negb_true_iff in H1.
    split; [reflexivity|]. split; [exact H1|].
    destruct (assoc (txt t) ms) as [mac|] eqn:Em; [|discriminate].
    destruct (m_args mac) as [|a0 ar] eqn:Ea; [discriminate|].
    destruct a0; try discriminate. destruct ar; try discriminate.
    destruct (m_repl mac) as [body|h] eqn:Er; try discriminate.
    destruct body as [|a1 br]; try discriminate. destruct br; try discriminate.
    destruct (m_extract mac) eqn:Ee; try discriminate.
    exists mac, a1. repeat split; try assumption.
    unfold is_arg1 in H2. destruct (is_arg a1) as [[|[|]]|]; try discriminate. reflexivity.
  Qed.

  Definition braceb (s : str) (t : tok) : bool :=
    match tk t with KSpecial => str_eqb (txt t) s | _ => false end.
  Lemma lbb_ok t : braceb s_lbrace t = true -> lb t.
  Proof.
    unfold braceb, lb. destruct (tk t); try discriminate. intros H.
    apply str_eqb_eq in H. split; [reflexivity | exact H].
  Qed.
  Lemma rbb_ok t : braceb s_rbrace t = true -> rb t.
  Proof.
    unfold braceb, rb. destruct (tk t); try discriminate. intros H.
    apply str_eqb_eq in H. split; [reflexivity | exact H].
  Qed.

  (* what arg_collect returns is a split of its buffer *)
  Lemma arg_collect_split : forall buf e lev acc o r,
    arg_collect buf e lev acc = Some (o, r) ->
    exists a c, o = rev acc ++ a /\ buf = a ++ c :: r.
  Proof.
    induction buf as [|t buf IH]; intros e lev acc o r H; [discriminate|].
    cbn [arg_collect] in H. destruct (txt_is t e && _).
    - inversion H; subst. exists [], t. rewrite app_nil_r. split; reflexivity.
    - apply IH in H. destruct H as (a & c & Eo & Eb). exists (t :: a), c.
      cbn [rev] in Eo. rewrite <- app_assoc in Eo. split; [exact Eo|].
      cbn [app]. f_equal. exact Eb.
  Qed.

  Definition nobrb (l : list tok) : bool :=
    match skip_space l with x :: _ => negb (txt_is x s_lbrack) | [] => false end
    && match l with t0 :: _ => negb (txt_is t0 s_lbrack) | [] => true end.
  Lemma nobrb_ok l : nobrb l = true -> nobr l.
  Proof.
    unfold nobrb, nobr. intros H. apply andb_true_iff in H. destruct H as [H1 H2]. split.
    - destruct (skip_space l) as [|x r]; [discriminate|]. exists x, r.
      split; [reflexivity | apply negb_true_iff; exact H1].
    - destruct l as [|t0 l']; [exact I | apply negb_true_iff; exact H2].
  Qed.
  Lemma nlbb_ok t : braceb s_bsbs t = true -> nlb t.
  Proof.
    unfold braceb, nlb. destruct (tk t); try discriminate. intros H.
    apply str_eqb_eq in H. split; [reflexivity | exact H].
  Qed.

  Fixpoint bclb (fuel : nat) (ms : list (str * macro)) (toks : list tok) : bool :=
    match fuel with
    | O => false
    | S k =>
        match toks with
        | [] => true
        | t :: l =>
            if uclsb ms t then bclb k ms l
            else if passmb ms t then
              match l with
              | o :: l' =>
                  braceb s_lbrace o
                  && match arg_collect l' s_rbrace 1 [] with
                     | Some (a, rest) =>
                         match nth_error l' (length a) with
                         | Some c => braceb s_rbrace c | None => false end
                         && bclb k ms a && bclb k ms rest
                     | None => false
                     end
              | [] => false
              end
            else match constmb ms t with
                 | Some _ => bclb k ms l
                 | None => braceb s_bsbs t && nobrb l && bclb k ms l
                 end
        end
    end.

  Theorem bclb_ok : forall fuel ms toks, bclb fuel ms toks = true -> bcl T ms toks.
  Proof.
    induction fuel as [|k IH]; intros ms toks H; [discriminate|].
    cbn [bclb] in H. destruct toks as [|t l]; [constructor|].
    destruct (uclsb ms t) eqn:Eu.
    - apply b_one; [apply uclsb_ok; exact Eu | apply IH; exact H].
    - destruct (passmb ms t) eqn:Ep.
      2:{ destruct (constmb ms t) as [body|] eqn:Ecm.
          - eapply b_const; [apply constmb_ok; exact Ecm | apply IH; exact H].
          - apply andb_true_iff in H. destruct H as [H H3].
            apply andb_true_iff in H. destruct H as [H1 H2].
            apply b_newline; [apply nlbb_ok; exact H1 | apply nobrb_ok; exact H2
                             | apply IH; exact H3]. }
      destruct l as [|o l']; [discriminate|].
      apply andb_true_iff in H. destruct H as [Ho H].
      destruct (arg_collect l' s_rbrace 1 []) as [[a rest]|] eqn:Ec; [|discriminate].
      apply andb_true_iff in H. destruct H as [H Hrest].
      apply andb_true_iff in H. destruct H as [Hc Ha].
      destruct (arg_collect_split _ _ _ _ _ _ Ec) as (a0 & c & Ea & El).
      cbn [rev app] in Ea. subst a0.
      assert (Hn : nth_error l' (length a) = Some c).
      { rewrite El. rewrite nth_error_app2 by lia. rewrite Nat.sub_diag. reflexivity. }
      rewrite Hn in Hc. rewrite El in Ec |- *.
      apply b_pass; [apply passmb_ok; exact Ep | apply lbb_ok; exact Ho | apply rbb_ok; exact Hc
                    | exact Ec | apply IH; exact Ha | apply IH; exact Hrest].
  Qed.
End Decide.

(* ---- document level: Parser.parser_work on a text whose scan lies in the
   class ---- *)
From YV Require Import ScanFaithful.
Section DocLevel.
  Variable T : tables.
  Variable rd : str -> option str.
  Hypothesis Htab : plain_tables_ok T = true.
  Hypothesis Hsp : forall c, sp_is_space (t_scan T) c = t_is_space T c.
  Hypothesis Hblank : sp_is_space (t_scan T) 32 = true /\ okc T 32 = true.
  Hypothesis Hval : values_one_line T = true.
  Hypothesis Hnl : t_is_space T c_nl = true.
  Notation P := (t_scan T).

  (* the conditions on a document, all computable *)
  Definition doc_in_class (st : pstate) (latex : str) : bool :=
    let '(toks, ds) := scan P latex in
    match ds with [] => true | _ => false end
    && forallb (fun t => negb (is_skip (t_comment_skip_begin T) t)) toks
    && bclb T (S (length toks)) (macros st) toks.

  Lemma rtoks_origin ms toks : forall t, In t (rtoks T ms toks) ->
    In t toks \/
    (exists s v, In s toks /\ tk s = KSpecial /\
                 assoc (txt s) (t_special_values T) = Some v /\
                 t = mk KText (pos s) v (pfix s)) \/
    (exists m mac body b, In m toks /\ tk m = KMacro /\ assoc (txt m) ms = Some mac /\
                          m_repl mac = RToks body /\ In b body /\ t = set_pos_fix b (pos m)) \/
    (exists s, In s toks /\ t = SpaceT (pos s) s_space) \/
    (exists s, In s toks /\ tk s = KVerb false /\ t = mk KText (pos s) (txt s) (pfix s)).
  Proof.
    induction toks as [|s l IH]; intros t Hin; [contradiction|].
    unfold rtoks in Hin. cbn [flat_map] in Hin. apply in_app_or in Hin.
    destruct Hin as [Hin|Hin].
    - unfold rend in Hin. destruct (tk s) eqn:Ek;
        try (destruct Hin as [E|[]]; subst; left; left; reflexivity).
      + destruct (str_eqb (txt s) s_bsbs).
        { destruct Hin as [E|[]]. subst t. right. right. right. left. exists s.
          split; [left; reflexivity | reflexivity]. }
        destruct (assoc (txt s) (t_special_values T)) as [v|] eqn:Ev;
          [|destruct Hin as [E|[]]; subst; left; left; reflexivity].
        destruct (inert_txt s); [|destruct Hin as [E|[]]; subst; left; left; reflexivity].
        destruct Hin as [E|[]]. subst t. right. left. exists s, v.
        repeat split; [left; reflexivity | exact Ek | exact Ev].
      + destruct (assoc (txt s) ms) as [mac|] eqn:Em;
          [|destruct Hin as [E|[]]; subst; left; left; reflexivity].
        destruct (m_args mac); [|destruct Hin as [E|[]]; subst; left; left; reflexivity].
        destruct (m_repl mac) as [body|h] eqn:Er;
          [|destruct Hin as [E|[]]; subst; left; left; reflexivity].
        apply in_map_iff in Hin. destruct Hin as (b & Eb & Hb). right. right. left.
        exists s, mac, body, b. repeat split; try assumption; [left; reflexivity | symmetry; exact Eb].
      + destruct environ; [destruct Hin as [E|[]]; subst; left; left; reflexivity|].
        destruct Hin as [E|[]]. subst t. right. right. right. right. exists s.
        repeat split; [left; reflexivity | exact Ek].
    - destruct (IH t Hin) as [H|[(s0 & v & H1 & H2)|[(m & mac & body & b & H1 & H2)|[(s0 & H1 & H2)|(s0 & H1 & H2)]]]].
      + left. right. exact H.
      + right. left. exists s0, v. split; [right; exact H1 | exact H2].
      + right. right. left. exists m, mac, body, b. split; [right; exact H1 | exact H2].
      + right. right. right. left. exists s0. split; [right; exact H1 | exact H2].
      + right. right. right. right. exists s0. split; [right; exact H1 | exact H2].
  Qed.

  (* For a document of the class parser_work returns, as its tokens of
     visible one-line text, exactly the text tokens the scanner cut out of
     the source -- each one the source characters at its position -- and the
     tabulated text of each special sequence at the position of the
     sequence; in source order; the state keeps its declarations and gains
     the undeclared names in order of first use *)
  Theorem parser_work_class fuel st latex r :
    doc_in_class st latex = true ->
    parser_work T (exec T rd fuel) st latex = Ok r ->
    let toks := fst (scan P latex) in
    filter (solid (t_is_space T)) (snd r)
      = filter (solid (t_is_space T)) (texts (rtoks T (macros st) toks)) /\
    Forall (fun t => (In t toks /\ faithful latex t) \/
                     (exists s v, In s toks /\ faithful latex s /\ tk s = KSpecial /\
                                  assoc (txt s) (t_special_values T) = Some v /\
                                  t = mk KText (pos s) v (pfix s)) \/
                     (exists m mac body b, In m toks /\ faithful latex m /\ tk m = KMacro /\
                                  assoc (txt m) (macros st) = Some mac /\
                                  m_repl mac = RToks body /\ In b body /\
                                  t = set_pos_fix b (pos m)) \/
                     (exists s, In s toks /\ faithful latex s /\ tk s = KVerb false /\
                                  t = mk KText (pos s) (txt s) (pfix s)))
           (filter (solid (t_is_space T)) (snd r)) /\
    unknowns (fst r) = fold_left add_unknown (unames (macros st) toks) (unknowns st) /\
    macros (fst r) = macros st.
  Proof.
    unfold doc_in_class. intros Hd H. unfold parser_work in H.
    pose proof (scan_faithful P latex) as Hfa.
    destruct (scan P latex) as [toks ds]. cbn [fst] in *.
    apply andb_true_iff in Hd. destruct Hd as [Hd Hb].
    apply andb_true_iff in Hd. destruct Hd as [Hds Hsk].
    destruct ds; [|discriminate]. cbn [add_diags fold_left] in H.
    assert (Hs : skip_regions T (S (length toks)) (upd_latex st latex) latex toks
                 = (upd_latex st latex, toks)).
    { cbn [skip_regions]. rewrite find_index_none; [reflexivity|].
      apply Forall_forall. intros t Ht. rewrite forallb_forall in Hsk.
      apply negb_true_iff. apply Hsk. exact Ht. }
    rewrite Hs in H. unfold expand_fresh in H.
    destruct (exec T rd fuel (TSeq toks None []) (upd_latex st latex)) as [[st1 an]| | |] eqn:Ee;
      try discriminate.
    cbn [rbind fst snd] in H.
    apply bclb_ok in Hb.
    assert (Hb' : bcl T (macros (upd_latex st latex)) toks) by exact Hb.
    destruct (exec_args T rd Htab Hsp Hblank fuel toks [] _ _ Hb' Ee)
      as (st2 & ts & out & Er & _ & _ & _ & _ & _ & _).
    inversion Er; subst st2 an. clear Er. inversion H; subst r. cbn [fst snd].
    pose proof (exec_args_positions T rd Htab Hsp Hblank Hval fuel toks _ _ _ Hnl Hb' Ee) as Hpos.
    destruct (exec_args_text T rd Htab Hsp Hblank fuel toks _ _ _ Hnl Hb' Ee) as (_ & Hu & Hm).
    split; [exact Hpos|]. split; [|split; [exact Hu | exact Hm]].
    rewrite Hpos. apply Forall_forall. intros t Ht. apply filter_In in Ht. destruct Ht as [Ht Hsolid].
    unfold texts in Ht. apply filter_In in Ht. destruct Ht as [Ht Htx].
    rewrite Forall_forall in Hfa.
    destruct (rtoks_origin _ toks t Ht) as [Hin|[(s & v & Hin & Hk & Hv & Et)|
                                                 [(m & mac & body & b & Hin & Hk & Hmm & Hr & Hbb & Et)
                                                 |[(s & Hin & Et)|(s & Hin & Hk & Et)]]]].
    4:{ exfalso. subst t. unfold tx in Htx. discriminate Htx. }
    - left. split; [exact Hin | apply Hfa; exact Hin].
    - right. left. exists s, v. repeat split; try assumption. apply Hfa. exact Hin.
    - right. right. left. exists m, mac, body, b. repeat split; try assumption. apply Hfa. exact Hin.
    - right. right. right. exists s. repeat split; try assumption. apply Hfa. exact Hin.
  Qed.

  (* and parser_work does return for such a document, given the fuel *)
  (* a document of the class changes nothing of the parser state but the
     list of unknowns; in particular no diagnostic (error mark) is recorded *)
  Theorem parser_work_class_frame fuel st latex r :
    doc_in_class st latex = true ->
    parser_work T (exec T rd fuel) st latex = Ok r ->
    frame st (fst r) /\ diags (fst r) = diags st.
  Proof.
    unfold doc_in_class. intros Hd H. unfold parser_work in H.
    destruct (scan P latex) as [toks ds]. cbn [fst] in *.
    apply andb_true_iff in Hd. destruct Hd as [Hd Hb].
    apply andb_true_iff in Hd. destruct Hd as [Hds Hsk].
    destruct ds; [|discriminate]. cbn [add_diags fold_left] in H.
    assert (Hs : skip_regions T (S (length toks)) (upd_latex st latex) latex toks
                 = (upd_latex st latex, toks)).
    { cbn [skip_regions]. rewrite find_index_none; [reflexivity|].
      apply Forall_forall. intros t Ht. rewrite forallb_forall in Hsk.
      apply negb_true_iff. apply Hsk. exact Ht. }
    rewrite Hs in H. unfold expand_fresh in H.
    destruct (exec T rd fuel (TSeq toks None []) (upd_latex st latex)) as [[st1 an]| | |] eqn:Ee;
      try discriminate.
    apply bclb_ok in Hb.
    assert (Hb' : bcl T (macros (upd_latex st latex)) toks) by exact Hb.
    pose proof (exec_args_frame T rd Htab fuel toks [] _ _ _ Hb' Ee) as Fr.
    cbn [rbind fst snd] in H. destruct an; inversion H; subst r. cbn [fst].
    assert (F : frame st (upd_latex st1 (cur_latex st))).
    { unfold frame in *. rewrite Fr. destruct st; reflexivity. }
    split; [exact F|]. unfold frame in F. rewrite F. reflexivity.
  Qed.

  Theorem parser_work_class_total st latex :
    doc_in_class st latex = true ->
    exists r, parser_work T (exec T rd (S (mu (macros st) (fst (scan P latex))))) st latex = Ok r.
  Proof.
    unfold doc_in_class. intros Hd. unfold parser_work.
    destruct (scan P latex) as [toks ds]. cbn [fst] in *.
    apply andb_true_iff in Hd. destruct Hd as [Hd Hb].
    apply andb_true_iff in Hd. destruct Hd as [Hds Hsk].
    destruct ds; [|discriminate]. cbn [add_diags fold_left].
    assert (Hs : skip_regions T (S (length toks)) (upd_latex st latex) latex toks
                 = (upd_latex st latex, toks)).
    { cbn [skip_regions]. rewrite find_index_none; [reflexivity|].
      apply Forall_forall. intros t Ht. rewrite forallb_forall in Hsk.
      apply negb_true_iff. apply Hsk. exact Ht. }
    rewrite Hs. unfold expand_fresh. apply bclb_ok in Hb.
    assert (Hb' : bcl T (macros (upd_latex st latex)) toks) by exact Hb.
    destruct (exec_args_total T rd Htab (S (mu (macros st) toks)) toks [] _ Hb'
                ltac:(cbn [macros upd_latex]; lia)) as [[st1 an] E].
    rewrite E. cbn [rbind fst snd].
    destruct (exec_args T rd Htab Hsp Hblank _ toks [] _ _ Hb' E)
      as (st2 & ts & out & Er & _).
    inversion Er; subst. eexists. reflexivity.
  Qed.

  (* the same with any larger fuel *)
  Theorem parser_work_class_total_fuel fuel st latex :
    doc_in_class st latex = true ->
    (mu (macros st) (fst (scan P latex)) < fuel)%nat ->
    exists r, parser_work T (exec T rd fuel) st latex = Ok r.
  Proof.
    unfold doc_in_class. intros Hd Hf. unfold parser_work.
    destruct (scan P latex) as [toks ds]. cbn [fst] in *.
    apply andb_true_iff in Hd. destruct Hd as [Hd Hb].
    apply andb_true_iff in Hd. destruct Hd as [Hds Hsk].
    destruct ds; [|discriminate]. cbn [add_diags fold_left].
    assert (Hs : skip_regions T (S (length toks)) (upd_latex st latex) latex toks
                 = (upd_latex st latex, toks)).
    { cbn [skip_regions]. rewrite find_index_none; [reflexivity|].
      apply Forall_forall. intros t Ht. rewrite forallb_forall in Hsk.
      apply negb_true_iff. apply Hsk. exact Ht. }
    rewrite Hs. unfold expand_fresh. apply bclb_ok in Hb.
    assert (Hb' : bcl T (macros (upd_latex st latex)) toks) by exact Hb.
    destruct (exec_args_total T rd Htab fuel toks [] _ Hb'
                ltac:(cbn [macros upd_latex]; lia)) as [[st1 an] E].
    rewrite E. cbn [rbind fst snd].
    destruct (exec_args T rd Htab Hsp Hblank _ toks [] _ _ Hb' E)
      as (st2 & ts & out & Er & _).
    inversion Er; subst. eexists. reflexivity.
  Qed.
End DocLevel.
