(* Proofs about coq/model/Replace.v (property C13). *)
From Coq Require Import Lia.
From YV Require Import PyBase PyBaseProofs Replace.

Section ReplaceProofs.
  Variable is_space : char -> bool.
  Variable is_alpha : char -> bool.
  Variable is_word  : char -> bool.

  (* ================================================================== *)
  (*  1. positions of an inserted replacement                            *)
  (* ================================================================== *)

  (* the statement of the property: the k-th inserted character maps to the
     k-th position of the replaced phrase, the last one repeated *)
  Definition rpos_spec (pu rp : list Z) (r : nat) : Prop :=
    length rp = r /\
    forall k, k < r -> nth_error rp k = nth_error pu (Nat.min k (length pu - 1)).

  Lemma repl_pos_ok pos cur m r :
    1 <= m -> cur + m <= length pos ->
    exists rp, repl_pos pos cur m r = Ok rp /\
               rpos_spec (pyslice pos cur (cur + m)) rp r.
  Proof.
    intros Hm Hlen. unfold repl_pos.
    assert (Hpl : length (pyslice pos cur (cur + m)) = m)
      by (rewrite pyslice_length; lia).
    destruct (Nat.leb r m) eqn:E.
    - apply Nat.leb_le in E. eexists; split; [reflexivity|]. split.
      + rewrite pyslice_length; lia.
      + intros k Hk. rewrite Hpl.
        rewrite !nth_error_pyslice by lia. f_equal. lia.
    - apply Nat.leb_gt in E. unfold py_nth.
      destruct (nth_error pos (cur + m - 1)) as [x|] eqn:Ex.
      2:{ apply nth_error_None in Ex. lia. }
      simpl. eexists; split; [reflexivity|]. split.
      + rewrite app_length, repeat_length, Hpl. lia.
      + intros k Hk. rewrite Hpl.
        destruct (Nat.lt_ge_cases k m) as [Hkm|Hkm].
        * rewrite nth_error_app1 by lia.
          rewrite !nth_error_pyslice by lia. f_equal. lia.
        * rewrite nth_error_app2 by lia. rewrite Hpl.
          rewrite nth_error_repeat_lt by lia.
          rewrite nth_error_pyslice by lia. rewrite <- Ex. f_equal. lia.
  Qed.

  (* ================================================================== *)
  (*  2. the alignment relation: what "replacing the spans" means        *)
  (* ================================================================== *)

  (* P i m: the span (i, m) is replaced;  Q i: no replacement starts at i.
     aligned i t ps t' ps': the output (t', ps') arises from the input suffix
     (t, ps) that starts at index i by copying characters with their
     positions where Q holds and replacing spans where P holds *)
  Section Aligned.
    Variable repl : str.
    Variable P : nat -> nat -> Prop.
    Variable Q : nat -> Prop.

    Inductive aligned : nat -> str -> list Z -> str -> list Z -> Prop :=
    | al_nil i : aligned i [] [] [] []
    | al_keep i c p t ps t' ps' :
        Q i -> aligned (S i) t ps t' ps' ->
        aligned i (c :: t) (p :: ps) (c :: t') (p :: ps')
    | al_repl i u pu rp t ps t' ps' :
        u <> [] -> length u = length pu -> P i (length u) ->
        rpos_spec pu rp (length repl) ->
        aligned (i + length u) t ps t' ps' ->
        aligned i (u ++ t) (pu ++ ps) (repl ++ t') (rp ++ ps').

    Lemma aligned_length i t ps t' ps' :
      aligned i t ps t' ps' -> length t = length ps /\ length t' = length ps'.
    Proof.
      induction 1 as [|i c p t ps t' ps' HQ H [I1 I2]
                      |i u pu rp t ps t' ps' Hu Hl HP [Hr _] H [I1 I2]];
        simpl; [split; reflexivity | split; lia |].
      rewrite !app_length. split; lia.
    Qed.

    (* every position of the output is a position of the input *)
    Lemma aligned_incl i t ps t' ps' :
      aligned i t ps t' ps' -> incl ps' ps.
    Proof.
      induction 1 as [|i c p t ps t' ps' HQ H IH
                      |i u pu rp t ps t' ps' Hu Hl HP [Hr Hk] H IH].
      - apply incl_refl.
      - intros x [Hx|Hx]; [left; exact Hx | right; apply IH; exact Hx].
      - intros x Hx. apply in_app_or in Hx. destruct Hx as [Hx|Hx].
        + apply in_or_app. left.
          apply In_nth_error in Hx. destruct Hx as [k Ek].
          assert (k < length repl) as Hlt.
          { rewrite <- Hr. apply nth_error_Some. rewrite Ek. discriminate. }
          rewrite (Hk k Hlt) in Ek. eapply nth_error_In. exact Ek.
        + apply in_or_app. right. apply IH. exact Hx.
    Qed.

    Lemma aligned_keep_block k pk : forall i t ps t' ps',
      length k = length pk ->
      (forall j, i <= j < i + length k -> Q j) ->
      aligned (i + length k) t ps t' ps' ->
      aligned i (k ++ t) (pk ++ ps) (k ++ t') (pk ++ ps').
    Proof.
      revert pk; induction k as [|c k IH]; intros [|p pk] i t ps t' ps' Hl HQ H;
        simpl in *; try discriminate.
      - replace (i + 0) with i in H by lia. exact H.
      - apply al_keep; [apply HQ; lia|].
        apply IH; [lia | intros j Hj; apply HQ; lia |].
        replace (S i + length k) with (i + S (length k)) by lia. exact H.
    Qed.

    (* spans: sorted, inside the text, each satisfying P, and Q in between *)
    Inductive spans_wf (n : nat) : nat -> list (nat * nat) -> Prop :=
    | sw_nil lo : (forall j, lo <= j < n -> Q j) -> spans_wf n lo []
    | sw_cons lo cur m rest :
        lo <= cur -> (forall j, lo <= j < cur -> Q j) -> 1 <= m ->
        P cur m -> cur + m <= n -> spans_wf n (cur + m) rest ->
        spans_wf n lo ((cur, m) :: rest).

    Lemma subst_loop_aligned txt pos : length txt = length pos ->
      forall spans last otxt opos,
      last <= length txt ->
      spans_wf (length txt) last spans ->
      exists t' p',
        subst_loop txt pos repl spans last otxt opos = Ok (otxt ++ t', opos ++ p')
        /\ aligned last (skipn last txt) (skipn last pos) t' p'.
    Proof.
      intros Hlen. induction spans as [|[cur m] rest IH];
        intros last otxt opos Hlast Hwf; inversion Hwf; subst; simpl.
      - exists (skipn last txt), (skipn last pos). split; [reflexivity|].
        replace (skipn last txt) with (skipn last txt ++ []) at 1 2
          by apply app_nil_r.
        replace (skipn last pos) with (skipn last pos ++ []) at 1 2
          by apply app_nil_r.
        apply aligned_keep_block.
        + rewrite !skipn_length. lia.
        + intros j Hj. rewrite skipn_length in Hj.
          match goal with H : forall j, _ -> Q j |- _ => apply H end. lia.
        + constructor.
      - match goal with H : 1 <= m |- _ => rename H into Hm end.
        match goal with H : cur + m <= _ |- _ => rename H into Hcm end.
        destruct (repl_pos_ok pos cur m (length repl) Hm) as (rp & Erp & Hrp);
          [lia|].
        rewrite Erp. simpl.
        match goal with H : spans_wf _ (cur + m) rest |- _ =>
          destruct (IH (cur + m) (otxt ++ pyslice txt last cur ++ repl)
                      (opos ++ pyslice pos last cur ++ rp) Hcm H)
            as (t' & p' & E & Hal) end.
        exists (pyslice txt last cur ++ repl ++ t'),
               (pyslice pos last cur ++ rp ++ p').
        split.
        + rewrite E. rewrite <- !app_assoc. reflexivity.
        + rewrite (skipn_pyslice txt last cur) by assumption.
          rewrite (skipn_pyslice pos last cur) by assumption.
          apply aligned_keep_block.
          * rewrite !pyslice_length; lia.
          * intros j Hj. rewrite pyslice_length in Hj by lia.
            match goal with H : forall j, _ -> Q j |- _ => apply H end. lia.
          * rewrite pyslice_length by lia.
            replace (last + (cur - last)) with cur by lia.
            rewrite (skipn_pyslice txt cur (cur + m)) by lia.
            rewrite (skipn_pyslice pos cur (cur + m)) by lia.
            assert (Hu : length (pyslice txt cur (cur + m)) = m)
              by (rewrite pyslice_length; lia).
            pose proof (al_repl cur (pyslice txt cur (cur + m))
                          (pyslice pos cur (cur + m)) rp
                          (skipn (cur + m) txt) (skipn (cur + m) pos) t' p')
              as A.
            rewrite Hu in A. apply A; auto.
            -- intros C. rewrite C in Hu. simpl in Hu. lia.
            -- rewrite pyslice_length; lia.
    Qed.
  End Aligned.

  (* ================================================================== *)
  (*  3. finditer produces well-formed spans of matches                  *)
  (* ================================================================== *)

  Definition prev_at (txt : str) (i : nat) : option char :=
    match i with O => None | S k => nth_error txt k end.

  Section Finditer.
    Variable ws : list str.
    Variable bs be : bool.
    Variable txt : str.

    Definition mat (i : nat) : option nat :=
      match_at is_word ws bs be (prev_at txt i) (skipn i txt).
    Definition Pm (i m : nat) : Prop := mat i = Some m /\ 1 <= m.
    Definition Qm (i : nat) : Prop := mat i = None \/ mat i = Some 0.

    Lemma match_word_length w : forall s r,
      match_word w s = Some r -> s = w ++ r.
    Proof.
      induction w as [|x w IH]; intros s r H; simpl in H.
      - inversion H. reflexivity.
      - destruct s as [|y s]; [discriminate|].
        destruct (N.eqb x y) eqn:E; [|discriminate].
        apply N.eqb_eq in E. subst y. simpl. f_equal. apply IH. exact H.
    Qed.

    Lemma match_word_app w r : match_word w (w ++ r) = Some r.
    Proof.
      induction w as [|x w IH]; simpl; [reflexivity|].
      rewrite N.eqb_refl. exact IH.
    Qed.

    Lemma match_sep_length s n r :
      match_sep s = Some (n, r) -> exists a, s = a ++ r /\ length a = n /\ 1 <= n.
    Proof.
      unfold match_sep. intros H.
      pose proof (take_drop_while is_blank s) as Hs.
      destruct (drop_while is_blank s) as [|c s2] eqn:Ed.
      - destruct (take_while is_blank s) as [|b a] eqn:Et; [discriminate|].
        inversion H; subst. exists (b :: a). rewrite app_nil_r in *.
        repeat split; auto. simpl. lia.
      - destruct (N.eqb c c_nl) eqn:Ec.
        + inversion H; subst.
          pose proof (take_drop_while is_blank s2) as Hs2.
          exists (take_while is_blank s ++ [c] ++ take_while is_blank s2).
          repeat split.
          * rewrite <- Hs at 1. rewrite <- Hs2 at 1.
            rewrite <- !app_assoc. reflexivity.
          * rewrite !app_length. simpl. lia.
          * lia.
        + destruct (take_while is_blank s) as [|b a] eqn:Et; [discriminate|].
          inversion H; subst. exists (b :: a). repeat split; auto. simpl. lia.
    Qed.

    Lemma match_phrase_le : forall l s m,
      match_phrase l s = Some m -> m <= length s.
    Proof.
      induction l as [|w l IH]; intros s m H; simpl in H; [discriminate|].
      destruct l as [|w2 l].
      - destruct (match_word w s) as [r|] eqn:E; [|discriminate].
        inversion H; subst. apply match_word_length in E. subst s.
        rewrite app_length. lia.
      - destruct (match_word w s) as [s1|] eqn:E; [|discriminate].
        destruct (match_sep s1) as [[n s2]|] eqn:E2; [|discriminate].
        destruct (match_phrase (w2 :: l) s2) as [m2|] eqn:E3; [|discriminate].
        inversion H; subst. apply match_word_length in E.
        apply match_sep_length in E2. destruct E2 as (a & Ea & Hn & _).
        apply IH in E3. subst. rewrite !app_length. lia.
    Qed.

    Lemma match_at_le prev s m :
      match_at is_word ws bs be prev s = Some m -> m <= length s.
    Proof.
      unfold match_at. destruct (bs && _); [discriminate|].
      destruct (match_phrase ws s) as [k|] eqn:E; [|discriminate].
      destruct (be && _); [discriminate|]. intros H; inversion H; subst.
      eapply match_phrase_le; eauto.
    Qed.

    Lemma spans_wf_extend lo l :
      Qm lo -> spans_wf Pm Qm (length txt) (S lo) l ->
      spans_wf Pm Qm (length txt) lo l.
    Proof.
      intros HQ H. inversion H; subst.
      - constructor. intros j Hj. destruct (Nat.eq_dec j lo); [subst; auto|].
        match goal with H : forall j, _ -> Qm j |- _ => apply H end. lia.
      - constructor; auto; [lia|].
        intros j Hj. destruct (Nat.eq_dec j lo); [subst; auto|].
        match goal with H : forall j, _ -> Qm j |- _ => apply H end. lia.
    Qed.

    Lemma finditer_aux_wf : forall s i skip,
      s = skipn i txt -> skip <= length s ->
      spans_wf Pm Qm (length txt) (i + skip)
        (finditer_aux is_word ws bs be (prev_at txt i) s i skip).
    Proof.
      induction s as [|c s IH]; intros i skip Hs Hskip.
      - simpl. constructor. intros j Hj. symmetry in Hs.
        apply skipn_nil_ge in Hs. lia.
      - symmetry in Hs. destruct (skipn_cons_nth _ _ _ _ Hs) as (Hs' & Hn & Hi).
        assert (Hprev : prev_at txt (S i) = Some c) by exact Hn.
        assert (Htl : length txt = i + S (length s)).
        { pose proof (f_equal (@length _) Hs) as HL.
          rewrite skipn_length in HL. simpl in HL. lia. }
        simpl. destruct skip as [|k].
        + destruct (match_at is_word ws bs be (prev_at txt i) (c :: s))
            as [[|m]|] eqn:E.
          * rewrite <- Hprev. replace (i + 0) with i by lia.
            apply spans_wf_extend; [right; unfold mat; rewrite Hs; exact E|].
            pose proof (IH (S i) 0 (eq_sym Hs') (Nat.le_0_l _)) as IH0.
            rewrite Nat.add_0_r in IH0. exact IH0.
          * pose proof (match_at_le _ _ _ E) as Hle. simpl in Hle.
            replace (i + 0) with i by lia.
            constructor; [lia | intros j Hj; lia | lia | | lia |].
            -- split; [unfold mat; rewrite Hs; exact E | lia].
            -- rewrite <- Hprev. replace (i + S m) with (S i + m) by lia.
               apply IH; [auto | simpl in Hle; lia].
          * rewrite <- Hprev. replace (i + 0) with i by lia.
            apply spans_wf_extend; [left; unfold mat; rewrite Hs; exact E|].
            pose proof (IH (S i) 0 (eq_sym Hs') (Nat.le_0_l _)) as IH0.
            rewrite Nat.add_0_r in IH0. exact IH0.
        + rewrite <- Hprev. replace (i + S k) with (S i + k) by lia.
          apply IH; [auto | simpl in Hskip; lia].
    Qed.

    Lemma finditer_wf :
      spans_wf Pm Qm (length txt) 0
        (finditer_aux is_word ws bs be None txt 0 0).
    Proof.
      pose proof (finditer_aux_wf txt 0 0 eq_refl (Nat.le_0_l _)) as H.
      exact H.
    Qed.
  End Finditer.

  (* ================================================================== *)
  (*  4. substitute and replace_phrases                                   *)
  (* ================================================================== *)

  Definition P_rule ws txt := Pm ws (bound_start is_alpha ws) (bound_end is_alpha ws) txt.
  Definition Q_rule ws txt := Qm ws (bound_start is_alpha ws) (bound_end is_alpha ws) txt.

  Theorem substitute_aligned txt pos ws repl :
    length txt = length pos ->
    exists t' p',
      substitute is_alpha is_word txt pos ws repl = Ok (t', p') /\
      aligned repl (P_rule ws txt) (Q_rule ws txt) 0 txt pos t' p'.
  Proof.
    intros Hlen. unfold substitute, finditer.
    destruct (subst_loop_aligned repl (P_rule ws txt) (Q_rule ws txt) txt pos
                Hlen _ 0 [] [] (Nat.le_0_l _) (finditer_wf ws _ _ txt))
      as (t' & p' & E & H).
    exists t', p'. split; [exact E | exact H].
  Qed.

  Theorem replace_phrases_total : forall lines txt pos,
    length txt = length pos ->
    exists t' p',
      replace_phrases is_space is_alpha is_word txt pos lines = Ok (t', p')
      /\ length t' = length p'.
  Proof.
    induction lines as [|lin lines IH]; intros txt pos Hlen;
      cbn [replace_phrases].
    - exists txt, pos. split; [reflexivity | exact Hlen].
    - destruct (r_words (parse_rule is_space lin)) as [|w ws] eqn:E.
      + apply IH. exact Hlen.
      + destruct (substitute_aligned txt pos (w :: ws)
                    (r_repl (parse_rule is_space lin)) Hlen)
          as (t1 & p1 & E1 & Hal).
        rewrite E1. cbn [rbind fst snd]. apply IH.
        apply aligned_length in Hal. destruct Hal as [_ H]. exact H.
  Qed.

  (* and no position is invented: the positions of the result are among the
     positions given *)
  Theorem replace_phrases_incl : forall lines txt pos t' p',
    length txt = length pos ->
    replace_phrases is_space is_alpha is_word txt pos lines = Ok (t', p') ->
    incl p' pos.
  Proof.
    induction lines as [|lin lines IH]; intros txt pos t' p' Hlen H;
      cbn [replace_phrases] in H.
    - inversion H; subst. apply incl_refl.
    - destruct (r_words (parse_rule is_space lin)) as [|w ws] eqn:E.
      + eapply IH; [exact Hlen | exact H].
      + destruct (substitute_aligned txt pos (w :: ws)
                    (r_repl (parse_rule is_space lin)) Hlen)
          as (t1 & p1 & E1 & Hal).
        rewrite E1 in H. cbn [rbind fst snd] in H.
        pose proof (aligned_incl _ _ _ _ _ _ _ _ Hal) as Hi.
        apply aligned_length in Hal. destruct Hal as [_ Hl1].
        eapply incl_tran; [eapply IH; [exact Hl1 | exact H] | exact Hi].
  Qed.

  (* a rule line without left-hand side changes nothing *)
  Lemma replace_phrases_skip lin lines txt pos :
    r_words (parse_rule is_space lin) = [] ->
    replace_phrases is_space is_alpha is_word txt pos (lin :: lines) =
    replace_phrases is_space is_alpha is_word txt pos lines.
  Proof. intros H. cbn [replace_phrases]. rewrite H. reflexivity. Qed.

  (* '#' starts a comment *)
  Lemma strip_comment_app a b :
    Forall (fun c => c <> c_hash) a ->
    strip_comment (a ++ c_hash :: b) = a.
  Proof.
    intros Ha. unfold strip_comment.
    destruct (take_while_app_stop (fun c => negb (N.eqb c c_hash)) a c_hash b)
      as [H _]; [| reflexivity | exact H].
    eapply Forall_impl; [|exact Ha]. intros c Hc. simpl.
    apply negb_true_iff. apply N.eqb_neq. exact Hc.
  Qed.

  Lemma parse_rule_comment a b :
    Forall (fun c => c <> c_hash) a ->
    parse_rule is_space (a ++ c_hash :: b) = parse_rule is_space a.
  Proof.
    intros Ha. unfold parse_rule. rewrite strip_comment_app by exact Ha.
    unfold strip_comment.
    destruct (take_while_app_end (fun c => negb (N.eqb c c_hash)) a) as [H _].
    - eapply Forall_impl; [|exact Ha]. intros c Hc. simpl.
      apply negb_true_iff. apply N.eqb_neq. exact Hc.
    - rewrite H. reflexivity.
  Qed.
End ReplaceProofs.
