(* C18, extraction: with an extraction list the filter returns the extracted
   sequences and nothing else; all macros lose their ordinary output. *)
From Coq Require Import Lia String.
From YV Require Import PyBase PyBaseProofs ShellMap Token Utils Scanner PState Parser
                       Expand Exec.
Open Scope Z_scope.

(* how Parser.parse glues the extracted sequences: each non-empty sequence
   between a paragraph break and a line break *)
Fixpoint assemble (es : list (list tok)) : result (list tok) :=
  match es with
  | [] => Ok []
  | [] :: es' => assemble es'
  | (x :: _) as e :: es' =>
      do lp <- last_pos e;
      do r <- assemble es';
      Ok (ParF (pos x) [c_nl; c_nl; c_nl] :: e ++ SpaceF lp [c_nl] :: r)
  end.

Section Extract.
  Variable T : tables.
  Variable rd : str -> option str.

  (* the output of parse() with an extraction list: the sequences collected
     in the parser state, glued; the tokens of the main text flow (and of the
     definitions file) are dropped *)
  Theorem parse_extract_only fuel st latex define x xs st' toks :
    parse T rd fuel st latex define (x :: xs) = Ok (st', toks) ->
    assemble (extracted st') = Ok toks.
  Proof.
    unfold parse. cbv zeta.
    assert (Hm : exists m, (match define with
            | [] => Ok (upd_unknowns (upd_extracted (init_extractions st (x :: xs)) []) [], [])
            | _ => do r <- parser_work T (exec T rd fuel)
                             (upd_unknowns (upd_extracted (init_extractions st (x :: xs)) []) [])
                             define;
                   Ok (upd_extracted (fst r) [], filter_set_toks (snd r) 0 is_lang)
            end) = m) by (eexists; reflexivity).
    destruct Hm as [m Hm]. rewrite Hm. clear Hm.
    destruct m as [[st1 main]| | |]; cbn [rbind]; try discriminate.
    destruct (parser_work T (exec T rd fuel) st1 latex) as [[st2 body]| | |];
      cbn [rbind]; try discriminate.
    cbn [app].
    match goal with |- context [rbind (?f (extracted st2)) _] =>
      assert (Hf : forall es, f es = assemble es) end.
    { induction es as [|e es IH]; [reflexivity|]. destruct e as [|y e]; [exact IH|].
      cbn [assemble]. rewrite IH. reflexivity. }
    rewrite Hf. destruct (assemble (extracted st2)) as [tl| | |] eqn:Ea; cbn [rbind]; try discriminate.
    intros H. inversion H; subst. exact Ea.
  Qed.

  (* init_extractions: every declared macro keeps its name and arguments but
     expands to nothing; its extraction template is the first mandatory
     argument if the macro is listed, empty otherwise *)
  Definition first_mand (mac : macro) : list tok :=
    match find_index (fun c => match c with AMand => true | _ => false end) (m_args mac) with
    | Some i => [mk (KArg (S i)) 0 (35%N :: nat_dec (S i)) false]
    | None => []
    end.

  Lemma fold_keeps_prefix (extr : list str) : forall (ms : list (str * macro)),
    exists extra,
      fold_left (fun t name =>
                 match assoc name t with
                 | Some _ => t
                 | None => t ++ [(name, {| m_name := name; m_args := [AMand];
                                            m_repl := RToks [];
                                            m_defaults := [];
                                            m_extract := [mk (KArg 1) 0 (s2l "#1") false] |})]
                 end) extr ms = ms ++ extra
      /\ Forall (fun e => m_repl (snd e) = RToks [] /\ m_args (snd e) = [AMand]
                          /\ In (fst e) extr) extra.
  Proof.
    induction extr as [|n extr IH]; intros ms; simpl.
    - exists []. rewrite app_nil_r. split; [reflexivity | constructor].
    - destruct (assoc n ms).
      + destruct (IH ms) as (ex & E & F). exists ex. split; [exact E|].
        eapply Forall_impl; [|exact F]. intros a (A & B & C). repeat split; auto.
      + destruct (IH (ms ++ [(n, {| m_name := n; m_args := [AMand]; m_repl := RToks [];
                                     m_defaults := [];
                                     m_extract := [mk (KArg 1) 0 (s2l "#1") false] |})]))
          as (ex & E & F).
        eexists (_ :: ex). rewrite <- app_assoc in E. split; [exact E|].
        constructor; [repeat split; left; reflexivity|].
        eapply Forall_impl; [|exact F]. intros a (A & B & C). repeat split; auto.
  Qed.

  Theorem init_extractions_spec st extr :
    exists extra,
      macros (init_extractions st extr) =
        map (fun e => (fst e,
               {| m_name := m_name (snd e); m_args := m_args (snd e); m_repl := RToks [];
                  m_defaults := m_defaults (snd e);
                  m_extract := if mem_str (fst e) extr then first_mand (snd e) else [] |}))
            (macros st) ++ extra
      /\ Forall (fun e => m_repl (snd e) = RToks [] /\ m_args (snd e) = [AMand]
                          /\ In (fst e) extr) extra
      /\ environs (init_extractions st extr) = environs st.
  Proof.
    unfold init_extractions.
    match goal with |- context [fold_left ?f extr ?ms] =>
      destruct (fold_keeps_prefix extr ms) as (extra & E & F) end.
    exists extra. cbn [macros environs upd_macros]. split; [|split; [exact F | reflexivity]].
    rewrite E. f_equal.
  Qed.
End Extract.
