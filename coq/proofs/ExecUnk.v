(* End-to-end theorems for a second class of documents: plain text with
   undeclared control words, comments and grouping braces.  For every such
   token list the main loop of the expander (1) records the undeclared names
   once each, in order of first use (C19), (2) leaves the declarations alone,
   and (3) hands on every character of the text that is no white space, in
   order, and nothing else (C03, C05): the macros vanish, the words stay. *)
From Coq Require Import Lia String.
From YV Require Import PyBase PyBaseProofs ShellMap Token Utils Scanner Rpal PState
                       Parser Expand Math Exec TokOk ScanOk ScanPlain RpalProofs
                       ExecPlain ExpandSites SpecialsProofs.
Open Scope Z_scope.

Section ExecUnk.
  Variable T : tables.
  Variable rd : str -> option str.
  Hypothesis Htab : plain_tables_ok T = true.
  (* scanner and action-line pass use the same notion of white space *)
  Hypothesis Hsp : forall c, sp_is_space (t_scan T) c = t_is_space T c.
  Notation P := (t_scan T).
  Notation isp := (t_is_space T).

  (* the strings the main loop compares a token's text with *)
  Definition loop_strings : list str :=
    [s2l "$"; s2l "\("; s2l "$$"; s2l "\["; s2l "\\"; s_lbrace; s_rbrace].
  Definition inert_txt (t : tok) : bool :=
    forallb (fun x => negb (txt_is t x)) loop_strings.

  (* the tokens of the class, relative to the declarations in force *)
  Inductive ucls (ms : list (str * macro)) : tok -> Prop :=
    | u_plain t : etok T t -> ucls ms t
    | u_macro t : tk t = KMacro -> txt_is t (s2l "\def") = false ->
                  assoc (txt t) ms = None -> ucls ms t
    | u_comment t : tk t = KComment -> inert_txt t = true -> ucls ms t
    | u_action t : (tk t = KAction \/ tk t = KVoid) -> txt t = [] -> ucls ms t
    | u_brace t : tk t = KSpecial -> (txt t = s_lbrace \/ txt t = s_rbrace) -> ucls ms t
    | u_special t v : tk t = KSpecial -> inert_txt t = true ->
                      assoc (txt t) (t_special_values T) = Some v -> ucls ms t
    (* text generated from a macro body: pinned to the call *)
    | u_gen t : pfix t = true -> gtok T t -> ucls ms t
    (* the material of \verb|...| *)
    | u_verb t : tk t = KVerb false -> has_nl (txt t) = false -> ucls ms t.

  (* names of the undeclared control words, in order *)
  Definition names (toks : list tok) : list str :=
    flat_map (fun t => match tk t with KMacro => [txt t] | _ => [] end) toks.
  (* the plain text tokens *)
  Definition pk (t : tok) : bool :=
    match tk t with KText | KSpace | KPar => true | _ => false end.
  Definition plains (toks : list tok) : list tok := filter pk toks.

  Lemma inert_rewrite t :
    inert_txt t = true ->
    txt_is t (s2l "$") = false /\ txt_is t (s2l "\(") = false /\
    txt_is t (s2l "$$") = false /\ txt_is t (s2l "\[") = false /\
    txt_is t (s2l "\\") = false /\ txt_is t s_lbrace = false /\ txt_is t s_rbrace = false.
  Proof.
    unfold inert_txt, loop_strings. cbn [forallb]. intros H.
    repeat (apply andb_true_iff in H; destruct H as [? H]).
    repeat match goal with X : negb _ = true |- _ => apply negb_true_iff in X end.
    repeat split; assumption.
  Qed.

  Lemma no_active_nil st :
    match cur_settings T st with
    | Some s => mem_str [] (ls_active s) | None => false end = false.
  Proof.
    destruct (cur_settings T st) as [s|] eqn:Ec; [|reflexivity].
    unfold cur_settings in Ec. apply assoc_in in Ec. destruct Ec as [k Hin].
    destruct (mem_str [] (ls_active s)) eqn:Em; [|reflexivity]. exfalso.
    destruct (tab_facts T Htab) as (_ & _ & _ & _ & _ & _ & _ & Hact).
    apply mem_str_in in Em. destruct (Hact (k, s) [] Hin Em) as (x & r & E & _). discriminate.
  Qed.

  (* one turn of the loop for each kind of token of the class *)
  Lemma step_macro rec fuel st t b env_stop rout :
    tk t = KMacro -> txt_is t (s2l "\def") = false -> assoc (txt t) (macros st) = None ->
    exists st',
      step_seq T rd rec fuel st (t :: b) env_stop rout =
        rec (TSeq (ActionT (pos t) :: skip_ctl b) env_stop rout) st' /\
      unknowns st' = add_unknown (unknowns st) (txt t) /\ macros st' = macros st.
  Proof.
    intros Hk Hd Hm. unfold step_seq. rewrite Hk, Hd.
    destruct (expand_macro_undeclared T rd rec fuel st b t false Hm) as (st' & E & U & M & _).
    exists st'. rewrite E. cbn [rbind]. split; [reflexivity | split; assumption].
  Qed.

  Lemma step_comment rec fuel st t b env_stop rout :
    tk t = KComment -> inert_txt t = true ->
    step_seq T rd rec fuel st (t :: b) env_stop rout = rec (TSeq b env_stop rout) st.
  Proof.
    intros Hk Hi. destruct (inert_rewrite t Hi) as (H1 & H2 & H3 & H4 & H5 & H6 & H7).
    unfold step_seq. rewrite Hk, H1, H2, H3, H4, H5, H6, H7. reflexivity.
  Qed.

  Lemma step_action rec fuel st t b env_stop rout :
    (tk t = KAction \/ tk t = KVoid) -> txt t = [] ->
    step_seq T rd rec fuel st (t :: b) env_stop rout = rec (TSeq b env_stop (t :: rout)) st.
  Proof.
    intros [Hk|Hk] Ht; unfold step_seq, txt_is; rewrite Hk, Ht; cbn;
      pose proof (no_active_nil st) as Ha; rewrite Ha; reflexivity.
  Qed.

  Lemma step_brace rec fuel st t b env_stop rout :
    tk t = KSpecial -> (txt t = s_lbrace \/ txt t = s_rbrace) ->
    step_seq T rd rec fuel st (t :: b) env_stop rout =
    rec (TSeq b env_stop (ActionT (pos t) :: rout)) st.
  Proof.
    intros Hk [Ht|Ht]; unfold step_seq, txt_is; rewrite Hk, Ht; reflexivity.
  Qed.

  Lemma step_special rec fuel st t b env_stop rout v :
    tk t = KSpecial -> inert_txt t = true ->
    assoc (txt t) (t_special_values T) = Some v ->
    step_seq T rd rec fuel st (t :: b) env_stop rout =
    rec (TSeq b env_stop (mk KText (pos t) v (pfix t) :: ActionT (pos t) :: rout)) st.
  Proof. intros Hk Hi Hv. apply step_seq_special; assumption. Qed.

  Lemma step_verb rec fuel st t b env_stop rout :
    tk t = KVerb false ->
    step_seq T rd rec fuel st (t :: b) env_stop rout =
    rec (TSeq b env_stop (mk KText (pos t) (txt t) (pfix t) :: ActionT (pos t) :: rout)) st.
  Proof. intros Hk. unfold step_seq. rewrite Hk. reflexivity. Qed.

  (* skip_space keeps the class and loses neither names nor text *)
  Lemma skip_space_suffix b : exists pre, b = pre ++ skip_space b /\
    Forall (fun t => buf_is_space t = true) pre.
  Proof.
    induction b as [|t b IH]; [exists []; split; [reflexivity | constructor]|].
    cbn [skip_space]. destruct (buf_is_space t) eqn:E.
    - destruct IH as (pre & Eb & Hp). exists (t :: pre). split; [simpl; f_equal; exact Eb|].
      constructor; assumption.
    - exists []. split; [reflexivity | constructor].
  Qed.

  Definition ns := RpalProofs.ns isp.
  Definition nst := RpalProofs.nst isp.

  Lemma nst_app a b : nst (a ++ b) = nst a ++ nst b.
  Proof. unfold nst, RpalProofs.nst. apply flat_map_app. Qed.

  Lemma ns_all_space x : forallb isp x = true -> ns x = [].
  Proof. apply RpalProofs.ns_blank. Qed.

  (* dropped behind a control word: white space and comments, no text, no name *)
  Lemma skipped_harmless ms pre :
    Forall (ucls ms) pre -> Forall (fun t => buf_is_space t = true) pre ->
    names pre = [] /\ nst (plains pre) = [].
  Proof.
    induction 1 as [|t pre Ht Hp IH]; intros Hs; [split; reflexivity|].
    inversion Hs as [|? ? Hb Hr]; subst. destruct (IH Hr) as [I1 I2].
    assert (Hn : names (t :: pre) =
                 (match tk t with KMacro => [txt t] | _ => [] end) ++ names pre) by reflexivity.
    assert (Hp2 : plains (t :: pre) =
                  if pk t then t :: plains pre else plains pre) by reflexivity.
    rewrite Hn, Hp2, I1. unfold buf_is_space in Hb. unfold pk.
    destruct (tk t) eqn:Ek; try discriminate; cbn [app]; try (split; [reflexivity | exact I2]).
    (* a space token: all its characters are white space *)
    split; [reflexivity|].
    change (nst (t :: plains pre)) with (ns (txt t) ++ nst (plains pre)). rewrite I2, app_nil_r.
    assert (Hg : gtok T t).
    { inversion Ht; subst; try congruence;
        try (match goal with X : _ \/ _ |- _ => destruct X; congruence end);
        try (apply etok_gtok; assumption); try assumption. }
    destruct Hg as [_ Hk]. cbn [tk txt pos pfix mk] in Hk.
    rewrite Ek in Hk. destruct Hk as (c & r & Et & Hc & Hall).
    apply ns_all_space. rewrite forallb_forall in Hall. apply forallb_forall.
    intros a Ha. rewrite <- Hsp. apply Hall, Ha.
  Qed.

End ExecUnk.

Lemma fold_add_unknown_nodup : forall nl l,
  NoDup l -> NoDup (fold_left add_unknown nl l) /\
  (forall x, In x (fold_left add_unknown nl l) <-> In x l \/ In x nl) /\
  exists r, fold_left add_unknown nl l = l ++ r.
Proof.
  induction nl as [|n nl IH]; intros l Hl; cbn [fold_left].
  - split; [exact Hl|]. split; [intros x; simpl; tauto | exists []; rewrite app_nil_r; reflexivity].
  - destruct (add_unknown_spec l n Hl) as (N1 & N2 & (r1 & N3) & N4).
    destruct (IH _ N1) as (I1 & I2 & (r2 & I3)).
    split; [exact I1|]. split.
    + intros x. rewrite I2, N4. simpl. split; [intros [[A|A]|A]|intros [A|[A|A]]]; auto.
    + exists (r1 ++ r2). rewrite I3, N3, app_assoc. reflexivity.
Qed.
