(* C01, range, end to end for the document class: for a source text accepted
   by doc_in_class every token that Parser.parser_work returns has all its
   positions inside the text; hence every position tex2txt() returns for such
   a document lies in 1 .. len(source) -- without the hypothesis on the
   expander that C01_range_behind_expander needs in general. *)
From Coq Require Import Lia String.
From YV Require Import PyBase PyBaseProofs ShellMap Token Utils Scanner Rpal PState
                       Parser Expand Math Exec TokOk ScanOk ScanFaithful ScanPlain RpalProofs
                       ExecPlain ExpandSites SpecialsProofs ExecUnk ExecArgs ClassDecide
                       MlProofs RpalRange ExecRange Replace Ml Tex2txt Tex2txtProofs TotalProofs ReplaceProofs.
Open Scope Z_scope.

Section ClassRange.
  Variable T : tables.
  Variable rd : str -> option str.
  Hypothesis Htab : plain_tables_ok T = true.
  Hypothesis Hwf : specials_wf T.
  Hypothesis Hshort : values_short T = true.
  Notation P := (t_scan T).

  Definition inside (latex : str) (x : Z) : Prop := 0 <= x < zlen latex.

  (* every control word of the scan has a name *)
  Definition names_ok (latex : str) : bool :=
    forallb (fun t => match tk t, txt t with KMacro, [] => false | _, _ => true end)
            (fst (scan P latex)).

  Lemma sub_at_len s off x : sub_at s off x -> x <> [] -> (off + length x <= length s)%nat.
  Proof.
    unfold sub_at. intros H Hn. apply (f_equal (@length _)) in H.
    rewrite firstn_length, skipn_length in H.
    destruct x as [|c x]; [contradiction|]. cbn [length] in *. lia.
  Qed.

  Lemma scan_tok_R latex t :
    In t (fst (scan P latex)) -> MlProofs.tok_R (inside latex) t.
  Proof.
    intros Hin.
    pose proof (scan_ok T Hwf latex) as Hok. rewrite Forall_forall in Hok. specialize (Hok t Hin).
    pose proof (scan_faithful P latex) as Hfa. rewrite Forall_forall in Hfa. specialize (Hfa t Hin).
    unfold MlProofs.tok_R, tok_positions, inside. destruct (pfix t) eqn:Ep.
    - apply Forall_forall. intros x Hx. apply repeat_spec in Hx. subst x.
      apply (tok_ok_pos T _ _ Hok).
    - destruct Hfa as [Hfa|[H0 Hs]]; [congruence|].
      apply Forall_forall. intros x Hx. apply zseq_range in Hx.
      assert (Hne : txt t <> []) by (intros E; rewrite E in Hx; cbn in Hx; lia).
      apply sub_at_len in Hs; [|exact Hne]. unfold zlen. lia.
  Qed.

  Theorem parser_work_class_range fuel st latex r :
    doc_in_class T st latex = true -> names_ok latex = true ->
    parser_work T (exec T rd fuel) st latex = Ok r ->
    Forall (MlProofs.tok_R (inside latex)) (snd r).
  Proof.
    unfold doc_in_class, names_ok. intros Hd Hn H. unfold parser_work in H.
    pose proof (scan_tok_R latex) as Hrange.
    destruct (scan P latex) as [toks ds]. cbn [fst] in *.
    apply andb_true_iff in Hd. destruct Hd as [Hd Hb].
    apply andb_true_iff in Hd. destruct Hd as [Hds Hsk].
    destruct ds; [|discriminate]. cbn [add_diags fold_left] in H.
    assert (Hs : skip_regions T (S (length toks)) (upd_latex st latex) latex toks
                 = (upd_latex st latex, toks)).
    { cbn [skip_regions]. rewrite find_index_none; [reflexivity|].
      apply Forall_forall. intros t Ht. rewrite forallb_forall in Hsk.
      apply negb_true_iff. apply Hsk. exact Ht. }
    rewrite Hs in H. unfold expand_fresh in H.
    destruct (exec T rd fuel (TSeq toks None []) (upd_latex st latex)) as [[st1 an]| | |] eqn:Ee;
      try discriminate.
    apply bclb_ok in Hb.
    assert (Hb' : bcl T (macros (upd_latex st latex)) toks) by exact Hb.
    assert (HT : Forall (tR (inside latex)) toks).
    { apply Forall_forall. intros t Ht. split; [apply Hrange; exact Ht|].
      rewrite forallb_forall in Hn. specialize (Hn t Ht). intros Ek. rewrite Ek in Hn.
      destruct (txt t); [discriminate | discriminate]. }
    pose proof (exec_args_R T rd Htab (inside latex) Hshort fuel toks [] _ _ _ Hb' HT (Forall_nil _) Ee) as HR.
    cbn [rbind fst snd] in H. destruct an as [ts rest|]; [|discriminate].
    inversion H; subst r. cbn [snd]. exact HR.
  Qed.

  (* Parser.parse without definition text and extraction list *)
  Lemma parse_class_range fuel st latex st' toks :
    doc_in_class T (upd_unknowns (upd_extracted st []) []) latex = true ->
    names_ok latex = true ->
    parse T rd fuel st latex [] [] = Ok (st', toks) ->
    Forall (MlProofs.tok_R (inside latex)) toks.
  Proof.
    intros Hd Hn H. unfold parse in H. cbn [rbind] in H.
    set (st1 := upd_unknowns (upd_extracted st []) []) in *.
    destruct (parser_work T (exec T rd fuel) st1 latex) as [[st2 body]| | |] eqn:Ep;
      try discriminate.
    cbn [rbind] in H.
    pose proof (parser_work_class_range fuel st1 latex _ Hd Hn Ep) as HR. cbn [snd] in HR.
    destruct (parser_work_class_frame T rd Htab fuel st1 latex _ Hd Ep) as [Fr _].
    cbn [fst] in Fr. unfold frame in Fr.
    assert (Ex : extracted st2 = []) by (rewrite Fr; reflexivity).
    rewrite Ex in H. cbn [rbind app] in H. inversion H; subst. rewrite app_nil_r. exact HR.
  Qed.
End ClassRange.

(* C01, range, end to end *)
Theorem tex2txt_class_range T is_word files lang multi simple mods latex repl thresh fuel out :
  plain_tables_ok T = true -> specials_wf T -> values_short T = true ->
  run_tex2txt T is_word files lang multi simple mods [] latex [] repl false thresh fuel = Ok out ->
  (forall st,
     init_parser T (fun f => assoc f files) fuel (init_state T lang multi simple true)
                 (t_builtin T) mods = Ok st ->
     doc_in_class T (upd_unknowns (upd_extracted st []) []) latex = true) ->
  names_ok T latex = true ->
  result_ok (fun p => 1 <= p <= zlen latex) (to_result out).
Proof.
  intros Htab Hwf Hshort H Hcls Hn.
  apply (run_tex2txt_range (zlen latex) T is_word files lang multi simple mods [] latex [] repl
                           thresh fuel out H).
  intros st st' toks Hi Hp.
  apply (parse_class_range T (fun f => assoc f files) Htab Hwf Hshort fuel st latex st' toks
                           (Hcls st Hi) Hn Hp).
Qed.

(* C07, end to end for the document class, single-language mode: once the
   parser is set up (packages loaded) and the fuel exceeds the weight of the
   scan, tex2txt() returns a result -- no exception, no fatal exit -- whatever
   the replacement list and the other options are *)
Theorem tex2txt_class_total T is_word files lang simple mods latex repl unkn thresh fuel st :
  plain_tables_ok T = true ->
  (forall c, sp_is_space (t_scan T) c = t_is_space T c) ->
  sp_is_space (t_scan T) 32 = true /\ okc T 32 = true ->
  init_parser T (fun f => assoc f files) fuel (init_state T lang false simple true)
              (t_builtin T) mods = Ok st ->
  doc_in_class T (upd_unknowns (upd_extracted st []) []) latex = true ->
  (mu (macros st) (fst (scan (t_scan T) latex)) < fuel)%nat ->
  exists out,
    run_tex2txt T is_word files lang false simple mods [] latex [] repl unkn thresh fuel = Ok out.
Proof.
  intros Htab Hsp Hblank Hi Hd Hf. unfold run_tex2txt. rewrite Hi. cbn [rbind].
  set (rd := fun f => assoc f files) in *.
  set (st1 := upd_unknowns (upd_extracted st []) []) in *.
  destruct (parser_work_class_total_fuel T rd Htab Hsp Hblank fuel st1 latex Hd Hf) as [[st2 body] Ep].
  destruct (parser_work_class_frame T rd Htab fuel st1 latex _ Hd Ep) as [Fr _].
  cbn [fst] in Fr. unfold frame in Fr.
  assert (Ex : extracted st2 = []) by (rewrite Fr; reflexivity).
  unfold parse. cbn [rbind]. fold st1. rewrite Ep. cbn [rbind]. rewrite Ex. cbn [rbind app negb].
  destruct (get_txt_pos (body ++ [])) as [t p] eqn:Eg.
  assert (Hlen : length t = length p).
  { pose proof (get_txt_pos_length (body ++ [])) as L. rewrite Eg in L. exact L. }
  destruct repl as [lines|].
  - destruct (ReplaceProofs.replace_phrases_total (t_is_space T) (t_is_alpha T) is_word lines t p Hlen)
      as (t' & p' & E & _).
    rewrite E. cbn [rbind]. destruct unkn; eexists; reflexivity.
  - cbn [rbind]. destruct unkn; eexists; reflexivity.
Qed.

(* C19, end to end for the document class: the list of unknowns tex2txt()
   reports is exactly the undeclared control words of the scan, once each, in
   order of first use *)
Theorem tex2txt_class_unknowns T is_word files lang multi simple mods latex repl unkn thresh fuel st out :
  plain_tables_ok T = true ->
  (forall c, sp_is_space (t_scan T) c = t_is_space T c) ->
  sp_is_space (t_scan T) 32 = true /\ okc T 32 = true ->
  values_one_line T = true -> t_is_space T c_nl = true ->
  init_parser T (fun f => assoc f files) fuel (init_state T lang multi simple true)
              (t_builtin T) mods = Ok st ->
  doc_in_class T (upd_unknowns (upd_extracted st []) []) latex = true ->
  run_tex2txt T is_word files lang multi simple mods [] latex [] repl unkn thresh fuel = Ok out ->
  to_unknowns out
  = fold_left add_unknown (unames (macros st) (fst (scan (t_scan T) latex))) [].
Proof.
  intros Htab Hsp Hblank Hval Hnl Hi Hd H. unfold run_tex2txt in H. rewrite Hi in H. cbn [rbind] in H.
  set (rd := fun f => assoc f files) in *.
  set (st1 := upd_unknowns (upd_extracted st []) []) in *.
  unfold parse in H. cbn [rbind] in H. fold st1 in H.
  destruct (parser_work T (exec T rd fuel) st1 latex) as [[st2 body]| | |] eqn:Ep; try discriminate.
  cbn [rbind] in H.
  destruct (parser_work_class T rd Htab Hsp Hblank Hval Hnl fuel st1 latex _ Hd Ep)
    as (_ & _ & Hu & _).
  cbn [fst] in Hu. unfold st1 in Hu. cbn [unknowns macros upd_unknowns upd_extracted] in Hu.
  destruct ((fix go (es : list (list tok)) : result (list tok) :=
               match es with
               | [] => Ok []
               | [] :: es' => go es'
               | (x :: _) as e :: es' =>
                   do lp <- last_pos e; do r <- go es';
                   Ok (ParF (pos x) [c_nl; c_nl; c_nl] :: e ++ SpaceF lp [c_nl] :: r)
               end) (extracted st2)) as [tail| | |]; try discriminate.
  cbn [rbind] in H.
  assert (Hfin : forall x o, Ok {| to_result := x; to_unknowns := unknowns st2;
                                   to_diags := rev (diags st2) |} = Ok o ->
                             to_unknowns o = unknowns st2).
  { intros x o E. inversion E; subst. reflexivity. }
  rewrite <- Hu.
  destruct (negb multi).
  - match type of H with context [get_txt_pos ?l] => destruct (get_txt_pos l) as [t p] end.
    destruct (match repl with
              | Some lines => replace_phrases (t_is_space T) (t_is_alpha T) is_word t p lines
              | None => Ok (t, p) end) as [[t' p']| | |]; try discriminate.
    cbn [rbind] in H. destruct unkn; apply Hfin in H; exact H.
  - match type of H with context [get_txt_pos_ml ?a ?b ?c ?l ?d ?e] =>
      destruct (get_txt_pos_ml a b c l d e) as [ml| | |]; try discriminate end.
    cbn [rbind] in H.
    match type of H with (do ml <- ?g; _) = _ => destruct g as [ml2| | |]; try discriminate end.
    cbn [rbind] in H. apply Hfin in H. exact H.
Qed.

(* ---- the same in multi-language mode ---- *)
Definition lenok (tp : str * list Z) : Prop := length (fst tp) = length (snd tp).

Lemma repl_parts_total (f : str -> list Z -> result (str * list Z)) :
  (forall t p, length t = length p -> exists t' p', f t p = Ok (t', p')) ->
  forall ps, Forall lenok ps ->
  exists res,
  (fix gp (ps : list (str * list Z)) : result (list (str * list Z)) :=
     match ps with
     | [] => Ok []
     | (t, p) :: ps' => do tp <- f t p; do r <- gp ps'; Ok (tp :: r)
     end) ps = Ok res.
Proof.
  intros Hf. induction ps as [|[t p] ps IH]; intros Hps; [eexists; reflexivity|].
  inversion Hps as [|? ? H1 H2]; subst. destruct (Hf t p H1) as (t' & p' & E).
  destruct (IH H2) as (r & Er). rewrite E. cbn [rbind]. rewrite Er. cbn [rbind].
  eexists. reflexivity.
Qed.

Lemma repl_ml_total (f : str -> list Z -> result (str * list Z)) (lang : str) :
  (forall t p, length t = length p -> exists t' p', f t p = Ok (t', p')) ->
  forall ml, Forall (fun e : str * list (str * list Z) => Forall lenok (snd e)) ml ->
  exists res,
  (fix go (l : list (str * list (str * list Z))) : result (list (str * list (str * list Z))) :=
     match l with
     | [] => Ok []
     | (lg, parts) :: l' =>
         do parts' <-
           (if str_eqb lg lang then
              (fix gp (ps : list (str * list Z)) : result (list (str * list Z)) :=
                 match ps with
                 | [] => Ok []
                 | (t, p) :: ps' => do tp <- f t p; do r <- gp ps'; Ok (tp :: r)
                 end) parts
            else Ok parts);
         do r <- go l';
         Ok ((lg, parts') :: r)
     end) ml = Ok res.
Proof.
  intros Hf. induction ml as [|[lg parts] ml IH]; intros Hml; [eexists; reflexivity|].
  inversion Hml as [|? ? H1 H2]; subst. cbn [snd] in H1.
  destruct (IH H2) as (r & Er).
  destruct (str_eqb lg lang).
  - destruct (repl_parts_total f Hf parts H1) as (ps' & Ep). rewrite Ep. cbn [rbind].
    rewrite Er. cbn [rbind]. eexists. reflexivity.
  - cbn [rbind]. rewrite Er. cbn [rbind]. eexists. reflexivity.
Qed.

Theorem tex2txt_class_total_ml T is_word files lang simple mods latex repl unkn thresh fuel st :
  plain_tables_ok T = true ->
  (forall c, sp_is_space (t_scan T) c = t_is_space T c) ->
  sp_is_space (t_scan T) 32 = true /\ okc T 32 = true ->
  init_parser T (fun f => assoc f files) fuel (init_state T lang true simple true)
              (t_builtin T) mods = Ok st ->
  TotalProofs.rot_ok (check_parser_lang T) (rot_change st) ->
  doc_in_class T (upd_unknowns (upd_extracted st []) []) latex = true ->
  (mu (macros st) (fst (scan (t_scan T) latex)) < fuel)%nat ->
  exists out,
    run_tex2txt T is_word files lang true simple mods [] latex [] repl unkn thresh fuel = Ok out.
Proof.
  intros Htab Hsp Hblank Hi Hrot Hd Hf. unfold run_tex2txt. rewrite Hi. cbn [rbind].
  set (rd := fun f => assoc f files) in *.
  set (st1 := upd_unknowns (upd_extracted st []) []) in *.
  destruct (parser_work_class_total_fuel T rd Htab Hsp Hblank fuel st1 latex Hd Hf) as [[st2 body] Ep].
  destruct (parser_work_class_frame T rd Htab fuel st1 latex _ Hd Ep) as [Fr _].
  cbn [fst] in Fr. unfold frame in Fr.
  assert (Ex : extracted st2 = []) by (rewrite Fr; reflexivity).
  assert (Erot : rot_change st2 = rot_change st) by (rewrite Fr; reflexivity).
  unfold parse. cbn [rbind]. fold st1. rewrite Ep. cbn [rbind]. rewrite Ex. cbn [rbind app negb].
  cbv zeta.
  set (repl_f := fun (t : str) (p : list Z) =>
                   match repl with
                   | Some lines => replace_phrases (t_is_space T) (t_is_alpha T) is_word t p lines
                   | None => Ok (t, p)
                   end).
  assert (Hrf : forall t p, length t = length p -> exists t' p', repl_f t p = Ok (t', p')).
  { intros t p L. unfold repl_f. destruct repl as [lines|]; [|eexists; eexists; reflexivity].
    destruct (ReplaceProofs.replace_phrases_total (t_is_space T) (t_is_alpha T) is_word lines t p L)
      as (t' & p' & E & _). exists t', p'. exact E. }
  rewrite Erot.
  destruct (TotalProofs.get_txt_pos_ml_total (t_is_space T) (check_parser_lang T) thresh
              (body ++ []) lang (rot_change st) Hrot) as (ml & Eml).
  rewrite Eml. cbn [rbind].
  assert (Hml : Forall (fun e : str * list (str * list Z) => Forall lenok (snd e)) ml).
  { pose proof (MlProofs.get_txt_pos_ml_lengths (t_is_space T) (check_parser_lang T) thresh
                  (fun _ => True) (body ++ []) lang (rot_change st) ml) as H0.
    assert (HT : Forall (MlProofs.tok_R (fun _ => True)) (body ++ [])).
    { apply Forall_forall. intros t _. unfold MlProofs.tok_R. apply Forall_forall. intros; exact I. }
    specialize (H0 HT Eml). eapply Forall_impl; [|exact H0]. cbv beta. intros e He.
    eapply Forall_impl; [|exact He]. cbv beta. intros tp [L _]. exact L. }
  match goal with |- exists out, (do ml0 <- ?g; _) = _ => assert (Hg : exists r, g = Ok r) end.
  { exact (repl_ml_total repl_f lang Hrf ml Hml). }
  destruct Hg as (ml2 & E2). rewrite E2. cbn [rbind]. eexists. reflexivity.
Qed.
