(* Lemmas about the PyBase functions. *)
From Coq Require Import Lia.
From YV Require Import PyBase.

Lemma pyslice_length {A} (l : list A) a b :
  a <= b -> b <= length l -> length (pyslice l a b) = b - a.
Proof.
  intros Hab Hb. unfold pyslice. rewrite firstn_length, skipn_length. lia.
Qed.

Lemma skipn_skipn_add {A} (l : list A) x y :
  skipn x (skipn y l) = skipn (y + x) l.
Proof.
  revert l; induction y as [|y IH]; intros l; simpl; [reflexivity|].
  destruct l as [|a l]; [apply skipn_nil | apply IH].
Qed.

Lemma skipn_pyslice {A} (l : list A) a b :
  a <= b -> skipn a l = pyslice l a b ++ skipn b l.
Proof.
  intros Hab. unfold pyslice.
  rewrite <- (firstn_skipn (b - a) (skipn a l)) at 1.
  f_equal. rewrite skipn_skipn_add. f_equal. lia.
Qed.

Lemma pyslice_firstn {A} (l : list A) a r m :
  r <= m -> pyslice l a (a + r) = firstn r (pyslice l a (a + m)).
Proof.
  intros Hr. unfold pyslice.
  replace (a + r - a) with r by lia. replace (a + m - a) with m by lia.
  rewrite firstn_firstn. f_equal. lia.
Qed.

Lemma nth_error_skipn_add {A} (l : list A) a k :
  nth_error (skipn a l) k = nth_error l (a + k).
Proof.
  revert l; induction a as [|a IH]; intros l; simpl; [reflexivity|].
  destruct l as [|x l]; simpl; [destruct k; reflexivity | apply IH].
Qed.

Lemma nth_error_firstn_lt {A} (l : list A) n k :
  k < n -> nth_error (firstn n l) k = nth_error l k.
Proof.
  revert l k; induction n as [|n IH]; intros l k Hk; [lia|].
  destruct l as [|x l]; simpl; [destruct k; reflexivity|].
  destruct k as [|k]; simpl; [reflexivity | apply IH; lia].
Qed.

Lemma nth_error_pyslice {A} (l : list A) a b k :
  k < b - a -> nth_error (pyslice l a b) k = nth_error l (a + k).
Proof.
  intros Hk. unfold pyslice. rewrite nth_error_firstn_lt by exact Hk.
  apply nth_error_skipn_add.
Qed.

Lemma nth_error_repeat_lt {A} (x : A) n k :
  k < n -> nth_error (repeat x n) k = Some x.
Proof.
  revert k; induction n as [|n IH]; intros k Hk; [lia|].
  destruct k as [|k]; simpl; [reflexivity | apply IH; lia].
Qed.

Lemma skipn_cons_nth {A} (l : list A) i c s :
  skipn i l = c :: s -> skipn (S i) l = s /\ nth_error l i = Some c /\ i < length l.
Proof.
  revert l; induction i as [|i IH]; intros l H.
  - simpl in H. subst l. simpl. repeat split; lia.
  - destruct l as [|x l]; simpl in H; [discriminate|].
    destruct (IH _ H) as (H1 & H2 & H3). simpl. repeat split; auto. simpl. lia.
Qed.

Lemma skipn_nil_ge {A} (l : list A) i : skipn i l = [] -> length l <= i.
Proof.
  revert l; induction i as [|i IH]; intros l H.
  - simpl in H. subst. simpl. lia.
  - destruct l as [|x l]; simpl in *; [lia|]. specialize (IH _ H). lia.
Qed.

Lemma take_drop_while {A} (f : A -> bool) l :
  take_while f l ++ drop_while f l = l.
Proof.
  induction l as [|x l IH]; simpl; [reflexivity|].
  destruct (f x); simpl; [f_equal; exact IH | reflexivity].
Qed.

Lemma take_while_all {A} (f : A -> bool) l :
  Forall (fun x => f x = true) (take_while f l).
Proof.
  induction l as [|x l IH]; simpl; [constructor|].
  destruct (f x) eqn:E; [constructor; assumption | constructor].
Qed.

Lemma drop_while_head {A} (f : A -> bool) l x r :
  drop_while f l = x :: r -> f x = false.
Proof.
  induction l as [|y l IH]; simpl; [discriminate|].
  destruct (f y) eqn:E; [exact IH|]. intros H; inversion H; subst; exact E.
Qed.

Lemma take_while_app_stop {A} (f : A -> bool) a x r :
  Forall (fun y => f y = true) a -> f x = false ->
  take_while f (a ++ x :: r) = a /\ drop_while f (a ++ x :: r) = x :: r.
Proof.
  intros Ha Hx. induction Ha as [|y a Hy Ha IH]; simpl.
  - rewrite Hx. split; reflexivity.
  - rewrite Hy. destruct IH as [I1 I2]. rewrite I1, I2. split; reflexivity.
Qed.

Lemma take_while_app_end {A} (f : A -> bool) a :
  Forall (fun y => f y = true) a ->
  take_while f a = a /\ drop_while f a = [].
Proof.
  intros Ha. induction Ha as [|y a Hy Ha IH]; simpl; [split; reflexivity|].
  rewrite Hy. destruct IH as [I1 I2]. rewrite I1, I2. split; reflexivity.
Qed.

Lemma str_eqb_eq a b : str_eqb a b = true <-> a = b.
Proof.
  revert b; induction a as [|x a IH]; intros [|y b]; simpl; split; intros H;
    try reflexivity; try discriminate.
  - apply andb_true_iff in H. destruct H as [H1 H2].
    apply N.eqb_eq in H1. apply IH in H2. subst; reflexivity.
  - inversion H; subst. rewrite N.eqb_refl. simpl. apply IH. reflexivity.
Qed.
