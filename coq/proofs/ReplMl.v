(* C13 in multi-language mode: the replacement list is applied to the parts
   of the main language and to nothing else.  A run of tex2txt() with a list
   and the run without it return the same languages in the same order; the
   parts of every other language are identical; a part of the main language
   is replace_phrases applied to the part of the run without the list. *)
From Coq Require Import Lia.
From YV Require Import PyBase ShellMap Token Utils PState Parser Exec Ml Replace Tex2txt.
Open Scope Z_scope.

Section ReplMl.
  Variable f : str -> list Z -> result (str * list Z).
  Variable lang : str.

  Definition gp : list (str * list Z) -> result (list (str * list Z)) :=
    fix gp (ps : list (str * list Z)) : result (list (str * list Z)) :=
      match ps with
      | [] => Ok []
      | (t, p) :: ps' => do tp <- f t p; do r <- gp ps'; Ok (tp :: r)
      end.
  Definition go : list (str * list (str * list Z)) -> result (list (str * list (str * list Z))) :=
    fix go (l : list (str * list (str * list Z))) : result (list (str * list (str * list Z))) :=
      match l with
      | [] => Ok []
      | (lg, parts) :: l' =>
          do parts' <- (if str_eqb lg lang then gp parts else Ok parts);
          do r <- go l';
          Ok ((lg, parts') :: r)
      end.

  Lemma gp_shape : forall ps res, gp ps = Ok res ->
    Forall2 (fun tp tp' => f (fst tp) (snd tp) = Ok tp') ps res.
  Proof.
    induction ps as [|[t p] ps IH]; intros res H; cbn [gp] in H.
    - inversion H; constructor.
    - destruct (f t p) as [tp| | |] eqn:E; cbn [rbind] in H; try discriminate.
      fold gp in H. destruct (gp ps) as [r| | |]; cbn [rbind] in H; try discriminate.
      inversion H; subst. constructor; [exact E | apply IH; reflexivity].
  Qed.

  Definition same_or_replaced (e e' : str * list (str * list Z)) : Prop :=
    fst e' = fst e /\
    (str_eqb (fst e) lang = false -> snd e' = snd e) /\
    (str_eqb (fst e) lang = true ->
       Forall2 (fun tp tp' => f (fst tp) (snd tp) = Ok tp') (snd e) (snd e')).

  Lemma go_shape : forall ml res, go ml = Ok res -> Forall2 same_or_replaced ml res.
  Proof.
    induction ml as [|[lg parts] ml IH]; intros res H; cbn [go] in H.
    - inversion H; constructor.
    - fold go in H. destruct (str_eqb lg lang) eqn:E.
      + destruct (gp parts) as [ps'| | |] eqn:Eg; cbn [rbind] in H; try discriminate.
        destruct (go ml) as [r| | |]; cbn [rbind] in H; try discriminate.
        inversion H; subst. constructor; [|apply IH; reflexivity].
        unfold same_or_replaced. cbn [fst snd]. rewrite E.
        split; [reflexivity|]. split; [discriminate|]. intros _. apply gp_shape. exact Eg.
      + cbn [rbind] in H. destruct (go ml) as [r| | |]; cbn [rbind] in H; try discriminate.
        inversion H; subst. constructor; [|apply IH; reflexivity].
        unfold same_or_replaced. cbn [fst snd]. rewrite E.
        split; [reflexivity|]. split; [reflexivity | discriminate].
  Qed.
End ReplMl.

Lemma gp_id ps : gp (fun t p => Ok (t, p)) ps = Ok ps.
Proof.
  induction ps as [|[t p] ps IH]; [reflexivity|]. cbn [gp rbind]. fold (gp (fun t p => Ok (t, p))).
  rewrite IH. reflexivity.
Qed.
Lemma go_id lang ml : go (fun t p => Ok (t, p)) lang ml = Ok ml.
Proof.
  induction ml as [|[lg parts] ml IH]; [reflexivity|]. cbn [go]. fold (go (fun t p => Ok (t, p)) lang).
  destruct (str_eqb lg lang); [rewrite gp_id|]; cbn [rbind]; rewrite IH; reflexivity.
Qed.

Definition shift1 (ml : list (str * list (str * list Z))) : list (str * list (str * list Z)) :=
  map (fun e => (fst e, map (fun tp => (fst tp, map (fun n => n + 1) (snd tp))) (snd e))) ml.

(* the two runs side by side *)
Theorem tex2txt_ml_replacements T is_word files lang simple mods define latex extr lines unkn
        thresh fuel out out0 :
  run_tex2txt T is_word files lang true simple mods define latex extr (Some lines) unkn thresh fuel = Ok out ->
  run_tex2txt T is_word files lang true simple mods define latex extr None unkn thresh fuel = Ok out0 ->
  exists ml ml',
    to_result out0 = TMulti (shift1 ml) /\ to_result out = TMulti (shift1 ml') /\
    Forall2 (same_or_replaced
               (fun t p => replace_phrases (t_is_space T) (t_is_alpha T) is_word t p lines) lang)
            ml ml'.
Proof.
  unfold run_tex2txt. intros H H0.
  destruct (init_parser T _ fuel _ (t_builtin T) mods) as [st| | |]; cbn [rbind] in *; try discriminate.
  destruct (parse T _ fuel st latex define extr) as [[st1 toks]| | |]; cbn [rbind] in *; try discriminate.
  cbn [negb] in *.
  destruct (get_txt_pos_ml _ _ thresh toks lang (rot_change st1)) as [ml| | |]; cbn [rbind] in *; try discriminate.
  match type of H0 with (do _ <- ?g ml; _) = _ =>
    replace (g ml) with (go (fun t p => Ok (t, p)) lang ml) in H0 by reflexivity end.
  rewrite go_id in H0. cbn [rbind] in H0.
  match type of H with (do _ <- ?g ml; _) = _ =>
    replace (g ml)
      with (go (fun t p => replace_phrases (t_is_space T) (t_is_alpha T) is_word t p lines) lang ml)
      in H by reflexivity end.
  destruct (go _ lang ml) as [ml'| | |] eqn:Eg; cbn [rbind] in H; try discriminate.
  inversion H; inversion H0; subst. exists ml, ml'. cbn [to_result].
  split; [reflexivity|]. split; [reflexivity|]. apply go_shape. exact Eg.
Qed.
