(* C06, scanner: a text without LaTeX-active characters is cut into
   single-character text tokens and runs of white space, nothing is dropped
   or reordered and get_txt_pos gives back the text with the identity map. *)
From Coq Require Import Lia.
From YV Require Import PyBase PyBaseProofs ShellMap Token Utils Scanner TokOk ScanOk.
Open Scope Z_scope.

Lemma zseq_app a m k : zseq a (m + k) = zseq a m ++ zseq (a + Z.of_nat m) k.
Proof.
  revert a; induction m as [|m IH]; intros a; simpl.
  - f_equal. lia.
  - f_equal. rewrite IH. f_equal. f_equal. lia.
Qed.

Section ScanPlain.
  Variable P : scan_parms.
  Variable latex : str.
  Variable okc : char -> bool.     (* further characters to stay away from *)

  Definition no_special (s : str) : bool :=
    match find (fun t => starts_with t s) (sp_specials P) with
    | None => true | Some _ => false end.

  (* no %, #, backslash, and no special sequence starts anywhere *)
  Fixpoint plainb (s : str) : bool :=
    match s with
    | [] => true
    | c :: s' =>
        (sp_is_space P c
         || (negb (N.eqb c c_percent) && negb (N.eqb c c_hash)
             && negb (N.eqb c c_backslash) && okc c && no_special s))
        && plainb s'
    end.

  Lemma plainb_skipn n : forall s, plainb s = true -> plainb (skipn n s) = true.
  Proof.
    induction n as [|n IH]; intros s H; [exact H|].
    destruct s as [|c s]; [reflexivity|]. simpl in H.
    apply andb_true_iff in H. apply IH, H.
  Qed.

  (* what the scanner makes of plain text *)
  Definition ptok (t : tok) : Prop :=
    pfix t = false /\
    match tk t with
    | KText => exists c, txt t = [c] /\ sp_is_space P c = false /\
                         c <> c_backslash /\ okc c = true /\
                         (forall x, In x (sp_specials P) -> starts_with x [c] = false)
    | KSpace | KPar => exists c r, txt t = c :: r /\ sp_is_space P c = true
                                   /\ forallb (sp_is_space P) (txt t) = true
    | _ => False
    end.

  Lemma starts_with_one x c s :
    starts_with x (c :: s) = false -> starts_with x [c] = false.
  Proof.
    destruct x as [|y x]; [discriminate|]. simpl.
    destruct (N.eqb y c); [|reflexivity]. simpl.
    destruct x; [discriminate | reflexivity].
  Qed.

  Lemma index_where_prefix (f : char -> bool) : forall l,
    forallb (fun x => negb (f x)) (firstn (index_where f l) l) = true.
  Proof.
    unfold index_where. induction l as [|x l IH]; [reflexivity|]. simpl.
    destruct (f x) eqn:E; [reflexivity|].
    destruct (find_index f l) as [i|]; simpl; rewrite E; simpl; exact IH.
  Qed.

  Lemma scan_aux_plain : forall fuel s start,
    (length s < fuel)%nat -> plainb s = true ->
    get_txt_pos (fst (scan_aux P latex fuel s start)) = (s, zseq start (length s))
    /\ Forall ptok (fst (scan_aux P latex fuel s start))
    /\ snd (scan_aux P latex fuel s start) = [].
  Proof.
    induction fuel as [|k IH]; intros s start Hf Hp; [lia|].
    destruct s as [|c s']; [simpl; repeat split; constructor|].
    cbn [scan_aux]. pose proof Hp as Hp0. simpl in Hp.
    apply andb_true_iff in Hp. destruct Hp as [Hc Hp'].
    unfold next_token, is_sp.
    destruct (sp_is_space P c) eqn:Esp.
    - (* a run of white space *)
      set (n := S (index_where (fun x => negb (sp_is_space P x)) s')).
      assert (Hn : (1 <= n <= length (c :: s'))%nat).
      { unfold n. pose proof (index_where_le (fun x => negb (sp_is_space P x)) s').
        simpl. lia. }
      assert (Hpl : plainb (skipn n (c :: s')) = true) by (apply plainb_skipn; exact Hp0).
      assert (Hlen : (length (skipn n (c :: s')) < k)%nat).
      { rewrite skipn_length. simpl in *. lia. }
      assert (Hmax : Nat.max n 1 = n) by lia.
      assert (Htxt : exists r, firstn n (c :: s') = c :: r).
      { unfold n. simpl. eexists. reflexivity. }
      destruct Htxt as [r Htxt].
      assert (Hall : forallb (sp_is_space P) (firstn n (c :: s')) = true).
      { unfold n. cbn [firstn forallb]. rewrite Esp. cbn [andb].
        pose proof (index_where_prefix (fun x => negb (sp_is_space P x)) s') as Hi.
        rewrite forallb_forall in Hi. apply forallb_forall. intros a Ha.
        specialize (Hi a Ha). cbv beta in Hi. destruct (sp_is_space P a); [reflexivity | discriminate]. }
      destruct (Nat.ltb (count_char c_nl (firstn n (c :: s'))) 2);
        rewrite Hmax;
        destruct (IH (skipn n (c :: s')) (start + Z.of_nat n) Hlen Hpl) as (G & F & D);
        destruct (scan_aux P latex k (skipn n (c :: s')) (start + Z.of_nat n)) as [ts ds];
        cbn [fst snd] in *; cbn [get_txt_pos]; rewrite G;
        (split; [|split; [constructor; [|exact F] | rewrite D; reflexivity]]);
        try (split; [reflexivity|]; cbn [tk mk txt]; exists c, r;
             split; [exact Htxt | split; [exact Esp | exact Hall]]).
      all: unfold tok_positions; cbn [pfix txt mk pos]; rewrite firstn_skipn; f_equal;
        rewrite firstn_length, Nat.min_l by lia;
        rewrite <- zseq_app; f_equal; rewrite skipn_length; lia.
    - simpl in Hc. apply andb_true_iff in Hc. destruct Hc as [Hc Hns].
      apply andb_true_iff in Hc. destruct Hc as [Hc Hok].
      apply andb_true_iff in Hc. destruct Hc as [Hc Hb].
      apply andb_true_iff in Hc. destruct Hc as [Hpc Hh].
      apply negb_true_iff in Hpc, Hh, Hb. rewrite Hpc, Hh.
      unfold no_special in Hns.
      destruct (find (fun t => starts_with t (c :: s')) (sp_specials P)) eqn:Ef;
        [discriminate|].
      rewrite Hb. change (Nat.max 1 1) with 1%nat. cbn [skipn].
      assert (Hlen : (length s' < k)%nat) by (simpl in Hf; lia).
      destruct (IH s' (start + Z.of_nat 1) Hlen Hp') as (G & F & D).
      destruct (scan_aux P latex k s' (start + Z.of_nat 1)) as [ts ds].
      cbn [fst snd] in *. cbn [get_txt_pos]. rewrite G.
      split; [|split; [constructor; [|exact F] | rewrite D; reflexivity]].
      + unfold tok_positions. simpl. reflexivity.
      + split; [reflexivity|]. cbn [tk TextT mk]. exists c.
        split; [reflexivity|]. split; [exact Esp|]. split; [|split; [exact Hok|]].
        * intros E. subst c. discriminate.
        * intros x Hx. apply (starts_with_one x c s').
          pose proof (find_none _ _ Ef x Hx) as Hx'. exact Hx'.
  Qed.

  Theorem scan_plain :
    plainb latex = true ->
    get_txt_pos (fst (scan P latex)) = (latex, zseq 0 (length latex))
    /\ Forall ptok (fst (scan P latex)) /\ snd (scan P latex) = [].
  Proof. intros H. unfold scan. apply scan_aux_plain; [lia | exact H]. Qed.
End ScanPlain.
