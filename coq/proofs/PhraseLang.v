(* The matcher of coq/model/Replace.v against a declarative description of
   the regular expression that utils.replace_phrases builds:
      w1 SEP w2 SEP ... wn,   SEP = (?:[ \t]*\n[ \t]*|[ \t]+)
   Soundness and completeness (hence: the deterministic consumption of the
   separator loses no match of the backtracking engine). *)
From Coq Require Import Lia.
From YV Require Import PyBase PyBaseProofs Replace.

Local Arguments N.eqb : simpl never.

Definition blanks (a : str) : Prop := Forall (fun c => is_blank c = true) a.

Inductive sep_lang : str -> Prop :=
| sep_nl a b : blanks a -> blanks b -> sep_lang (a ++ c_nl :: b)
| sep_bl a : blanks a -> a <> [] -> sep_lang a.

Inductive phrase_lang : list str -> str -> Prop :=
| ph_one w : phrase_lang [w] w
| ph_cons w w2 ws s u :
    sep_lang s -> phrase_lang (w2 :: ws) u ->
    phrase_lang (w :: w2 :: ws) (w ++ s ++ u).

(* a word as str.split() yields it: non-empty, first character neither blank,
   tab nor line break *)
Definition word_ok (w : str) : Prop :=
  match w with
  | [] => False
  | c :: _ => is_blank c = false /\ c <> c_nl
  end.

Lemma blank_not_nl c : is_blank c = true -> c <> c_nl.
Proof.
  unfold is_blank. intros H C. subst c. vm_compute in H. discriminate.
Qed.

Lemma blanks_count_nl a : blanks a -> count_char c_nl a = 0.
Proof.
  unfold count_char. induction 1 as [|c a Hc Ha IH]; simpl; [reflexivity|].
  destruct (N.eqb c_nl c) eqn:E; [|exact IH].
  apply N.eqb_eq in E. symmetry in E. apply blank_not_nl in Hc. contradiction.
Qed.

(* a separator holds at most one line break: a match never spans a blank
   line, because the words themselves contain no white space *)
Lemma sep_lang_one_nl s : sep_lang s -> count_char c_nl s <= 1.
Proof.
  intros [a b Ha Hb | a Ha _].
  - unfold count_char in *. rewrite filter_app, app_length.
    cbn [filter]. rewrite N.eqb_refl. cbn [length].
    pose proof (blanks_count_nl a Ha) as H1.
    pose proof (blanks_count_nl b Hb) as H2. unfold count_char in *.
    lia.
  - rewrite blanks_count_nl by exact Ha. lia.
Qed.

Lemma sep_lang_chars s : sep_lang s ->
  Forall (fun c => is_blank c = true \/ c = c_nl) s.
Proof.
  intros [a b Ha Hb | a Ha _].
  - apply Forall_app. split.
    + eapply Forall_impl; [|exact Ha]. auto.
    + constructor; [right; reflexivity|].
      eapply Forall_impl; [|exact Hb]. auto.
  - eapply Forall_impl; [|exact Ha]. auto.
Qed.

Lemma sep_lang_nonempty s : sep_lang s -> s <> [].
Proof.
  intros [a b _ _ | a _ H]; [destruct a; discriminate | exact H].
Qed.

(* ---------- soundness ---------- *)

Lemma match_sep_sound s n r :
  match_sep s = Some (n, r) ->
  exists a, s = a ++ r /\ length a = n /\ sep_lang a.
Proof.
  unfold match_sep. intros H.
  pose proof (take_drop_while is_blank s) as Hs.
  pose proof (take_while_all is_blank s) as Ha.
  destruct (drop_while is_blank s) as [|c s2] eqn:Ed.
  - destruct (take_while is_blank s) as [|b a] eqn:Et; [discriminate|].
    inversion H; subst. exists (b :: a). rewrite app_nil_r in *.
    repeat split; auto. apply sep_bl; [exact Ha | discriminate].
  - destruct (N.eqb c c_nl) eqn:Ec.
    + inversion H; subst. apply N.eqb_eq in Ec. subst c.
      pose proof (take_drop_while is_blank s2) as Hs2.
      pose proof (take_while_all is_blank s2) as Hb.
      exists (take_while is_blank s ++ c_nl :: take_while is_blank s2).
      repeat split.
      * rewrite <- Hs at 1. rewrite <- Hs2 at 1.
        rewrite <- !app_assoc. reflexivity.
      * rewrite !app_length. cbn [length]. lia.
      * apply sep_nl; assumption.
    + destruct (take_while is_blank s) as [|b a] eqn:Et; [discriminate|].
      inversion H; subst. exists (b :: a). repeat split; auto.
      apply sep_bl; [exact Ha | discriminate].
Qed.

Lemma match_word_split w s r : match_word w s = Some r -> s = w ++ r.
Proof.
  revert s r; induction w as [|x w IH]; intros s r H; simpl in H.
  - inversion H. reflexivity.
  - destruct s as [|y s]; [discriminate|].
    destruct (N.eqb x y) eqn:E; [|discriminate].
    apply N.eqb_eq in E. subst y. simpl. f_equal. apply IH. exact H.
Qed.

Lemma match_word_prefix w r : match_word w (w ++ r) = Some r.
Proof.
  induction w as [|x w IH]; simpl; [reflexivity|].
  rewrite N.eqb_refl. exact IH.
Qed.

Theorem match_phrase_sound : forall ws s m,
  match_phrase ws s = Some m ->
  exists u r, s = u ++ r /\ length u = m /\ phrase_lang ws u.
Proof.
  induction ws as [|w ws IH]; intros s m H; simpl in H; [discriminate|].
  destruct ws as [|w2 ws].
  - destruct (match_word w s) as [r|] eqn:E; [|discriminate].
    inversion H; subst. apply match_word_split in E.
    exists w, r. repeat split; [exact E | constructor].
  - destruct (match_word w s) as [s1|] eqn:E; [|discriminate].
    destruct (match_sep s1) as [[n s2]|] eqn:E2; [|discriminate].
    destruct (match_phrase (w2 :: ws) s2) as [m2|] eqn:E3; [|discriminate].
    inversion H; subst. apply match_word_split in E.
    apply match_sep_sound in E2. destruct E2 as (a & Ea & Hn & Hsep).
    apply IH in E3. destruct E3 as (u & r & Eu & Hu & Hph).
    exists (w ++ a ++ u), r. subst. repeat split.
    + rewrite <- !app_assoc. reflexivity.
    + rewrite !app_length. lia.
    + constructor; assumption.
Qed.

(* ---------- completeness ---------- *)

Lemma match_sep_complete a w r :
  sep_lang a -> word_ok w ->
  match_sep (a ++ w ++ r) = Some (length a, w ++ r).
Proof.
  intros Ha Hw. destruct w as [|x w]; [contradiction|].
  destruct Hw as [Hx Hnl]. unfold match_sep.
  destruct Ha as [a b Ha Hb | a Ha Hne].
  - rewrite <- app_assoc. simpl.
    assert (Hnlb : is_blank c_nl = false) by (vm_compute; reflexivity).
    destruct (take_while_app_stop is_blank a c_nl (b ++ x :: w ++ r) Ha Hnlb)
      as [T D].
    rewrite T, D. rewrite N.eqb_refl.
    destruct (take_while_app_stop is_blank b x (w ++ r) Hb Hx) as [T2 D2].
    rewrite T2, D2. f_equal. f_equal.
    rewrite app_length. simpl. lia.
  - simpl.
    destruct (take_while_app_stop is_blank a x (w ++ r) Ha Hx) as [T D].
    rewrite T, D.
    destruct (N.eqb x c_nl) eqn:E; [apply N.eqb_eq in E; contradiction|].
    destruct a; [contradiction|]. reflexivity.
Qed.

Theorem match_phrase_complete : forall ws u r,
  Forall word_ok ws -> phrase_lang ws u ->
  match_phrase ws (u ++ r) = Some (length u).
Proof.
  intros ws u r Hok Hph. revert r. induction Hph as [w | w w2 ws s u Hs Hph IH];
    intros r.
  - simpl. rewrite match_word_prefix. reflexivity.
  - inversion Hok as [|? ? Hw Hok']; subst.
    specialize (IH Hok').
    change (match_phrase (w :: w2 :: ws) ((w ++ s ++ u) ++ r)) with
      (match match_word w ((w ++ s ++ u) ++ r) with
       | None => None
       | Some s1 =>
           match match_sep s1 with
           | None => None
           | Some (n, s2) =>
               match match_phrase (w2 :: ws) s2 with
               | None => None
               | Some m => Some (length w + n + m)
               end
           end
       end).
    rewrite <- !app_assoc. rewrite match_word_prefix.
    (* u starts with w2 *)
    assert (Hu : exists u', u = w2 ++ u').
    { inversion Hph; subst; [exists []; rewrite app_nil_r; reflexivity|].
      eexists; reflexivity. }
    destruct Hu as [u' Eu]. subst u. rewrite <- app_assoc.
    inversion Hok' as [|? ? Hw2 _]; subst.
    rewrite (match_sep_complete s w2 (u' ++ r) Hs Hw2).
    rewrite app_assoc. rewrite IH. rewrite !app_length. f_equal. lia.
Qed.

(* the match is unique: the language is deterministic on these words *)
Corollary phrase_lang_unique ws u1 r1 u2 r2 :
  Forall word_ok ws -> phrase_lang ws u1 -> phrase_lang ws u2 ->
  u1 ++ r1 = u2 ++ r2 -> length u1 = length u2.
Proof.
  intros Hok H1 H2 E.
  pose proof (match_phrase_complete ws u1 r1 Hok H1) as A.
  pose proof (match_phrase_complete ws u2 r2 Hok H2) as B.
  rewrite E in A. rewrite A in B. inversion B. reflexivity.
Qed.

(* ---------- words produced by str.split() ---------- *)
Section Split.
  Variable is_space : char -> bool.
  Hypothesis space_blank : forall c, is_blank c = true -> is_space c = true.
  Hypothesis space_nl : is_space c_nl = true.

  Definition nospace (w : str) : Prop :=
    w <> [] /\ Forall (fun c => is_space c = false) w.

  Lemma split_ws_aux_ok : forall s cur,
    Forall (fun c => is_space c = false) cur ->
    Forall nospace (split_ws_aux is_space s cur).
  Proof.
    induction s as [|c s IH]; intros cur Hcur; simpl.
    - destruct cur as [|x cur]; [constructor|].
      constructor; [|constructor]. split.
      + intros C. apply (f_equal (@length _)) in C.
        rewrite rev_length in C. simpl in C. lia.
      + apply Forall_rev. exact Hcur.
    - destruct (is_space c) eqn:E.
      + destruct cur as [|x cur]; [apply IH; constructor|].
        constructor; [|apply IH; constructor]. split.
        * intros C. apply (f_equal (@length _)) in C.
          rewrite rev_length in C. simpl in C. lia.
        * apply Forall_rev. exact Hcur.
      + apply IH. constructor; assumption.
  Qed.

  Lemma split_ws_ok s : Forall nospace (split_ws is_space s).
  Proof. apply split_ws_aux_ok. constructor. Qed.

  Lemma nospace_word_ok w : nospace w -> word_ok w.
  Proof.
    intros [Hne Hf]. destruct w as [|c w]; [contradiction|].
    inversion Hf; subst. split.
    - destruct (is_blank c) eqn:E; [|reflexivity].
      apply space_blank in E. congruence.
    - intros C. subst c. congruence.
  Qed.

  Lemma nospace_no_nl w : nospace w -> count_char c_nl w = 0.
  Proof.
    intros [_ Hf]. unfold count_char.
    induction Hf as [|c w Hc Hw IH]; simpl; [reflexivity|].
    destruct (N.eqb c_nl c) eqn:E; [|exact IH].
    apply N.eqb_eq in E. subst c. congruence.
  Qed.

  Lemma take_while_Forall {A} (P : A -> Prop) f (l : list A) :
    Forall P l -> Forall P (take_while f l).
  Proof.
    induction 1 as [|x l Hx Hl IH]; simpl; [constructor|].
    destruct (f x); [constructor; assumption | constructor].
  Qed.

  Lemma parse_rule_words_ok lin :
    Forall word_ok (r_words (parse_rule is_space lin)).
  Proof.
    unfold parse_rule. simpl.
    apply take_while_Forall.
    eapply Forall_impl; [|apply split_ws_ok]. apply nospace_word_ok.
  Qed.
End Split.
