(* Proofs about coq/model/Reports.v and the assembly of ShellMap.v
   (properties C14, C15). *)
From Coq Require Import Lia Sorting.Permutation.
From YV Require Import PyBase PyBaseProofs ShellMap ShellMapProofs Json Reports.
Open Scope Z_scope.

Definition no_exc {A} (r : result A) : Prop :=
  match r with Exc _ => False | OutOfFuel => False | _ => True end.

Lemma no_exc_bind {A B} (r : result A) (f : A -> result B) :
  no_exc r -> (forall a, r = Ok a -> no_exc (f a)) -> no_exc (rbind r f).
Proof. destruct r; simpl; intros H1 H2; auto. Qed.

Lemma mapM_no_exc {A B} (f : A -> result B) l :
  (forall x, In x l -> no_exc (f x)) -> no_exc (mapM f l).
Proof.
  induction l as [|x l IH]; intros H; simpl; [exact I|].
  apply no_exc_bind; [apply H; left; reflexivity|]. intros y _.
  apply no_exc_bind; [apply IH; intros z Hz; apply H; right; exact Hz|].
  intros r _. exact I.
Qed.

Lemma mapM_ok {A B} (f : A -> result B) l r :
  mapM f l = Ok r -> length r = length l /\
  forall i x, nth_error l i = Some x -> exists y, nth_error r i = Some y /\ f x = Ok y.
Proof.
  revert r; induction l as [|x l IH]; intros r H; simpl in H.
  - inversion H; subst. split; [reflexivity|]. intros [|i] y Hy; discriminate.
  - destruct (f x) as [y| | |] eqn:Ef; try discriminate. simpl in H.
    destruct (mapM f l) as [r'| | |] eqn:Em; try discriminate. simpl in H.
    inversion H; subst. destruct (IH r' eq_refl) as [Hl Hn].
    split; [simpl; lia|]. intros [|i] z Hz; simpl in *.
    + inversion Hz; subst. exists y. split; [reflexivity | exact Ef].
    + apply Hn. exact Hz.
Qed.

Lemma mapM_in {A B} (f : A -> result B) l r y :
  mapM f l = Ok r -> In y r -> exists x, In x l /\ f x = Ok y.
Proof.
  revert r; induction l as [|x l IH]; intros r H Hy; simpl in H.
  - inversion H; subst. contradiction.
  - destruct (f x) as [y0| | |] eqn:Ef; try discriminate. simpl in H.
    destruct (mapM f l) as [r'| | |] eqn:Em; try discriminate. simpl in H.
    inversion H; subst. destruct Hy as [Hy|Hy].
    + subst. exists x. split; [left; reflexivity | exact Ef].
    + destruct (IH r' eq_refl Hy) as (x' & Hin & Hf). exists x'. split; [right|]; assumption.
Qed.

(* ------------------------------------------------------------------ *)
(*  typed access never raises                                           *)
(* ------------------------------------------------------------------ *)

Lemma json_get_no_exc d i t : no_exc (json_get d i t).
Proof.
  unfold json_get. destruct d; simpl; auto.
  destruct (lookup i l); simpl; auto. destruct (has_ty t j); simpl; auto.
Qed.

Lemma get_int_no_exc d i : no_exc (get_int d i).
Proof.
  unfold get_int. apply no_exc_bind; [apply json_get_no_exc|]. intros; exact I.
Qed.

Ltac nx := repeat (first
  [ apply json_get_no_exc | apply get_int_no_exc | exact I
  | apply no_exc_bind; [|intros ? ?]
  | apply mapM_no_exc; intros ? ? ]).

Lemma check_replacements_no_exc m : no_exc (check_replacements m).
Proof. unfold check_replacements. nx. Qed.
Lemma check_context_no_exc m : no_exc (check_context m).
Proof. unfold check_context. nx. Qed.
Lemma check_urls_no_exc r : no_exc (check_urls r).
Proof.
  unfold check_urls. destruct (has_key r k_urls); [|exact I].
  apply no_exc_bind; [apply json_get_no_exc|]. intros u _.
  destruct (list_of u); [exact I|]. nx.
Qed.
Lemma check_subid_no_exc r : no_exc (check_subid r).
Proof. unfold check_subid. destruct (has_key r k_subId); nx. Qed.

Lemma check_fields_no_exc md link m : no_exc (check_fields md link m).
Proof.
  destruct md; simpl; try exact I;
    repeat (first [ apply json_get_no_exc | apply check_subid_no_exc
                  | apply check_replacements_no_exc | apply check_context_no_exc
                  | apply check_urls_no_exc | exact I
                  | apply no_exc_bind; [|intros ? ?] ]).
  destruct link; [apply check_urls_no_exc | exact I].
Qed.

(* ------------------------------------------------------------------ *)
(*  assembly                                                            *)
(* ------------------------------------------------------------------ *)
Section Asm.
  Variable is_space : char -> bool.

  Definition nonblank (s : str) : Prop := strip is_space s <> [].

  Definition part_ok (p : part) : Prop :=
    nonblank (p_plain p) -> length (p_plain p) = length (p_map p).

  Lemma nonblank_nonempty s : nonblank s -> s <> [].
  Proof. unfold nonblank. intros H C. subst. apply H. reflexivity. Qed.

  Definition acc_ok (a : assembled) : Prop := length (a_plain a) = length (a_map a).

  (* the invariant of the loop: equal lengths, accumulated text extended *)
  Lemma assemble_parts_ok : forall ps acc,
    Forall part_ok ps -> acc_ok acc ->
    exists a, assemble_parts is_space ps acc = Ok a /\ acc_ok a /\
      (exists x y w, a_plain a = a_plain acc ++ x /\ a_map a = a_map acc ++ y /\
                     a_matches a = a_matches acc ++ w).
  Proof.
    induction ps as [|p ps IH]; intros acc Hok Hacc; simpl.
    - exists acc. split; [reflexivity|]. split; [exact Hacc|].
      exists [], [], []. rewrite !app_nil_r. repeat split; reflexivity.
    - inversion Hok as [|? ? Hp Hps]; subst.
      destruct (strip is_space (p_plain p)) as [|c s] eqn:Es.
      + apply IH; assumption.
      + assert (Hnb : nonblank (p_plain p)) by (unfold nonblank; rewrite Es; discriminate).
        specialize (Hp Hnb).
        assert (Hne : p_map p <> []).
        { intros C. rewrite C in Hp. simpl in Hp.
          apply nonblank_nonempty in Hnb. destruct (p_plain p); [contradiction|discriminate]. }
        unfold py_last. rewrite rev_app_distr.
        destruct (rev (p_map p)) as [|lst r] eqn:Er.
        { apply (f_equal (@rev _)) in Er. rewrite rev_involutive in Er. contradiction. }
        simpl.
        match goal with |- context [assemble_parts is_space ps ?acc'] =>
          destruct (IH acc' Hps) as (a & Ea & Hoka & (x & y & w & Hx & Hy & Hw)) end.
        { unfold acc_ok in *. simpl. rewrite !app_length. simpl. lia. }
        exists a. split; [exact Ea|]. split; [exact Hoka|]. simpl in Hx, Hy, Hw.
        eexists; eexists; eexists. rewrite Hx, Hy, Hw. rewrite <- !app_assoc.
        repeat split; reflexivity.
  Qed.

  (* a match of a part is found, shifted by d, in the assembled result, and
     the assembled text and map agree with the part from d on: offset and
     length select the same characters and map entries as in the part *)
  Theorem assemble_shift : forall ps acc a,
    Forall part_ok ps -> acc_ok acc ->
    assemble_parts is_space ps acc = Ok a ->
    forall p m, In p ps -> nonblank (p_plain p) -> In m (p_matches p) ->
    exists d : nat,
      In (shift_match (Z.of_nat d) m) (a_matches a) /\
      forall k, (k < length (p_plain p))%nat ->
        nth_error (a_plain a) (d + k) = nth_error (p_plain p) k /\
        nth_error (a_map a) (d + k) = nth_error (p_map p) k.
  Proof.
    induction ps as [|q ps IH]; intros acc a Hok Hacc Ea p m Hp Hnb Hm;
      [contradiction|].
    inversion Hok as [|? ? Hq Hps]; subst. simpl in Ea.
    destruct (strip is_space (p_plain q)) as [|c s] eqn:Es.
    - destruct Hp as [Hp|Hp].
      + subst q. exfalso. apply Hnb. exact Es.
      + eapply IH; eauto.
    - assert (Hnbq : nonblank (p_plain q)) by (unfold nonblank; rewrite Es; discriminate).
      specialize (Hq Hnbq).
      unfold py_last in Ea.
      destruct (rev (a_map acc ++ p_map q)) as [|lst r] eqn:Er; [discriminate|].
      simpl in Ea.
      set (acc' := {| a_plain := a_plain acc ++ p_plain q ++ [c_nl; c_nl];
                      a_map := (a_map acc ++ p_map q) ++ [lst; lst];
                      a_matches := a_matches acc ++
                        map (shift_match (zlen (a_plain acc))) (p_matches q) |}) in *.
      assert (Hacc' : acc_ok acc').
      { unfold acc_ok in *. simpl. rewrite !app_length. simpl. lia. }
      destruct Hp as [Hp|Hp].
      + subst q.
        destruct (assemble_parts_ok ps acc' Hps Hacc')
          as (a' & Ea' & _ & (x & y & w & Hx & Hy & Hw)).
        rewrite Ea in Ea'. inversion Ea'; subst a'.
        exists (length (a_plain acc)). split.
        * rewrite Hw. simpl. apply in_or_app. left. apply in_or_app. right.
          apply in_map. exact Hm.
        * intros k Hk. rewrite Hx, Hy. simpl. split.
          -- rewrite <- app_assoc. rewrite nth_error_app2 by lia.
             replace (length (a_plain acc) + k - length (a_plain acc))%nat with k by lia.
             rewrite <- app_assoc. rewrite nth_error_app1 by lia. reflexivity.
          -- rewrite <- !app_assoc. rewrite nth_error_app2 by (unfold acc_ok in Hacc; lia).
             replace (length (a_plain acc) + k - length (a_map acc))%nat with k
               by (unfold acc_ok in Hacc; lia).
             rewrite nth_error_app1 by lia. reflexivity.
      + eapply IH; eauto.
  Qed.

  (* ---- range check and sort ---- *)
  Lemma sort_key_no_exc cm m : no_exc (sort_key cm m).
  Proof.
    unfold sort_key.
    destruct ((pm_offset m <? 0) || (zlen cm <=? pm_offset m)) eqn:E; [exact I|].
    apply orb_false_iff in E. destruct E as [E1 E2].
    apply Z.ltb_ge in E1. apply Z.leb_gt in E2.
    destruct (py_index_ok cm (pm_offset m)) as (x & Ex & _); [lia|].
    rewrite Ex. exact I.
  Qed.

  Lemma keys_no_exc cm ms : no_exc (keys cm ms).
  Proof.
    induction ms as [|m ms IH]; simpl; [exact I|].
    apply no_exc_bind; [apply sort_key_no_exc|]. intros k _.
    apply no_exc_bind; [exact IH|]. intros r _. exact I.
  Qed.

  Lemma keys_ok cm ms ks :
    keys cm ms = Ok ks ->
    map snd ks = ms /\
    Forall (fun km => 0 <= pm_offset (snd km) < zlen cm /\
              exists c, nth_error cm (Z.to_nat (pm_offset (snd km))) = Some c /\
                        fst km = Z.abs c) ks.
  Proof.
    revert ks; induction ms as [|m ms IH]; intros ks H; simpl in H.
    - inversion H; subst. split; constructor.
    - destruct (sort_key cm m) as [k| | |] eqn:Ek; try discriminate. simpl in H.
      destruct (keys cm ms) as [r| | |] eqn:Er; try discriminate. simpl in H.
      inversion H; subst. destruct (IH r eq_refl) as [I1 I2].
      split; [simpl; f_equal; exact I1|]. constructor; [|exact I2]. simpl.
      unfold sort_key in Ek.
      destruct ((pm_offset m <? 0) || (zlen cm <=? pm_offset m)) eqn:E; [discriminate|].
      apply orb_false_iff in E. destruct E as [E1 E2].
      apply Z.ltb_ge in E1. apply Z.leb_gt in E2. split; [lia|].
      destruct (py_index_ok cm (pm_offset m)) as (x & Ex & Nx); [lia|].
      rewrite Ex in Ek. simpl in Ek. inversion Ek; subst.
      exists x. split; [exact Nx | reflexivity].
  Qed.

  (* the assembled matches are a permutation of the shifted matches of the
     parts, ordered by the (absolute) source position their offset maps to,
     every offset inside the assembled map *)
  Theorem run_assemble_spec ps a :
    run_assemble is_space ps = Ok a ->
    exists a0 ks,
      assemble_parts is_space ps {| a_plain := []; a_map := []; a_matches := [] |} = Ok a0 /\
      keys (a_map a0) (a_matches a0) = Ok ks /\
      a_plain a = a_plain a0 /\ a_map a = a_map a0 /\
      a_matches a = map snd (sort_stable ks) /\
      Permutation (a_matches a0) (a_matches a) /\
      Sorted.StronglySorted key_le (sort_stable ks).
  Proof.
    unfold run_assemble. intros H.
    destruct (assemble_parts is_space ps _) as [a0| | |] eqn:Ea; try discriminate.
    simpl in H. destruct (keys (a_map a0) (a_matches a0)) as [ks| | |] eqn:Ek;
      try discriminate. simpl in H. inversion H; subst. simpl.
    exists a0, ks. repeat split; auto.
    - destruct (keys_ok _ _ _ Ek) as [Hm _]. rewrite <- Hm.
      apply Permutation_map. apply sort_stable_perm.
    - apply sort_stable_sorted.
  Qed.

  Theorem run_assemble_no_exc ps :
    Forall part_ok ps -> no_exc (run_assemble is_space ps).
  Proof.
    intros Hok. unfold run_assemble.
    destruct (assemble_parts_ok ps {| a_plain := []; a_map := []; a_matches := [] |}
                Hok eq_refl) as (a & Ea & _).
    rewrite Ea. simpl. apply no_exc_bind; [apply keys_no_exc|]. intros; exact I.
  Qed.
End Asm.

(* ------------------------------------------------------------------ *)
(*  the whole pipeline                                                  *)
(* ------------------------------------------------------------------ *)
Section Pipeline.
  Variable is_space : char -> bool.

  Lemma part_matches_no_exc base p : no_exc (part_matches base p).
  Proof.
    unfold part_matches. destruct (rp_answer p); [|exact I].
    apply no_exc_bind; [apply json_get_no_exc|]. intros ms _.
    apply no_exc_bind; [|intros; exact I].
    apply mapM_no_exc. intros im _. nx.
  Qed.

  Lemma part_matches_ids base p pms js :
    part_matches base p = Ok (pms, js) ->
    Forall (fun m => (base <= pm_id m < base + length js)%nat) pms.
  Proof.
    unfold part_matches. destruct (rp_answer p) as [dic|]; [|discriminate].
    destruct (json_get dic k_matches TList) as [ms| | |]; try discriminate. simpl.
    match goal with |- context [mapM ?f ?l] => destruct (mapM f l) as [r| | |] eqn:Em end;
      try discriminate. simpl. intros H; inversion H; subst.
    apply Forall_forall. intros m Hm.
    destruct (mapM_in _ _ _ _ Em Hm) as ([i j] & Hin & Hf). simpl in Hf.
    destruct (get_int j k_offset) as [o| | |]; try discriminate. simpl in Hf.
    destruct (get_int j k_length) as [l| | |]; try discriminate. simpl in Hf.
    inversion Hf; subst. simpl.
    apply in_combine_l in Hin. apply in_seq in Hin. lia.
  Qed.

  Lemma collect_no_exc : forall ps base, no_exc (collect is_space ps base).
  Proof.
    induction ps as [|p ps IH]; intros base; simpl; [exact I|].
    destruct (strip is_space (rp_plain p)).
    - apply no_exc_bind; [apply IH|]. intros; exact I.
    - apply no_exc_bind; [apply part_matches_no_exc|]. intros pm _.
      apply no_exc_bind; [apply IH|]. intros; exact I.
  Qed.

  Definition ids_below (n : nat) (p : part) : Prop :=
    Forall (fun m => (pm_id m < n)%nat) (p_matches p).

  Lemma collect_spec : forall ps base parts js,
    collect is_space ps base = Ok (parts, js) ->
    map p_plain parts = map rp_plain ps /\ map p_map parts = map rp_map ps /\
    Forall (ids_below (base + length js)) parts.
  Proof.
    induction ps as [|p ps IH]; intros base parts js H; simpl in H.
    - inversion H; subst. repeat split; constructor.
    - destruct (strip is_space (rp_plain p)) as [|c s].
      + destruct (collect is_space ps base) as [[ps' js']| | |] eqn:Ec; try discriminate.
        simpl in H. inversion H; subst.
        destruct (IH base ps' js Ec) as (A & B & C).
        repeat split; simpl; [f_equal; exact A | f_equal; exact B|].
        constructor; [constructor | exact C].
      + destruct (part_matches base p) as [[pms js1]| | |] eqn:Ep; try discriminate.
        simpl in H.
        destruct (collect is_space ps (base + length js1)) as [[ps' js']| | |] eqn:Ec;
          try discriminate. simpl in H. inversion H; subst.
        destruct (IH _ ps' js' Ec) as (A & B & C).
        repeat split; simpl; [f_equal; exact A | f_equal; exact B|].
        constructor.
        * unfold ids_below. simpl. apply part_matches_ids in Ep.
          eapply Forall_impl; [|exact Ep]. intros m Hm. simpl in Hm.
          rewrite app_length. lia.
        * eapply Forall_impl; [|exact C]. intros q Hq. unfold ids_below in *.
          eapply Forall_impl; [|exact Hq]. intros m Hm. simpl in Hm.
          rewrite app_length. lia.
  Qed.

  (* ids and map entries survive the assembly *)
  Lemma assemble_parts_ids n : forall ps acc a,
    assemble_parts is_space ps acc = Ok a ->
    Forall (ids_below n) ps -> Forall (fun m => (pm_id m < n)%nat) (a_matches acc) ->
    Forall (fun m => (pm_id m < n)%nat) (a_matches a).
  Proof.
    induction ps as [|p ps IH]; intros acc a H Hps Hacc; simpl in H.
    - inversion H; subst. exact Hacc.
    - inversion Hps as [|? ? Hp Hps']; subst.
      destruct (strip is_space (p_plain p)); [eapply IH; eauto|].
      destruct (py_last (a_map acc ++ p_map p)) as [lst| | |]; try discriminate.
      simpl in H. eapply IH; [exact H | exact Hps'|]. simpl.
      apply Forall_app. split; [exact Hacc|].
      apply Forall_forall. intros m Hm. apply in_map_iff in Hm.
      destruct Hm as (m0 & Em & Hm0). subst m. simpl.
      unfold ids_below in Hp. rewrite Forall_forall in Hp. apply Hp. exact Hm0.
  Qed.

  Lemma assemble_parts_map_entries (P : Z -> Prop) : forall ps acc a,
    assemble_parts is_space ps acc = Ok a ->
    Forall (fun p => Forall P (p_map p)) ps -> Forall P (a_map acc) ->
    Forall P (a_map a).
  Proof.
    induction ps as [|p ps IH]; intros acc a H Hps Hacc; simpl in H.
    - inversion H; subst. exact Hacc.
    - inversion Hps as [|? ? Hp Hps']; subst.
      destruct (strip is_space (p_plain p)); [eapply IH; eauto|].
      unfold py_last in H.
      destruct (rev (a_map acc ++ p_map p)) as [|lst r] eqn:Er; [discriminate|].
      simpl in H. eapply IH; [exact H | exact Hps'|]. simpl.
      assert (Hall : Forall P (a_map acc ++ p_map p))
        by (apply Forall_app; split; assumption).
      assert (Hlst : P lst).
      { rewrite Forall_forall in Hall. apply Hall. apply in_rev. rewrite Er. left. reflexivity. }
      apply Forall_app. split; [exact Hall|]. repeat constructor; exact Hlst.
  Qed.

  Definition rpart_ok (p : rpart) : Prop :=
    nonblank is_space (rp_plain p) -> length (rp_plain p) = length (rp_map p).

  Lemma collect_parts_ok ps base parts js :
    collect is_space ps base = Ok (parts, js) ->
    Forall rpart_ok ps -> Forall (part_ok is_space) parts.
  Proof.
    intros H Hok. destruct (collect_spec _ _ _ _ H) as (A & B & _).
    clear H. revert parts A B. induction Hok as [|p ps Hp Hps IH]; intros parts A B.
    - destruct parts; [constructor | discriminate].
    - destruct parts as [|q parts]; [discriminate|]. simpl in A, B.
      injection A as A1 A2. injection B as B1 B2.
      constructor; [|apply IH; assumption].
      unfold part_ok, rpart_ok in *. rewrite A1, B1. exact Hp.
  Qed.

  (* C15: whatever the decoded answers are, the pipeline ends with a report
     or with the shell's own fatal exit; no Python exception *)
  Theorem run_report_no_exc md link tex ps :
    Forall rpart_ok ps -> no_exc (run_report is_space md link tex ps).
  Proof.
    intros Hok. unfold run_report.
    apply no_exc_bind; [apply collect_no_exc|]. intros [parts js] Ec.
    pose proof (collect_parts_ok _ _ _ _ Ec Hok) as Hparts.
    destruct (collect_spec _ _ _ _ Ec) as (_ & _ & Hids). simpl in Hids.
    apply no_exc_bind; [apply run_assemble_no_exc; exact Hparts|]. intros a Ea.
    simpl fst in *. simpl snd in *.
    destruct (run_assemble_spec _ _ _ Ea) as (a0 & ks & Ea0 & Ek & _ & Hmap & Hms & Hperm & _).
    apply mapM_no_exc. intros m Hm.
    assert (Hid : (pm_id m < length js)%nat).
    { pose proof (assemble_parts_ids (length js) _ _ _ Ea0 Hids (Forall_nil _)) as F.
      rewrite Forall_forall in F. apply F.
      eapply Permutation_in; [apply Permutation_sym; exact Hperm | exact Hm]. }
    assert (Hne : a_map a <> []).
    { destruct (keys_ok _ _ _ Ek) as [Hsnd Hk]. rewrite Hmap.
      assert (Hin0 : In m (a_matches a0))
        by (eapply Permutation_in; [apply Permutation_sym; exact Hperm | exact Hm]).
      rewrite <- Hsnd in Hin0. apply in_map_iff in Hin0.
      destruct Hin0 as (km & Ekm & Hkm). rewrite Forall_forall in Hk.
      destruct (Hk km Hkm) as [Hr _]. subst m. intros C. rewrite C in Hr.
      unfold zlen in Hr. simpl in Hr. lia. }
    unfold report_one.
    destruct (nth_error js (pm_id m)) as [j|] eqn:Ej.
    2:{ apply nth_error_None in Ej. lia. }
    destruct (map_match_position_total (pm_offset m) (pm_length m) tex (a_map a) Hne)
      as (off & len & Emp).
    destruct md.
    5:{ destruct (html_range_ok (a_map a) m); [|exact I].
        apply no_exc_bind; [apply check_fields_no_exc|]. intros; exact I. }
    all: rewrite Emp; cbn [rbind]; cbv beta iota;
      (apply no_exc_bind; [apply check_fields_no_exc|]); intros u _.
    - destruct (text_loc tex off). exact I.
    - destruct (json_loc tex off len) as [[[? ?] ?] ?]. exact I.
    - destruct (xml_loc tex off len false) as [[[? ?] ?] ?]. exact I.
    - destruct (xml_loc tex off len true) as [[[? ?] ?] ?]. exact I.
    - destruct (json_loc tex off len) as [[[? ?] ?] ?]. exact I.
  Qed.

  Lemma report_one_location md link tex cm js m l :
    md <> MHtml -> report_one md link tex cm js m = Ok l ->
    exists off len,
      map_match_position (pm_offset m) (pm_length m) tex cm = Ok (off, len) /\
      l_offset l = off /\ l_length l = len.
  Proof.
    intros Hmd. unfold report_one.
    destruct (nth_error js (pm_id m)) as [j|]; [|discriminate].
    destruct md; try contradiction;
      (destruct (map_match_position (pm_offset m) (pm_length m) tex cm)
         as [[off len]| | |]; try discriminate; cbn [rbind]; cbv beta iota;
       destruct (check_fields _ link j) as [u| | |]; try discriminate; cbn [rbind]).
    - destruct (text_loc tex off). intros H; inversion H; subst. eauto.
    - destruct (json_loc tex off len) as [[[? ?] ?] ?]. intros H; inversion H; subst. eauto.
    - destruct (xml_loc tex off len false) as [[[? ?] ?] ?]. intros H; inversion H; subst. eauto.
    - destruct (xml_loc tex off len true) as [[[? ?] ?] ?]. intros H; inversion H; subst. eauto.
    - destruct (json_loc tex off len) as [[[? ?] ?] ?]. intros H; inversion H; subst. eauto.
  Qed.

  (* C14/C15: every reported location lies inside the LaTeX text, provided the
     position maps hold source positions (1-based, C01) *)
  Definition map_in_file (tex : str) (z : Z) : Prop := 1 <= Z.abs z <= zlen tex.

  Theorem run_report_locations md link tex ps locs :
    md <> MHtml ->
    Forall (fun p => Forall (map_in_file tex) (rp_map p)) ps ->
    run_report is_space md link tex ps = Ok locs ->
    Forall (fun l => 0 <= l_offset l < zlen tex /\
                     0 <= l_offset l + l_length l - 1 < zlen tex) locs.
  Proof.
    intros Hmd Hmaps H. unfold run_report in H.
    destruct (collect is_space ps 0) as [[parts js]| | |] eqn:Ec; try discriminate.
    simpl in H.
    destruct (run_assemble is_space parts) as [a| | |] eqn:Ea; try discriminate.
    simpl in H.
    destruct (run_assemble_spec _ _ _ Ea) as (a0 & ks & Ea0 & _ & _ & Hmap & _).
    destruct (collect_spec _ _ _ _ Ec) as (_ & Hpm & _).
    assert (Hentries : Forall (map_in_file tex) (a_map a)).
    { rewrite Hmap. eapply assemble_parts_map_entries; [exact Ea0| |constructor].
      clear - Hpm Hmaps. revert parts Hpm.
      induction Hmaps as [|p ps Hp Hps IH]; intros parts Hpm.
      - destruct parts; [constructor|discriminate].
      - destruct parts as [|q parts]; [discriminate|]. simpl in Hpm.
        inversion Hpm. constructor; [congruence | apply IH; assumption]. }
    apply Forall_forall. intros l Hl.
    destruct (mapM_in _ _ _ _ H Hl) as (m & _ & Hr).
    destruct (report_one_location _ _ _ _ _ _ _ Hmd Hr) as (off & len & Emp & Eo & El).
    rewrite Eo, El.
    destruct (map_match_position_in_map _ _ _ _ _ _ Emp) as (cb & ce & Hcb & Hce & Eo' & El').
    rewrite Forall_forall in Hentries.
    pose proof (Hentries cb Hcb) as Bb. pose proof (Hentries ce Hce) as Be.
    unfold map_in_file in Bb, Be.
    destruct (correct_mark_macroname_range off (Z.abs ce - Z.abs cb + 1) tex)
      as [Eq|(E1 & E2 & E3)]; rewrite <- El' in *; lia.
  Qed.
End Pipeline.
