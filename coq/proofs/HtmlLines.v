(* C16, the line cells: the regular expression of add_line_numbers cuts the
   report at every '<br>' + line break.  For escaped source text these stand
   exactly where the source has a line break, so the cells are the source
   lines, escaped, in order; a highlight wraps every line of its span on its
   own (the tags never cross a line); and add_line_numbers gives the i-th cell
   the i-th number of its list, failing exactly when the list is too short. *)
From Coq Require Import Lia String Ascii.
From YV Require Import PyBase PyBaseProofs ShellMap Html HtmlProofs.
Local Open Scope list_scope.

(* a report is a sequence of line-break marks and chunks of other text *)
(* tag = true: a chunk of the report's own markup (span / link tags) *)
Inductive atom := ABr | AChunk (tag : bool) (c : str).
Definition render_atoms (l : list atom) : str :=
  flat_map (fun a => match a with ABr => br_nl | AChunk _ c => c end) l.

(* a chunk in which no line-break mark can start: no '<' at its end, and
   every '<' is followed by something else than 'b' *)
Fixpoint nob (c : str) : bool :=
  match c with
  | [] => true
  | x :: c' => (if N.eqb x 60
                then match c' with y :: _ => negb (N.eqb y 98) | [] => false end
                else true) && nob c'
  end.

Lemma nob_app a b : nob a = true -> nob b = true -> nob (a ++ b) = true.
Proof.
  induction a as [|x a IH]; intros Ha Hb; [exact Hb|].
  cbn [nob app] in *. apply andb_true_iff in Ha. destruct Ha as [H1 H2].
  apply andb_true_iff. split; [|apply IH; assumption].
  destruct (N.eqb x 60); [|reflexivity].
  destruct a as [|y a']; [discriminate | exact H1].
Qed.

Lemma chunk_step : forall c r cur, nob c = true ->
  split_br_aux (c ++ r) cur 0 = split_br_aux r (rev c ++ cur) 0.
Proof.
  induction c as [|x c IH]; intros r cur H; [reflexivity|].
  cbn [nob] in H. apply andb_true_iff in H. destruct H as [H1 H2].
  cbn [app split_br_aux].
  assert (E : starts_with br_nl (x :: c ++ r) = false).
  { change br_nl with (60%N :: 98%N :: 114%N :: 62%N :: [c_nl]). cbn [starts_with].
    destruct (N.eqb x 60) eqn:Ex.
    - apply N.eqb_eq in Ex. subst x. destruct c as [|y c']; [discriminate|].
      cbn [app starts_with]. apply negb_true_iff in H1. rewrite N.eqb_sym in H1.
      rewrite H1. rewrite Bool.andb_false_r. reflexivity.
    - rewrite N.eqb_sym in Ex. rewrite Ex. reflexivity. }
  rewrite E. rewrite (IH r (x :: cur) H2). cbn [rev]. rewrite <- app_assoc. reflexivity.
Qed.

Lemma br_step r cur : split_br_aux (br_nl ++ r) cur 0 = (rev cur, true) :: split_br_aux r [] 0.
Proof.
  change br_nl with (60%N :: 98%N :: 114%N :: 62%N :: [c_nl]).
  cbn [app split_br_aux].
  assert (E : starts_with (60%N :: 98%N :: 114%N :: 62%N :: [c_nl])
                          (60%N :: 98%N :: 114%N :: 62%N :: c_nl :: r) = true) by reflexivity.
  change br_nl with (60%N :: 98%N :: 114%N :: 62%N :: [c_nl]). rewrite E. reflexivity.
Qed.

(* the cells: the chunks between two marks, glued *)
Fixpoint rows (acc : str) (l : list atom) : list (str * bool) :=
  match l with
  | [] => match acc with [] => [] | _ => [(acc, false)] end
  | ABr :: l' => (acc, true) :: rows [] l'
  | AChunk _ c :: l' => rows (acc ++ c) l'
  end.

Definition chunk_ok (a : atom) : Prop :=
  match a with ABr => True | AChunk _ c => nob c = true end.

Theorem split_atoms : forall l, Forall chunk_ok l ->
  forall cur, split_br_aux (render_atoms l) cur 0 = rows (rev cur) l.
Proof.
  induction 1 as [|a l Ha Hl IH]; intros cur.
  - cbn [render_atoms flat_map split_br_aux rows]. destruct cur as [|x cur]; [reflexivity|].
    cbn [rev]. destruct (rev cur ++ [x]) as [|y r] eqn:E; [|reflexivity].
    exfalso. apply (app_cons_not_nil (rev cur) [] x). symmetry. exact E.
  - unfold render_atoms. cbn [flat_map]. fold (render_atoms l). destruct a as [|tg c].
    + rewrite br_step, (IH []). reflexivity.
    + cbn [chunk_ok] in Ha. rewrite (chunk_step c _ cur Ha), IH.
      cbn [rows]. rewrite rev_app_distr, rev_involutive. reflexivity.
Qed.

(* ---- escaped source text ---- *)
Definition atoms_of (s : str) : list atom :=
  map (fun c => if N.eqb c 10 then ABr else AChunk false (protect_char c)) s.

Lemma protect_char_nl : protect_char 10 = br_nl.
Proof. reflexivity. Qed.

Lemma render_atoms_of s : render_atoms (atoms_of s) = protect_html s.
Proof.
  rewrite protect_html_spec. unfold render_atoms, atoms_of.
  induction s as [|c s IH]; [reflexivity|]. cbn [map flat_map]. rewrite IH. f_equal.
  destruct (N.eqb c 10) eqn:E; [|reflexivity].
  apply N.eqb_eq in E. subst c. reflexivity.
Qed.

Lemma protect_char_nob c : N.eqb c 10 = false -> nob (protect_char c) = true.
Proof.
  intros E7. unfold protect_char.
  destruct (N.eqb c 38) eqn:E1; [reflexivity|].
  destruct (N.eqb c 34) eqn:E2; [reflexivity|].
  destruct (N.eqb c 60) eqn:E3; [reflexivity|].
  destruct (N.eqb c 62) eqn:E4; [reflexivity|].
  destruct (N.eqb c 9) eqn:E5; [reflexivity|].
  destruct (N.eqb c 32) eqn:E6; [reflexivity|].
  rewrite E7. cbn [nob]. rewrite E3. reflexivity.
Qed.

Lemma protect_char_nonempty c : protect_char c <> [].
Proof.
  unfold protect_char.
  destruct (N.eqb c 38); [discriminate|]. destruct (N.eqb c 34); [discriminate|].
  destruct (N.eqb c 60); [discriminate|]. destruct (N.eqb c 62); [discriminate|].
  destruct (N.eqb c 9); [discriminate|]. destruct (N.eqb c 32); [discriminate|].
  destruct (N.eqb c 10); discriminate.
Qed.

Lemma atoms_of_ok s : Forall chunk_ok (atoms_of s).
Proof.
  unfold atoms_of. induction s as [|c s IH]; [constructor|]. cbn [map]. constructor; [|exact IH].
  destruct (N.eqb c 10) eqn:E; [exact I | apply protect_char_nob; exact E].
Qed.

(* the source lines: (line, does it end with a line break) *)
Fixpoint split_nl (acc : str) (s : str) : list (str * bool) :=
  match s with
  | [] => match acc with [] => [] | _ => [(acc, false)] end
  | c :: s' => if N.eqb c 10 then (acc, true) :: split_nl [] s' else split_nl (acc ++ [c]) s'
  end.

Definition esc_line (l : str * bool) : str * bool := (protect_html (fst l), snd l).

Lemma rows_lines : forall s acc,
  rows (protect_html acc) (atoms_of s) = map esc_line (split_nl acc s).
Proof.
  induction s as [|c s IH]; intros acc.
  - cbn [atoms_of map rows split_nl]. destruct acc as [|x acc]; [reflexivity|].
    rewrite protect_html_spec. cbn [flat_map].
    destruct (protect_char x ++ flat_map protect_char acc) as [|y r] eqn:E.
    + exfalso. apply app_eq_nil in E. destruct E as [E _]. exact (protect_char_nonempty x E).
    + unfold esc_line. cbn [map fst snd]. rewrite protect_html_spec. cbn [flat_map]. rewrite E. reflexivity.
  - unfold atoms_of. cbn [map split_nl]. fold (atoms_of s). destruct (N.eqb c 10) eqn:E.
    + unfold esc_line at 1. cbn [rows map fst snd]. f_equal. change (@nil N) with (protect_html []) at 1. apply IH.
    + cbn [rows]. rewrite <- IH. f_equal. rewrite protect_html_app. f_equal.
      rewrite protect_html_spec. cbn [flat_map]. rewrite app_nil_r. reflexivity.
Qed.

(* the cells of a stretch of escaped source text are its lines *)
Theorem split_protect s : split_br (protect_html s) = map esc_line (split_nl [] s).
Proof.
  unfold split_br. rewrite <- render_atoms_of. rewrite (split_atoms _ (atoms_of_ok s) []).
  cbn [rev]. change (@nil N) with (protect_html []) at 1. apply rows_lines.
Qed.

(* nothing is lost and nothing invented: the lines, joined, are the text *)
Lemma split_nl_join : forall s acc,
  flat_map (fun l : str * bool => fst l ++ (if snd l then [10%N] else [])) (split_nl acc s) = acc ++ s.
Proof.
  induction s as [|c s IH]; intros acc; cbn [split_nl].
  - destruct acc; cbn; rewrite ?app_nil_r; reflexivity.
  - destruct (N.eqb c 10) eqn:E.
    + apply N.eqb_eq in E. subst c. cbn [flat_map fst snd]. rewrite IH. rewrite <- app_assoc. reflexivity.
    + rewrite IH. rewrite <- app_assoc. reflexivity.
Qed.
Lemma split_nl_no_break : forall s acc,
  Forall (fun c => c <> 10%N) acc ->
  Forall (fun l : str * bool => Forall (fun c => c <> 10%N) (fst l)) (split_nl acc s).
Proof.
  induction s as [|c s IH]; intros acc Ha; cbn [split_nl].
  - destruct acc; constructor; [exact Ha | constructor].
  - destruct (N.eqb c 10) eqn:E.
    + constructor; [exact Ha | apply IH; constructor].
    + apply IH. apply Forall_app. split; [exact Ha|]. constructor; [|constructor].
      intros C. subst c. discriminate.
Qed.

(* a highlight wraps every line of its span on its own *)
Theorem highlight_per_line st stu m s lin unsure :
  exists pre post,
    generate_highlight st stu m s lin unsure =
      flat_map (fun l : str * bool =>
                  pre ++ protect_html (fst l) ++ post ++ (if snd l then br_nl else []))
               (split_nl [] s).
Proof.
  destruct (highlight_keeps_text st stu m s lin unsure) as (pre & post & E & _).
  exists pre, post. rewrite E, split_protect. unfold join_br. rewrite flat_map_concat_map, map_map.
  rewrite <- flat_map_concat_map. apply flat_map_ext'. intros l. cbn [esc_line fst snd].
  rewrite <- !app_assoc. reflexivity.
Qed.

(* ---- add_line_numbers ---- *)
Section Rows.
  Variable number_style : str.
  Definition row (l : str * bool) (n : Z) : str :=
    s2l "<tr>" ++ [c_nl] ++ s2l "<td style=""" ++ number_style
    ++ s2l """ align=""right"" valign=""top"">"
    ++ (if (n <? 0)%Z then [] else dec (Z.to_N (n + 1)))
    ++ s2l "&nbsp;&nbsp;</td>" ++ [c_nl] ++ s2l "<td>" ++ fst l
    ++ s2l "</td>" ++ [c_nl] ++ s2l "</tr>" ++ [c_nl].

  Theorem number_rows_spec : forall ls nums,
    number_rows number_style ls nums =
    if Nat.leb (length ls) (length nums)
    then Ok (flat_map (fun p => row (fst p) (snd p)) (combine ls nums))
    else Exc IndexError.
  Proof.
    induction ls as [|l ls IH]; intros nums; cbn [number_rows length].
    - reflexivity.
    - destruct nums as [|n nums]; [reflexivity|]. cbn [length Nat.leb]. rewrite IH.
      destruct (Nat.leb (length ls) (length nums)); [|reflexivity].
      cbn [rbind combine flat_map fst snd]. unfold row. rewrite <- !app_assoc. reflexivity.
  Qed.
End Rows.
