(* C16, the line numbers of one region.  The table of line starts
   (tex2txt.get_line_starts) lists the offset behind every line break; the
   stretch between its entries b and e therefore holds exactly e-b line
   breaks.  The string written for the region is cut into e-b cells for the
   lines b..e-1 and one closing cell; the list of numbers written for it is
   b..e-1 and one -1: add_line_numbers pairs cell i with number b+i and does
   not run out of numbers. *)
From Coq Require Import Lia String Ascii.
From YV Require Import PyBase PyBaseProofs ShellMap Html HtmlProofs HtmlRegion HtmlLines HtmlCells.
Local Open Scope list_scope.

Lemma count_char_app c a b : count_char c (a ++ b) = (count_char c a + count_char c b)%nat.
Proof. unfold count_char. rewrite filter_app, app_length. reflexivity. Qed.

(* entry k of the table behind offset i: a line break stands at j, k line
   breaks stand in front of it *)
Lemma starts_aux_spec : forall s i k p,
  nth_error (line_starts_aux s i) k = Some p ->
  exists j, p = (i + S j)%nat /\ nth_error s j = Some c_nl /\
            count_char c_nl (firstn j s) = k.
Proof.
  induction s as [|c s IH]; intros i k p H; cbn [line_starts_aux] in H.
  - destruct k; discriminate.
  - destruct (N.eqb c c_nl) eqn:E.
    + apply N.eqb_eq in E. subst c. destruct k as [|k]; cbn [nth_error] in H.
      * inversion H; subst. exists 0%nat. repeat split; lia.
      * destruct (IH (S i) k p H) as (j & Ep & Ej & Ec). exists (S j).
        split; [lia|]. split; [exact Ej|]. cbn [firstn]. unfold count_char in *.
        cbn [filter]. rewrite N.eqb_refl. cbn [length]. rewrite Ec. reflexivity.
    + destruct (IH (S i) k p H) as (j & Ep & Ej & Ec). exists (S j).
      split; [lia|]. split; [exact Ej|]. cbn [firstn]. unfold count_char in *.
      cbn [filter]. rewrite N.eqb_sym, E. exact Ec.
Qed.

Lemma firstn_S_nth {A} (l : list A) j x : nth_error l j = Some x -> firstn (S j) l = firstn j l ++ [x].
Proof.
  revert j. induction l as [|y l IH]; intros [|j] H; cbn in H; try discriminate.
  - inversion H; reflexivity.
  - cbn [firstn app]. f_equal. apply IH. exact H.
Qed.

Theorem starts_count tex k p :
  nth_error (line_starts tex) k = Some p ->
  (p <= length tex)%nat /\ count_char c_nl (firstn p tex) = k.
Proof.
  unfold line_starts. destruct k as [|k]; cbn [nth_error]; intros H.
  - inversion H; subst. split; [lia | reflexivity].
  - destruct (starts_aux_spec tex 0 k p H) as (j & Ep & Ej & Ec). cbn [Nat.add] in Ep. subst p.
    assert (Hj : (j < length tex)%nat) by (apply nth_error_Some; rewrite Ej; discriminate).
    split; [lia|]. rewrite (firstn_S_nth tex j c_nl Ej), count_char_app, Ec.
    unfold count_char. cbn [filter]. rewrite N.eqb_refl. cbn [length]. lia.
Qed.

Lemma firstn_plus {A} : forall p k (l : list A),
  firstn (p + k) l = firstn p l ++ firstn k (skipn p l).
Proof.
  induction p as [|p IH]; intros k l; [reflexivity|].
  destruct l as [|x l]; [cbn; rewrite firstn_nil; reflexivity|].
  cbn [Nat.add firstn skipn app]. f_equal. apply IH.
Qed.

Lemma firstn_split_slice {A} (l : list A) p q : (p <= q)%nat ->
  firstn q l = firstn p l ++ pyslice l p q.
Proof.
  intros H. unfold pyslice. replace q with (p + (q - p))%nat at 1 by lia.
  apply firstn_plus.
Qed.

Lemma count_firstn_mono c (l : list N) p q : (p <= q)%nat ->
  (count_char c (firstn p l) <= count_char c (firstn q l))%nat.
Proof. intros H. rewrite (firstn_split_slice l p q H), count_char_app. lia. Qed.

(* the stretch between the starts of line b and line e *)
Theorem stretch_breaks tex b e p q :
  (b <= e)%nat ->
  nth_error (line_starts tex) b = Some p -> nth_error (line_starts tex) e = Some q ->
  (p <= q <= length tex)%nat /\ count_char c_nl (pyslice tex p q) = (e - b)%nat.
Proof.
  intros Hbe Hp Hq. destruct (starts_count tex b p Hp) as [Lp Cp].
  destruct (starts_count tex e q Hq) as [Lq Cq].
  assert (Hpq : (p <= q)%nat).
  { destruct (Nat.le_gt_cases p q) as [L|L]; [exact L|]. exfalso.
    pose proof (count_firstn_mono c_nl tex q p ltac:(lia)) as M. rewrite Cp, Cq in M.
    assert (Ebe : b = e) by lia. rewrite Ebe in Hp. rewrite Hp in Hq. inversion Hq. lia. }
  split; [lia|]. pose proof (firstn_split_slice tex p q Hpq) as E.
  apply (f_equal (count_char c_nl)) in E. rewrite count_char_app, Cp, Cq in E. lia.
Qed.

(* the lines of a text that ends with a line break: one per line break, all
   closed *)
Lemma split_nl_closed : forall t acc,
  Forall (fun l : str * bool => snd l = true) (split_nl acc (t ++ [c_nl])) /\
  length (split_nl acc (t ++ [c_nl])) = S (count_char c_nl t).
Proof.
  induction t as [|c t IH]; intros acc; cbn [app split_nl].
  - change (N.eqb c_nl 10) with true. cbn. split; [repeat constructor | reflexivity].
  - unfold count_char. cbn [filter]. rewrite (N.eqb_sym c_nl c).
    change c_nl with 10%N. destruct (N.eqb c 10) eqn:E.
    + destruct (IH []) as [I1 I2]. split; [constructor; [reflexivity | exact I1]|].
      cbn [length]. change 10%N with c_nl. rewrite I2. reflexivity.
    + change 10%N with c_nl. apply IH.
Qed.

Lemma zslice_nat {A} (l : list A) p q : (p <= length l)%nat -> (q <= length l)%nat ->
  zslice l (Z.of_nat p) (Z.of_nat q) = pyslice l p q.
Proof.
  intros Hp Hq. unfold zslice, norm_idx.
  assert (E1 : (Z.of_nat p <? 0)%Z = false) by (apply Z.ltb_ge; lia).
  assert (E2 : (Z.of_nat q <? 0)%Z = false) by (apply Z.ltb_ge; lia).
  rewrite E1, E2. f_equal; lia.
Qed.

Lemma zrange_length a b : (a <= b)%Z -> length (zrange a b) = Z.to_nat (b - a).
Proof. intros H. unfold zrange. rewrite map_length, seq_length. reflexivity. Qed.

(* the tiling ends where the last highlight ends, or where it began *)
Lemma region_last_le : forall hs st en,
  (st <= en)%Z -> Forall (fun h => (h_end h <= en)%Z) hs -> (region_last hs st <= en)%Z.
Proof.
  induction hs as [|h hs IH]; intros st en Hs Hf; cbn [region_last]; [exact Hs|].
  inversion Hf as [|? ? Hh Hr]; subst. destruct (h_beg h <? st)%Z; apply IH; assumption.
Qed.

Section Numbers.
  Variable style style_unsure number_style : str.
  Hypothesis Hstyle : no_lt style = true.
  Hypothesis Hstyle_u : no_lt style_unsure = true.
  Notation render := (render style style_unsure).

  (* one region over the lines b..e-1: the cells and their numbers *)
  Theorem region_rows_numbered tex hs b e p q :
    (b <= e)%nat ->
    nth_error (line_starts tex) b = Some p -> nth_error (line_starts tex) e = Some q ->
    (region_last hs (Z.of_nat p) <= Z.of_nat q)%Z ->
    Forall (fun h => (h_beg h <= h_end h)%Z) hs ->
    Forall (fun h => url_ok (h_m h)) hs ->
    let html := flat_map (render tex) (tiles hs (Z.of_nat p))
                ++ protect_html (zslice tex (region_last hs (Z.of_nat p)) (Z.of_nat q)) ++ br_nl in
    let nums := zrange (Z.of_nat b) (Z.of_nat e) ++ [(-1)%Z] in
    exists cs : list (list atom),
      split_br html = map (fun r => (render_atoms r, true)) cs /\
      length cs = length nums /\
      map (fun r => (render_atoms (untag r), true)) cs
        = map esc_line (split_nl [] (pyslice tex p q ++ [10%N])) /\
      number_rows number_style (split_br html) nums =
        Ok (flat_map (fun x => row number_style (fst x) (snd x))
                     (combine (map (fun r => (render_atoms r, true)) cs) nums)).
  Proof.
    intros Hbe Hp Hq Hl Hf Hu html nums.
    destruct (stretch_breaks tex b e p q Hbe Hp Hq) as [[L1 L2] Hc].
    destruct (region_cells style style_unsure Hstyle Hstyle_u tex hs (Z.of_nat p) (Z.of_nat q)
                ltac:(lia) Hl Hf Hu) as (cs & E1 & E2).
    rewrite (zslice_nat tex p q ltac:(lia) L2) in E2.
    assert (Hlen : length cs = length nums).
    { apply (f_equal (@length _)) in E2. rewrite !map_length in E2. rewrite E2.
      destruct (split_nl_closed (pyslice tex p q) []) as [_ Hn]. change 10%N with c_nl. rewrite Hn, Hc.
      unfold nums. rewrite app_length, zrange_length by lia. cbn [length]. lia. }
    exists cs. split; [exact E1|]. split; [exact Hlen|]. split; [exact E2|].
    fold html in E1. rewrite number_rows_spec, E1, map_length, Hlen, Nat.leb_refl. reflexivity.
  Qed.

  Lemma start_at_nth (starts : list nat) i v :
    (0 <= i)%Z -> start_at starts i = Ok v ->
    exists k, nth_error starts (Z.to_nat i) = Some k /\ v = Z.of_nat k.
  Proof.
    intros Hi H. unfold start_at, py_index in H.
    assert (E : (i <? 0)%Z = false) by (apply Z.ltb_ge; lia). rewrite E in H.
    destruct ((i <? 0)%Z || (zlen starts <=? i)%Z); [discriminate|].
    destruct (nth_error starts (Z.to_nat i)) as [k|]; [|discriminate].
    cbn [rbind] in H. inversion H. exists k. split; reflexivity.
  Qed.

  (* region_out of the model: what generate_html writes for one region, and
     the numbers it lists for it *)
  Theorem region_out_numbered tex reg html ov nums :
    region_out style style_unsure tex (line_starts tex) reg = Ok (html, ov, nums) ->
    (match reg with h0 :: _ => 0 <= h_beglin h0 <= max_endlin reg | [] => False end)%Z ->
    (forall en, start_at (line_starts tex) (max_endlin reg) = Ok en ->
                Forall (fun h => h_end h <= en) reg)%Z ->
    Forall (fun h => (h_beg h <= h_end h)%Z) reg ->
    Forall (fun h => url_ok (h_m h)) reg ->
    exists (cs : list (list atom)) b e p q,
      (match reg with h0 :: _ => Z.of_nat b = h_beglin h0 | [] => False end) /\
      Z.of_nat e = max_endlin reg /\
      nth_error (line_starts tex) b = Some p /\ nth_error (line_starts tex) e = Some q /\
      split_br html = map (fun r => (render_atoms r, true)) cs /\
      nums = zrange (Z.of_nat b) (Z.of_nat e) ++ [(-1)%Z] /\
      length cs = length nums /\
      map (fun r => (render_atoms (untag r), true)) cs
        = map esc_line (split_nl [] (pyslice tex p q ++ [10%N])) /\
      number_rows number_style (split_br html) nums =
        Ok (flat_map (fun x => row number_style (fst x) (snd x))
                     (combine (map (fun r => (render_atoms r, true)) cs) nums)).
  Proof.
    intros H Hb Hl Hf Hu. destruct reg as [|h0 r]; [contradiction|].
    unfold region_out in H.
    destruct (start_at (line_starts tex) (h_beglin h0)) as [st| | |] eqn:Es; cbn [rbind] in H; try discriminate.
    destruct (start_at (line_starts tex) (max_endlin (h0 :: r))) as [en| | |] eqn:Ee; cbn [rbind] in H; try discriminate.
    rewrite (region_body_tiles style style_unsure tex (h0 :: r) st) in H.
    inversion H; subst html ov nums. clear H.
    destruct (start_at_nth (line_starts tex) (h_beglin h0) st ltac:(lia) Es) as (p & Np & Ep).
    destruct (start_at_nth (line_starts tex) (max_endlin (h0 :: r)) en ltac:(lia) Ee) as (q & Nq & Eq). subst st en.
    specialize (Hl (Z.of_nat q) eq_refl).
    set (b := Z.to_nat (h_beglin h0)) in *. set (e := Z.to_nat (max_endlin (h0 :: r))) in *.
    assert (Hbe : (b <= e)%nat) by (unfold b, e; lia).
    destruct (stretch_breaks tex b e p q Hbe Np Nq) as [[Lpq _] _].
    apply (region_last_le (h0 :: r) (Z.of_nat p) (Z.of_nat q) ltac:(lia)) in Hl.
    destruct (region_rows_numbered tex (h0 :: r) b e p q Hbe Np Nq Hl Hf Hu)
      as (cs & C1 & C2 & C3 & C4).
    exists cs, b, e, p, q.
    assert (Zb : Z.of_nat b = h_beglin h0) by (unfold b; lia).
    assert (Ze : Z.of_nat e = max_endlin (h0 :: r)) by (unfold e; lia).
    rewrite Zb, Ze in *.
    repeat split; try assumption.
  Qed.
End Numbers.
