(* C07: termination of the loops that the model runs on fuel, and absence of
   exceptions, for the parts in front of and behind the expander. *)
From Coq Require Import Lia String.
From YV Require Import PyBase PyBaseProofs ShellMap Token Utils Scanner PState Ml
                       MlProofs Replace ReplaceProofs Tex2txt TokOk.
Open Scope Z_scope.

(* ---- the scanner consumes its input: the fuel given by scan is never
   used up, any larger amount gives the same tokens ---- *)
Section ScanTotal.
  Variable P : scan_parms.
  Variable latex : str.

  Lemma scan_aux_fuel : forall f1 f2 s start,
    (length s < f1)%nat -> (length s < f2)%nat ->
    scan_aux P latex f1 s start = scan_aux P latex f2 s start.
  Proof.
    induction f1 as [|k1 IH]; intros f2 s start H1 H2; [lia|].
    destruct f2 as [|k2]; [lia|]. cbn [scan_aux].
    destruct s as [|c s']; [reflexivity|].
    destruct (next_token P latex (c :: s') start) as [[t n] ds].
    assert (Hl : (length (skipn (Nat.max n 1) (c :: s')) < length (c :: s'))%nat).
    { rewrite skipn_length. cbn [length]. lia. }
    cbn [length] in *. rewrite (IH k2); [reflexivity | lia | lia].
  Qed.

  Theorem scan_fuel_enough extra :
    scan_aux P latex (S (length latex) + extra) latex 0 = scan P latex.
  Proof. unfold scan. apply scan_aux_fuel; lia. Qed.
End ScanTotal.

(* ---- the multi-language split: join_sections never runs out of fuel and
   raises nothing, provided every language has a placeholder ---- *)
Section MlTotal.
  Variable is_space : char -> bool.
  Variable check_lang : str -> str.
  Variable thresh : nat.

  (* every language that check_lang can name has a non-empty collection *)
  Definition rot_ok (rot : list (str * list str)) : Prop :=
    forall lang, exists e ph r, find (fun e => str_eqb (fst e) (check_lang lang)) rot = Some e
                                /\ snd e = ph :: r.

  Notation sec_len s := (length (s_txt s) = length (s_pos s)).

  Lemma find_map_rot key (repl : list str) k : repl <> [] -> forall (rot : list (str * list str)) e ph r,
    find (fun e => str_eqb (fst e) k) rot = Some e -> snd e = ph :: r ->
    exists e' ph' r',
      find (fun e => str_eqb (fst e) k)
           (map (fun e => if str_eqb (fst e) key then (fst e, repl) else e) rot) = Some e'
      /\ snd e' = ph' :: r'.
  Proof.
    intros Hr. induction rot as [|a rot IH]; intros e ph r Ef Es; simpl in *; [discriminate|].
    destruct (str_eqb (fst a) k) eqn:Ea.
    - inversion Ef; subst a. destruct (str_eqb (fst e) key); simpl; rewrite Ea.
      + destruct repl as [|x y]; [contradiction|]. eexists _, x, y. split; reflexivity.
      + exists e, ph, r. split; [reflexivity | exact Es].
    - destruct (str_eqb (fst a) key); simpl; rewrite Ea; eapply IH; eassumption.
  Qed.

  Lemma rotate_keeps_ok rot key repl :
    rot_ok rot -> repl <> [] ->
    rot_ok (map (fun e => if str_eqb (fst e) key then (fst e, repl) else e) rot).
  Proof.
    intros H Hr lang. destruct (H lang) as (e & ph & r & Ef & Es).
    eapply find_map_rot; eassumption.
  Qed.

  Lemma find_index_lt' {A} (f : A -> bool) l i : find_index f l = Some i -> (i < length l)%nat.
  Proof.
    revert i; induction l as [|x l IH]; intros i H; simpl in H; [discriminate|].
    destruct (f x); [inversion H; simpl; lia|].
    destruct (find_index f l) as [j|]; simpl in H; [|discriminate].
    inversion H; subst. specialize (IH j eq_refl). simpl. lia.
  Qed.

  Lemma append_placeholder_total rot sec incl :
    rot_ok rot -> sec_len incl -> s_txt incl <> [] ->
    exists sec' rot', append_placeholder is_space check_lang rot sec incl = Ok (sec', rot')
                      /\ rot_ok rot'.
  Proof.
    intros Hrot Hl Hne. unfold append_placeholder.
    destruct (blank is_space (s_txt incl)); [eexists _, _; split; [reflexivity | exact Hrot]|].
    destruct (Hrot (s_lang sec)) as (e & ph & r & Ef & Es). rewrite Ef, Es.
    assert (Hrne : r ++ [ph] <> []) by (destruct r; discriminate).
    destruct (r ++ [ph]) as [|ph' rr] eqn:Erp; [contradiction|].
    assert (Hstart : exists p0, py_nth (s_pos incl)
              (match find_index (fun c => negb (is_space c)) (s_txt incl) with
               | Some i => i | None => 0%nat end) = Ok p0).
    { unfold py_nth.
      assert (forall i, (i < length (s_pos incl))%nat -> exists p0,
                match nth_error (s_pos incl) i with Some x => Ok x | None => Exc IndexError end
                = Ok p0) as Hn.
      { intros i Hi. destruct (nth_error (s_pos incl) i) eqn:E; [eexists; reflexivity|].
        apply nth_error_None in E. lia. }
      apply Hn. destruct (find_index _ (s_txt incl)) as [i|] eqn:Ei.
      - apply find_index_lt' in Ei. lia.
      - destruct (s_txt incl); [contradiction | simpl in Hl; lia]. }
    destruct Hstart as [p0 E0]. rewrite E0. cbn [rbind].
    assert (E1 : exists a b, edge_first is_space incl = Ok (a, b)).
    { unfold edge_first. destruct (s_txt incl) as [|c t] eqn:Et; [contradiction|].
      destruct (is_space c); [|eexists _, _; reflexivity].
      destruct (s_pos incl) as [|q qs]; [simpl in Hl; lia|]. simpl. eexists _, _. reflexivity. }
    destruct E1 as (a1 & b1 & E1). rewrite E1. cbn [rbind].
    assert (E2 : exists a b, edge_last is_space incl = Ok (a, b)).
    { unfold edge_last. destruct (rev (s_txt incl)) as [|c t] eqn:Et; [eexists _, _; reflexivity|].
      destruct (is_space c); [|eexists _, _; reflexivity].
      unfold py_last. destruct (rev (s_pos incl)) as [|q qs] eqn:Eq.
      - apply (f_equal (@length _)) in Eq. rewrite rev_length in Eq.
        destruct (s_txt incl); [contradiction | simpl in *; lia].
      - simpl. eexists _, _. reflexivity. }
    destruct E2 as (a2 & b2 & E2). rewrite E2. cbn [rbind].
    eexists _, _. split; [reflexivity|].
    apply rotate_keeps_ok; [exact Hrot | discriminate].
  Qed.

  Lemma join_sections_total : forall fuel secs rot out,
    (length secs < fuel)%nat -> rot_ok rot ->
    Forall (fun s => sec_len s /\ s_txt s <> []) secs ->
    exists res, join_sections is_space check_lang thresh fuel secs rot out = Ok res.
  Proof.
    induction fuel as [|k IH]; intros secs rot out Hf Hrot Hs; [lia|].
    cbn [join_sections]. destruct secs as [|s0 [|s1 rest]]; try (eexists; reflexivity).
    inversion Hs as [|? ? H0 Hs1]; subst. inversion Hs1 as [|? ? H1 Hr]; subst.
    simpl in Hf.
    destruct (negb (s_brk s1) && negb (s_back s1) && _ && _).
    - destruct (append_placeholder_total rot s0 s1 Hrot (proj1 H1) (proj2 H1))
        as (s0' & rot' & Ea & Hrot').
      rewrite Ea. cbn [rbind].
      assert (H0' : sec_len s0' /\ s_txt s0' <> []).
      { split.
        - eapply (append_placeholder_ok is_space check_lang (fun _ => True) rot s0 s1);
            [split; [apply H0 | apply Forall_forall; intros; exact I]
            | split; [apply H1 | apply Forall_forall; intros; exact I] | exact Ea].
        - (* the text only grows *)
          unfold append_placeholder in Ea.
          destruct (blank is_space (s_txt s1)).
          + inversion Ea; subst. simpl. destruct H0 as [_ Hn]. destruct (s_txt s0); [contradiction|discriminate].
          + destruct (match find _ rot with Some e => snd e | None => [] end) as [|x rr]; [discriminate|].
            destruct (rr ++ [x]) as [|ph' r']; [discriminate|].
            destruct (py_nth _ _); try discriminate. cbn [rbind] in Ea.
            destruct (edge_first _ _) as [[? ?]| | |]; try discriminate. cbn [rbind] in Ea.
            destruct (edge_last _ _) as [[? ?]| | |]; try discriminate. cbn [rbind] in Ea.
            inversion Ea; subst. simpl. destruct H0 as [_ Hn].
            destruct (s_txt s0); [contradiction|discriminate]. }
      destruct rest as [|s2 rest'].
      + apply IH; [simpl; lia | exact Hrot' | constructor; [exact H0' | constructor]].
      + inversion Hr as [|? ? H2 Hr']; subst. apply IH; [simpl in *; lia | exact Hrot'|].
        constructor; [|exact Hr']. simpl. rewrite !app_length.
        destruct H0' as [L0 N0]. destruct H2 as [L2 N2]. split; [lia|].
        destruct (s_txt s0'); [contradiction | discriminate].
    - apply IH; [simpl; lia | exact Hrot | constructor; assumption].
  Qed.

  (* sections are never empty and have as many positions as characters *)
  Lemma flush_nonempty stack back brk cur secs :
    Forall (fun s => sec_len s /\ s_txt s <> []) secs ->
    Forall (fun s => sec_len s /\ s_txt s <> []) (flush stack back brk cur secs).
  Proof.
    intros H. unfold flush. pose proof (get_txt_pos_length (rev cur)) as L.
    destruct (get_txt_pos (rev cur)) as [t p]. simpl in L.
    destruct t as [|c t]; [exact H|].
    apply Forall_app. split; [exact H|]. constructor; [|constructor].
    simpl. split; [exact L | discriminate].
  Qed.

  Lemma sections_nonempty : forall toks stack back brk cur secs,
    Forall (fun s => sec_len s /\ s_txt s <> []) secs ->
    Forall (fun s => sec_len s /\ s_txt s <> []) (sections toks stack back brk cur secs).
  Proof.
    induction toks as [|t r IH]; intros stack back brk cur secs H; simpl.
    - apply flush_nonempty. exact H.
    - destruct (tk t); try (apply IH; exact H).
      destruct (str_eqb lang _); [apply IH; exact H|].
      destruct (back0 && _ && _); [apply IH; exact H|].
      apply IH. apply flush_nonempty. exact H.
  Qed.

  Theorem get_txt_pos_ml_total toks main rot :
    rot_ok rot ->
    exists res, get_txt_pos_ml is_space check_lang thresh toks main rot = Ok res.
  Proof.
    intros Hrot. unfold get_txt_pos_ml.
    destruct (join_sections_total (S (length (sections toks [main] false false [] [])))
                (sections toks [main] false false [] []) rot [] ltac:(lia) Hrot
                (sections_nonempty _ _ _ _ _ _ (Forall_nil _))) as (res & E).
    rewrite E. cbn [rbind]. eexists. reflexivity.
  Qed.
End MlTotal.

(* the collections the parser starts with satisfy rot_ok, for the tables of
   /repo (obligation discharged by computation in props/C07.v) *)
From YV Require Import Parser Exec.
Definition langs_okb (T : tables) : bool :=
  forallb (fun e => match ls_change (snd e) with [] => false | _ => true end) (t_langs T)
  && match assoc (s2l "en") (t_langs T) with Some _ => true | None => false end.

Lemma str_eqb_sym a b : str_eqb a b = str_eqb b a.
Proof.
  destruct (str_eqb a b) eqn:E.
  - apply str_eqb_eq in E. subst. symmetry. apply str_eqb_eq. reflexivity.
  - destruct (str_eqb b a) eqn:E'; [|reflexivity].
    apply str_eqb_eq in E'. subst. rewrite (proj2 (str_eqb_eq a a) eq_refl) in E. discriminate.
Qed.

Lemma assoc_find_change k : forall (l : list (str * lang_settings)) s,
  assoc k l = Some s ->
  exists k', find (fun e => str_eqb (fst e) k) (map (fun e => (fst e, ls_change (snd e))) l)
             = Some (k', ls_change s).
Proof.
  induction l as [|[k' s'] l IH]; intros s H; simpl in *; [discriminate|].
  rewrite (str_eqb_sym k' k). destruct (str_eqb k k').
  - inversion H; subst. exists k'. reflexivity.
  - apply IH. exact H.
Qed.

Theorem rot_ok_init T lang multi simple reader :
  langs_okb T = true ->
  rot_ok (check_parser_lang T) (rot_change (init_state T lang multi simple reader)).
Proof.
  intros H. unfold langs_okb in H. apply andb_true_iff in H. destruct H as [H1 H2].
  cbn [init_state rot_change]. intros lg. unfold check_parser_lang.
  set (k := map ascii_lower (firstn 2 lg)).
  assert (Hne : forall kk s, assoc kk (t_langs T) = Some s ->
                exists e ph r, find (fun e => str_eqb (fst e) kk)
                     (map (fun e => (fst e, ls_change (snd e))) (t_langs T)) = Some e
                     /\ snd e = ph :: r).
  { intros kk s Hs. destruct (assoc_find_change kk _ _ Hs) as [k' Ef].
    assert (In (k', s) (t_langs T) \/ True) as _ by (right; exact I).
    assert (ls_change s <> []) as Hc.
    { clear Ef H2. revert H1 Hs. generalize (t_langs T) as l.
      induction l as [|[k2 s2] l IH]; simpl; intros H1 Hs; [discriminate|].
      apply andb_true_iff in H1. destruct H1 as [Ha Hb].
      destruct (str_eqb kk k2).
      - inversion Hs; subst. destruct (ls_change s); [discriminate | discriminate].
      - apply IH; assumption. }
    destruct (ls_change s) as [|ph r] eqn:E; [contradiction|].
    eexists _, ph, r. split; [exact Ef | reflexivity]. }
  destruct (assoc k (t_langs T)) as [s|] eqn:Ek.
  - eapply Hne. exact Ek.
  - destruct (assoc (s2l "en") (t_langs T)) as [s|] eqn:Een; [|discriminate].
    eapply Hne. exact Een.
Qed.
