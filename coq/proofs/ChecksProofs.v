(* Proofs about coq/model/Checks.v (property C20). *)
From Coq Require Import Lia Sorting.Sorted.
From YV Require Import PyBase PyBaseProofs Regex RegexProofs Checks.

Section ChecksProofs.
  Variable is_alpha is_word is_ws is_lower : char -> bool.

  Notation is_letter := (is_letter is_word).
  Notation ow := (ow is_word).
  Notation wb := (wb is_word).

  (* ---------------------------------------------------------------- *)
  (*  single letters                                                   *)
  (* ---------------------------------------------------------------- *)

  Definition isolated_letter (plain : str) (i : nat) : Prop :=
    exists c, nth_error plain i = Some c /\ is_letter c = true /\
              ow (prev_char_at plain i) = false /\
              ow (nth_error plain (S i)) = false.

  Lemma letter_is_word c : is_letter c = true -> is_word c = true.
  Proof.
    unfold Checks.is_letter. intros H.
    apply andb_true_iff in H. destruct H as [H _].
    apply andb_true_iff in H. destruct H as [H _]. exact H.
  Qed.

  Definition pk (prev : option char) (s : str) (k : nat) : option char :=
    match k with O => prev | S k' => nth_error s k' end.

  Lemma single_positions_in : forall s prev i0 j,
    In j (single_positions is_word prev s i0) <->
    exists k c, j = i0 + k /\ nth_error s k = Some c /\ is_letter c = true /\
                wb (pk prev s k) (Some c) = true /\
                wb (Some c) (nth_error s (S k)) = true.
  Proof.
    induction s as [|c s IH]; intros prev i0 j; simpl.
    - split; [contradiction|]. intros (k & c & _ & H & _). destruct k; discriminate.
    - assert (Hhd : hd_error s = nth_error s 0) by (destruct s; reflexivity).
      split.
      + intros H.
        destruct (is_letter c && wb prev (Some c) && wb (Some c) (hd_error s))
          eqn:E.
        * destruct H as [H|H].
          -- subst j. exists 0, c.
             apply andb_true_iff in E. destruct E as [E E3].
             apply andb_true_iff in E. destruct E as [E1 E2].
             rewrite Hhd in E3. repeat split; auto.
          -- apply IH in H. destruct H as (k & c' & Hj & Hn & Hl & H1 & H2).
             exists (S k), c'. repeat split; auto; [lia|].
             destruct k; simpl in *; auto.
        * apply IH in H. destruct H as (k & c' & Hj & Hn & Hl & H1 & H2).
          exists (S k), c'. repeat split; auto; [lia|].
          destruct k; simpl in *; auto.
      + intros (k & c' & Hj & Hn & Hl & H1 & H2).
        destruct k as [|k].
        * simpl in Hn. inversion Hn; subst c'. simpl in H1.
          change (nth_error (c :: s) 1) with (nth_error s 0) in H2.
          rewrite <- Hhd in H2. rewrite Hl, H1, H2. simpl. left. lia.
        * assert (Hin : In j (single_positions is_word (Some c) s (S i0))).
          { apply IH. exists k, c'. repeat split; auto; [lia|].
            destruct k; simpl in *; auto. }
          destruct (is_letter c && wb prev (Some c) && wb (Some c) (hd_error s));
            [right|]; exact Hin.
  Qed.

  Lemma single_positions_sorted : forall s prev i0,
    StronglySorted lt (single_positions is_word prev s i0) /\
    Forall (fun j => i0 <= j) (single_positions is_word prev s i0).
  Proof.
    induction s as [|c s IH]; intros prev i0; simpl.
    - split; constructor.
    - destruct (IH (Some c) (S i0)) as [Hs Hf].
      assert (Hf' : Forall (fun j => i0 <= j)
                      (single_positions is_word (Some c) s (S i0))).
      { eapply Forall_impl; [|exact Hf]. intros; simpl in *; lia. }
      destruct (is_letter c && wb prev (Some c) && wb (Some c) (hd_error s)).
      + split.
        * constructor; [exact Hs|].
          eapply Forall_impl; [|exact Hf]. intros; simpl in *; lia.
        * constructor; [lia | exact Hf'].
      + split; [exact Hs | exact Hf'].
  Qed.

  Lemma wb_left_word c nxt : is_word c = true -> wb (Some c) nxt = negb (ow nxt).
  Proof.
    intros H. unfold Checks.wb. change (ow (Some c)) with (is_word c).
    rewrite H. destruct (ow nxt); reflexivity.
  Qed.
  Lemma wb_right_word prev c : is_word c = true -> wb prev (Some c) = negb (ow prev).
  Proof.
    intros H. unfold Checks.wb. change (ow (Some c)) with (is_word c).
    rewrite H. destruct (ow prev); reflexivity.
  Qed.

  Theorem single_positions_spec plain j :
    In j (single_positions is_word None plain 0) <-> isolated_letter plain j.
  Proof.
    rewrite single_positions_in. unfold isolated_letter.
    assert (Hpk : pk None plain j = prev_char_at plain j) by (destruct j; reflexivity).
    split.
    - intros (k & c & Hj & Hn & Hl & H1 & H2). simpl in Hj. subst k.
      exists c. rewrite Hpk in H1.
      rewrite (wb_right_word _ c (letter_is_word c Hl)) in H1.
      rewrite (wb_left_word c _ (letter_is_word c Hl)) in H2.
      apply negb_true_iff in H1. apply negb_true_iff in H2.
      repeat split; assumption.
    - intros (c & Hn & Hl & H1 & H2). exists j, c. rewrite Hpk.
      rewrite (wb_right_word _ c (letter_is_word c Hl)).
      rewrite (wb_left_word c _ (letter_is_word c Hl)).
      rewrite H1, H2. repeat split; auto.
  Qed.

  Lemma StronglySorted_lt_NoDup l : StronglySorted lt l -> NoDup l.
  Proof.
    induction 1 as [|x l Hs IH Hf]; constructor; [|exact IH].
    intros Hin. rewrite Forall_forall in Hf. specialize (Hf x Hin). lia.
  Qed.

  Lemma covered_spec hs i :
    covered hs i = true <->
    exists b m, In (b, m) hs /\ b <= i < b + m.
  Proof.
    unfold covered. rewrite existsb_exists. split.
    - intros ([b m] & Hin & H). simpl in H. apply andb_true_iff in H.
      destruct H as [H1 H2]. apply Nat.leb_le in H1. apply Nat.ltb_lt in H2.
      exists b, m. split; [exact Hin | lia].
    - intros (b & m & Hin & H). exists (b, m). split; [exact Hin|]. simpl.
      apply andb_true_iff. split; [apply Nat.leb_le | apply Nat.ltb_lt]; lia.
  Qed.

  (* the messages of --single-letters: exactly the isolated letters whose
     position is not inside a hit of the accepted-pattern scan, each once,
     in increasing order, each of length 1 *)
  Theorem single_letter_messages plain opt msg :
    In msg (single_letter_matches is_alpha is_word plain (Some opt)) <->
    exists i, msg = mk_message plain i 1 /\ isolated_letter plain i /\
              covered (hits is_alpha is_word (accept_list opt) plain) i = false.
  Proof.
    unfold single_letter_matches. rewrite in_map_iff. split.
    - intros (i & Hm & Hin). apply filter_In in Hin. destruct Hin as [Hin Hc].
      exists i. split; [symmetry; exact Hm|]. split.
      + apply single_positions_spec. exact Hin.
      + apply negb_true_iff. exact Hc.
    - intros (i & Hm & Hiso & Hc). exists i. split; [symmetry; exact Hm|].
      apply filter_In. split; [apply single_positions_spec; exact Hiso|].
      apply negb_true_iff. exact Hc.
  Qed.

  Theorem single_letter_once plain opt :
    NoDup (map m_offset (single_letter_matches is_alpha is_word plain (Some opt))).
  Proof.
    unfold single_letter_matches. rewrite map_map. simpl. rewrite map_id.
    apply NoDup_filter. apply StronglySorted_lt_NoDup.
    apply single_positions_sorted.
  Qed.

  Theorem single_letter_off plain :
    single_letter_matches is_alpha is_word plain None = [].
  Proof. reflexivity. Qed.

  (* ---------------------------------------------------------------- *)
  (*  hits of the accepted patterns                                    *)
  (* ---------------------------------------------------------------- *)

  Lemma starts_with_length p : forall s, starts_with p s = true -> length p <= length s.
  Proof.
    induction p as [|x p IH]; intros [|y s] H; simpl in *; try lia; try discriminate.
    apply andb_true_iff in H. destruct H as [_ H]. apply IH in H. lia.
  Qed.

  Lemma starts_with_app p : forall s, starts_with p s = true -> exists r, s = p ++ r.
  Proof.
    induction p as [|x p IH]; intros [|y s] H; simpl in *; try discriminate.
    - exists []. reflexivity.
    - exists (y :: s). reflexivity.
    - apply andb_true_iff in H. destruct H as [E H]. apply N.eqb_eq in E. subst y.
      destruct (IH _ H) as [r Er]. exists r. rewrite Er. reflexivity.
  Qed.

  Lemma lit_match_some p bs be prev s m :
    lit_match is_word p bs be prev s = Some m ->
    m = length p /\ (exists r, s = p ++ r) /\
    (bs = true -> wb prev (hd_error s) = true) /\
    (be = true -> wb (nth_error s (m - 1)) (nth_error s m) = true).
  Proof.
    unfold lit_match. destruct (starts_with p s) eqn:E; [|discriminate].
    destruct bs, be; simpl;
      repeat match goal with
             | |- context [negb (wb ?a ?b)] => destruct (wb a b) eqn:?; simpl
             end; intros H; try discriminate H; inversion H; subst;
      (split; [reflexivity|]); (split; [apply starts_with_app; exact E|]);
      split; intros C; try discriminate C; auto.
  Qed.

  Lemma alt_match_some pats prev s m :
    alt_match is_alpha is_word pats prev s = Some m ->
    exists p, In p pats /\
      lit_match is_word p (first_alpha is_alpha p) (last_alpha is_alpha p) prev s = Some m.
  Proof.
    induction pats as [|p ps IH]; simpl; [discriminate|].
    destruct (lit_match is_word p (first_alpha is_alpha p) (last_alpha is_alpha p) prev s)
      as [k|] eqn:E.
    - intros H; inversion H; subst. exists p. split; [left; reflexivity | exact E].
    - intros H. destruct (IH H) as (q & Hin & Hq). exists q. split; [right|]; assumption.
  Qed.

  Definition hit_mat pats :=
    fun prev s => option_map (fun m => (m, tt)) (alt_match is_alpha is_word pats prev s).

  Lemma hit_mat_le pats prev s m x : hit_mat pats prev s = Some (m, x) -> m <= length s.
  Proof.
    unfold hit_mat. destruct (alt_match is_alpha is_word pats prev s) as [k|] eqn:E;
      [|discriminate]. simpl. intros H; inversion H; subst.
    apply alt_match_some in E. destruct E as (p & _ & E).
    apply lit_match_some in E. destruct E as (Em & (r & Er) & _). subst.
    rewrite app_length. lia.
  Qed.

  (* a hit is an occurrence of one accepted pattern with its word boundaries *)
  Theorem hit_is_accepted_occurrence pats plain b m :
    In (b, m) (hits is_alpha is_word pats plain) ->
    1 <= m /\ b + m <= length plain /\
    exists p, In p pats /\ m = length p /\
      (exists r, skipn b plain = p ++ r) /\
      (first_alpha is_alpha p = true ->
         wb (prev_char_at plain b) (hd_error (skipn b plain)) = true) /\
      (last_alpha is_alpha p = true ->
         wb (nth_error (skipn b plain) (m - 1)) (nth_error (skipn b plain) m) = true).
  Proof.
    unfold hits. destruct pats as [|p0 ps]; [contradiction|].
    intros Hin. apply in_map_iff in Hin. destruct Hin as ([[b' m'] x] & E & Hin).
    simpl in E. inversion E; subst b' m'.
    pose proof (finditer_x_wf (hit_mat (p0 :: ps)) plain (hit_mat_le (p0 :: ps))) as W.
    destruct (scan_wf_in _ _ _ _ _ _ _ W Hin) as (_ & Hm & Hle & Hmat).
    split; [exact Hm|]. split; [exact Hle|].
    unfold mat_at, hit_mat in Hmat.
    destruct (alt_match is_alpha is_word (p0 :: ps) (prev_char_at plain b) (skipn b plain))
      as [k|] eqn:Ea; [|discriminate]. simpl in Hmat. inversion Hmat; subst k.
    apply alt_match_some in Ea. destruct Ea as (p & Hp & El).
    apply lit_match_some in El. destruct El as (A & B & C & D).
    exists p. repeat split; auto.
  Qed.

  (* ---------------------------------------------------------------- *)
  (*  context excerpt                                                  *)
  (* ---------------------------------------------------------------- *)

  Lemma pyslice_pyslice {A} (l : list A) a b c d :
    c <= d -> d <= b - a ->
    pyslice (pyslice l a b) c d = pyslice l (a + c) (a + d).
  Proof.
    intros Hcd Hd. unfold pyslice.
    rewrite skipn_firstn_comm. rewrite firstn_firstn.
    rewrite skipn_skipn_add.
    replace (Nat.min (d - c) (b - a - c)) with (a + d - (a + c)) by lia.
    reflexivity.
  Qed.

  Lemma pyslice_app_l {A} (l r : list A) a b :
    b <= length l -> pyslice (l ++ r) a b = pyslice l a b.
  Proof.
    intros Hb. unfold pyslice.
    destruct (Nat.le_gt_cases a (length l)) as [Ha|Ha].
    - rewrite skipn_app. rewrite firstn_app. rewrite skipn_length.
      replace (b - a - (length l - a)) with 0 by lia. simpl. apply app_nil_r.
    - replace (b - a) with 0 by lia. reflexivity.
  Qed.

  Lemma pyslice_map {A B} (f : A -> B) l a b :
    pyslice (map f l) a b = map f (pyslice l a b).
  Proof. unfold pyslice. rewrite skipn_map, firstn_map. reflexivity. Qed.

  Theorem context_marks_same txt o l :
    o + l <= length txt ->
    let c := create_context txt o l in
    cx_length c = l /\
    pyslice (cx_text c) (cx_offset c) (cx_offset c + l) =
      map ctx_char (pyslice txt o (o + l)).
  Proof.
    intros Hol. simpl. split; [reflexivity|].
    set (beg := o - ctx_size).
    set (e := Nat.min (Nat.max (o + ctx_size) (o + l)) (length txt)).
    assert (Hbeg : beg <= o) by (unfold beg; lia).
    assert (He : o + l <= e) by (unfold e; lia).
    assert (Hel : e <= length txt) by (unfold e; lia).
    change ([c_dot; c_dot; c_dot] ++ map ctx_char (pyslice txt beg e)
             ++ [c_dot; c_dot; c_dot])
      with (c_dot :: c_dot :: c_dot :: (map ctx_char (pyslice txt beg e)
             ++ [c_dot; c_dot; c_dot])).
    replace (o - beg + 3) with (S (S (S (o - beg)))) by lia.
    unfold pyslice at 1. simpl skipn.
    replace (S (S (S (o - beg))) + l - S (S (S (o - beg)))) with (o - beg + l - (o - beg)) by lia.
    change (firstn (o - beg + l - (o - beg))
              (skipn (o - beg) (map ctx_char (pyslice txt beg e) ++ [c_dot; c_dot; c_dot])))
      with (pyslice (map ctx_char (pyslice txt beg e) ++ [c_dot; c_dot; c_dot])
                    (o - beg) (o - beg + l)).
    rewrite pyslice_app_l.
    2:{ rewrite map_length, pyslice_length; lia. }
    rewrite pyslice_map. f_equal.
    rewrite pyslice_pyslice by lia. f_equal; lia.
  Qed.

  (* ---------------------------------------------------------------- *)
  (*  equation punctuation                                             *)
  (* ---------------------------------------------------------------- *)

  Lemma skip_ws_spec : forall s prev n p r,
    skip_ws is_ws prev s = (n, p, r) ->
    exists a, s = a ++ r /\ length a = n /\
              Forall (fun c => is_ws c = true) a /\
              match r with [] => True | c :: _ => is_ws c = false end.
  Proof.
    induction s as [|c s IH]; intros prev n p r H; simpl in H.
    - inversion H; subst. exists []. repeat split; auto.
    - destruct (is_ws c) eqn:E.
      + destruct (skip_ws is_ws (Some c) s) as [[n' p'] r'] eqn:E2.
        inversion H; subst.
        destruct (IH _ _ _ _ E2) as (a & Ea & Hl & Hf & Hr).
        exists (c :: a). repeat split; auto; simpl; [f_equal; exact Ea | lia].
      + inversion H; subst. exists []. repeat split; auto.
  Qed.

  Lemma take_letters_le s : take_letters is_word s <= length s.
  Proof.
    induction s as [|c s IH]; simpl; [lia|].
    destruct (is_letter c); simpl; lia.
  Qed.

  Lemma equ_tail_le s n dot w :
    equ_tail is_word is_ws s = (n, dot, w) -> n <= length s.
  Proof.
    unfold equ_tail.
    destruct (skip_ws is_ws None s) as [[n1 p1] s1] eqn:E1.
    destruct (skip_ws_spec _ _ _ _ _ E1) as (a & Ea & Hl & _ & _).
    assert (Hlen : length s = n1 + length s1)
      by (rewrite Ea, app_length; lia).
    destruct s1 as [|c s1']; [intros H; inversion H; subst; lia|].
    destruct (N.eqb c c_dot); [intros H; inversion H; subst; simpl in *; lia|].
    destruct (is_punct c) eqn:Ep.
    - destruct (skip_ws is_ws None s1') as [[n2 p2] s3] eqn:E2.
      destruct (skip_ws_spec _ _ _ _ _ E2) as (b & Eb & Hl2 & _ & _).
      pose proof (take_letters_le s3) as Ht.
      assert (length s1' = n2 + length s3) by (rewrite Eb, app_length; lia).
      destruct (take_letters is_word s3) eqn:Et; intros H0; inversion H0; subst;
        simpl in *; lia.
    - destruct (skip_ws is_ws None (c :: s1')) as [[n2 p2] s3] eqn:E2.
      destruct (skip_ws_spec _ _ _ _ _ E2) as (b & Eb & Hl2 & _ & _).
      pose proof (take_letters_le s3) as Ht.
      assert (length (c :: s1') = n2 + length s3) by (rewrite Eb, app_length; lia).
      destruct (take_letters is_word s3) eqn:Et; intros H0; inversion H0; subst;
        simpl in *; lia.
  Qed.

  Lemma equ_lengths_in pls prev s m :
    In m (equ_lengths is_word pls prev s) <->
    exists p, In p pls /\ lit_match is_word p true true prev s = Some m.
  Proof.
    unfold equ_lengths. rewrite in_flat_map. split.
    - intros (p & Hp & H). exists p. split; [exact Hp|].
      destruct (lit_match is_word p true true prev s) as [k|]; [|contradiction].
      destruct H as [H|[]]. subst. reflexivity.
    - intros (p & Hp & H). exists p. split; [exact Hp|]. rewrite H. left. reflexivity.
  Qed.

  Lemma equ_lengths_le pls prev s m :
    In m (equ_lengths is_word pls prev s) -> m <= length s.
  Proof.
    intros H. apply equ_lengths_in in H. destruct H as (p & _ & H).
    apply lit_match_some in H. destruct H as (Em & (r & Er) & _). subst.
    rewrite app_length. lia.
  Qed.

  Lemma equ_match_le pls prev s m ok :
    equ_match is_word is_ws is_lower pls prev s = Some (m, ok) -> m <= length s.
  Proof.
    unfold equ_match.
    destruct (find _ (equ_lengths is_word pls prev s)) as [k|] eqn:Ef.
    - intros H; inversion H; subst. apply find_some in Ef. destruct Ef as [Hin _].
      eapply equ_lengths_le; eauto.
    - destruct (equ_lengths is_word pls prev s) as [|k ls] eqn:El; [discriminate|].
      destruct (equ_tail is_word is_ws (skipn k s)) as [[n dot] w] eqn:Et.
      intros H; inversion H; subst.
      apply equ_tail_le in Et. rewrite skipn_length in Et.
      assert (k <= length s) by (eapply equ_lengths_le; rewrite El; left; reflexivity).
      lia.
  Qed.

  (* what a reported (not accepted) match is: at i stands a placeholder p
     between word boundaries (the first alternative that matches); no
     alternative is followed by another placeholder (after optional , ; :),
     and behind p comes neither a full stop nor a lower-case word *)
  Definition rejected_at (pls : list str) (plain : str) (i m : nat) : Prop :=
    let prev := prev_char_at plain i in
    let s := skipn i plain in
    exists k ls n w,
      equ_lengths is_word pls prev s = k :: ls /\
      (forall k', In k' (k :: ls) ->
         lookahead_equ is_word is_ws pls (last_char_of prev s k') (skipn k' s) = false) /\
      equ_tail is_word is_ws (skipn k s) = (n, false, w) /\
      match w with Some c => is_lower c = false | None => True end /\
      m = k + n.

  Lemma equ_match_rejected pls prev s m :
    equ_match is_word is_ws is_lower pls prev s = Some (m, false) ->
    exists k ls n w,
      equ_lengths is_word pls prev s = k :: ls /\
      (forall k', In k' (k :: ls) ->
         lookahead_equ is_word is_ws pls (last_char_of prev s k') (skipn k' s) = false) /\
      equ_tail is_word is_ws (skipn k s) = (n, false, w) /\
      match w with Some c => is_lower c = false | None => True end /\
      m = k + n.
  Proof.
    unfold equ_match.
    destruct (find _ (equ_lengths is_word pls prev s)) as [k|] eqn:Ef;
      [discriminate|].
    destruct (equ_lengths is_word pls prev s) as [|k ls] eqn:El; [discriminate|].
    destruct (equ_tail is_word is_ws (skipn k s)) as [[n dot] w] eqn:Et.
    intros H. injection H as Hm Hok. apply orb_false_iff in Hok.
    destruct Hok as [Hd Hw]. subst dot. exists k, ls, n, w.
    split; [reflexivity|]. split.
    - intros k' Hin. pose proof (find_none _ _ Ef k' Hin) as Hn.
      cbv beta in Hn. exact Hn.
    - split; [exact Et|]. split; [|symmetry; exact Hm].
      destruct w; [exact Hw | exact I].
  Qed.

  Theorem equation_messages_spec plain pls msg :
    In msg (equation_messages is_word is_ws is_lower plain pls) <->
    exists i m, msg = mk_message plain i m /\
      In (i, m, false) (finditer_x (equ_match is_word is_ws is_lower pls) plain).
  Proof.
    unfold equation_messages. rewrite in_map_iff. split.
    - intros ([[i m] ok] & Hm & Hin). apply filter_In in Hin.
      destruct Hin as [Hin Hok]. simpl in Hok. apply negb_true_iff in Hok. subst ok.
      exists i, m. split; [symmetry; exact Hm | exact Hin].
    - intros (i & m & Hm & Hin). exists (i, m, false). split; [symmetry; exact Hm|].
      apply filter_In. split; [exact Hin | reflexivity].
  Qed.

  Theorem equation_reported_is_rejected plain pls i m :
    In (i, m, false) (finditer_x (equ_match is_word is_ws is_lower pls) plain) ->
    1 <= m /\ i + m <= length plain /\ rejected_at pls plain i m.
  Proof.
    intros Hin.
    pose proof (finditer_x_wf (equ_match is_word is_ws is_lower pls) plain
                  (equ_match_le pls)) as W.
    destruct (scan_wf_in _ _ _ _ _ _ _ W Hin) as (_ & Hm & Hle & Hmat).
    split; [exact Hm|]. split; [exact Hle|].
    unfold mat_at in Hmat. apply equ_match_rejected in Hmat. exact Hmat.
  Qed.

  (* no candidate is skipped: a position outside all reported spans has no
     placeholder between word boundaries *)
  Theorem equation_none_skipped plain pls j :
    j < length plain ->
    (forall i m ok, In (i, m, ok) (finditer_x (equ_match is_word is_ws is_lower pls) plain)
                    -> ~ (i <= j < i + m)) ->
    equ_lengths is_word pls (prev_char_at plain j) (skipn j plain) = [] \/
    exists ok, equ_match is_word is_ws is_lower pls (prev_char_at plain j)
                 (skipn j plain) = Some (0, ok).
  Proof.
    intros Hj Hout.
    pose proof (finditer_x_wf (equ_match is_word is_ws is_lower pls) plain
                  (equ_match_le pls)) as W.
    destruct (scan_wf_complete _ _ _ _ _ W (conj (Nat.le_0_l _) Hj) Hout) as [N|[ok N]].
    - left. unfold mat_at, equ_match in N.
      destruct (find _ (equ_lengths is_word pls (prev_char_at plain j) (skipn j plain)));
        [discriminate|].
      destruct (equ_lengths is_word pls (prev_char_at plain j) (skipn j plain));
        [reflexivity|].
      destruct (equ_tail is_word is_ws (skipn n (skipn j plain))) as [[? ?] ?].
      discriminate.
    - right. exists ok. exact N.
  Qed.
End ChecksProofs.
