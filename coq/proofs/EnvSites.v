(* C19 for environments, at the site: \begin{name} and \end{name} with a
   name written in plain characters.  The name is read from the group behind
   the token (expanded, which leaves plain characters alone); an undeclared
   name is appended to the list of unknowns once, by \begin only and not in
   maths mode; the declarations stay; the construct leaves one action token
   and the loop goes on behind the closing brace. *)
From Coq Require Import Lia String.
From YV Require Import PyBase PyBaseProofs ShellMap Token Utils Scanner Rpal PState
                       Parser Expand Math Exec TokOk ScanOk ScanPlain RpalProofs
                       ExecPlain ExpandSites SpecialsProofs ExecUnk ExecArgs.
Open Scope Z_scope.

Section EnvSites.
  Variable T : tables.
  Variable rd : str -> option str.
  Hypothesis Htab : plain_tables_ok T = true.

  (* the name the characters spell *)
  Definition spelled (a : list tok) : str := flat_map txt a.

  Lemma plain_bal a : Forall (etok T) a -> bal a.
  Proof.
    induction 1 as [|t a Ht Ha IH]; [constructor|].
    apply bal_tok; [|exact IH]. split.
    - apply (gtok_txt_is T Htab t 123%N []); [apply etok_gtok; exact Ht | simpl; tauto | discriminate].
    - apply (gtok_txt_is T Htab t 125%N []); [apply etok_gtok; exact Ht | simpl; tauto | discriminate].
  Qed.

  Lemma plain_direct a : Forall (etok T) a -> get_text_direct a = spelled a.
  Proof.
    induction 1 as [|t a Ht Ha IH]; [reflexivity|].
    unfold get_text_direct, spelled in *. cbn [flat_map]. rewrite IH.
    destruct Ht as [_ Hk]. destruct (tk t); try contradiction; reflexivity.
  Qed.

  (* expanding plain characters gives them back and leaves the state alone *)
  Lemma exec_name k st a :
    Forall (etok T) a -> (length a < k)%nat ->
    exec T rd k (TSeq a None []) st = Ok (st, ASeq a []).
  Proof.
    intros Ha Hk.
    assert (Hb : bcl T (macros st) a).
    { clear Hk. induction Ha as [|t a Ht Ha IH]; [constructor|].
      apply b_one; [apply u_plain; exact Ht | exact IH]. }
    assert (Hmu : mu (macros st) a = length a).
    { clear Hk Hb. induction Ha as [|t a Ht Ha IH]; [reflexivity|].
      cbn [mu fold_right length]. fold (mu (macros st) a). rewrite IH.
      rewrite wt_other; [reflexivity|]. destruct Ht as [_ Hkind].
      destruct (tk t); try contradiction; discriminate. }
    destruct (exec_args_total T rd Htab k a [] st Hb) as [r Er]; [lia|].
    rewrite Er. f_equal. apply (exec_plain T rd Htab k a [] st r Ha (Forall_nil _) Er).
  Qed.

  Variable k : nat.
  Notation rec := (exec T rd k).

  Theorem env_name_plain st t o a c l :
    lb o -> rb c -> Forall (etok T) a -> a <> [] -> (length a < k)%nat ->
    get_environment_name T rec st (o :: a ++ c :: l) t = Ok (st, (spelled a, l)).
  Proof.
    intros Ho Hc Ha Hne Hk. unfold get_environment_name, arg_buffer, arg_buffer_c.
    destruct (lb_txt o Ho) as [O1 O2]. destruct Ho as [Ok_ Ot].
    assert (Hs : skip_space (o :: a ++ c :: l) = o :: a ++ c :: l).
    { cbn [skip_space]. unfold buf_is_space. rewrite Ok_. reflexivity. }
    rewrite Hs, Ok_, O1. cbn [negb andb].
    replace (str_eqb s_rbrace s_rbrace && false) with false by (symmetry; apply Bool.andb_false_r).
    rewrite (arg_collect_group a c l (plain_bal a Ha) Hc).
    destruct a as [|x a']; [contradiction|].
    unfold get_text_expanded, expand_fresh. rewrite (exec_name k st (x :: a') Ha Hk).
    cbn [rbind fst snd]. rewrite (plain_direct _ Ha). reflexivity.
  Qed.

  (* \begin of an undeclared environment *)
  Theorem begin_undeclared fuel st t o a c l math :
    lb o -> rb c -> Forall (etok T) a -> a <> [] -> (length a < k)%nat ->
    assoc (spelled a) (environs st) = None ->
    exists st',
      begin_environment T rd rec fuel st (o :: a ++ c :: l) t math
        = Ok (st', ([ActionT (pos t)], l)) /\
      unknowns st' = (if math then unknowns st else add_unknown (unknowns st) (spelled a)) /\
      macros st' = macros st /\ environs st' = environs st.
  Proof.
    intros Ho Hc Ha Hne Hk He. unfold begin_environment.
    rewrite (env_name_plain st t o a c l Ho Hc Ha Hne Hk). cbn [rbind]. rewrite He.
    unfold add_unknown. destruct math; cbn [orb].
    - eexists. repeat split.
    - destruct (mem_str (spelled a) (unknowns st)); eexists; repeat split.
  Qed.

  (* \end of an undeclared environment: nothing is recorded *)
  Theorem end_undeclared fuel st t o a c l :
    lb o -> rb c -> Forall (etok T) a -> a <> [] -> (length a < k)%nat ->
    assoc (spelled a) (environs st) = None ->
    end_environment T rd rec fuel st (o :: a ++ c :: l) t None
      = Ok (st, ([ActionT (pos t)], false, l)).
  Proof.
    intros Ho Hc Ha Hne Hk He. unfold end_environment.
    rewrite (env_name_plain st t o a c l Ho Hc Ha Hne Hk). cbn [rbind]. rewrite He. reflexivity.
  Qed.

  (* a declared name is never recorded by \begin: the list of unknowns only
     changes in the branch above *)
  Theorem begin_declared_keeps_list fuel st t o a c l env :
    lb o -> rb c -> Forall (etok T) a -> a <> [] -> (length a < k)%nat ->
    assoc (spelled a) (environs st) = Some env ->
    e_items env = None ->
    begin_environment T rd rec fuel st (o :: a ++ c :: l) t false =
    (do r <- expand_arguments T rd rec fuel st l (e_mac env) (pos t);
     let '(st1, (ins, rest)) := r in
     let out := (if e_add_pars env then [ParF (pos t) [c_nl; c_nl]] else [ActionT (pos t)]) ++ ins in
     if e_equ env then Ok (st1, (out ++ [mk (KMathBegin (spelled a)) (pos t) (spelled a) false], rest))
     else if e_remove env then
       do x <- rec (TSeq rest (Some (spelled a)) []) st1;
       match snd x with
       | ASeq ts rest' => Ok (fst x, (out ++ ts, rest'))
       | _ => Exc TypeError
       end
     else Ok (st1, (out, rest))).
  Proof.
    intros Ho Hc Ha Hne Hk He Hi. unfold begin_environment.
    rewrite (env_name_plain st t o a c l Ho Hc Ha Hne Hk). cbn [rbind]. rewrite He, Hi. reflexivity.
  Qed.
End EnvSites.
