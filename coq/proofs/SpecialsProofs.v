(* C06, second claim: special sequences are recognised by longest match and
   replaced by the tabulated text at the position of their first character. *)
From Coq Require Import Lia String.
From YV Require Import PyBase PyBaseProofs ShellMap Token Utils Scanner Rpal PState
                       Parser Expand Math Exec.
Open Scope Z_scope.

Lemma find_first {A} (f : A -> bool) : forall l x,
  find f l = Some x ->
  exists l1 l2, l = l1 ++ x :: l2 /\ f x = true /\ Forall (fun y => f y = false) l1.
Proof.
  induction l as [|a l IH]; intros x H; simpl in H; [discriminate|].
  destruct (f a) eqn:E.
  - inversion H; subst. exists [], l. repeat split; [exact E | constructor].
  - destruct (IH x H) as (l1 & l2 & El & Fx & Fl). exists (a :: l1), l2.
    subst l. repeat split; [exact Fx | constructor; assumption].
Qed.

(* longest first *)
Fixpoint desc_lenb (l : list str) : bool :=
  match l with
  | [] => true
  | x :: r => forallb (fun y => Nat.leb (length y) (length x)) r && desc_lenb r
  end.

Lemma desc_lenb_ok : forall l l1 x l2 y,
  desc_lenb l = true -> l = l1 ++ x :: l2 -> In y l2 -> (length y <= length x)%nat.
Proof.
  induction l as [|a l IH]; intros l1 x l2 y H El Hy.
  - destruct l1; discriminate.
  - simpl in H. apply andb_true_iff in H. destruct H as [H1 H2].
    destruct l1 as [|b l1]; simpl in El; inversion El; subst.
    + rewrite forallb_forall in H1. apply Nat.leb_le. apply H1. exact Hy.
    + eapply IH; [exact H2 | reflexivity | exact Hy].
Qed.

Section Specials.
  Variable P : scan_parms.
  Variable latex : str.
  Hypothesis Hsorted : desc_lenb (sp_specials P) = true.

  (* the scanner at a character that is no white space, %, #: if any special
     sequence starts here, the token is the longest one that does, at this
     position, and exactly its characters are consumed *)
  Theorem next_token_special c s start t :
    sp_is_space P c = false -> N.eqb c c_percent = false -> N.eqb c c_hash = false ->
    find (fun t => starts_with t (c :: s)) (sp_specials P) = Some t ->
    next_token P latex (c :: s) start = (SpecialT start t, length t, [])
    /\ starts_with t (c :: s) = true
    /\ forall t', In t' (sp_specials P) -> starts_with t' (c :: s) = true ->
                  (length t' <= length t)%nat.
  Proof.
    intros Hsp Hpc Hh Hf. split; [|split].
    - unfold next_token, is_sp. rewrite Hsp, Hpc, Hh, Hf. reflexivity.
    - apply find_some in Hf. apply Hf.
    - intros t' Hin Hst. destruct (find_first _ _ _ Hf) as (l1 & l2 & El & _ & Fl).
      rewrite El in Hin. apply in_app_or in Hin. destruct Hin as [Hin|[Hin|Hin]].
      + rewrite Forall_forall in Fl. rewrite (Fl t' Hin) in Hst. discriminate.
      + subst t'. lia.
      + eapply desc_lenb_ok; [exact Hsorted | exact El | exact Hin].
  Qed.

  (* and where none starts, an ordinary character is copied as it is *)
  Theorem next_token_ordinary c s start :
    sp_is_space P c = false -> N.eqb c c_percent = false -> N.eqb c c_hash = false ->
    N.eqb c c_backslash = false ->
    find (fun t => starts_with t (c :: s)) (sp_specials P) = None ->
    next_token P latex (c :: s) start = (TextT start [c], 1%nat, []).
  Proof.
    intros Hsp Hpc Hh Hb Hf. unfold next_token, is_sp. rewrite Hsp, Hpc, Hh, Hf, Hb.
    reflexivity.
  Qed.
End Specials.

Section SpecialStep.
  Variable T : tables.
  Variable rd : str -> option str.

  (* the main loop replaces a special token that is not one of the maths and
     grouping characters by the tabulated text, at the token's position *)
  Theorem step_seq_special rec fuel st t b env_stop rout v :
    tk t = KSpecial ->
    forallb (fun x => negb (txt_is t x))
            [s2l "$"; s2l "\("; s2l "$$"; s2l "\["; s2l "\\"; s_lbrace; s_rbrace] = true ->
    assoc (txt t) (t_special_values T) = Some v ->
    step_seq T rd rec fuel st (t :: b) env_stop rout =
    rec (TSeq b env_stop (mk KText (pos t) v (pfix t) :: ActionT (pos t) :: rout)) st.
  Proof.
    intros Hk Hn Hv. unfold step_seq. rewrite Hk.
    cbn [forallb] in Hn.
    repeat (apply andb_true_iff in Hn; let H := fresh "N" in destruct Hn as [H Hn];
            apply negb_true_iff in H).
    repeat match goal with H : txt_is t _ = false |- _ => rewrite H; clear H end.
    cbn [orb]. rewrite Hv. reflexivity.
  Qed.

  (* the line break \\ becomes one blank at its position *)
  Theorem step_seq_newline rec fuel st t b env_stop rout :
    tk t = KSpecial -> txt t = s2l "\\" ->
    step_seq T rd rec fuel st (t :: b) env_stop rout =
    (let '(st', rest) := parse_newline_option T st b true in
     rec (TSeq rest env_stop (SpaceT (pos t) s_space :: ActionT (pos t) :: rout)) st').
  Proof.
    intros Hk Ht. unfold step_seq, txt_is. rewrite Hk, Ht. reflexivity.
  Qed.
End SpecialStep.
