(* C01 behind the action-line pass: the pass creates no new position.  For
   any predicate R on positions: if every position of every token handed to
   Parser.remove_pure_action_lines satisfies R, so does every position of
   every token it returns (a token cut at a line break keeps a prefix or a
   suffix of its positions). *)
From Coq Require Import Lia.
From YV Require Import PyBase PyBaseProofs ShellMap ShellMapProofs Token Utils Rpal RpalProofs
                       ScanPlain MlProofs.
Open Scope Z_scope.

Section RpalRange.
  Variable is_space : char -> bool.
  Variable R : Z -> Prop.
  Notation tok_R := (tok_R R).
  Notation eval := (eval is_space).
  Notation rpal_loop := (rpal_loop is_space).

  Lemma repeat_firstn {A} (x : A) n k : firstn k (repeat x n) = repeat x (Nat.min k n).
  Proof.
    revert k. induction n as [|n IH]; intros k; destruct k; cbn; try reflexivity.
    rewrite IH. reflexivity.
  Qed.

  Lemma Forall_zseq_prefix a n k : Forall R (zseq a n) -> Forall R (zseq a (Nat.min k n)).
  Proof.
    intros H. destruct (Nat.le_ge_cases k n) as [L|L].
    - rewrite Nat.min_l by exact L. replace n with (k + (n - k))%nat in H by lia.
      rewrite zseq_app in H. apply Forall_app in H. apply H.
    - rewrite Nat.min_r by exact L. exact H.
  Qed.
  Lemma Forall_zseq_suffix a n k : (k <= n)%nat -> Forall R (zseq a n) ->
    Forall R (zseq (a + Z.of_nat k) (n - k)).
  Proof.
    intros L H. replace n with (k + (n - k))%nat in H by lia.
    rewrite zseq_app in H. apply Forall_app in H. apply H.
  Qed.
  Lemma Forall_repeat_le (x : Z) n m : (m <= n)%nat -> Forall R (repeat x n) -> Forall R (repeat x m).
  Proof.
    intros L H. apply Forall_forall. intros y Hy.
    pose proof (repeat_spec _ _ _ Hy) as E. subst y.
    destruct n as [|n]; [assert (m = 0%nat) by lia; subst m; destruct Hy|].
    inversion H; assumption.
  Qed.

  (* the cuts *)
  Lemma cut_prefix t k : tok_R t -> tok_R (set_txt t (firstn k (txt t))).
  Proof.
    unfold MlProofs.tok_R, tok_positions. cbn [pfix pos txt set_txt].
    rewrite firstn_length. destruct (pfix t).
    - apply Forall_repeat_le. lia.
    - apply Forall_zseq_prefix.
  Qed.
  Lemma cut_nil t p : tok_R (set_pos (set_txt t []) p).
  Proof. unfold MlProofs.tok_R, tok_positions. cbn. destruct (pfix t); constructor. Qed.
  Lemma cut_nil' t : tok_R (set_txt t []).
  Proof. unfold MlProofs.tok_R, tok_positions. cbn. destruct (pfix t); constructor. Qed.
  Lemma cut_suffix t k : (k <= length (txt t))%nat -> tok_R t ->
    tok_R (let t' := set_txt t (skipn k (txt t)) in
           if pfix t then t' else set_pos t' (pos t + Z.of_nat k)).
  Proof.
    intros L. unfold MlProofs.tok_R, tok_positions. destruct (pfix t) eqn:Ep;
      cbn [pfix pos txt set_txt set_pos]; rewrite ?Ep, skipn_length.
    - apply Forall_repeat_le. lia.
    - apply Forall_zseq_suffix. exact L.
  Qed.
  Lemma sentinel_R p : tok_R (TextT p []).
  Proof. constructor. Qed.

  Lemma find_index_lt {A} (f : A -> bool) : forall l i, find_index f l = Some i -> (i < length l)%nat.
  Proof.
    induction l as [|x l IH]; intros i H; cbn in H; [discriminate|].
    destruct (f x); [inversion H; cbn; lia|].
    destruct (find_index f l) as [j|]; cbn in H; [|discriminate].
    inversion H; subst. cbn. specialize (IH j eq_refl). lia.
  Qed.

  Definition eR (e : etok) : Prop := tok_R (e_tok e).

  Lemma rpal_loop_R : forall fuel pending out res,
    rpal_loop fuel pending out = Ok res ->
    Forall eR pending -> Forall eR out -> Forall eR res.
  Proof.
    induction fuel as [|k IH]; intros pending out res H HP HO; [discriminate|].
    destruct pending as [|t p]; cbn [Rpal.rpal_loop] in H.
    { inversion H; subst. exact HO. }
    inversion HP as [|? ? Rt Rp]; subst.
    destruct (negb (e_start t)).
    { eapply IH; [exact H | exact Rp|]. apply Forall_app. split; [exact HO | constructor; [exact Rt | constructor]]. }
    destruct (collect p [t]) as [[buf b] rest] eqn:Ec.
    pose proof (collect_app _ _ _ _ _ Ec) as [Eb _]. cbn [rev app] in Eb.
    assert (HB : Forall eR (buf ++ rest)) by (rewrite Eb; exact HP).
    apply Forall_app in HB. destruct HB as [HBuf HRest].
    destruct (rev buf) as [|lst rb] eqn:Er; [discriminate|].
    assert (Ebuf : buf = rev rb ++ [lst]).
    { rewrite <- (rev_involutive buf), Er. reflexivity. }
    assert (Rlst : eR lst).
    { rewrite Ebuf in HBuf. apply Forall_app in HBuf. destruct HBuf as [_ HH]. inversion HH; assumption. }
    destruct (b && Nat.ltb 1 (length buf) && existsb (fun e => is_action (e_tok e)) buf).
    - match type of H with Rpal.rpal_loop _ k (?s :: Rpal.eval _ ?t2 :: rest) (out ++ Rpal.eval _ ?t1 :: ?lg) = _ =>
        set (t2' := t2) in *; set (t1' := t1) in *; set (langs := lg) in * end.
      assert (R1 : tok_R t1').
      { unfold t1'. destruct (rfind_index (N.eqb c_nl) (txt (e_tok t))) as [i|].
        - apply cut_prefix. exact Rt.
        - apply cut_nil'. }
      assert (R2 : tok_R t2').
      { unfold t2'. destruct (find_index (N.eqb c_nl) (txt (e_tok lst))) as [i|] eqn:Ei.
        - apply (cut_suffix (e_tok lst) (S i)); [|exact Rlst].
          apply find_index_lt in Ei. lia.
        - apply cut_nil. }
      eapply IH; [exact H| |].
      + constructor; [apply sentinel_R|]. constructor; [unfold eR; rewrite e_tok_eval; exact R2 | exact HRest].
      + apply Forall_app. split; [exact HO|].
        constructor; [unfold eR; rewrite e_tok_eval; exact R1|].
        unfold langs. apply Forall_forall. intros e He. apply filter_In in He.
        rewrite Forall_forall in HBuf. apply HBuf, He.
    - destruct (Nat.ltb 1 (length buf)).
      + eapply IH; [exact H| |].
        * constructor; [unfold eR; rewrite e_tok_eval; exact Rlst | exact HRest].
        * apply Forall_app. split; [exact HO|].
          rewrite Ebuf, removelast_last. rewrite Ebuf in HBuf. apply Forall_app in HBuf. apply HBuf.
      + eapply IH; [exact H | exact HRest|]. apply Forall_app. split; assumption.
  Qed.

  Theorem rpal_R tokens r :
    Forall tok_R tokens ->
    remove_pure_action_lines is_space tokens = Ok r ->
    Forall tok_R r.
  Proof.
    intros HR H. unfold remove_pure_action_lines in H.
    set (toks := filter _ tokens) in *.
    destruct (Rpal.rpal_loop _ _ _ []) as [res| | |] eqn:El; try discriminate.
    cbn [rbind] in H. inversion H; subst r. clear H.
    apply rpal_loop_R in El.
    - apply Forall_forall. intros t Ht. apply filter_In in Ht. destruct Ht as [Ht _].
      apply in_map_iff in Ht. destruct Ht as (e & Ee & He). subst t.
      rewrite Forall_forall in El. apply El, He.
    - constructor; [apply sentinel_R|]. apply Forall_app. split.
      + apply Forall_forall. intros e He. apply in_map_iff in He. destruct He as (t & Et & Hin).
        subst e. unfold eR. rewrite e_tok_eval. unfold toks in Hin. apply filter_In in Hin.
        rewrite Forall_forall in HR. apply HR, Hin.
      + constructor; [apply sentinel_R | constructor].
    - constructor.
  Qed.
End RpalRange.
