(* C06, first claim, end to end on the model: an input without LaTeX-active
   characters is returned unchanged with the identity position map -- through
   scanner, skip regions, the main loop of the expander, the removal of pure
   action lines, get_txt_pos and the wrapper tex2txt(), whatever packages and
   language are set up. *)
From Coq Require Import Lia String.
From YV Require Import PyBase PyBaseProofs ShellMap Token Utils Scanner Rpal PState
                       Parser Expand Math Exec Replace Ml Tex2txt
                       TokOk ScanOk ScanPlain RpalProofs.
Open Scope Z_scope.

Section ExecPlain.
  Variable T : tables.
  Variable rd : str -> option str.
  Notation P := (t_scan T).

  (* the string is an active character of some language *)
  Definition active_any (s : str) : bool :=
    existsb (fun l => mem_str s (ls_active (snd l))) (t_langs T).
  Definition okc (c : char) : bool := negb (active_any [c]).

  (* facts about the tables, as a computation *)
  Definition plain_tables_ok : bool :=
    mem_str [36%N] (sp_specials P) && mem_str [123%N] (sp_specials P)
    && mem_str [125%N] (sp_specials P)
    && negb (sp_is_space P 36) && negb (sp_is_space P 92)
    && negb (sp_is_space P 123) && negb (sp_is_space P 125)
    && forallb (fun l => forallb (fun a => match a with
                                           | x :: _ => negb (sp_is_space P x)
                                           | [] => false end)
                                 (ls_active (snd l))) (t_langs T)
    && match t_comment_skip_begin T with c :: _ => N.eqb c c_percent | [] => false end.
  Hypothesis Htab : plain_tables_ok = true.

  Lemma mem_str_in s l : mem_str s l = true -> In s l.
  Proof.
    unfold mem_str. intros H. apply existsb_exists in H. destruct H as (x & Hx & E).
    apply str_eqb_eq in E. subst x. exact Hx.
  Qed.

  Lemma tab_facts :
    In [36%N] (sp_specials P) /\ In [123%N] (sp_specials P) /\ In [125%N] (sp_specials P)
    /\ sp_is_space P 36 = false /\ sp_is_space P 92 = false
    /\ sp_is_space P 123 = false /\ sp_is_space P 125 = false
    /\ (forall l a, In l (t_langs T) -> In a (ls_active (snd l)) ->
                    exists x r, a = x :: r /\ sp_is_space P x = false).
  Proof.
    pose proof Htab as H0. unfold plain_tables_ok in H0.
    repeat (apply andb_true_iff in H0; destruct H0 as [H0 ?]).
    repeat match goal with H : negb _ = true |- _ => apply negb_true_iff in H end.
    split; [apply mem_str_in; assumption|].
    split; [apply mem_str_in; assumption|].
    split; [apply mem_str_in; assumption|].
    split; [assumption|]. split; [assumption|]. split; [assumption|].
    split; [assumption|].
    intros l a Hl Ha.
    match goal with H : forallb _ (t_langs T) = true |- _ =>
      rewrite forallb_forall in H; specialize (H l Hl);
      rewrite forallb_forall in H; specialize (H a Ha) end.
    destruct a as [|x r]; [discriminate|]. exists x, r. split; [reflexivity|].
    apply negb_true_iff. assumption.
  Qed.

  (* tokens of plain text that no language treats as active *)
  Definition etok (t : tok) : Prop := ptok P okc t.
  (* the same without regard to pinning: text generated from a macro body is
     pinned to the call *)
  Definition gtok (t : tok) : Prop := ptok P okc (mk (tk t) (pos t) (txt t) false).
  Lemma etok_gtok t : etok t -> gtok t.
  Proof. intros [_ Hk]. split; [reflexivity | exact Hk]. Qed.

  Lemma assoc_in {A} k (l : list (str * A)) v : assoc k l = Some v -> exists k', In (k', v) l.
  Proof.
    induction l as [|[k' v'] l IH]; simpl; [discriminate|].
    destruct (str_eqb k k'); intros H.
    - inversion H; subst. exists k'. left. reflexivity.
    - destruct (IH H) as [k2 Hk]. exists k2. right. exact Hk.
  Qed.

  Lemma gtok_not_active st t :
    gtok t ->
    match cur_settings T st with
    | Some s => mem_str (txt t) (ls_active s) | None => false end = false.
  Proof.
    intros [Hp Hk]. cbn [tk txt pos pfix mk] in Hk. destruct (cur_settings T st) as [s|] eqn:Ec; [|reflexivity].
    unfold cur_settings in Ec. apply assoc_in in Ec. destruct Ec as [k Hin].
    destruct (mem_str (txt t) (ls_active s)) eqn:Em; [|reflexivity]. exfalso.
    destruct tab_facts as (_ & _ & _ & _ & _ & _ & _ & Hact).
    destruct (tk t); try contradiction.
    - destruct Hk as (c & Et & _ & _ & Hok & _). unfold okc, active_any in Hok.
      apply negb_true_iff in Hok. rewrite Et in Em.
      assert (existsb (fun l => mem_str [c] (ls_active (snd l))) (t_langs T) = true).
      { apply existsb_exists. exists (k, s). split; [exact Hin | exact Em]. }
      congruence.
    - destruct Hk as (c & r & Et & Hsp & _). apply mem_str_in in Em.
      destruct (Hact (k, s) (txt t) Hin Em) as (x & r' & E & Hx). congruence.
    - destruct Hk as (c & r & Et & Hsp & _). apply mem_str_in in Em.
      destruct (Hact (k, s) (txt t) Hin Em) as (x & r' & E & Hx). congruence.
  Qed.

  (* the text of such a token is none of the strings the main loop tests for,
     each of which starts with $, backslash or a brace *)
  Lemma gtok_txt_is t a r :
    gtok t -> In a [36; 92; 123; 125]%N ->
    (a = 92%N -> r <> []) ->
    txt_is t (a :: r) = false.
  Proof.
    intros [Hp Hk] Ha Hr. cbn [tk txt pos pfix mk] in Hk. unfold txt_is.
    destruct tab_facts as (S36 & S123 & S125 & N36 & N92 & N123 & N125 & _).
    assert (Hsp : sp_is_space P a = false).
    { simpl in Ha. destruct Ha as [E|[E|[E|[E|[]]]]]; subst a; assumption. }
    destruct (tk t); try contradiction.
    - destruct Hk as (c & Et & _ & Hb & _ & Hs). rewrite Et. simpl.
      destruct (N.eqb c a) eqn:E; [|reflexivity]. apply N.eqb_eq in E. subst c.
      destruct r as [|y r]; [|reflexivity]. exfalso.
      simpl in Ha. destruct Ha as [E|[E|[E|[E|[]]]]]; subst a.
      + specialize (Hs _ S36). discriminate.
      + apply (Hr eq_refl). reflexivity.
      + specialize (Hs _ S123). discriminate.
      + specialize (Hs _ S125). discriminate.
    - destruct Hk as (c & r' & Et & Hc & _). rewrite Et. simpl.
      destruct (N.eqb c a) eqn:E; [|reflexivity]. apply N.eqb_eq in E. congruence.
    - destruct Hk as (c & r' & Et & Hc & _). rewrite Et. simpl.
      destruct (N.eqb c a) eqn:E; [|reflexivity]. apply N.eqb_eq in E. congruence.
  Qed.

  (* one turn of the main loop: the token goes to the output as it is *)
  Lemma step_seq_gtok rec fuel st t b env_stop rout :
    gtok t ->
    step_seq T rd rec fuel st (t :: b) env_stop rout =
    rec (TSeq b env_stop (t :: rout)) st.
  Proof.
    intros Ht. unfold step_seq.
    assert (H1 : txt_is t (s2l "$") = false)
      by (apply gtok_txt_is; [exact Ht | simpl; tauto | discriminate]).
    assert (H2 : txt_is t (s2l "\(") = false)
      by (apply gtok_txt_is; [exact Ht | simpl; tauto | discriminate]).
    assert (H3 : txt_is t (s2l "$$") = false)
      by (apply gtok_txt_is; [exact Ht | simpl; tauto | discriminate]).
    assert (H4 : txt_is t (s2l "\[") = false)
      by (apply gtok_txt_is; [exact Ht | simpl; tauto | discriminate]).
    assert (H5 : txt_is t (s2l "\\") = false)
      by (apply gtok_txt_is; [exact Ht | simpl; tauto | discriminate]).
    assert (H6 : txt_is t s_lbrace = false)
      by (apply gtok_txt_is; [exact Ht | simpl; tauto | discriminate]).
    assert (H7 : txt_is t s_rbrace = false)
      by (apply gtok_txt_is; [exact Ht | simpl; tauto | discriminate]).
    pose proof (gtok_not_active st t Ht) as Ha.
    rewrite H1, H2, H3, H4, H5, H6, H7. cbn [orb].
    destruct Ht as [Hp Hk]. cbn [tk txt pos pfix mk] in Hk.
    destruct (tk t); try contradiction; rewrite Ha; reflexivity.
  Qed.
  Lemma etok_not_active st t :
    etok t ->
    match cur_settings T st with
    | Some s => mem_str (txt t) (ls_active s) | None => false end = false.
  Proof. intros H. apply gtok_not_active, etok_gtok, H. Qed.
  Lemma etok_txt_is t a r :
    etok t -> In a [36; 92; 123; 125]%N ->
    (a = 92%N -> r <> []) ->
    txt_is t (a :: r) = false.
  Proof. intros H. apply gtok_txt_is, etok_gtok, H. Qed.
  Lemma step_seq_etok rec fuel st t b env_stop rout :
    etok t ->
    step_seq T rd rec fuel st (t :: b) env_stop rout =
    rec (TSeq b env_stop (t :: rout)) st.
  Proof. intros H. apply step_seq_gtok, etok_gtok, H. Qed.

  Lemma etok_keep t : etok t -> is_action t = false /\ keep_out t = true.
  Proof.
    intros [Hp Hk]. unfold is_action, keep_out.
    destruct (tk t); try contradiction.
    - destruct Hk as (c & Et & _). rewrite Et. split; reflexivity.
    - destruct Hk as (c & r & Et & _). rewrite Et. split; reflexivity.
    - destruct Hk as (c & r & Et & _). rewrite Et. split; reflexivity.
  Qed.

  Lemma filter_all {A} (f : A -> bool) l : Forall (fun x => f x = true) l -> filter f l = l.
  Proof. induction 1 as [|x l Hx Hl IH]; simpl; [reflexivity|]. rewrite Hx, IH. reflexivity. Qed.

  (* the main loop over plain tokens: identity *)
  Lemma exec_plain : forall fuel toks rout st r,
    Forall etok toks -> Forall etok rout ->
    exec T rd fuel (TSeq toks None rout) st = Ok r ->
    r = (st, ASeq (rev rout ++ toks) []).
  Proof.
    induction fuel as [|k IH]; intros toks rout st r Ht Hr H; [discriminate|].
    cbn [exec step] in H. destruct toks as [|t b].
    - cbn [step_seq] in H.
      rewrite (rpal_no_action (t_is_space T) (rev rout)) in H.
      + cbn [rbind] in H. inversion H; subst. rewrite app_nil_r.
        rewrite filter_all; [reflexivity|].
        apply Forall_rev. eapply Forall_impl; [|exact Hr].
        intros a Ha. apply etok_keep. exact Ha.
      + apply Forall_rev. eapply Forall_impl; [|exact Hr].
        intros a Ha. apply etok_keep. exact Ha.
    - inversion Ht as [|? ? Ht1 Ht2]; subst.
      rewrite step_seq_etok in H by exact Ht1.
      apply IH in H; [|exact Ht2 | constructor; assumption].
      rewrite H. simpl. rewrite <- app_assoc. reflexivity.
  Qed.

  Lemma find_index_none {A} (f : A -> bool) l :
    Forall (fun x => f x = false) l -> find_index f l = None.
  Proof.
    induction 1 as [|x l Hx Hl IH]; simpl; [reflexivity|]. rewrite Hx, IH. reflexivity.
  Qed.

  Lemma etok_not_skip pre t : etok t -> is_skip pre t = false.
  Proof.
    intros [_ Hk]. unfold is_skip. destruct (tk t); try contradiction; reflexivity.
  Qed.

  Definition plain_doc (latex : str) : Prop := plainb P okc latex = true.

  (* Parser.parser_work on plain text: the tokens of the scanner, the state
     untouched *)
  Lemma parser_work_plain fuel st latex r :
    plain_doc latex ->
    parser_work T (exec T rd fuel) st latex = Ok r ->
    snd r = fst (scan P latex) /\
    extracted (fst r) = extracted st /\ unknowns (fst r) = unknowns st /\
    diags (fst r) = diags st.
  Proof.
    intros Hp H. unfold parser_work in H.
    destruct (scan_plain P latex okc Hp) as (_ & Ftok & Ed).
    destruct (scan P latex) as [toks ds]. cbn [fst snd] in *. subst ds.
    cbn [add_diags fold_left] in H.
    assert (Hs : skip_regions T (S (length toks)) (upd_latex st latex) latex toks
                 = (upd_latex st latex, toks)).
    { cbn [skip_regions]. rewrite find_index_none; [reflexivity|].
      eapply Forall_impl; [|exact Ftok]. intros a Ha. apply etok_not_skip. exact Ha. }
    rewrite Hs in H. unfold expand_fresh in H.
    destruct (exec T rd fuel (TSeq toks None []) (upd_latex st latex)) as [x| | |] eqn:Ee;
      try discriminate.
    apply exec_plain in Ee; [|exact Ftok | constructor]. subst x.
    cbn [rbind fst snd] in H. inversion H; subst. cbn [fst snd].
    repeat split; reflexivity.
  Qed.

  Lemma zseq_shift : forall n a, map (fun x => x + 1) (zseq a n) = zseq (a + 1) n.
  Proof. induction n as [|n IH]; intros a; simpl; [reflexivity|]. rewrite IH. reflexivity. Qed.
End ExecPlain.

(* C06: plain prose is a fixed point of the filter *)
Theorem plain_fixed_point T is_word files lang simple mods latex thresh fuel out :
  plain_tables_ok T = true ->
  plain_doc T latex ->
  run_tex2txt T is_word files lang false simple mods [] latex [] None false
              thresh fuel = Ok out ->
  to_result out = TSingle latex (zseq 1 (length latex)).
Proof.
  intros Htab Hp H. unfold run_tex2txt in H.
  destruct (init_parser _ _ _ _ _ _) as [st| | |]; try discriminate. cbn [rbind] in H.
  destruct (parse _ _ _ _ _ _ _) as [[st' toks]| | |] eqn:Epar; try discriminate.
  cbn [rbind negb] in H. cbv zeta in H.
  cbv beta iota zeta delta [parse] in Epar. cbn [rbind] in Epar. cbv beta iota zeta in Epar.
  match type of Epar with context [parser_work ?T ?r ?s ?l] =>
    destruct (parser_work T r s l) as [x| | |] eqn:Ew end; try discriminate.
  cbn [rbind] in Epar.
  destruct (parser_work_plain T _ Htab _ _ _ _ Hp Ew) as (Es & Ex & _ & _).
  destruct x as [st1 body]. cbn [fst snd] in *. rewrite Ex in Epar. cbn [rbind extracted upd_unknowns upd_extracted] in Epar.
  inversion Epar; subst. clear Epar.
  rewrite !app_nil_r in H. cbn [app] in H.
  destruct (scan_plain (t_scan T) latex (okc T) Hp) as (G & _ & _).
  rewrite G in H. cbv beta iota in H. cbn [rbind] in H. inversion H; subst.
  cbn [to_result]. rewrite zseq_shift. reflexivity.
Qed.

(* the same in multi-language mode: one part, labelled with the language
   given, holding the input with the identity map *)
Lemma sections_no_lang : forall toks stack back brk cur secs,
  Forall (fun t => is_lang t = false) toks ->
  sections toks stack back brk cur secs = flush stack back brk (rev toks ++ cur) secs.
Proof.
  induction toks as [|t r IH]; intros stack back brk cur secs H; [reflexivity|].
  inversion H as [|? ? Ht Hr]; subst. cbn [sections]. unfold is_lang in Ht.
  destruct (tk t); try discriminate; rewrite IH by exact Hr; simpl;
    rewrite <- app_assoc; reflexivity.
Qed.

Theorem plain_fixed_point_multi T is_word files lang simple mods latex thresh fuel out :
  plain_tables_ok T = true ->
  plain_doc T latex -> latex <> [] ->
  run_tex2txt T is_word files lang true simple mods [] latex [] None false
              thresh fuel = Ok out ->
  to_result out = TMulti [(lang, [(latex, zseq 1 (length latex))])].
Proof.
  intros Htab Hp Hne H. unfold run_tex2txt in H.
  destruct (init_parser _ _ _ _ _ _) as [st| | |]; try discriminate. cbn [rbind] in H.
  destruct (parse _ _ _ _ _ _ _) as [[st' toks]| | |] eqn:Epar; try discriminate.
  cbn [rbind negb] in H. cbv zeta in H.
  cbv beta iota zeta delta [parse] in Epar. cbn [rbind] in Epar. cbv beta iota zeta in Epar.
  match type of Epar with context [parser_work ?T ?r ?s ?l] =>
    destruct (parser_work T r s l) as [x| | |] eqn:Ew end; try discriminate.
  cbn [rbind] in Epar.
  destruct (parser_work_plain T _ Htab _ _ _ _ Hp Ew) as (Es & Ex & _ & _).
  destruct x as [st1 body]. cbn [fst snd] in *. rewrite Ex in Epar.
  cbn [rbind extracted upd_unknowns upd_extracted] in Epar.
  inversion Epar; subst. clear Epar.
  rewrite !app_nil_r in H. cbn [app] in H.
  destruct (scan_plain (t_scan T) latex (okc T) Hp) as (G & Ftok & _).
  assert (Hnl : Forall (fun t => is_lang t = false) (fst (scan (t_scan T) latex))).
  { eapply Forall_impl; [|exact Ftok]. intros a [_ Ha]. unfold is_lang.
    destruct (tk a); try contradiction; reflexivity. }
  unfold get_txt_pos_ml in H. rewrite (sections_no_lang _ _ _ _ _ _ Hnl) in H.
  unfold flush in H. rewrite app_nil_r, rev_involutive, G in H.
  destruct latex as [|c latex']; [contradiction|].
  cbn [rev app join_sections length rbind group_lang existsb s_lang s_txt s_pos] in H.
  assert (Hl : str_eqb lang lang = true) by (apply str_eqb_eq; reflexivity).
  cbn [rbind] in H. rewrite Hl in H. cbn [rbind] in H.
  inversion H; subst. cbn [to_result map fst snd].
  rewrite zseq_shift. reflexivity.
Qed.
