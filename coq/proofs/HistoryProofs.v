(* C17: obligations on the generated inventory, and the (structural) frame
   statement for the model. *)
From YV Require Import PyBase Globals History PState Tex2txt.

(* every module-level mutable object of the current source is one of the
   classified ones (constant table / per-process configuration) *)
Lemma globals_are_classified : forallb classified module_globals = true.
Proof. vm_compute. reflexivity. Qed.

(* a history of calls against the model: the store of globals is threaded
   through but the model neither reads nor writes it, so every call returns
   what it returns alone and leaves the store as it was *)
Section Frame.
  Variable G : Type.                         (* the process-global store *)
  Variable A R : Type.                       (* call, result *)
  Variable f : A -> R.                       (* the model of one call *)

  Definition call (g : G) (a : A) : G * R := (g, f a).

  Fixpoint run_history (g : G) (h : list A) : G * list R :=
    match h with
    | [] => (g, [])
    | a :: h' => let '(g1, r) := call g a in
                 let '(g2, rs) := run_history g1 h' in (g2, r :: rs)
    end.

  Lemma history_frame g h : fst (run_history g h) = g.
  Proof.
    revert g; induction h as [|a h IH]; intros g; simpl; [reflexivity|].
    specialize (IH g). destruct (run_history g h) as [g2 rs]. simpl in *. exact IH.
  Qed.

  Lemma history_independent g h : snd (run_history g h) = map f h.
  Proof.
    revert g; induction h as [|a h IH]; intros g; simpl; [reflexivity|].
    specialize (IH g). destruct (run_history g h) as [g2 rs]. simpl in *.
    rewrite IH. reflexivity.
  Qed.
End Frame.
