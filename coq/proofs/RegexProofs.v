(* The iteration scheme of re.finditer (model/Regex.v): the reported spans are
   exactly the leftmost, non-overlapping, non-empty matches. *)
From Coq Require Import Lia.
From YV Require Import PyBase PyBaseProofs Regex.

Definition prev_char_at (txt : str) (i : nat) : option char :=
  match i with O => None | S k => nth_error txt k end.

Section ScanProofs.
  Context {X : Type}.
  Variable mat : option char -> str -> option (nat * X).
  Variable txt : str.
  Hypothesis mat_le : forall prev s m x, mat prev s = Some (m, x) -> m <= length s.

  Definition mat_at (i : nat) : option (nat * X) :=
    mat (prev_char_at txt i) (skipn i txt).
  Definition no_match (j : nat) : Prop :=
    mat_at j = None \/ exists x, mat_at j = Some (0, x).

  Inductive scan_wf : nat -> list (nat * nat * X) -> Prop :=
  | scw_nil lo : (forall j, lo <= j < length txt -> no_match j) -> scan_wf lo []
  | scw_cons lo cur m x rest :
      lo <= cur -> (forall j, lo <= j < cur -> no_match j) -> 1 <= m ->
      mat_at cur = Some (m, x) -> cur + m <= length txt ->
      scan_wf (cur + m) rest -> scan_wf lo ((cur, m, x) :: rest).

  Lemma scan_wf_extend lo l : no_match lo -> scan_wf (S lo) l -> scan_wf lo l.
  Proof.
    intros HQ H. inversion H; subst.
    - constructor. intros j Hj. destruct (Nat.eq_dec j lo); [subst; auto|].
      match goal with H : forall j, _ -> no_match j |- _ => apply H end. lia.
    - constructor; auto; [lia|].
      intros j Hj. destruct (Nat.eq_dec j lo); [subst; auto|].
      match goal with H : forall j, _ -> no_match j |- _ => apply H end. lia.
  Qed.

  Lemma scan_wf_aux : forall s i skip,
    s = skipn i txt -> skip <= length s ->
    scan_wf (i + skip) (scan mat (prev_char_at txt i) s i skip).
  Proof.
    induction s as [|c s IH]; intros i skip Hs Hskip.
    - simpl. constructor. intros j Hj. symmetry in Hs.
      apply skipn_nil_ge in Hs. lia.
    - symmetry in Hs. destruct (skipn_cons_nth _ _ _ _ Hs) as (Hs' & Hn & Hi).
      assert (Hprev : prev_char_at txt (S i) = Some c) by exact Hn.
      assert (Htl : length txt = i + S (length s)).
      { pose proof (f_equal (@length _) Hs) as HL.
        rewrite skipn_length in HL. simpl in HL. lia. }
      simpl. destruct skip as [|k].
      + destruct (mat (prev_char_at txt i) (c :: s)) as [[[|m] x]|] eqn:E.
        * rewrite <- Hprev. replace (i + 0) with i by lia.
          apply scan_wf_extend.
          { right. exists x. unfold mat_at. rewrite Hs. exact E. }
          pose proof (IH (S i) 0 (eq_sym Hs') (Nat.le_0_l _)) as IH0.
          rewrite Nat.add_0_r in IH0. exact IH0.
        * pose proof (mat_le _ _ _ _ E) as Hle. simpl in Hle.
          replace (i + 0) with i by lia.
          apply scw_cons; [lia | intros j Hj; lia | lia | | lia |].
          -- unfold mat_at. rewrite Hs. exact E.
          -- rewrite <- Hprev. replace (i + S m) with (S i + m) by lia.
             apply IH; [auto | lia].
        * rewrite <- Hprev. replace (i + 0) with i by lia.
          apply scan_wf_extend.
          { left. unfold mat_at. rewrite Hs. exact E. }
          pose proof (IH (S i) 0 (eq_sym Hs') (Nat.le_0_l _)) as IH0.
          rewrite Nat.add_0_r in IH0. exact IH0.
      + rewrite <- Hprev. replace (i + S k) with (S i + k) by lia.
        apply IH; [auto | simpl in Hskip; lia].
  Qed.

  Theorem finditer_x_wf : scan_wf 0 (finditer_x mat txt).
  Proof.
    pose proof (scan_wf_aux txt 0 0 eq_refl (Nat.le_0_l _)) as H. exact H.
  Qed.

  (* consequences used by the property files *)
  Lemma scan_wf_in lo l cur m x :
    scan_wf lo l -> In (cur, m, x) l ->
    lo <= cur /\ 1 <= m /\ cur + m <= length txt /\ mat_at cur = Some (m, x).
  Proof.
    induction 1 as [|lo c0 m0 x0 rest Hlo HQ Hm HP Hle Hwf IH]; intros Hin;
      [contradiction|].
    destruct Hin as [E|Hin].
    - inversion E; subst.
      split; [exact Hlo|]. split; [exact Hm|]. split; [exact Hle | exact HP].
    - destruct (IH Hin) as (A & B & C & D).
      split; [lia|]. split; [exact B|]. split; [exact C | exact D].
  Qed.

  (* a position that is not inside a reported span and not before lo has no
     non-empty match *)
  Lemma scan_wf_complete lo l j :
    scan_wf lo l -> lo <= j < length txt ->
    (forall cur m x, In (cur, m, x) l -> ~ (cur <= j < cur + m)) ->
    no_match j.
  Proof.
    induction 1 as [lo HQ|lo c0 m0 x0 rest Hlo HQ Hm HP Hle Hwf IH];
      intros Hj Hout.
    - apply HQ. exact Hj.
    - destruct (Nat.lt_ge_cases j c0) as [Hlt|Hge]; [apply HQ; lia|].
      assert (Hnot : ~ (c0 <= j < c0 + m0)) by (apply (Hout c0 m0 x0); left; reflexivity).
      apply IH; [lia|]. intros cur m x Hin. apply (Hout cur m x). right. exact Hin.
  Qed.
End ScanProofs.
