(* C13: the statements of the property, assembled from ReplaceProofs and
   PhraseLang, for the character tables generated from the interpreter. *)
From Coq Require Import Lia.
From YV Require Import PyBase PyBaseProofs CharTables Replace ReplaceProofs PhraseLang.

(* table obligations: blank, tab and line break are white space for split() *)
Lemma tbl_space_blank : forall c, is_blank c = true -> py_isspace c = true.
Proof.
  intros c H. unfold is_blank in H. apply orb_true_iff in H.
  destruct H as [H|H]; apply N.eqb_eq in H; subst c; vm_compute; reflexivity.
Qed.
Lemma tbl_space_nl : py_isspace c_nl = true.
Proof. vm_compute. reflexivity. Qed.

Definition bnd := boundary py_word.

(* what a reported match is: an occurrence of the phrase language with the
   word boundaries the rule demands *)
Definition occurrence (ws : list str) (txt : str) (i m : nat) : Prop :=
  (exists u r, skipn i txt = u ++ r /\ length u = m /\ phrase_lang ws u) /\
  (bound_start py_isalpha ws = true ->
     bnd (prev_at txt i) (hd_error (skipn i txt)) = true) /\
  (bound_end py_isalpha ws = true ->
     bnd (nth_error (skipn i txt) (m - 1)) (nth_error (skipn i txt) m) = true).

Lemma match_at_occurrence ws txt i m :
  mat py_word ws (bound_start py_isalpha ws) (bound_end py_isalpha ws) txt i
    = Some m -> occurrence ws txt i m.
Proof.
  unfold mat, match_at, occurrence, bnd. intros H.
  destruct (bound_start py_isalpha ws) eqn:Bs;
  destruct (boundary py_word (prev_at txt i) (hd_error (skipn i txt))) eqn:B1;
  cbn [andb negb] in H; try discriminate H;
  (destruct (match_phrase ws (skipn i txt)) as [k|] eqn:E; [|discriminate H]);
  destruct (bound_end py_isalpha ws) eqn:Be;
  destruct (boundary py_word (nth_error (skipn i txt) (k - 1))
              (nth_error (skipn i txt) k)) eqn:B2;
  cbn [andb negb] in H; try discriminate H;
  inversion H; subst; clear H;
  (split; [apply match_phrase_sound; exact E|]);
  (split; intros C; try discriminate C; auto).
Qed.

Lemma occurrence_match_at ws txt i m :
  Forall word_ok ws -> occurrence ws txt i m ->
  mat py_word ws (bound_start py_isalpha ws) (bound_end py_isalpha ws) txt i
    = Some m.
Proof.
  intros Hok ((u & r & Es & Hu & Hph) & B1 & B2).
  unfold mat, match_at.
  rewrite Es at 2. rewrite (match_phrase_complete ws u r Hok Hph). rewrite Hu.
  destruct (bound_start py_isalpha ws).
  - unfold bnd in B1. rewrite (B1 eq_refl). simpl.
    destruct (bound_end py_isalpha ws); [|reflexivity].
    unfold bnd in B2. rewrite (B2 eq_refl). reflexivity.
  - simpl. destruct (bound_end py_isalpha ws); [|reflexivity].
    unfold bnd in B2. rewrite (B2 eq_refl). reflexivity.
Qed.

(* the words of a parsed rule line are words in the sense of PhraseLang *)
Lemma rule_words_ok lin : Forall word_ok (r_words (parse_rule py_isspace lin)).
Proof. apply parse_rule_words_ok; [exact tbl_space_blank | exact tbl_space_nl]. Qed.

Lemma rule_words_no_nl lin :
  Forall (fun w => count_char c_nl w = 0) (r_words (parse_rule py_isspace lin)).
Proof.
  unfold parse_rule. simpl. apply take_while_Forall.
  eapply Forall_impl; [|apply split_ws_ok].
  intros w Hw. eapply nospace_no_nl; [exact tbl_space_nl | exact Hw].
Qed.

(* replaced spans are exactly the leftmost occurrences: P = occurrence with
   m >= 1, Q = no non-empty occurrence starts here *)
Lemma P_rule_occurrence ws txt i m :
  P_rule py_isalpha py_word ws txt i m -> occurrence ws txt i m /\ 1 <= m.
Proof.
  intros [H Hm]. split; [apply match_at_occurrence; exact H | exact Hm].
Qed.

Lemma Q_rule_no_occurrence ws txt i m :
  Forall word_ok ws -> Q_rule py_isalpha py_word ws txt i ->
  occurrence ws txt i m -> m = 0.
Proof.
  intros Hok HQ Hocc. apply occurrence_match_at in Hocc; [|exact Hok].
  destruct HQ as [HQ|HQ]; unfold Q_rule, Qm in *;
    unfold P_rule, Pm in *; rewrite Hocc in HQ; [discriminate|].
  inversion HQ. reflexivity.
Qed.
