(* C08: utils.latex_error -- the diagnostic names line and column of the
   position, the tokens hold the complete mark, pinned, the first of them at
   that position. *)
From Coq Require Import Lia.
From YV Require Import PyBase PyBaseProofs ShellMap ShellMapProofs Token Utils.
Open Scope Z_scope.

Lemma zslice_split {A} (s : list A) mx :
  0 <= mx <= zlen s -> zslice s 0 mx ++ zslice s mx (zlen s) = s.
Proof.
  intros H. unfold zslice, zlen in *. rewrite !norm_idx_id by lia.
  unfold pyslice. simpl. rewrite Nat.sub_0_r, Nat2Z.id.
  rewrite (firstn_all2 (n := length s - Z.to_nat mx)); [apply firstn_skipn|].
  rewrite skipn_length. lia.
Qed.

Section LatexError.
  Variable mark : str.
  Variable verbose : bool.

  Theorem latex_error_spec err p latex :
    0 <= p <= zlen latex ->
    let d := fst (latex_error mark verbose err p latex) in
    let ts := snd (latex_error mark verbose err p latex) in
    (d_line d, d_col d) = text_loc latex p /\ d_msg d = err /\
    flat_map txt ts = error_mark mark verbose err /\
    Forall (fun t => pfix t = true /\ tk t = KText) ts /\
    (p < zlen latex ->
     exists t r, ts = t :: r /\ pos t = p /\ txt t <> [] /\
                 Forall (fun t => p <= pos t < zlen latex) r).
  Proof.
    intros Hp. unfold latex_error. cbn [fst snd d_line d_col d_msg].
    set (mk_ := error_mark mark verbose err).
    set (mx := Z.min (zlen mk_) (zlen latex - p)).
    assert (Hne : 1 <= zlen mk_) by (unfold mk_, error_mark, zlen; simpl; lia).
    assert (Hmx : 0 <= mx <= zlen mk_) by (unfold mx, zlen in *; lia).
    split; [reflexivity|]. split; [reflexivity|].
    assert (Hfirst : p < zlen latex -> zslice mk_ 0 mx <> []).
    { intros Hlt E. apply (f_equal (@length _)) in E. unfold zslice in E.
      unfold zlen in *. rewrite pyslice_length in E; rewrite ?norm_idx_id; try lia.
      rewrite !norm_idx_id in E by lia. simpl in E. unfold mx in *. lia. }
    destruct (mx <? zlen mk_) eqn:E.
    - apply Z.ltb_lt in E. split; [|split].
      + simpl. rewrite app_nil_r. apply zslice_split. exact Hmx.
      + repeat constructor.
      + intros Hlt. eexists _, _. split; [reflexivity|]. split; [reflexivity|].
        split; [apply Hfirst; exact Hlt|]. repeat constructor; simpl; unfold mx; lia.
    - apply Z.ltb_ge in E. assert (mx = zlen mk_) by lia. split; [|split].
      + simpl. rewrite app_nil_r. rewrite H.
        pose proof (zslice_split mk_ (zlen mk_) ltac:(unfold zlen; lia)) as Hs.
        unfold zslice at 2 in Hs. unfold pyslice in Hs. rewrite Nat.sub_diag in Hs.
        simpl in Hs. rewrite app_nil_r in Hs. exact Hs.
      + repeat constructor.
      + intros Hlt. eexists _, _. split; [reflexivity|]. split; [reflexivity|].
        split; [apply Hfirst; exact Hlt | constructor].
  Qed.
End LatexError.

(* ---- a mark never comes without a diagnostic ---- *)
From YV Require Import Scanner PState Parser.

Section ErrSites.
  Variable T : tables.

  (* the expander's helper: the mark tokens are those of latex_error for the
     text being parsed, and the diagnostic is recorded in the same step *)
  Theorem err_spec st msg p :
    let r := err T st msg p in
    let le := latex_error (sp_mark (t_scan T)) (sp_verbose (t_scan T)) msg p (cur_latex st) in
    snd r = snd le /\ diags (fst r) = fst le :: diags st /\
    unknowns (fst r) = unknowns st /\ macros (fst r) = macros st.
  Proof.
    unfold err. destruct (latex_error _ _ _ _ _) as [d ts]. simpl.
    repeat split; reflexivity.
  Qed.

  (* the scanner: a pinned token (an error mark) comes with exactly one
     diagnostic, any other token with none *)
  Theorem next_token_mark_iff_diag latex s start :
    let r := next_token (t_scan T) latex s start in
    (pfix (fst (fst r)) = true /\ length (snd r) = 1%nat) \/
    (pfix (fst (fst r)) = false /\ snd r = []).
  Proof.
    assert (Ferr : forall e (n : nat),
      let r := (let '(d, t) := err_token (t_scan T) latex e start in (t, n, [d])) in
      (pfix (fst (fst r)) = true /\ length (snd r) = 1%nat) \/
      (pfix (fst (fst r)) = false /\ snd r = [])).
    { intros e n. unfold err_token. destruct (latex_error _ _ _ _ _) as [d ts].
      left. split; reflexivity. }
    unfold next_token. destruct s as [|c s']; [right; split; reflexivity|].
    destruct (is_sp _ c); [destruct (Nat.ltb _ 2); right; split; reflexivity|].
    destruct (N.eqb c c_percent).
    { match goal with |- context [if ?b then _ else _] => destruct b end;
        right; split; reflexivity. }
    destruct (N.eqb c c_hash).
    { destruct s' as [|d s'']; [right; split; reflexivity|].
      destruct (sp_is_decimal _ d); right; split; reflexivity. }
    destruct (find _ _); [right; split; reflexivity|].
    destruct (N.eqb c c_backslash); [|right; split; reflexivity].
    set (n := match index_where _ s' with O => _ | _ => _ end).
    destruct (str_eqb (firstn (S n) (c :: s')) s_begin).
    { match goal with |- context [if ?b then _ else _] => destruct b end;
        [right; split; reflexivity|].
      destruct (find_sub _ _); [right; split; reflexivity | apply Ferr]. }
    destruct (str_eqb _ s_end); [right; split; reflexivity|].
    destruct (str_eqb _ s_item); [right; split; reflexivity|].
    destruct (str_eqb _ s_verb).
    { destruct (skipn (S n) (c :: s')) as [|dl body]; [apply Ferr|].
      destruct (nth_error body _) as [x|]; [|apply Ferr].
      destruct (N.eqb x c_nl); [apply Ferr | right; split; reflexivity]. }
    destruct (existsb _ _); right; split; reflexivity.
  Qed.
End ErrSites.
