(* Proofs about coq/model/Html.v (property C16). *)
From Coq Require Import Lia String Ascii.
From YV Require Import PyBase PyBaseProofs ShellMap Html.
Local Open Scope string_scope.
Local Open Scope list_scope.

Local Arguments N.eqb : simpl never.

(* ---- protect_html is a character-wise map ---- *)
Definition protect_char (c : char) : str :=
  if N.eqb c 38 then s2l "&amp;"
  else if N.eqb c 34 then s2l "&quot;"
  else if N.eqb c 60 then s2l "&lt;"
  else if N.eqb c 62 then s2l "&gt;"
  else if N.eqb c 9 then ensp ++ ensp ++ ensp ++ ensp ++ ensp ++ ensp ++ ensp ++ ensp
  else if N.eqb c 32 then ensp
  else if N.eqb c 10 then br_nl
  else [c].

Lemma flat_map_flat_map {A B C} (f : A -> list B) (g : B -> list C) l :
  flat_map g (flat_map f l) = flat_map (fun x => flat_map g (f x)) l.
Proof.
  induction l as [|x l IH]; simpl; [reflexivity|].
  rewrite flat_map_app, IH. reflexivity.
Qed.

Lemma flat_map_ext' {A B} (f g : A -> list B) l :
  (forall x, f x = g x) -> flat_map f l = flat_map g l.
Proof. intros H. induction l as [|x l IH]; simpl; [reflexivity|]. rewrite H, IH. reflexivity. Qed.

Lemma sub_char_single k r c : sub_char k r [c] = if N.eqb c k then r else [c].
Proof. unfold sub_char. simpl. rewrite app_nil_r. reflexivity. Qed.

Theorem protect_html_spec s : protect_html s = flat_map protect_char s.
Proof.
  unfold protect_html.
  replace s with (flat_map (fun c => [c]) s) at 1
    by (induction s as [|c s IH]; simpl; [reflexivity | f_equal; exact IH]).
  unfold sub_char. rewrite !flat_map_flat_map.
  apply flat_map_ext'. intros c.
  unfold protect_char.
  (* decide which of the seven characters c is, then compute *)
  destruct (N.eqb c 38) eqn:E1; [apply N.eqb_eq in E1; subst c; vm_compute; reflexivity|].
  destruct (N.eqb c 34) eqn:E2; [apply N.eqb_eq in E2; subst c; vm_compute; reflexivity|].
  destruct (N.eqb c 60) eqn:E3; [apply N.eqb_eq in E3; subst c; vm_compute; reflexivity|].
  destruct (N.eqb c 62) eqn:E4; [apply N.eqb_eq in E4; subst c; vm_compute; reflexivity|].
  destruct (N.eqb c 9) eqn:E5; [apply N.eqb_eq in E5; subst c; vm_compute; reflexivity|].
  destruct (N.eqb c 32) eqn:E6; [apply N.eqb_eq in E6; subst c; vm_compute; reflexivity|].
  destruct (N.eqb c 10) eqn:E7; [apply N.eqb_eq in E7; subst c; vm_compute; reflexivity|].
  cbn [flat_map app]. rewrite E1. cbn [flat_map app]. rewrite E2.
  cbn [flat_map app]. rewrite E3. cbn [flat_map app]. rewrite E4.
  cbn [flat_map app]. rewrite E5. cbn [flat_map app]. rewrite E6.
  cbn [flat_map app]. rewrite E7. reflexivity.
Qed.

Corollary protect_html_app a b : protect_html (a ++ b) = protect_html a ++ protect_html b.
Proof. rewrite !protect_html_spec. apply flat_map_app. Qed.

(* ---- the output cannot contain markup ---- *)
Definition entities : list str :=
  [s2l "&amp;"; s2l "&quot;"; s2l "&lt;"; s2l "&gt;"; ensp].

Definition plain_char (c : char) : Prop := c <> 38%N /\ c <> 34%N /\ c <> 60%N /\ c <> 62%N.

(* text between tags: ordinary characters, the five entities, and the line
   break mark -- nothing else contains the four markup characters *)
Inductive safe_html : str -> Prop :=
| sh_nil : safe_html []
| sh_char c r : plain_char c -> safe_html r -> safe_html (c :: r)
| sh_ent e r : In e entities -> safe_html r -> safe_html (e ++ r)
| sh_br r : safe_html r -> safe_html (br_nl ++ r).

Lemma safe_html_app a b : safe_html a -> safe_html b -> safe_html (a ++ b).
Proof.
  induction 1 as [|c r Hc Hr IH|e r He Hr IH|r Hr IH]; intros Hb.
  - exact Hb.
  - simpl. constructor; auto.
  - rewrite <- app_assoc. apply sh_ent; auto.
  - rewrite <- app_assoc. apply sh_br; auto.
Qed.

Lemma safe_ensp r : safe_html r -> safe_html (ensp ++ r).
Proof. intros H. apply sh_ent; [|exact H]. unfold entities. simpl. auto 10. Qed.

Lemma protect_char_safe c : safe_html (protect_char c).
Proof.
  unfold protect_char.
  destruct (N.eqb c 38) eqn:E1.
  { replace (s2l "&amp;") with (s2l "&amp;" ++ []) by apply app_nil_r.
    apply sh_ent; [simpl; auto | constructor]. }
  destruct (N.eqb c 34) eqn:E2.
  { replace (s2l "&quot;") with (s2l "&quot;" ++ []) by apply app_nil_r.
    apply sh_ent; [simpl; auto | constructor]. }
  destruct (N.eqb c 60) eqn:E3.
  { replace (s2l "&lt;") with (s2l "&lt;" ++ []) by apply app_nil_r.
    apply sh_ent; [simpl; auto | constructor]. }
  destruct (N.eqb c 62) eqn:E4.
  { replace (s2l "&gt;") with (s2l "&gt;" ++ []) by apply app_nil_r.
    apply sh_ent; [simpl; auto 10 | constructor]. }
  destruct (N.eqb c 9) eqn:E5.
  { do 7 apply safe_ensp. replace ensp with (ensp ++ []) by apply app_nil_r.
    apply safe_ensp. constructor. }
  destruct (N.eqb c 32) eqn:E6.
  { replace ensp with (ensp ++ []) by apply app_nil_r. apply safe_ensp. constructor. }
  destruct (N.eqb c 10) eqn:E7.
  { replace br_nl with (br_nl ++ []) by apply app_nil_r. apply sh_br. constructor. }
  apply sh_char; [|constructor].
  apply N.eqb_neq in E1, E2, E3, E4. repeat split; assumption.
Qed.

Theorem protect_html_safe s : safe_html (protect_html s).
Proof.
  rewrite protect_html_spec. induction s as [|c s IH]; simpl; [constructor|].
  apply safe_html_app; [apply protect_char_safe | exact IH].
Qed.

(* ---- decoding gives the source back (tabs expanded) ---- *)
Definition expand_tab (c : char) : str := if N.eqb c 9 then repeat 32%N 8 else [c].

(* decodes h t: the browser shows t for the character data h *)
Inductive decodes : str -> str -> Prop :=
| dc_nil : decodes [] []
| dc_char c h t : plain_char c -> decodes h t -> decodes (c :: h) (c :: t)
| dc_amp h t : decodes h t -> decodes (s2l "&amp;" ++ h) (38%N :: t)
| dc_quot h t : decodes h t -> decodes (s2l "&quot;" ++ h) (34%N :: t)
| dc_lt h t : decodes h t -> decodes (s2l "&lt;" ++ h) (60%N :: t)
| dc_gt h t : decodes h t -> decodes (s2l "&gt;" ++ h) (62%N :: t)
| dc_ensp h t : decodes h t -> decodes (ensp ++ h) (32%N :: t)
| dc_br h t : decodes h t -> decodes (br_nl ++ h) (10%N :: t).

Theorem protect_html_decodes s : decodes (protect_html s) (flat_map expand_tab s).
Proof.
  rewrite protect_html_spec. induction s as [|c s IH]; simpl; [constructor|].
  unfold protect_char, expand_tab.
  destruct (N.eqb c 38) eqn:E1; [apply N.eqb_eq in E1; subst c; apply dc_amp; exact IH|].
  destruct (N.eqb c 34) eqn:E2; [apply N.eqb_eq in E2; subst c; apply dc_quot; exact IH|].
  destruct (N.eqb c 60) eqn:E3; [apply N.eqb_eq in E3; subst c; apply dc_lt; exact IH|].
  destruct (N.eqb c 62) eqn:E4; [apply N.eqb_eq in E4; subst c; apply dc_gt; exact IH|].
  destruct (N.eqb c 9) eqn:E5.
  { rewrite <- !app_assoc. simpl repeat. simpl app at 9.
    repeat (apply dc_ensp). exact IH. }
  destruct (N.eqb c 32) eqn:E6; [apply N.eqb_eq in E6; subst c; apply dc_ensp; exact IH|].
  destruct (N.eqb c 10) eqn:E7; [apply N.eqb_eq in E7; subst c; apply dc_br; exact IH|].
  simpl. apply dc_char; [|exact IH].
  apply N.eqb_neq in E1, E2, E3, E4. repeat split; assumption.
Qed.

(* ---- splitting at '<br>\n' loses nothing ---- *)
Lemma starts_with_split p : forall s,
  starts_with p s = true -> s = p ++ skipn (length p) s.
Proof.
  induction p as [|x p IH]; intros s H; simpl in *; [reflexivity|].
  destruct s as [|y s]; [discriminate|].
  apply andb_true_iff in H. destruct H as [E H]. apply N.eqb_eq in E. subst y.
  simpl. f_equal. apply IH. exact H.
Qed.

Lemma starts_with_len p : forall s, starts_with p s = true -> (length p <= length s)%nat.
Proof.
  induction p as [|x p IH]; intros [|y s] H; simpl in *; try lia; try discriminate.
  apply andb_true_iff in H. destruct H as [_ H]. apply IH in H. lia.
Qed.

Lemma join_br_cons f x l :
  join_br f (x :: l) = (f (fst x) ++ (if snd x then br_nl else [])) ++ join_br f l.
Proof. reflexivity. Qed.

Lemma join_split_br_aux : forall s cur k,
  (k <= length s)%nat -> (k <> 0%nat -> cur = []) ->
  join_br (fun l => l) (split_br_aux s cur k) = rev cur ++ skipn k s.
Proof.
  induction s as [|c s IH]; intros cur k Hk Hcur; cbn [split_br_aux].
  - assert (k = 0%nat) by (simpl in Hk; lia). subst k. simpl.
    destruct cur as [|x cur]; simpl; [reflexivity|]. rewrite !app_nil_r. reflexivity.
  - destruct k as [|k].
    + destruct (starts_with br_nl (c :: s)) eqn:E.
      * rewrite join_br_cons. cbn [fst snd].
        pose proof (starts_with_len _ _ E) as HL.
        change (length br_nl) with 5%nat in HL. cbn [length] in HL.
        rewrite IH by (try lia; auto).
        cbn [rev app].
        pose proof (starts_with_split _ _ E) as HS.
        change (length br_nl) with 5%nat in HS. cbn [skipn] in HS.
        cbn [skipn]. rewrite HS at 1. rewrite <- !app_assoc. reflexivity.
      * rewrite IH by (simpl; try lia; intros C; contradiction).
        simpl. rewrite <- app_assoc. reflexivity.
    + specialize (Hcur ltac:(discriminate)). subst cur.
      rewrite IH by (simpl in Hk; try lia; auto). reflexivity.
Qed.

Theorem join_split_br s : join_br (fun l => l) (split_br s) = s.
Proof.
  unfold split_br. rewrite join_split_br_aux; [reflexivity | lia | intros C; contradiction].
Qed.

(* the text of a highlighted stretch, with the tags removed, is the escaped
   source stretch: generate_highlight only wraps each line into pre / post *)
Definition strip_wrap (pre post : str) (ls : list (str * bool)) : str :=
  join_br (fun l => l) ls.

Theorem highlight_keeps_text st stu m s lin unsure :
  exists pre post,
    generate_highlight st stu m s lin unsure =
      join_br (fun l => pre ++ l ++ post) (split_br (protect_html s)) /\
    join_br (fun l => l) (split_br (protect_html s)) = protect_html s.
Proof.
  unfold generate_highlight. destruct (begin_tag st stu m lin unsure) as [pre eh].
  exists pre, (eh ++ s2l "</span>"). split; [reflexivity | apply join_split_br].
Qed.
