(* Theorems about single steps of the expander (coq/model/Parser.v, Expand.v,
   Math.v): TeX substitution of macro bodies (C09), the unknowns list (C19),
   the rotation of placeholders (C10). *)
From Coq Require Import Lia String.
From YV Require Import PyBase PyBaseProofs ShellMap Token Utils Scanner Rpal PState
                       Parser Expand Math.
Open Scope Z_scope.

(* ------------------------------------------------------------------ *)
(*  C09: generate_replacements is substitution                          *)
(* ------------------------------------------------------------------ *)
Definition shape (t : tok) : kind * str := (tk t, txt t).
Definition noact (l : list tok) : list tok := filter (fun t => negb (is_action t)) l.

Definition arg_of (args : list (list tok)) (n : nat) : list tok :=
  match nth_arg args n with Ok a => a | _ => [] end.

(* the body with every #n replaced by the n-th argument *)
Definition subst_body (args : list (list tok)) (body : list tok) : list tok :=
  flat_map (fun t => match is_arg t with
                     | Some n => arg_of args n
                     | None => [t] end) body.

Lemma noact_app a b : noact (a ++ b) = noact a ++ noact b.
Proof. unfold noact. apply filter_app. Qed.

Theorem gen_repl_subst args : forall body cur r,
  gen_repl args body cur = Ok r ->
  map shape (noact r) = map shape (noact (subst_body args body)).
Proof.
  induction body as [|t body IH]; intros cur r H; simpl in H.
  - inversion H; subst. reflexivity.
  - unfold subst_body. simpl. fold (subst_body args body).
    destruct (is_arg t) as [n|] eqn:Ea.
    + unfold arg_of. destruct (nth_arg args n) as [a| | |]; cbn [rbind] in H; try discriminate.
      destruct a as [|x a'].
      * simpl. eapply IH. exact H.
      * simpl in H. destruct (rev a' ++ [x]) as [|y ra] eqn:Er.
        { apply (f_equal (@length _)) in Er. rewrite app_length in Er. simpl in Er. lia. }
        destruct (gen_repl args body (pos y)) as [rest| | |] eqn:Eg; cbn [rbind] in H; try discriminate.
        inversion H; subst.
        replace (ActionT (pos x) :: x :: a' ++ ActionT (pos y) :: rest)
          with ([ActionT (pos x)] ++ (x :: a') ++ [ActionT (pos y)] ++ rest) by reflexivity.
        rewrite !noact_app, !map_app. rewrite (IH _ _ Eg). reflexivity.
    + destruct (gen_repl args body cur) as [rest| | |] eqn:Eg; cbn [rbind] in H; try discriminate.
      inversion H; subst.
      replace (set_pos_fix t cur :: rest) with ([set_pos_fix t cur] ++ rest) by reflexivity.
      rewrite !noact_app, !map_app. rewrite (IH _ _ Eg). f_equal.
      unfold noact. simpl. unfold is_action. simpl. destruct (tk t); reflexivity.
Qed.

(* argument tokens are inserted as they are (own text, own position); every
   other token of the result is an action token or a body token pinned at the
   start position or at an end of an argument *)
Definition arg_ends (args : list (list tok)) (p : Z) : Prop :=
  exists a x, In a args /\ In x a /\ p = pos x.

Theorem gen_repl_positions args : forall body cur r,
  gen_repl args body cur = Ok r ->
  Forall (fun t => (exists a, In a args /\ In t a) \/
                   (is_action t = true /\ arg_ends args (pos t)) \/
                   (pfix t = true /\ (pos t = cur \/ arg_ends args (pos t)))) r.
Proof.
  assert (Hnth : forall n a, nth_arg args n = Ok a -> a = [] \/ In a args).
  { intros n a H. destruct n; simpl in H.
    - unfold py_last in H. destruct (rev args) as [|z r] eqn:E; inversion H; subst.
      right. apply in_rev. rewrite E. left. reflexivity.
    - unfold py_nth in H. destruct (nth_error args n) eqn:E; inversion H; subst.
      right. eapply nth_error_In. exact E. }
  induction body as [|t body IH]; intros cur r H; simpl in H.
  - inversion H; subst. constructor.
  - destruct (is_arg t) as [n|] eqn:Ea.
    + destruct (nth_arg args n) as [a| | |] eqn:En; cbn [rbind] in H; try discriminate.
      destruct a as [|x a'].
      * apply IH in H. exact H.
      * simpl in H. destruct (rev a' ++ [x]) as [|y ra] eqn:Er.
        { apply (f_equal (@length _)) in Er. rewrite app_length in Er. simpl in Er. lia. }
        destruct (gen_repl args body (pos y)) as [rest| | |] eqn:Eg; cbn [rbind] in H; try discriminate.
        inversion H; subst.
        destruct (Hnth _ _ En) as [Hn|Hin]; [discriminate|].
        assert (Hy : In y (x :: a')) by (apply in_rev; simpl; rewrite Er; left; reflexivity).
        constructor.
        { right. left. split; [reflexivity|]. exists (x :: a'), x.
          repeat split; [exact Hin | left; reflexivity]. }
        replace (x :: a' ++ ActionT (pos y) :: rest)
          with ((x :: a') ++ ActionT (pos y) :: rest) by reflexivity.
        apply Forall_app. split.
        { apply Forall_forall. intros z Hz. left. exists (x :: a'). split; assumption. }
        constructor.
        { right. left. split; [reflexivity|]. exists (x :: a'), y.
          repeat split; assumption. }
        apply IH in Eg. eapply Forall_impl; [|exact Eg]. cbv beta.
        intros z [Hz|[Hz|[Hp [Hz|Hz]]]]; [left; exact Hz | right; left; exact Hz | |].
        -- right. right. split; [exact Hp|]. right. exists (x :: a'), y.
           repeat split; assumption.
        -- right. right. split; [exact Hp|]. right. exact Hz.
    + destruct (gen_repl args body cur) as [rest| | |] eqn:Eg; cbn [rbind] in H; try discriminate.
      inversion H; subst. constructor.
      * right. right. split; [reflexivity|]. left. reflexivity.
      * apply IH in Eg. exact Eg.
Qed.

(* ------------------------------------------------------------------ *)
(*  C19: the unknowns list                                              *)
(* ------------------------------------------------------------------ *)
Definition add_unknown (l : list str) (name : str) : list str :=
  if mem_str name l then l else l ++ [name].

Lemma mem_str_iff s l : mem_str s l = true <-> In s l.
Proof.
  unfold mem_str. rewrite existsb_exists. split.
  - intros (x & Hx & E). apply str_eqb_eq in E. subst. exact Hx.
  - intros H. exists s. split; [exact H | apply str_eqb_eq; reflexivity].
Qed.

Lemma NoDup_snoc {A} (l : list A) x : NoDup l -> ~ In x l -> NoDup (l ++ [x]).
Proof.
  induction 1 as [|a l Ha Hl IH]; intros Hx; simpl.
  - constructor; [intros [] | constructor].
  - constructor.
    + intros H. apply in_app_or in H. destruct H as [H|[H|[]]]; [exact (Ha H)|].
      apply Hx. left. symmetry. exact H.
    + apply IH. intros H. apply Hx. right. exact H.
Qed.

Lemma add_unknown_spec l name :
  NoDup l ->
  NoDup (add_unknown l name) /\ In name (add_unknown l name) /\
  (exists r, add_unknown l name = l ++ r) /\
  (forall x, In x (add_unknown l name) <-> In x l \/ x = name).
Proof.
  intros Hn. unfold add_unknown. destruct (mem_str name l) eqn:E.
  - apply mem_str_iff in E. repeat split; try assumption.
    + exists []. rewrite app_nil_r. reflexivity.
    + intros H; left; exact H.
    + intros [H|H]; [exact H | subst; exact E].
  - assert (~ In name l) as Hni.
    { intros H. apply mem_str_iff in H. congruence. }
    repeat split.
    + apply NoDup_snoc; assumption.
    + apply in_or_app. right. left. reflexivity.
    + exists [name]. reflexivity.
    + intros H. apply in_app_or in H. destruct H as [H|[H|[]]]; [left; exact H | right; symmetry; exact H].
    + intros [H|H]; apply in_or_app; [left; exact H | right; left; symmetry; exact H].
Qed.

Section Unknowns.
  Variable T : tables.
  Variable rd : str -> option str.
  Variable rec : recfun.

  (* a macro that is not declared at the point of use: outside maths its
     name is appended to the list unless it is there already, inside maths
     the list is not touched; nothing else of the state changes, the macro
     leaves no text *)
  Theorem expand_macro_undeclared fuel st buf t math :
    assoc (txt t) (macros st) = None ->
    exists st',
      expand_macro T rd rec fuel st buf t math = Ok (st', ([ActionT (pos t)], skip_ctl buf)) /\
      unknowns st' = (if math then unknowns st else add_unknown (unknowns st) (txt t)) /\
      macros st' = macros st /\ environs st' = environs st.
  Proof.
    intros H. unfold expand_macro. rewrite H. unfold add_unknown.
    destruct math; simpl.
    - eexists. repeat split.
    - destruct (mem_str (txt t) (unknowns st)); eexists; repeat split.
  Qed.

  (* a declared macro is never put on the list by this step *)
  Theorem expand_macro_declared fuel st buf t math mac :
    assoc (txt t) (macros st) = Some mac ->
    expand_macro T rd rec fuel st buf t math =
    expand_arguments T rd rec fuel st (skip_ctl buf) mac (pos t).
  Proof. intros H. unfold expand_macro. rewrite H. reflexivity. Qed.
End Unknowns.

(* the skip behind a control word ends where a macro argument ended: the
   replacement of #n is  action token, argument, action token  (gen_repl), so
   a control word as the last token of an argument finds an action token
   behind it and the blank behind the closing brace is kept (C05) *)
Lemma skip_ctl_stops pre a b :
  Forall (fun t => buf_is_space t = true) pre -> is_action a = true \/ is_lang a = true ->
  exists pre', skip_ctl (pre ++ a :: b) = pre' ++ a :: b.
Proof.
  intros Hp Ha. induction Hp as [|t pre Ht Hp IH]; cbn [app skip_ctl].
  - exists []. cbn [app]. destruct (buf_is_space a); cbn [andb]; [|reflexivity].
    destruct Ha as [Ha|Ha]; rewrite Ha; cbn [negb andb]; [|reflexivity].
    destruct (negb (is_lang a)); reflexivity.
  - destruct IH as (pre' & IH).
    destruct (buf_is_space t && negb (is_lang t) && negb (is_action t)).
    + exists pre'. exact IH.
    + exists (t :: pre). reflexivity.
Qed.
Lemma skip_ctl_at_action a b : is_action a = true -> skip_ctl (a :: b) = a :: b.
Proof. intros Ha. cbn [skip_ctl]. rewrite Ha. cbn [negb]. rewrite Bool.andb_false_r. reflexivity. Qed.

(* ------------------------------------------------------------------ *)
(*  C10: rotation of the placeholder collections                        *)
(* ------------------------------------------------------------------ *)
Lemma rotate_length l : length (rotate l) = length l.
Proof. destruct l; simpl; [reflexivity|]. rewrite app_length. simpl. lia. Qed.

Lemma iter_succ_r {A} (f : A -> A) n x : Nat.iter (S n) f x = Nat.iter n f (f x).
Proof. induction n as [|n IH]; [reflexivity|]. simpl in *. rewrite IH. reflexivity. Qed.
Lemma iter_add {A} (f : A -> A) n m x : Nat.iter (n + m) f x = Nat.iter n f (Nat.iter m f x).
Proof. induction n as [|n IH]; [reflexivity|]. simpl. rewrite IH. reflexivity. Qed.

Lemma rotate_iter_split : forall a b, Nat.iter (length a) rotate (a ++ b) = b ++ a.
Proof.
  induction a as [|x a IH]; intros b.
  - simpl. rewrite app_nil_r. reflexivity.
  - cbn [length]. rewrite iter_succ_r. cbn [app rotate].
    rewrite <- app_assoc, IH, <- app_assoc. reflexivity.
Qed.

(* after as many formulas as the collection has placeholders it starts again *)
Theorem rotate_cycle l : Nat.iter (length l) rotate l = l.
Proof.
  pose proof (rotate_iter_split l []) as H. rewrite app_nil_r in H. exact H.
Qed.

(* neighbouring formulas never get the same placeholder: the collection has
   no repetition and at least two entries *)
Theorem rotate_head_differs l x y :
  NoDup l -> (2 <= length l)%nat -> hd_error l = Some x -> hd_error (rotate l) = Some y ->
  x <> y.
Proof.
  intros Hn Hl Hx Hy. destruct l as [|a [|b l]]; simpl in *; try lia.
  inversion Hx; inversion Hy; subst. inversion Hn as [|? ? Hni _]; subst.
  intros E. subst. apply Hni. left. reflexivity.
Qed.

(* the k-th formula gets the (k mod n)-th placeholder, counted from the one
   behind the current head *)
Theorem rotate_iter_head l k :
  l <> [] ->
  hd_error (Nat.iter k rotate l) = nth_error l (k mod length l)%nat.
Proof.
  intros Hne.
  assert (Hlen : forall j, length (Nat.iter j rotate l) = length l).
  { induction j as [|j IH]; simpl; [reflexivity|]. rewrite rotate_length. exact IH. }
  assert (Hper : forall q, Nat.iter (q * length l) rotate l = l).
  { induction q as [|q IH]; [reflexivity|]. simpl.
    rewrite iter_add, IH. apply rotate_cycle. }
  assert (Hsmall : forall j, (j < length l)%nat ->
                             hd_error (Nat.iter j rotate l) = nth_error l j).
  { intros j Hj.
    pose proof (rotate_iter_split (firstn j l) (skipn j l)) as H.
    rewrite firstn_skipn, firstn_length, Nat.min_l in H by lia. rewrite H.
    destruct (skipn j l) as [|z r] eqn:E.
    - apply (f_equal (@length _)) in E. rewrite skipn_length in E. simpl in E. lia.
    - simpl. rewrite <- (firstn_skipn j l) at 1.
      rewrite nth_error_app2; rewrite firstn_length, Nat.min_l by lia; [|lia].
      rewrite Nat.sub_diag, E. reflexivity. }
  assert (Hl : length l <> 0%nat) by (destruct l; [contradiction | discriminate]).
  pose proof (Nat.div_mod k (length l) Hl) as Hk.
  pose proof (Nat.mod_upper_bound k (length l) Hl) as Hm.
  remember (k mod length l)%nat as m. remember (k / length l)%nat as q.
  rewrite Hk, Nat.add_comm, iter_add, (Nat.mul_comm (length l)), Hper.
  apply Hsmall. exact Hm.
Qed.

(* ------------------------------------------------------------------ *)
(*  C10: one inline formula                                             *)
(* ------------------------------------------------------------------ *)
Lemma str_eqb_refl s : str_eqb s s = true.
Proof. apply str_eqb_eq. reflexivity. Qed.

Lemma assoc_assoc_set {A} k (v : A) l : assoc k (assoc_set k v l) = Some v.
Proof.
  induction l as [|[k' v'] l IH]; simpl.
  - rewrite str_eqb_refl. reflexivity.
  - destruct (str_eqb k k') eqn:E; simpl; [rewrite str_eqb_refl; reflexivity|].
    rewrite E. exact IH.
Qed.

Section InlineMath.
  Variable T : tables.

  Lemma get_set_repls st d l : get_repls (set_repls st d l) d = l.
  Proof.
    unfold get_repls, set_repls. destruct d; cbn; unfold lang_key; cbn;
      rewrite assoc_assoc_set; reflexivity.
  Qed.

  (* A formula of maths only is one part.  It is rendered as: a blank if it
     starts with maths space; exactly one placeholder, the one that the
     rotation of the inline collection of the current language brings to
     the front; the formula's last character if that is a punctuation mark;
     a blank if the formula ends with maths space.  All of it is pinned at
     the position of the first maths token, and the collection stays
     rotated by one for the next formula. *)
  Theorem replace_section_inline st ts fp nr out p ph rest0 :
    first_pos ts = Ok p ->
    forallb (is_mspace) ts = false ->
    rotate (get_repls st false) = ph :: rest0 ->
    exists sp1 pc sp2 nr',
      replace_section T st true false [MPart ts] fp nr out =
        Ok (set_repls st false (ph :: rest0),
            out ++ sp1 ++ [TextF p ph] ++ pc ++ sp2, nr') /\
      sp1 = (match ts with
             | t0 :: _ => if is_mspace t0 then [SpaceF p s_space] else []
             | [] => [] end) /\
      (pc = [] \/ exists c, pc = [TextF p [c]] /\ last_char T ts = [c]
                            /\ mem_str [c] (t_math_punctuation T) = true) /\
      sp2 = (match rev ts with
             | t1 :: _ => if is_mspace t1 then [SpaceF p s_space] else []
             | [] => [] end) /\
      get_repls (set_repls st false (ph :: rest0)) false = ph :: rest0.
  Proof.
    intros Hp Hsp Hrot. cbn [replace_section]. rewrite Hp. cbn [rbind]. rewrite Hsp.
    cbn [negb andb orb]. rewrite Hrot, get_set_repls. cbn [rbind].
    set (sp1 := match ts with
                | t0 :: _ => if is_mspace t0 then [SpaceF p s_space] else []
                | [] => [] end).
    set (sp2 := match rev ts with
                | t1 :: _ => if is_mspace t1 then [SpaceF p s_space] else []
                | [] => [] end).
    assert (E1 : match ts with
                 | t0 :: _ => if is_mspace t0 then out ++ [SpaceF p s_space] else out
                 | [] => out end = out ++ sp1).
    { unfold sp1. destruct ts as [|t0 r]; [rewrite app_nil_r; reflexivity|].
      destruct (is_mspace t0); [reflexivity | rewrite app_nil_r; reflexivity]. }
    assert (E0 : forall o : list tok,
               match leading_op ts with
               | Some _ => o | None => o end = o) by (intros; destruct (leading_op ts); reflexivity).
    rewrite E0, E1.
    destruct (last_char T ts) as [|c lc] eqn:Elc.
    - (* no last character: no punctuation *)
      exists sp1, [], sp2. eexists. split; [|split; [reflexivity|split; [left; reflexivity|split;
        [reflexivity | reflexivity]]]].
      f_equal. f_equal. f_equal. unfold sp2.
      destruct (rev ts) as [|t1 r]; [rewrite !app_nil_r, <- app_assoc; reflexivity|].
      destruct (is_mspace t1); rewrite <- ?app_assoc; simpl; rewrite ?app_nil_r; reflexivity.
    - destruct (mem_str (c :: lc) (t_math_punctuation T)) eqn:Em.
      + assert (lc = []) as Hl.
        { unfold last_char in Elc. destruct (rev (strip _ _)) as [|x y]; inversion Elc; reflexivity. }
        subst lc. exists sp1, [TextF p [c]], sp2. eexists.
        split; [|split; [reflexivity|split; [right; exists c; repeat split; assumption|split;
          [reflexivity | reflexivity]]]].
        f_equal. f_equal. f_equal. unfold sp2.
        destruct (rev ts) as [|t1 r]; [rewrite !app_nil_r, <- !app_assoc; reflexivity|].
        destruct (is_mspace t1); rewrite <- ?app_assoc; simpl; rewrite ?app_nil_r; reflexivity.
      + exists sp1, [], sp2. eexists. split; [|split; [reflexivity|split; [left; reflexivity|split;
          [reflexivity | reflexivity]]]].
        f_equal. f_equal. f_equal. unfold sp2.
        destruct (rev ts) as [|t1 r]; [rewrite !app_nil_r, <- app_assoc; reflexivity|].
        destruct (is_mspace t1); rewrite <- ?app_assoc; simpl; rewrite ?app_nil_r; reflexivity.
  Qed.
End InlineMath.

(* table obligation for C10: every collection has at least two entries and
   no repetition *)
Fixpoint nodupb (l : list str) : bool :=
  match l with
  | [] => true
  | x :: r => negb (mem_str x r) && nodupb r
  end.
Lemma nodupb_ok l : nodupb l = true -> NoDup l.
Proof.
  induction l as [|x r IH]; simpl; intros H; [constructor|].
  apply andb_true_iff in H. destruct H as [H1 H2]. constructor; [|apply IH; exact H2].
  intros Hin. apply mem_str_iff in Hin. rewrite Hin in H1. discriminate.
Qed.
Definition collections_ok (T : tables) : bool :=
  forallb (fun e => let s := snd e in
             forallb (fun l => nodupb l && Nat.leb 2 (length l))
                     [ls_inline s; ls_display s; ls_change s]) (t_langs T).
Lemma collections_ok_spec T :
  collections_ok T = true ->
  forall k s, In (k, s) (t_langs T) ->
  forall l, In l [ls_inline s; ls_display s; ls_change s] ->
  NoDup l /\ (2 <= length l)%nat.
Proof.
  unfold collections_ok. intros H k s Hin l Hl. rewrite forallb_forall in H.
  specialize (H (k, s) Hin). cbn [snd] in H. rewrite forallb_forall in H.
  specialize (H l Hl). apply andb_true_iff in H. destruct H as [H1 H2].
  split; [apply nodupb_ok; exact H1 | apply Nat.leb_le; exact H2].
Qed.

(* ------------------------------------------------------------------ *)
(*  C04: generated text sits inside the construct                       *)
(* ------------------------------------------------------------------ *)
(* a token of the output of a handler called for a macro at position p with
   arguments args: an argument token as it is, or a generated token whose
   position is p or the position of an argument token *)
Definition in_construct (args : list (list tok)) (p : Z) (t : tok) : Prop :=
  (exists a, In a args /\ In t a) \/ pos t = p \/
  (exists a x, In a args /\ In x a /\ pos t = pos x).

Lemma last_pos_in l p : last_pos l = Ok p -> exists x, In x l /\ p = pos x.
Proof.
  unfold last_pos, py_last. destruct (rev l) as [|x r] eqn:E; simpl; intros H; inversion H.
  exists x. split; [apply in_rev; rewrite E; left|]; reflexivity.
Qed.

Lemma arg_in args i a : arg args i = Ok a -> In a args.
Proof.
  unfold arg, py_nth. destruct (nth_error args i) eqn:E; intros H; inversion H; subst.
  eapply nth_error_In. exact E.
Qed.

Section Handlers.
  Variable T : tables.
  Variable rd : str -> option str.
  Variable rec : recfun.

  Theorem cite_in_construct fuel st buf name args p st' o :
    run_handler T rd rec fuel HCite st buf name args p = Ok (st', o) ->
    Forall (in_construct args p) o /\ st' = st.
  Proof.
    cbn [run_handler]. unfold h_cite.
    destruct (arg args 0) as [a0| | |] eqn:Ea; cbn [rbind]; try discriminate.
    apply arg_in in Ea. destruct a0 as [|x a0'].
    - intros H. inversion H; subst. split; [|reflexivity].
      assert (Hg : forall k s f, in_construct args p (mk k p s f)) by (intros; right; left; reflexivity).
      repeat (constructor; [apply Hg|]). constructor.
    - destruct (last_pos (x :: a0')) as [lp| | |] eqn:El; cbn [rbind]; try discriminate.
      intros H. inversion H; subst. split; [|reflexivity].
      apply last_pos_in in El. destruct El as (y & Hy & Ey).
      constructor; [right; left; reflexivity|]. constructor; [right; left; reflexivity|].
      match goal with |- Forall _ (x :: a0' ++ ?tl) =>
        change (Forall (in_construct args p) ((x :: a0') ++ tl)) end.
      apply Forall_app. split.
      + apply Forall_forall. intros z Hz. left. exists (x :: a0'). split; assumption.
      + assert (Hg : forall k s f, in_construct args p (mk k lp s f)).
        { intros k s f. right. right. exists (x :: a0'), y. repeat split; assumption. }
        constructor; [apply Hg|]. constructor; [apply Hg | constructor].
  Qed.

  Theorem theorem_title_in_construct fuel title st buf name args p st' o :
    run_handler T rd rec fuel (HTheorem title) st buf name args p = Ok (st', o) ->
    Forall (in_construct args p) o /\ st' = st.
  Proof.
    cbn [run_handler].
    destruct (arg args 0) as [a0| | |] eqn:Ea; cbn [rbind]; try discriminate.
    apply arg_in in Ea. destruct a0 as [|x a0'].
    - intros H. inversion H; subst. split; [|reflexivity].
      assert (Hg : forall k s f, in_construct args p (mk k p s f)) by (intros; right; left; reflexivity).
      repeat (constructor; [apply Hg|]). constructor.
    - destruct (last_pos (x :: a0')) as [lp| | |] eqn:El; cbn [rbind]; try discriminate.
      intros H. inversion H; subst. split; [|reflexivity].
      apply last_pos_in in El. destruct El as (y & Hy & Ey).
      constructor; [right; left; reflexivity|]. constructor; [right; left; reflexivity|].
      constructor; [right; left; reflexivity|].
      match goal with |- Forall _ (x :: a0' ++ ?tl) =>
        change (Forall (in_construct args p) ((x :: a0') ++ tl)) end.
      apply Forall_app. split.
      + apply Forall_forall. intros z Hz. left. exists (x :: a0'). split; assumption.
      + assert (Hg : forall k s f, in_construct args p (mk k lp s f)).
        { intros k s f. right. right. exists (x :: a0'), y. repeat split; assumption. }
        constructor; [apply Hg|]. constructor; [apply Hg | constructor].
  Qed.

  (* headings: the argument as it is, plus at most a full stop at the
     position of its last token *)
  Theorem heading_in_construct fuel st buf name args p st' o :
    run_handler T rd rec fuel HHeading st buf name args p = Ok (st', o) ->
    Forall (in_construct args p) o /\
    exists a2, arg args 2 = Ok a2 /\
               (o = a2 \/ exists lp, last_pos a2 = Ok lp /\ o = a2 ++ [TextT lp (s2l ".")]).
  Proof.
    cbn [run_handler].
    destruct (arg args 2) as [a2| | |] eqn:Ea; cbn [rbind]; try discriminate.
    pose proof (arg_in _ _ _ Ea) as Hin.
    destruct (get_text_expanded rec st a2) as [[st1 s]| | |]; cbn [rbind]; try discriminate.
    assert (Hall : Forall (in_construct args p) a2).
    { apply Forall_forall. intros z Hz. left. exists a2. split; assumption. }
    intros H.
    assert (Hcase : (st1, a2) = (st', o) \/
                    exists lp, last_pos a2 = Ok lp /\ (st1, a2 ++ [TextT lp (s2l ".")]) = (st', o)).
    { destruct (rev _) as [|c rr]; [left; inversion H; reflexivity|].
      destruct (t_heading_punct T) as [|h hs]; [left; inversion H; reflexivity|].
      destruct (mem_str [c] (h :: hs)); [left; inversion H; reflexivity|].
      destruct (last_pos a2) as [lp| | |] eqn:El; cbn [rbind] in H; try discriminate.
      right. exists lp. split; [reflexivity | inversion H; reflexivity]. }
    destruct Hcase as [E|(lp & El & E)]; inversion E; subst.
    - split; [exact Hall|]. exists o. split; [reflexivity | left; reflexivity].
    - split.
      + apply Forall_app. split; [exact Hall|]. apply last_pos_in in El.
        destruct El as (y & Hy & Ey). constructor; [|constructor]. right. right.
        exists a2, y. repeat split; assumption.
      + exists a2. split; [reflexivity|]. right. exists lp. split; [exact El | reflexivity].
  Qed.
End Handlers.

(* ------------------------------------------------------------------ *)
(*  C11: displayed equations, simple mode and removed environments      *)
(* ------------------------------------------------------------------ *)
Section DisplayMath.
  Variable T : tables.
  Variable rd : str -> option str.
  Variable rec : recfun.

  (* with the simple-equations option the whole equation is one placeholder
     of the display collection plus its final punctuation mark, all at the
     start of the equation *)
  Theorem display_simple fuel st buf t ename st' o rest :
    expand_display_math T rec fuel st buf t ename false = Ok (st', (o, rest)) ->
    displayed_simple st' = true ->
    (exists ph pc,
      hd_error (get_repls st' true) = Some ph /\
      o = [ActionT (pos t); SpaceF (pos t) [c_space; c_space]; TextF (pos t) ph]
          ++ pc ++ [ActionT (pos t)] /\
      (pc = [] \/ exists c, pc = [TextF (pos t) [c]]
                            /\ mem_str [c] (t_math_punctuation T) = true)) \/
    (* the equation has no end: it is left as the full mode renders it,
       with its error mark *)
    (exists out z,
      display_sections T rec fuel st buf (pos t) ename true true
        [ActionT (pos t); SpaceF (pos t) [c_space; c_space]] = Ok (st', out, rest, z, false)).
  Proof.
    unfold expand_display_math.
    destruct (display_sections T rec fuel st buf (pos t) ename true true _)
      as [[[[[st1 out] rest1] z] closed]| | |]; cbn [rbind]; try discriminate.
    destruct (last_pos out) as [lp| | |]; cbn [rbind]; try discriminate.
    destruct (displayed_simple st1) eqn:Eds; cbn [andb].
    - destruct closed.
      + destruct (get_repls st1 true) as [|ph r] eqn:Eg; [discriminate|].
        intros H Hs. inversion H; subst. left. exists ph.
        destruct (rev (strip (t_is_space T) (get_text_direct out))) as [|c rr].
        * exists []. rewrite Eg. repeat split. left. reflexivity.
        * destruct (mem_str [c] (t_math_punctuation T)) eqn:Em.
          -- exists [TextF (pos t) [c]]. rewrite Eg. repeat split. right. exists c. split; [reflexivity | exact Em].
          -- exists []. rewrite Eg. repeat split. left. reflexivity.
      + intros H Hs. inversion H; subst. right. exists out, z. reflexivity.
    - intros H Hs. inversion H; subst. congruence.
  Qed.

  (* an equation environment declared as removed leaves its final
     punctuation mark at most *)
  Theorem display_removed fuel st buf t ename st' o rest :
    expand_display_math T rec fuel st buf t ename true = Ok (st', (o, rest)) ->
    exists lp, o = [ActionT lp] \/
               exists c, o = [TextF lp [c]] /\ mem_str [c] (t_math_punctuation T) = true.
  Proof.
    unfold expand_display_math.
    destruct (display_sections T rec fuel st buf (pos t) ename true true _)
      as [[[[[st1 out] rest1] z] closed]| | |]; cbn [rbind]; try discriminate.
    destruct (last_pos out) as [lp| | |]; cbn [rbind]; try discriminate.
    intros H. exists lp.
    destruct (rev (strip (t_is_space T) (get_text_direct out))) as [|c rr].
    - inversion H; subst. left. reflexivity.
    - destruct (mem_str [c] (t_math_punctuation T)) eqn:Em; inversion H; subst.
      + right. exists c. split; [reflexivity | exact Em].
      + left. reflexivity.
  Qed.
End DisplayMath.
