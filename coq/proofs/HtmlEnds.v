(* C16, the premise of the region theorems that was left open: every
   highlight of a region ends in front of or at the start of the region's
   last line.  generate_html computes for a highlight ending at offset e the
   line index count('\n', 0, e) + 1, widens it by the context and clamps it to
   the last entry of the line-start table; a region's end line is the maximum
   over its highlights.  For a text that ends with a line break (the shell
   appends one) the table entry of that line is > e, or -- when the clamp cuts
   -- it is the length of the text, which is >= e. *)
From Coq Require Import Lia.
From YV Require Import PyBase PyBaseProofs ShellMap ShellMapProofs Html HtmlRegion HtmlNumbers.
Local Open Scope list_scope.

Lemma count_firstn_le c (l : list N) p : (count_char c (firstn p l) <= count_char c l)%nat.
Proof.
  destruct (Nat.le_gt_cases p (length l)) as [L|L].
  - pose proof (count_firstn_mono c l p (length l) L) as M. rewrite firstn_all in M. exact M.
  - rewrite firstn_all2 by lia. lia.
Qed.

Lemma starts_aux_length : forall s i, length (line_starts_aux s i) = count_char c_nl s.
Proof.
  induction s as [|c s IH]; intros i; cbn [line_starts_aux]; [reflexivity|].
  unfold count_char in *. cbn [filter]. rewrite (N.eqb_sym c_nl c).
  destruct (N.eqb c c_nl); cbn [length]; rewrite IH; reflexivity.
Qed.

Lemma line_starts_length tex : length (line_starts tex) = S (count_char c_nl tex).
Proof. unfold line_starts. cbn [length]. rewrite starts_aux_length. reflexivity. Qed.

(* an entry behind more line breaks than stand in front of e lies behind e *)
Lemma end_before_start tex he k q :
  nth_error (line_starts tex) k = Some q ->
  (count_char c_nl (firstn he tex) < k)%nat -> (he < q)%nat.
Proof.
  intros Hq Hc. destruct (starts_count tex k q Hq) as [_ Cq].
  destruct (Nat.le_gt_cases q he) as [L|L]; [|exact L]. exfalso.
  pose proof (count_firstn_mono c_nl tex q he L) as M. lia.
Qed.

(* the last entry of the table of a text that ends with a line break is the
   length of the text *)
Lemma last_start_is_end t k q :
  nth_error (line_starts (t ++ [c_nl])) k = Some q ->
  k = count_char c_nl (t ++ [c_nl]) -> q = length (t ++ [c_nl]).
Proof.
  intros Hq Hk. destruct (starts_count _ k q Hq) as [Lq Cq].
  destruct (Nat.eq_dec q (length (t ++ [c_nl]))) as [E|N]; [exact E|]. exfalso.
  rewrite app_length in Lq, N. cbn [length] in Lq, N.
  assert (Lt : (q <= length t)%nat) by lia.
  rewrite firstn_app in Cq. replace (q - length t)%nat with 0%nat in Cq by lia.
  cbn [firstn] in Cq. rewrite app_nil_r in Cq.
  pose proof (count_firstn_le c_nl t q) as M.
  rewrite count_char_app in Hk. unfold count_char at 2 in Hk. cbn [filter] in Hk.
  rewrite N.eqb_refl in Hk. cbn [length] in Hk. lia.
Qed.

Lemma max_endlin_ge : forall reg h, In h reg -> (h_endlin h <= max_endlin reg)%Z.
Proof.
  induction reg as [|x reg IH]; intros h Hin; [destruct Hin|].
  unfold max_endlin in *. cbn [fold_right]. destruct Hin as [E|Hin].
  - subst x. lia.
  - specialize (IH h Hin). lia.
Qed.

Theorem highlight_ends_in_region context tex t h reg en :
  tex = t ++ [c_nl] -> (0 <= context)%Z ->
  (0 <= h_end h <= zlen tex)%Z ->
  h_endlin h = (count_nl_to tex (h_end h) + 1)%Z ->
  In (widen context (zlen (line_starts tex)) h) reg ->
  start_at (line_starts tex) (max_endlin reg) = Ok en ->
  (h_end h <= en)%Z.
Proof.
  intros Et Hc He Hl Hin Hs.
  pose proof (max_endlin_ge reg _ Hin) as Hm. cbn [widen h_endlin] in Hm.
  unfold zlen in Hm, He. rewrite line_starts_length in Hm.
  unfold count_nl_to, norm_idx in Hl.
  assert (E0 : (h_end h <? 0)%Z = false) by (apply Z.ltb_ge; lia). rewrite E0 in Hl.
  replace (Z.min (h_end h) (Z.of_nat (length tex))) with (h_end h) in Hl by lia.
  set (he := Z.to_nat (h_end h)) in *.
  set (c := count_char c_nl (firstn he tex)) in *.
  pose proof (count_firstn_le c_nl tex he) as Hcle. fold c in Hcle.
  assert (HE0 : (0 <= max_endlin reg)%Z) by lia.
  destruct (start_at_nth (line_starts tex) (max_endlin reg) en HE0 Hs) as (k & Hk & Een).
  subst en.
  assert (Hlt : (Z.to_nat (max_endlin reg) < length (line_starts tex))%nat).
  { apply nth_error_Some. rewrite Hk. discriminate. }
  rewrite line_starts_length in Hlt.
  destruct (Nat.le_gt_cases (Z.to_nat (max_endlin reg)) c) as [L|L].
  - (* the clamp cut: the region ends with the last line *)
    assert (Ek : Z.to_nat (max_endlin reg) = count_char c_nl tex) by lia.
    rewrite Et in Hk, Ek. pose proof (last_start_is_end t _ k Hk Ek) as Eq.
    rewrite <- Et in Eq. lia.
  - pose proof (end_before_start tex he _ k Hk L) as Hlt'. lia.
Qed.

(* for all highlights of a region at once: the premise of region_out_numbered *)
Theorem region_highlights_end_inside context tex t (hs reg : list hdata) :
  tex = t ++ [c_nl] -> (0 <= context)%Z ->
  Forall (fun h => (0 <= h_end h <= zlen tex)%Z /\
                   h_endlin h = (count_nl_to tex (h_end h) + 1)%Z) hs ->
  incl reg (map (widen context (zlen (line_starts tex))) hs) ->
  forall en, start_at (line_starts tex) (max_endlin reg) = Ok en ->
             Forall (fun h => (h_end h <= en)%Z) reg.
Proof.
  intros Et Hc Hhs Hincl en Hs. apply Forall_forall. intros h' Hin'.
  pose proof (Hincl h' Hin') as Hmap. apply in_map_iff in Hmap.
  destruct Hmap as (h & Eh & Hin). rewrite Forall_forall in Hhs.
  destruct (Hhs h Hin) as [He Hl]. subst h'.
  change (h_end (widen context (zlen (line_starts tex)) h)) with (h_end h).
  apply (highlight_ends_in_region context tex t h reg en Et Hc He Hl Hin' Hs).
Qed.

(* the tie to generate_html: the end line of make_hdata, the regions of group *)
Lemma make_hdata_endlin is_alpha is_word tex cm m h :
  make_hdata is_alpha is_word tex cm m = Ok h ->
  h_endlin h = (count_nl_to tex (h_end h) + 1)%Z.
Proof.
  unfold make_hdata. intros H.
  destruct (_ || _ || _ || _); [discriminate|].
  destruct (py_index cm (hm_offset m)) as [cb| | |]; try discriminate. cbn [rbind] in H.
  destruct (py_index cm _) as [ce| | |]; try discriminate. cbn [rbind] in H.
  destruct (py_index tex _) as [c0| | |]; try discriminate. cbn [rbind] in H.
  inversion H. reflexivity.
Qed.

Lemma mapR_Forall {A B} (f : A -> result B) (P : B -> Prop) :
  (forall x y, f x = Ok y -> P y) ->
  forall l r, mapR f l = Ok r -> Forall P r.
Proof.
  intros Hf. induction l as [|x l IH]; intros r H; cbn [mapR] in H.
  - inversion H. constructor.
  - destruct (f x) as [y| | |] eqn:E; try discriminate. cbn [rbind] in H.
    destruct (mapR f l) as [r'| | |]; try discriminate. cbn [rbind] in H.
    inversion H. constructor; [exact (Hf x y E) | apply IH; reflexivity].
Qed.

Lemma group_incl (all : list hdata) : forall hs cur acc,
  incl hs all -> incl cur all -> (forall r, In r acc -> incl r all) ->
  forall r, In r (group hs cur acc) -> incl r all.
Proof.
  induction hs as [|h hs IH]; intros cur acc Hhs Hcur Hacc r Hin; cbn [group] in Hin.
  - destruct cur as [|c cur].
    + apply in_rev in Hin. exact (Hacc r Hin).
    + apply in_rev in Hin. destruct Hin as [E|Hin]; [|exact (Hacc r Hin)].
      subst r. intros x Hx. apply in_rev in Hx. exact (Hcur x Hx).
  - assert (Hh : In h all) by (apply Hhs; left; reflexivity).
    assert (Hhs' : incl hs all) by (intros x Hx; apply Hhs; right; exact Hx).
    assert (H1 : incl [h] all) by (intros x [E|[]]; subst x; exact Hh).
    destruct cur as [|c cur].
    + exact (IH [h] acc Hhs' H1 Hacc r Hin).
    + destruct (max_endlin (c :: cur) <=? h_beglin h)%Z.
      * apply (IH [h] (rev (c :: cur) :: acc) Hhs' H1); [|exact Hin].
        intros r' [E|Hr']; [|exact (Hacc r' Hr')]. subst r'.
        intros x Hx. apply in_rev in Hx. exact (Hcur x Hx).
      * apply (IH (h :: c :: cur) acc Hhs'); [|exact Hacc|exact Hin].
        intros x [E|Hx]; [subst x; exact Hh | exact (Hcur x Hx)].
Qed.

(* every region that generate_html forms: all its highlights end in front of
   or at the start of the region's last line *)
Theorem regions_hold_their_highlights is_alpha is_word context tex t cm ms hd :
  tex = t ++ [c_nl] -> (0 <= context)%Z ->
  mapR (make_hdata is_alpha is_word tex cm) ms = Ok hd ->
  Forall (fun h => (0 <= h_end h <= zlen tex)%Z) hd ->
  forall reg, In reg (group (map (widen context (zlen (line_starts tex))) hd) [] []) ->
  forall en, start_at (line_starts tex) (max_endlin reg) = Ok en ->
             Forall (fun h => (h_end h <= en)%Z) reg.
Proof.
  intros Et Hc Hm Hb reg Hreg en Hs.
  apply (region_highlights_end_inside context tex t hd reg Et Hc); [| |exact Hs].
  - pose proof (mapR_Forall (make_hdata is_alpha is_word tex cm)
                  (fun h => h_endlin h = (count_nl_to tex (h_end h) + 1)%Z)
                  (fun x y => make_hdata_endlin is_alpha is_word tex cm x y) ms hd Hm) as Hl.
    rewrite Forall_forall in *. intros h Hin. split; [exact (Hb h Hin) | exact (Hl h Hin)].
  - apply (group_incl (map (widen context (zlen (line_starts tex))) hd)
             (map (widen context (zlen (line_starts tex))) hd) [] []);
      [apply incl_refl | intros x [] | intros r [] | exact Hreg].
Qed.

(* the remaining premise, from the position map: when every entry of the map
   is an offset of the text (1..len, negative for "unsure"), a highlight ends
   inside the text -- also behind the two extensions of generate_html (macro
   name behind a lone backslash, rest of the word for an unsure position) *)
Lemma py_index_In {A} (l : list A) i x : py_index l i = Ok x -> In x l.
Proof.
  unfold py_index. intros H.
  destruct (_ || _); [discriminate|].
  destruct (nth_error l _) as [y|] eqn:E; [|discriminate].
  inversion H; subst. exact (nth_error_In _ _ E).
Qed.

Theorem make_hdata_end_inside is_alpha is_word tex cm m h :
  Forall (fun c => (Z.abs c <= zlen tex)%Z) cm ->
  make_hdata is_alpha is_word tex cm m = Ok h ->
  (0 <= h_end h <= zlen tex)%Z.
Proof.
  intros Hcm H.
  pose proof (make_hdata_order is_alpha is_word tex cm m h H) as Hord.
  revert H. unfold make_hdata.
  destruct ((hm_offset m <? 0)%Z || _ || _ || _); [discriminate|].
  destruct (py_index cm (hm_offset m)) as [cb| | |] eqn:Ecb; cbn [rbind]; try discriminate.
  match goal with |- context [py_index cm ?i] =>
    destruct (py_index cm i) as [ce| | |] eqn:Ece end; cbn [rbind]; try discriminate.
  rewrite Forall_forall in Hcm.
  pose proof (Hcm cb (py_index_In _ _ _ Ecb)) as Hb.
  pose proof (Hcm ce (py_index_In _ _ _ Ece)) as He.
  set (unsure := ((cb <? 0) || (ce <? 0))%Z).
  set (hb := (Z.abs cb - 1)%Z).
  set (he0 := if (unsure || (Z.abs ce <=? hb)%Z) then (hb + 1)%Z else Z.abs ce).
  assert (H0 : (he0 <= zlen tex)%Z).
  { unfold he0. destruct (unsure || (Z.abs ce <=? hb)%Z); lia. }
  destruct (py_index tex hb) as [c0| | |]; cbn [rbind]; try discriminate.
  intros H. injection H as H. subst h. cbn [h_beg h_end] in *.
  split; [fold hb in Hord; lia|].
  destruct ((he0 =? hb + 1)%Z && N.eqb c0 c_backslash).
  - pose proof (correct_mark_macroname_range hb 1 tex) as Hc. simpl in Hc.
    destruct Hc as [Hc|Hc]; [rewrite Hc|]; lia.
  - destruct (unsure && is_alpha c0); [|exact H0].
    pose proof (take_while_length_le (is_letter_w is_word) (skipn (S (Z.to_nat hb)) tex)) as Hle.
    rewrite skipn_length in Hle.
    match goal with |- context [match length ?x with O => _ | S _ => _ end] =>
      change (length (take_while (is_letter_w is_word) (skipn (S (Z.to_nat hb)) tex)))
        with (length x) in Hle;
      revert Hle; destruct (length x) as [|k]; intros Hle end; [exact H0|].
    unfold zlen in *. lia.
Qed.

Theorem regions_hold_their_highlights_map is_alpha is_word context tex t cm ms hd :
  tex = t ++ [c_nl] -> (0 <= context)%Z ->
  Forall (fun c => (Z.abs c <= zlen tex)%Z) cm ->
  mapR (make_hdata is_alpha is_word tex cm) ms = Ok hd ->
  Forall (fun h => (0 <= h_end h <= zlen tex)%Z) hd /\
  forall reg, In reg (group (map (widen context (zlen (line_starts tex))) hd) [] []) ->
  forall en, start_at (line_starts tex) (max_endlin reg) = Ok en ->
             Forall (fun h => (h_end h <= en)%Z) reg.
Proof.
  intros Et Hc Hcm Hm.
  assert (Hb : Forall (fun h => (0 <= h_end h <= zlen tex)%Z) hd).
  { apply (mapR_Forall (make_hdata is_alpha is_word tex cm) _
             (fun x y => make_hdata_end_inside is_alpha is_word tex cm x y Hcm) ms hd Hm). }
  split; [exact Hb|].
  exact (regions_hold_their_highlights is_alpha is_word context tex t cm ms hd Et Hc Hm Hb).
Qed.
