(* Proofs about coq/model/Include.v (property C18, inclusion tracking): for
   every finite file system, every skip predicate and every list of files the
   work list terminates within the stated fuel, returns each file once, and
   the files returned are exactly those reachable through non-skipped files. *)
From Coq Require Import Lia.
From YV Require Import PyBase PyBaseProofs Include.

Section IncludeProofs.
  Variable skip : str -> bool.
  Variable fs : list (str * list str).

  Notation mem := Include.mem.
  Notation lookup := (lookup_fs fs).

  Lemma mem_In f l : mem f l = true <-> In f l.
  Proof.
    unfold Include.mem. rewrite existsb_exists. split.
    - intros (x & Hx & E). apply str_eqb_eq in E. subst. exact Hx.
    - intros H. exists f. split; [exact H | apply str_eqb_eq; reflexivity].
  Qed.

  Lemma mem_false f l : mem f l = false <-> ~ In f l.
  Proof.
    split.
    - intros H C. apply mem_In in C. congruence.
    - intros H. destruct (mem f l) eqn:E; [|reflexivity].
      apply mem_In in E. contradiction.
  Qed.

  Lemma NoDup_snoc {A} (l : list A) x : NoDup l -> ~ In x l -> NoDup (l ++ [x]).
  Proof.
    induction 1 as [|y l Hy Hl IH]; intros Hx; simpl.
    - constructor; [intros [] | constructor].
    - constructor.
      + intros C. apply in_app_or in C. destruct C as [C|[C|[]]]; [contradiction|].
        subst. apply Hx. left. reflexivity.
      + apply IH. intros C. apply Hx. right. exact C.
  Qed.

  (* ---------------- pushing the names found in a file ---------------- *)
  Lemma push_names_spec : forall names todo done,
    exists extra,
      push_names skip names todo done = todo ++ extra /\
      (forall g, In g extra -> In g (map add_tex names) /\ skip g = false /\
                               ~ In g done /\ ~ In g todo) /\
      NoDup extra /\
      (forall g, In g (map add_tex names) -> skip g = false ->
                 In g done \/ In g todo \/ In g extra) /\
      length extra <= length names.
  Proof.
    induction names as [|n names IH]; intros todo done; simpl.
    - exists []. rewrite app_nil_r. split; [reflexivity|].
      split; [intros g []|]. split; [constructor|]. split; [intros g []|]. simpl; lia.
    - destruct (mem (add_tex n) (done ++ todo) || skip (add_tex n)) eqn:E.
      + destruct (IH todo done) as (extra & E1 & E2 & E3 & E4 & E5).
        exists extra. split; [exact E1|]. split.
        * intros g Hg. destruct (E2 g Hg) as (A & B & C & D).
          repeat split; auto.
        * split; [exact E3|]. split; [|lia].
          intros g [Hg|Hg] Hs; [|apply E4; assumption].
          subst g. apply orb_true_iff in E. destruct E as [E|E]; [|congruence].
          apply mem_In in E. apply in_app_or in E. destruct E; auto.
      + apply orb_false_iff in E. destruct E as [Em Es].
        apply mem_false in Em.
        destruct (IH (todo ++ [add_tex n]) done) as (extra & E1 & E2 & E3 & E4 & E5).
        exists (add_tex n :: extra). split; [rewrite E1, <- app_assoc; reflexivity|].
        split.
        * intros g [Hg|Hg].
          -- subst g. repeat split; auto; intros C; apply Em; apply in_or_app; auto.
          -- destruct (E2 g Hg) as (A & B & C & D). repeat split; auto.
             intros C'. apply D. apply in_or_app. left. exact C'.
        * split.
          -- constructor; [|exact E3]. intros C. destruct (E2 _ C) as (_ & _ & _ & D).
             apply D. apply in_or_app. right. left. reflexivity.
          -- split; [|simpl; lia].
             intros g [Hg|Hg] Hs.
             ++ subst g. right. right. left. reflexivity.
             ++ destruct (E4 g Hg Hs) as [A|[A|A]]; [auto| |].
                ** apply in_app_or in A. destruct A as [A|[A|[]]]; auto.
                   subst g. right. right. left. reflexivity.
                ** right. right. right. exact A.
  Qed.

  (* ---------------- termination ---------------- *)
  Fixpoint pending (l : list (str * list str)) (done : list str) : nat :=
    match l with
    | [] => 0
    | (n, v) :: l' => (if mem n done then 0 else length v) + pending l' done
    end.

  Lemma pending_mono l done f : pending l (done ++ [f]) <= pending l done.
  Proof.
    induction l as [|[n v] l IH]; simpl; [lia|].
    destruct (mem n done) eqn:E.
    - assert (mem n (done ++ [f]) = true)
        by (apply mem_In; apply in_or_app; left; apply mem_In; exact E).
      rewrite H. lia.
    - destruct (mem n (done ++ [f])); lia.
  Qed.

  Lemma pending_lookup : forall l done f names,
    lookup_fs l f = Some names -> ~ In f done ->
    pending l (done ++ [f]) + length names <= pending l done.
  Proof.
    induction l as [|[n v] l IH]; intros done f names Hl Hf; simpl in *; [discriminate|].
    destruct (str_eqb f n) eqn:E.
    - apply str_eqb_eq in E. subst n. inversion Hl; subst v.
      assert (E1 : mem f done = false) by (apply mem_false; exact Hf).
      assert (E2 : mem f (done ++ [f]) = true)
        by (apply mem_In; apply in_or_app; right; left; reflexivity).
      rewrite E1, E2. pose proof (pending_mono l done f). lia.
    - specialize (IH done f names Hl Hf).
      destruct (mem n done) eqn:E1.
      + assert (mem n (done ++ [f]) = true)
          by (apply mem_In; apply in_or_app; left; apply mem_In; exact E1).
        rewrite H. lia.
      + destruct (mem n (done ++ [f])); lia.
  Qed.

  Lemma pending_nil l : pending l [] = fold_right (fun e n => length (snd e) + n) 0 l.
  Proof. induction l as [|[n v] l IH]; simpl; [reflexivity | rewrite IH; reflexivity]. Qed.

  Theorem loop_terminates include : forall fuel todo done,
    length todo + pending fs done < fuel ->
    loop skip fs include fuel todo done <> OutOfFuel.
  Proof.
    induction fuel as [|k IH]; intros todo done H; [lia|]. simpl.
    destruct todo as [|f todo]; [discriminate|]. simpl in H.
    destruct (mem f done || skip f) eqn:E; [apply IH; lia|].
    apply orb_false_iff in E. destruct E as [Em _]. apply mem_false in Em.
    destruct include.
    - destruct (lookup f) as [names|] eqn:El; [|discriminate].
      destruct (push_names_spec names todo (done ++ [f])) as (extra & E1 & _ & _ & _ & E5).
      apply IH. rewrite E1, app_length.
      pose proof (pending_lookup fs done f names El Em). lia.
    - apply IH. pose proof (pending_mono fs done f). lia.
  Qed.

  Theorem file_list_terminates include files :
    file_list skip fs include files <> OutOfFuel.
  Proof.
    unfold file_list, fuel_bound. apply loop_terminates.
    rewrite pending_nil. lia.
  Qed.

  (* ---------------- what is returned ---------------- *)
  Section Closure.
    Variable files : list str.

    (* reachable through non-skipped files; names get .tex appended *)
    Inductive reach : str -> Prop :=
    | reach_init f : In f files -> skip f = false -> reach f
    | reach_inc f g names :
        reach f -> lookup f = Some names -> In g (map add_tex names) ->
        skip g = false -> reach g.

    (* a candidate: named on the command line or in a reachable file *)
    Definition candidate (g : str) : Prop :=
      In g files \/
      exists f names, reach f /\ lookup f = Some names /\ In g (map add_tex names).

    Record inv (todo done : list str) : Prop := {
      i_nodup : NoDup done;
      i_sound : forall f, In f done -> reach f;
      i_cand : forall f, In f todo -> candidate f;
      i_roots : forall f, In f files -> skip f = false -> In f done \/ In f todo;
      i_closed : forall f names g,
          In f done -> lookup f = Some names -> In g (map add_tex names) ->
          skip g = false -> In g done \/ In g todo }.

    Lemma inv_init : inv files [].
    Proof.
      constructor; try (intros; contradiction); auto.
      - constructor.
      - intros f Hf. left. exact Hf.
    Qed.

    Lemma candidate_reach f : candidate f -> skip f = false -> reach f.
    Proof.
      intros [H|(p & names & Hp & Hl & Hin)] Hs.
      - apply reach_init; assumption.
      - eapply reach_inc; eauto.
    Qed.

    Theorem loop_spec : forall fuel todo done res,
      inv todo done ->
      loop skip fs true fuel todo done = Ok res ->
      NoDup res /\ (forall f, In f res <-> reach f) /\
      (exists rest, res = done ++ rest).
    Proof.
      induction fuel as [|k IH]; intros todo done res Hinv H; [discriminate|].
      simpl in H. destruct todo as [|f todo].
      - inversion H; subst res. destruct Hinv as [N S C R CL].
        split; [exact N|]. split; [|exists []; rewrite app_nil_r; reflexivity].
        intros f. split; [apply S|]. intros Hr. induction Hr as [f Hf Hs|f g names Hr IHr Hl Hg Hs].
        + destruct (R f Hf Hs) as [A|[]]. exact A.
        + destruct (CL f names g IHr Hl Hg Hs) as [A|[]]. exact A.
      - destruct (mem f done || skip f) eqn:E.
        + apply (IH todo done res); [|exact H].
          destruct Hinv as [N S C R CL]. constructor; auto.
          * intros g Hg. apply C. right. exact Hg.
          * intros g Hg Hs. destruct (R g Hg Hs) as [A|[A|A]]; auto.
            subst g. apply orb_true_iff in E. destruct E as [E|E]; [|congruence].
            left. apply mem_In. exact E.
          * intros p names g Hp Hl Hg Hs.
            destruct (CL p names g Hp Hl Hg Hs) as [A|[A|A]]; auto.
            subst g. apply orb_true_iff in E. destruct E as [E|E]; [|congruence].
            left. apply mem_In. exact E.
        + apply orb_false_iff in E. destruct E as [Em Es]. apply mem_false in Em.
          destruct (lookup f) as [names|] eqn:El; [|discriminate].
          destruct (push_names_spec names todo (done ++ [f]))
            as (extra & E1 & E2 & E3 & E4 & _).
          destruct Hinv as [N S C R CL].
          assert (Hrf : reach f) by (apply candidate_reach; [apply C; left; reflexivity | exact Es]).
          destruct (IH (push_names skip names todo (done ++ [f])) (done ++ [f]) res)
            as (A & B & (rest & Er)); [|exact H|].
          * constructor.
            -- apply NoDup_snoc; assumption.
            -- intros g Hg. apply in_app_or in Hg. destruct Hg as [Hg|[Hg|[]]];
                 [apply S; exact Hg | subst g; exact Hrf].
            -- intros g Hg. rewrite E1 in Hg. apply in_app_or in Hg.
               destruct Hg as [Hg|Hg]; [apply C; right; exact Hg|].
               destruct (E2 g Hg) as (Hin & _). right. exists f, names. auto.
            -- intros g Hg Hs. destruct (R g Hg Hs) as [X|[X|X]].
               ++ left. apply in_or_app. left. exact X.
               ++ subst g. left. apply in_or_app. right. left. reflexivity.
               ++ right. rewrite E1. apply in_or_app. left. exact X.
            -- intros p nm g Hp Hl Hg Hs. apply in_app_or in Hp.
               destruct Hp as [Hp|[Hp|[]]].
               ++ destruct (CL p nm g Hp Hl Hg Hs) as [X|[X|X]].
                  ** left. apply in_or_app. left. exact X.
                  ** subst g. left. apply in_or_app. right. left. reflexivity.
                  ** right. rewrite E1. apply in_or_app. left. exact X.
               ++ subst p. rewrite El in Hl. inversion Hl; subst nm.
                  destruct (E4 g Hg Hs) as [X|[X|X]]; auto.
                  ** right. rewrite E1. apply in_or_app. left. exact X.
                  ** right. rewrite E1. apply in_or_app. right. exact X.
          * split; [exact A|]. split; [exact B|].
            exists (f :: rest). rewrite Er, <- app_assoc. reflexivity.
    Qed.

    (* the result of --include: each file once, exactly the reachable ones *)
    Theorem file_list_spec res :
      file_list skip fs true files = Ok res ->
      NoDup res /\ (forall f, In f res <-> reach f).
    Proof.
      intros H. destruct (loop_spec _ _ _ _ inv_init H) as (A & B & _).
      split; assumption.
    Qed.
  End Closure.

  (* without --include: the given files without duplicates and skipped names,
     in the given order *)
  Fixpoint dedup (files done : list str) : list str :=
    match files with
    | [] => []
    | f :: fl => if mem f done || skip f then dedup fl done
                 else f :: dedup fl (done ++ [f])
    end.

  Theorem loop_no_include : forall fuel todo done,
    length todo < fuel ->
    loop skip fs false fuel todo done = Ok (done ++ dedup todo done).
  Proof.
    induction fuel as [|k IH]; intros todo done H; [lia|]. simpl.
    destruct todo as [|f todo]; simpl; [rewrite app_nil_r; reflexivity|].
    simpl in H. destruct (mem f done || skip f).
    - apply IH. lia.
    - rewrite IH by lia. rewrite <- app_assoc. reflexivity.
  Qed.
End IncludeProofs.
