(* End-to-end theorems for a third class of documents: plain text,
   undeclared control words, comments, braces, and declared macros that pass
   their single braced argument on (\newcommand{\m}[1]{#1}, \textbf-like
   macros), nested to any depth.  The main loop hands on every character of
   the text that is no white space, in order, and nothing else -- also the
   text inside the arguments (C02, C03) -- and records the undeclared names
   once each in order of first use (C19). *)
From Coq Require Import Lia String.
From YV Require Import PyBase PyBaseProofs ShellMap Token Utils Scanner Rpal PState
                       Parser Expand Math Exec TokOk ScanOk ScanPlain RpalProofs
                       ExecPlain ExpandSites SpecialsProofs ExecUnk.
Open Scope Z_scope.

Section ExecArgs.
  Variable T : tables.
  Variable rd : str -> option str.
  Hypothesis Htab : plain_tables_ok T = true.
  Hypothesis Hsp : forall c, sp_is_space (t_scan T) c = t_is_space T c.
  Hypothesis Hblank : sp_is_space (t_scan T) 32 = true /\ okc T 32 = true.
  Notation isp := (t_is_space T).
  Notation ucls := (ucls T).

  Definition lb (t : tok) : Prop := tk t = KSpecial /\ txt t = s_lbrace.
  Definition rb (t : tok) : Prop := tk t = KSpecial /\ txt t = s_rbrace.
  Definition nobrace (t : tok) : Prop :=
    txt_is t s_lbrace = false /\ txt_is t s_rbrace = false.

  (* a declared macro with one mandatory argument that it passes on *)
  Definition passm (ms : list (str * macro)) (t : tok) : Prop :=
    tk t = KMacro /\ txt_is t (s2l "\def") = false /\
    exists mac a1, assoc (txt t) ms = Some mac /\ m_args mac = [AMand] /\
                   m_repl mac = RToks [a1] /\ is_arg a1 = Some 1%nat /\ m_extract mac = [].

  (* a declared macro without arguments whose body is plain text *)
  Definition constm (ms : list (str * macro)) (t : tok) (body : list tok) : Prop :=
    tk t = KMacro /\ txt_is t (s2l "\def") = false /\
    exists mac, assoc (txt t) ms = Some mac /\ m_args mac = [] /\
                m_repl mac = RToks body /\ m_extract mac = [] /\
                Forall (gtok T) body.

  (* the line break \\ without an option behind it *)
  Definition s_bsbs : str := s2l "\\".
  Definition nlb (t : tok) : Prop := tk t = KSpecial /\ txt t = s_bsbs.
  (* the next token that is no white space stands in l and is no [ *)
  Definition nobr (l : list tok) : Prop :=
    (exists x r, skip_space l = x :: r /\ txt_is x s_lbrack = false) /\
    match l with t0 :: _ => txt_is t0 s_lbrack = false | [] => True end.
  Lemma skip_space_app_some l b x r :
    skip_space l = x :: r -> skip_space (l ++ b) = x :: r ++ b.
  Proof.
    induction l as [|t l IH]; [discriminate|]. cbn [app skip_space].
    destruct (buf_is_space t); [exact IH|]. intros H. inversion H; subst. reflexivity.
  Qed.
  Lemma nobr_app l b : nobr l -> nobr (l ++ b).
  Proof.
    intros [(x & r & E & Hx) H0]. split.
    - exists x, (r ++ b). split; [apply skip_space_app_some; exact E | exact Hx].
    - destruct l as [|t0 l']; [discriminate E | exact H0].
  Qed.

  (* balanced with respect to braces *)
  Inductive bal : list tok -> Prop :=
    | bal_nil : bal []
    | bal_tok t l : nobrace t -> bal l -> bal (t :: l)
    | bal_grp o a c l : lb o -> rb c -> bal a -> bal l -> bal (o :: a ++ c :: l).

  (* the token lists of the class *)
  Inductive bcl (ms : list (str * macro)) : list tok -> Prop :=
    | b_nil : bcl ms []
    | b_one t l : ucls ms t -> bcl ms l -> bcl ms (t :: l)
    | b_pass m o a c l : passm ms m -> lb o -> rb c ->
                         arg_collect (a ++ c :: l) s_rbrace 1 [] = Some (a, l) ->
                         bcl ms a -> bcl ms l ->
                         bcl ms (m :: o :: a ++ c :: l)
    | b_const m body l : constm ms m body -> bcl ms l -> bcl ms (m :: l)
    | b_newline t l : nlb t -> nobr l -> bcl ms l -> bcl ms (t :: l).

  Lemma lb_txt o : lb o -> txt_is o s_lbrace = true /\ txt_is o s_rbrace = false.
  Proof. intros [_ E]. unfold txt_is. rewrite E. split; reflexivity. Qed.
  Lemma rb_txt c : rb c -> txt_is c s_lbrace = false /\ txt_is c s_rbrace = true.
  Proof. intros [_ E]. unfold txt_is. rewrite E. split; reflexivity. Qed.

  (* a balanced block does not end the argument *)
  Lemma arg_collect_bal a : bal a -> forall lev acc rest,
    1 <= lev ->
    arg_collect (a ++ rest) s_rbrace lev acc = arg_collect rest s_rbrace lev (rev a ++ acc).
  Proof.
    induction 1 as [|t l [N1 N2] Hl IH|o a c l Ho Hc Ha IHa Hl IHl]; intros lev acc rest Hlev.
    - reflexivity.
    - cbn [app arg_collect]. rewrite N1, N2. cbn [andb]. rewrite IH by exact Hlev.
      cbn [rev]. rewrite <- app_assoc. reflexivity.
    - destruct (lb_txt o Ho) as [O1 O2]. destruct (rb_txt c Hc) as [C1 C2].
      cbn [app arg_collect]. rewrite O1, O2. cbn [andb].
      rewrite <- app_assoc. rewrite IHa by lia.
      cbn [app arg_collect]. rewrite C1, C2.
      replace (lev + 1 - 1 =? 0) with false by (symmetry; apply Z.eqb_neq; lia).
      cbn [andb]. replace (lev + 1 - 1) with lev by lia. rewrite IHl by exact Hlev.
      f_equal. cbn [rev]. rewrite rev_app_distr. cbn [rev app].
      rewrite <- !app_assoc. reflexivity.
  Qed.

  Lemma arg_collect_group a c l :
    bal a -> rb c -> arg_collect (a ++ c :: l) s_rbrace 1 [] = Some (a, l).
  Proof.
    intros Ha Hc. rewrite arg_collect_bal by (exact Ha || lia).
    destruct (rb_txt c Hc) as [C1 C2]. cbn [arg_collect]. rewrite C1, C2. cbn.
    rewrite app_nil_r, rev_involutive. reflexivity.
  Qed.

  (* a pass-through macro with a balanced argument is in the class *)
  Lemma b_pass_bal ms m o a c l :
    passm ms m -> lb o -> rb c -> bal a -> bcl ms a -> bcl ms l ->
    bcl ms (m :: o :: a ++ c :: l).
  Proof.
    intros Hm Ho Hc Hb Ha Hl. apply b_pass; try assumption.
    apply arg_collect_group; assumption.
  Qed.

  (* one turn of the loop at a pass-through macro with its braced argument *)
  Lemma step_pass rec fuel st m o a c l env_stop rout :
    passm (macros st) m -> lb o -> rb c ->
    arg_collect (a ++ c :: l) s_rbrace 1 [] = Some (a, l) ->
    exists a' x y,
      a' = (match a with [] => [VoidT (pos o)] | _ => a end) /\
      hd_error a' = Some x /\ hd_error (rev a') = Some y /\
      step_seq T rd rec fuel st (m :: o :: a ++ c :: l) env_stop rout =
      rec (TSeq (ActionT (pos m) :: ActionT (pos x) :: a' ++ ActionT (pos y) :: l)
                env_stop rout) st.
  Proof.
    intros (Hk & Hd & mac & a1 & Hm & Ha & Hr & Ha1 & He) Ho Hc Hb.
    destruct (lb_txt o Ho) as [O1 O2]. destruct Ho as [Ok_ Ot].
    set (a' := match a with [] => [VoidT (pos o)] | _ => a end).
    assert (Hne : a' <> []) by (unfold a'; destruct a; discriminate).
    destruct a' as [|x ar] eqn:Ea'; [contradiction|].
    assert (Hrev : exists y ry, rev (x :: ar) = y :: ry).
    { destruct (rev (x :: ar)) as [|y ry] eqn:E; [|eexists _, _; reflexivity].
      apply (f_equal (@length _)) in E. rewrite rev_length in E. discriminate. }
    destruct Hrev as (y & ry & Ery).
    exists (x :: ar), x, y. split; [reflexivity|]. split; [reflexivity|].
    split; [rewrite Ery; reflexivity|].
    assert (Hss : skip_space (o :: a ++ c :: l) = o :: a ++ c :: l).
    { cbn [skip_space]. unfold buf_is_space. rewrite Ok_. reflexivity. }
    assert (Hsc : skip_ctl (o :: a ++ c :: l) = o :: a ++ c :: l).
    { cbn [skip_ctl]. unfold buf_is_space. rewrite Ok_. reflexivity. }
    unfold step_seq. rewrite Hk, Hd. unfold expand_macro. rewrite Hm, Hsc.
    unfold expand_arguments. rewrite Ha.
    cbn [collect_args]. unfold one_arg. rewrite ?Hss. rewrite O2.
    unfold arg_buffer, arg_buffer_c. rewrite Hss. rewrite Ok_.
    assert (Eend : str_eqb s_rbrace s_rbrace = true) by reflexivity.
    rewrite Eend, O1. cbn [negb andb].
    rewrite Hb.
    fold a'. rewrite Ea'. cbn [collect_args]. rewrite He. cbn [rbind]. rewrite Hr.
    unfold generate_replacements. cbn [prep_pos gen_repl]. rewrite Ha1.
    cbn [nth_arg py_nth nth_error rbind]. rewrite Ery. cbn [rbind app].
    rewrite <- app_assoc. reflexivity.
  Qed.

  (* one turn of the loop at a macro without arguments and with a body of
     plain text: the body, every token pinned to the call *)
  Lemma gtok_not_arg t : gtok T t -> is_arg t = None.
  Proof.
    intros [_ Hk]. cbn [tk txt pos pfix mk] in Hk. unfold is_arg.
    destruct (tk t); try contradiction; reflexivity.
  Qed.
  Lemma gen_body args : forall body cur,
    Forall (gtok T) body ->
    prep_pos args body cur = Ok cur /\
    gen_repl args body cur = Ok (map (fun b => set_pos_fix b cur) body).
  Proof.
    induction body as [|t body IH]; intros cur Hb; [split; reflexivity|].
    inversion Hb as [|? ? Ht Hr]; subst. destruct (IH cur Hr) as [I1 I2].
    cbn [prep_pos gen_repl map]. rewrite (gtok_not_arg t Ht), I1, I2. split; reflexivity.
  Qed.

  Lemma step_const rec fuel st m body l env_stop rout :
    constm (macros st) m body ->
    step_seq T rd rec fuel st (m :: l) env_stop rout =
    rec (TSeq (ActionT (pos m) :: map (fun b => set_pos_fix b (pos m)) body ++ skip_ctl l)
              env_stop rout) st.
  Proof.
    intros (Hk & Hd & mac & Hm & Ha & Hr & He & Hb).
    unfold step_seq. rewrite Hk, Hd. unfold expand_macro. rewrite Hm.
    unfold expand_arguments. rewrite Ha. cbn [collect_args]. rewrite He. cbn [rbind].
    rewrite Hr. unfold generate_replacements.
    destruct (gen_body [] body (pos m) Hb) as [G1 G2]. rewrite G1. cbn [rbind].
    rewrite G2. cbn [rbind]. reflexivity.
  Qed.

  Lemma gtok_pinned t p : gtok T t -> gtok T (set_pos_fix t p).
  Proof. intros H. exact H. Qed.

  (* names of the undeclared control words, in order *)
  Definition unames (ms : list (str * macro)) (toks : list tok) : list str :=
    flat_map (fun t => match tk t with
                       | KMacro => match assoc (txt t) ms with None => [txt t] | Some _ => [] end
                       | _ => [] end) toks.
  Notation plains := ExecUnk.plains.
  Notation pk := ExecUnk.pk.
  Notation nst := (ExecUnk.nst T).

  (* what the document is expected to show: a special sequence by its
     tabulated text at the position of the sequence, everything else as it is *)
  Definition rend (ms : list (str * macro)) (t : tok) : list tok :=
    match tk t with
    | KSpecial => if str_eqb (txt t) s_bsbs then [SpaceT (pos t) s_space]
                  else match assoc (txt t) (t_special_values T) with
                       | Some v => if inert_txt t then [mk KText (pos t) v (pfix t)] else [t]
                       | None => [t] end
    | KMacro => match assoc (txt t) ms with
                | Some mac =>
                    match m_args mac, m_repl mac with
                    | [], RToks body => map (fun b => set_pos_fix b (pos t)) body
                    | _, _ => [t]
                    end
                | None => [t] end
    | KVerb false => [mk KText (pos t) (txt t) (pfix t)]
    | _ => [t]
    end.
  Definition rtoks (ms : list (str * macro)) (l : list tok) : list tok :=
    flat_map (rend ms) l.
  Lemma rtoks_app ms a b : rtoks ms (a ++ b) = rtoks ms a ++ rtoks ms b.
  Proof. apply flat_map_app. Qed.
  (* the text a special sequence is replaced by *)
  Definition sp_tok (t : tok) : Prop :=
    tk t = KText /\ ((exists k, assoc k (t_special_values T) = Some (txt t)) \/
                    has_nl (txt t) = false).

  (* the tokens of visible text *)
  Definition tx (t : tok) : bool := match tk t with KText => true | _ => false end.
  Definition texts (l : list tok) : list tok := filter tx l.
  Lemma texts_app a b : texts (a ++ b) = texts a ++ texts b.
  Proof. apply filter_app. Qed.

  Lemma unames_app ms a b : unames ms (a ++ b) = unames ms a ++ unames ms b.
  Proof. apply flat_map_app. Qed.
  Lemma plains_app a b : plains (a ++ b) = plains a ++ plains b.
  Proof. apply filter_app. Qed.
  Lemma nst_app a b : nst (a ++ b) = nst a ++ nst b.
  Proof. apply flat_map_app. Qed.

  Lemma arg_collect_more : forall buf e lev acc o r x,
    arg_collect buf e lev acc = Some (o, r) ->
    arg_collect (buf ++ x) e lev acc = Some (o, r ++ x).
  Proof.
    induction buf as [|t buf IH]; intros e lev acc o r x H; [discriminate|].
    cbn [app arg_collect] in *.
    destruct (txt_is t e && _) eqn:E.
    - inversion H; subst. reflexivity.
    - apply IH. exact H.
  Qed.

  Lemma bcl_app ms a b : bcl ms a -> bcl ms b -> bcl ms (a ++ b).
  Proof.
    induction 1 as [|t l Ht Hl IH|m o a0 c l Hm Ho Hc Hb Ha IHa Hl IHl|m body l Hm Hl IH
                    |t l Ht Hn Hl IH];
      intros Hb'.
    - exact Hb'.
    - cbn [app]. constructor; [exact Ht | apply IH; exact Hb'].
    - cbn [app]. rewrite <- app_assoc. cbn [app].
      apply b_pass; try assumption; [|apply IHl; exact Hb'].
      pose proof (arg_collect_more _ _ _ _ _ _ b Hb) as Hm'.
      rewrite <- app_assoc in Hm'. exact Hm'.
    - cbn [app]. eapply b_const; [exact Hm | apply IH; exact Hb'].
    - cbn [app]. apply b_newline; [exact Ht | apply nobr_app; exact Hn | apply IH; exact Hb'].
  Qed.

  Lemma skip_space_bcl ms l : bcl ms l ->
    exists pre, l = pre ++ skip_ctl l /\ Forall (ucls ms) pre /\
                Forall (fun t => buf_is_space t = true) pre /\ bcl ms (skip_ctl l).
  Proof.
    induction 1 as [|t l Ht Hl IH|m o a c l Hm Ho Hc Hb Ha _ Hl _|m body l Hm Hl _|t l Ht Hn Hl _].
    - exists []. repeat split; constructor.
    - cbn [skip_ctl]. destruct (buf_is_space t && negb (is_lang t) && negb (is_action t)) eqn:E.
      + apply andb_true_iff in E. destruct E as [E _].
        apply andb_true_iff in E. destruct E as [E _].
        destruct IH as (pre & E1 & F1 & F2 & B). exists (t :: pre).
        split; [cbn [app]; f_equal; exact E1|].
        split; [constructor; assumption|]. split; [constructor; assumption | exact B].
      + exists []. split; [reflexivity|]. split; [constructor|]. split; [constructor|].
        constructor; assumption.
    - assert (E : buf_is_space m = false).
      { destruct Hm as (Hk & _). unfold buf_is_space. rewrite Hk. reflexivity. }
      cbn [skip_ctl]. rewrite E. cbn [andb]. exists []. split; [reflexivity|].
      split; [constructor|]. split; [constructor|]. apply b_pass; assumption.
    - assert (E : buf_is_space m = false).
      { destruct Hm as (Hk & _). unfold buf_is_space. rewrite Hk. reflexivity. }
      cbn [skip_ctl]. rewrite E. cbn [andb]. exists []. split; [reflexivity|].
      split; [constructor|]. split; [constructor|]. eapply b_const; eassumption.
    - assert (E : buf_is_space t = false).
      { destruct Ht as (Hk & _). unfold buf_is_space. rewrite Hk. reflexivity. }
      cbn [skip_ctl]. rewrite E. cbn [andb]. exists []. split; [reflexivity|].
      split; [constructor|]. split; [constructor|]. apply b_newline; assumption.
  Qed.

  Lemma unames_ucls_unknown ms t :
    tk t = KMacro -> assoc (txt t) ms = None -> unames ms [t] = [txt t].
  Proof. intros Hk Hm. unfold unames. cbn [flat_map]. rewrite Hk, Hm. reflexivity. Qed.

  Lemma brace_not_bsbs t : (txt t = s_lbrace \/ txt t = s_rbrace) -> str_eqb (txt t) s_bsbs = false.
  Proof. intros [E|E]; rewrite E; reflexivity. Qed.
  Lemma inert_not_bsbs t : inert_txt t = true -> str_eqb (txt t) s_bsbs = false.
  Proof.
    intros H. destruct (inert_rewrite t H) as (_ & _ & _ & _ & H5 & _). exact H5.
  Qed.

  (* one turn of the loop at a line break without option *)
  Lemma step_newline rec fuel st t l env_stop rout :
    nlb t -> nobr l ->
    step_seq T rd rec fuel st (t :: l) env_stop rout =
    rec (TSeq l env_stop (SpaceT (pos t) s_space :: ActionT (pos t) :: rout)) st.
  Proof.
    intros [Hk Ht] [(x & r & Es & Hx) H0].
    rewrite (step_seq_newline T rd rec fuel st t l env_stop rout Hk Ht).
    unfold parse_newline_option, look_ahead. rewrite Es. cbn [hd_error]. rewrite Hx.
    destruct l as [|t0 l']; [discriminate Es|]. rewrite H0. reflexivity.
  Qed.

  (* the main loop over a token list of the class *)
  Theorem exec_args : forall fuel toks rout st r,
    bcl (macros st) toks ->
    exec T rd fuel (TSeq toks None rout) st = Ok r ->
    exists st' ts out,
      r = (st', ASeq out []) /\
      remove_pure_action_lines isp (rev rout ++ ts) = Ok out /\
      unknowns st' = fold_left add_unknown (unames (macros st) toks) (unknowns st) /\
      macros st' = macros st /\
      nst (plains ts) = nst (plains (rtoks (macros st) toks)) /\
      texts ts = texts (rtoks (macros st) toks) /\
      Forall (fun t => etok T t \/ (pk t = false /\ txt t = []) \/ sp_tok t \/ (pfix t = true /\ gtok T t)) ts.
  Proof.
    induction fuel as [|k IH]; intros toks rout st r Hc H; [discriminate|].
    cbn [exec step] in H. inversion Hc as [E0|t b Ht Hb E0|m o a c l Hm Ho Hcl Hbal Ha Hl E0|m body l Hm Hl E0|t l Ht Hn Hl E0]; subst.
    - cbn [step_seq] in H.
      destruct (remove_pure_action_lines isp (rev rout)) as [o| | |] eqn:Er; try discriminate.
      cbn [rbind] in H. inversion H; subst. exists st, [], o.
      rewrite app_nil_r. repeat split; [exact Er | constructor].
    - (* bookkeeping shared by the one-token cases: the token contributes
         un to the names, shown to the expected tokens, pushes `push` *)
      assert (Hone : forall push un st1,
                rtoks (macros st) [t] = rtoks (macros st) [t] ->
                (exists st' ts out,
                   (st', ASeq out []) = r /\
                   remove_pure_action_lines isp (rev rout ++ push ++ ts) = Ok out /\
                   unknowns st' = fold_left add_unknown (unames (macros st) b) (unknowns st1) /\
                   macros st' = macros st /\
                   nst (plains ts) = nst (plains (rtoks (macros st) b)) /\
                   texts ts = texts (rtoks (macros st) b) /\
                   Forall (fun t => etok T t \/ (pk t = false /\ txt t = []) \/ sp_tok t \/ (pfix t = true /\ gtok T t)) ts) ->
                unknowns st1 = fold_left add_unknown un (unknowns st) ->
                unames (macros st) [t] = un ->
                plains push = plains (rtoks (macros st) [t]) -> texts push = texts (rtoks (macros st) [t]) ->
                Forall (fun t => etok T t \/ (pk t = false /\ txt t = []) \/ sp_tok t \/ (pfix t = true /\ gtok T t)) push ->
                exists st' ts out,
                  r = (st', ASeq out []) /\
                  remove_pure_action_lines isp (rev rout ++ ts) = Ok out /\
                  unknowns st' = fold_left add_unknown (unames (macros st) (t :: b)) (unknowns st) /\
                  macros st' = macros st /\
                  nst (plains ts) = nst (plains (rtoks (macros st) (t :: b))) /\
                  texts ts = texts (rtoks (macros st) (t :: b)) /\
                  Forall (fun t => etok T t \/ (pk t = false /\ txt t = []) \/ sp_tok t \/ (pfix t = true /\ gtok T t)) ts).
      { intros push un st1 _ (st' & ts & out & Er & Ep & Eu & Em & En & Et & Ef) U1 U2 P1 P2 Fp.
        exists st', (push ++ ts), out. split; [symmetry; exact Er|]. split; [exact Ep|].
        change (t :: b) with ([t] ++ b). rewrite unames_app, rtoks_app, U2, fold_left_app, <- U1.
        split; [exact Eu|]. split; [exact Em|].
        rewrite !plains_app, !texts_app, !nst_app, P1, P2, En, Et.
        split; [reflexivity|]. split; [reflexivity|]. apply Forall_app. split; assumption. }
      assert (Rother : tk t <> KSpecial -> tk t <> KMacro /\ tk t <> KVerb false -> rtoks (macros st) [t] = [t]).
      { intros Hn [Hn2 Hn3]. unfold rtoks, rend. cbn [flat_map]. rewrite app_nil_r.
        destruct (tk t); try reflexivity; try contradiction.
        match goal with e : bool |- _ => destruct e end; [reflexivity | congruence]. }
      inversion Ht as [? He|? Hk Hd Hm|? Hk Hi|? Hk Htx|? Hk Hbr|? v Hk Hi Hv|? Hpin Hg|? Hk Hnl]; subst.
      + (* plain token *)
        rewrite (step_seq_etok T rd Htab) in H by exact He.
        destruct (IH _ _ _ _ Hb H) as (st' & ts & out & Er & Ep & Eu & Em & En & Et & Ef).
        assert (Hns : tk t <> KSpecial /\ tk t <> KMacro /\ tk t <> KVerb false)
          by (destruct He as [_ Hkind]; destruct (tk t); try contradiction; repeat split; discriminate).
        apply (Hone [t] [] st eq_refl).
        * exists st', ts, out. repeat split; try assumption; [symmetry; exact Er|].
          cbn [rev] in Ep. rewrite <- app_assoc in Ep. exact Ep.
        * reflexivity.
        * unfold unames. cbn [flat_map]. destruct He as [_ Hkind].
          destruct (tk t); try contradiction; reflexivity.
        * rewrite (Rother (proj1 Hns) (proj2 Hns)). reflexivity.
        * rewrite (Rother (proj1 Hns) (proj2 Hns)). reflexivity.
        * constructor; [left; exact He | constructor].
      + (* undeclared control word *)
        destruct (step_macro T rd (exec T rd k) k st t b None rout Hk Hd Hm)
          as (st1 & Es & Eu1 & Em1).
        rewrite Es in H.
        destruct (skip_space_bcl _ _ Hb) as (pre & Eb & Hpre' & Hpre & Hrest).
        assert (Hcl2 : bcl (macros st1) (ActionT (pos t) :: skip_ctl b)).
        { rewrite Em1. constructor; [apply u_action; [left|]; reflexivity | exact Hrest]. }
        destruct (IH _ _ _ _ Hcl2 H) as (st' & ts & out & Er & Ep & Eu & Em & En & Et & Ef).
        rewrite Em1 in En, Et.
        destruct (skipped_harmless T Hsp _ _ Hpre' Hpre) as [Hn0 Hp0].
        assert (Hun0 : unames (macros st) pre = []).
        { clear - Hpre. induction Hpre as [|x p Hx Hp IHp]; [reflexivity|].
          unfold unames in *. cbn [flat_map]. rewrite IHp, app_nil_r.
          unfold buf_is_space in Hx. destruct (tk x); try discriminate; reflexivity. }
        assert (Hr0 : rtoks (macros st) pre = pre).
        { clear - Hpre. induction Hpre as [|x p Hx Hp IHp]; [reflexivity|].
          unfold rtoks in *. cbn [flat_map]. rewrite IHp. unfold rend, buf_is_space in *.
          destruct (tk x); try discriminate; reflexivity. }
        assert (Htx0 : texts pre = []).
        { clear - Hpre. induction Hpre as [|x p Hx Hp IHp]; [reflexivity|].
          unfold texts in *. cbn [filter]. rewrite IHp.
          unfold buf_is_space in Hx. unfold tx. destruct (tk x); try discriminate; reflexivity. }
        assert (Runk : rtoks (macros st) [t] = [t]).
        { unfold rtoks, rend. cbn [flat_map]. rewrite Hk, Hm. reflexivity. }
        exists st', ts, out. split; [exact Er|]. split; [exact Ep|].
        split; [|split; [congruence|split; [|split; [|exact Ef]]]].
        * rewrite Eu, Em1. change (ActionT (pos t) :: skip_ctl b)
            with ([ActionT (pos t)] ++ skip_ctl b).
          change (t :: b) with ([t] ++ b). rewrite !unames_app.
          rewrite (unames_ucls_unknown _ _ Hk Hm). cbn [app fold_left].
          rewrite Eu1. f_equal. rewrite Eb at 2. rewrite unames_app, Hun0. reflexivity.
        * rewrite En.
          change (ActionT (pos t) :: skip_ctl b) with ([ActionT (pos t)] ++ skip_ctl b).
          change (t :: b) with ([t] ++ b). rewrite !rtoks_app, Runk.
          rewrite Eb at 2. rewrite rtoks_app, Hr0, !plains_app, !nst_app.
          unfold ExecUnk.plains in Hp0 |- *. rewrite Hp0.
          assert (P1 : filter pk (rtoks (macros st) [ActionT (pos t)]) = []) by reflexivity.
          assert (P2 : filter pk [t] = []) by (cbn [filter]; unfold ExecUnk.pk; rewrite Hk; reflexivity).
          rewrite P1, P2. reflexivity.
        * rewrite Et.
          change (ActionT (pos t) :: skip_ctl b) with ([ActionT (pos t)] ++ skip_ctl b).
          change (t :: b) with ([t] ++ b). rewrite !rtoks_app, Runk.
          rewrite Eb at 2. rewrite rtoks_app, Hr0, !texts_app, Htx0.
          assert (X1 : texts (rtoks (macros st) [ActionT (pos t)]) = []) by reflexivity.
          assert (X2 : texts [t] = []) by (unfold texts, tx; cbn [filter]; rewrite Hk; reflexivity).
          rewrite X1, X2. reflexivity.
      + (* comment *)
        rewrite (step_comment T rd) in H by assumption.
        destruct (IH _ _ _ _ Hb H) as (st' & ts & out & Er & Ep & Eu & Em & En & Et & Ef).
        assert (Hns : tk t <> KSpecial /\ tk t <> KMacro /\ tk t <> KVerb false) by (rewrite Hk; repeat split; discriminate).
        apply (Hone [] [] st eq_refl).
        * exists st', ts, out. repeat split; try assumption. symmetry; exact Er.
        * reflexivity.
        * unfold unames. cbn [flat_map]. rewrite Hk. reflexivity.
        * rewrite (Rother (proj1 Hns) (proj2 Hns)). unfold ExecUnk.plains, ExecUnk.pk. cbn [filter]. rewrite Hk. reflexivity.
        * rewrite (Rother (proj1 Hns) (proj2 Hns)). unfold texts, tx. cbn [filter]. rewrite Hk. reflexivity.
        * constructor.
      + (* action or void token *)
        rewrite (step_action T rd Htab) in H by assumption.
        destruct (IH _ _ _ _ Hb H) as (st' & ts & out & Er & Ep & Eu & Em & En & Et & Ef).
        assert (Hns : tk t <> KSpecial /\ tk t <> KMacro /\ tk t <> KVerb false)
          by (destruct Hk as [Hk|Hk]; rewrite Hk; repeat split; discriminate).
        assert (P2 : pk t = false)
          by (unfold ExecUnk.pk; destruct Hk as [Hk|Hk]; rewrite Hk; reflexivity).
        apply (Hone [t] [] st eq_refl).
        * exists st', ts, out. repeat split; try assumption; [symmetry; exact Er|].
          cbn [rev] in Ep. rewrite <- app_assoc in Ep. exact Ep.
        * reflexivity.
        * unfold unames. cbn [flat_map]. destruct Hk as [Hk|Hk]; rewrite Hk; reflexivity.
        * rewrite (Rother (proj1 Hns) (proj2 Hns)). reflexivity.
        * rewrite (Rother (proj1 Hns) (proj2 Hns)). reflexivity.
        * constructor; [right; left; split; [exact P2 | exact Htx] | constructor].
      + (* single brace *)
        rewrite (step_brace T rd) in H by assumption.
        destruct (IH _ _ _ _ Hb H) as (st' & ts & out & Er & Ep & Eu & Em & En & Et & Ef).
        assert (Rb : rtoks (macros st) [t] = [t]).
        { unfold rtoks, rend. cbn [flat_map]. rewrite Hk, (brace_not_bsbs t Hbr).
          assert (Hin : inert_txt t = false).
          { unfold inert_txt, loop_strings, txt_is. destruct Hbr as [E|E]; rewrite E; reflexivity. }
          rewrite Hin. destruct (assoc (txt t) (t_special_values T)); reflexivity. }
        apply (Hone [ActionT (pos t)] [] st eq_refl).
        * exists st', ts, out. repeat split; try assumption; [symmetry; exact Er|].
          cbn [rev] in Ep. rewrite <- app_assoc in Ep. exact Ep.
        * reflexivity.
        * unfold unames. cbn [flat_map]. rewrite Hk. reflexivity.
        * rewrite Rb. unfold ExecUnk.plains, ExecUnk.pk. cbn [filter tk ActionT mk]. rewrite Hk. reflexivity.
        * rewrite Rb. unfold texts, tx. cbn [filter tk ActionT mk]. rewrite Hk. reflexivity.
        * constructor; [right; left; split; reflexivity | constructor].
      + (* special sequence: replaced by its tabulated text at its position *)
        rewrite (step_special T rd _ _ _ _ _ _ _ v Hk Hi Hv) in H.
        destruct (IH _ _ _ _ Hb H) as (st' & ts & out & Er & Ep & Eu & Em & En & Et & Ef).
        assert (Rs : rtoks (macros st) [t] = [mk KText (pos t) v (pfix t)]).
        { unfold rtoks, rend. cbn [flat_map]. rewrite Hk, (inert_not_bsbs t Hi), Hv, Hi. reflexivity. }
        apply (Hone [ActionT (pos t); mk KText (pos t) v (pfix t)] [] st eq_refl).
        * exists st', ts, out. repeat split; try assumption; [symmetry; exact Er|].
          cbn [rev] in Ep. rewrite <- !app_assoc in Ep. exact Ep.
        * reflexivity.
        * unfold unames. cbn [flat_map]. rewrite Hk. reflexivity.
        * rewrite Rs. reflexivity.
        * rewrite Rs. reflexivity.
        * constructor; [right; left; split; reflexivity|].
          constructor; [|constructor]. right. right. left. split; [reflexivity|].
          left. exists (txt t). exact Hv.
      + (* generated text: pinned, otherwise like a plain token *)
        rewrite (step_seq_gtok T rd Htab) in H by exact Hg.
        destruct (IH _ _ _ _ Hb H) as (st' & ts & out & Er & Ep & Eu & Em & En & Et & Ef).
        assert (Hns : tk t <> KSpecial /\ tk t <> KMacro /\ tk t <> KVerb false).
        { destruct Hg as [_ Hkind]. cbn [tk txt pos pfix mk] in Hkind.
          destruct (tk t); try contradiction; repeat split; discriminate. }
        apply (Hone [t] [] st eq_refl).
        * exists st', ts, out. repeat split; try assumption; [symmetry; exact Er|].
          cbn [rev] in Ep. rewrite <- app_assoc in Ep. exact Ep.
        * reflexivity.
        * unfold unames. cbn [flat_map]. destruct Hg as [_ Hkind].
          cbn [tk txt pos pfix mk] in Hkind. destruct (tk t); try contradiction; reflexivity.
        * rewrite (Rother (proj1 Hns) (proj2 Hns)). reflexivity.
        * rewrite (Rother (proj1 Hns) (proj2 Hns)). reflexivity.
        * constructor; [right; right; right; split; assumption | constructor].
      + (* \verb material: a text token at the position of the material *)
        rewrite (step_verb T rd) in H by exact Hk.
        destruct (IH _ _ _ _ Hb H) as (st' & ts & out & Er & Ep & Eu & Em & En & Et & Ef).
        assert (Rs : rtoks (macros st) [t] = [mk KText (pos t) (txt t) (pfix t)]).
        { unfold rtoks, rend. cbn [flat_map]. rewrite Hk. reflexivity. }
        apply (Hone [ActionT (pos t); mk KText (pos t) (txt t) (pfix t)] [] st eq_refl).
        * exists st', ts, out. repeat split; try assumption; [symmetry; exact Er|].
          cbn [rev] in Ep. rewrite <- !app_assoc in Ep. exact Ep.
        * reflexivity.
        * unfold unames. cbn [flat_map]. rewrite Hk. reflexivity.
        * rewrite Rs. reflexivity.
        * rewrite Rs. reflexivity.
        * constructor; [right; left; split; reflexivity|].
          constructor; [|constructor]. right. right. left. split; [reflexivity|].
          right. exact Hnl.
    - (* a pass-through macro with its braced argument *)
      destruct (step_pass (exec T rd k) k st m o a c l None rout Hm Ho Hcl Hbal)
        as (a' & x & y & Ea' & Hx & Hy & Es).
      rewrite Es in H.
      assert (Ha' : bcl (macros st) a').
      { rewrite Ea'. destruct a as [|z a0]; [|exact Ha].
        constructor; [apply u_action; [right|]; reflexivity | constructor]. }
      assert (Hnew : bcl (macros st)
                (ActionT (pos m) :: ActionT (pos x) :: a' ++ ActionT (pos y) :: l)).
      { constructor; [apply u_action; [left|]; reflexivity|].
        constructor; [apply u_action; [left|]; reflexivity|].
        apply bcl_app; [exact Ha'|].
        constructor; [apply u_action; [left|]; reflexivity | exact Hl]. }
      destruct (IH _ _ _ _ Hnew H) as (st' & ts & out & Er & Ep & Eu & Em & En & Et & Ef).
      exists st', ts, out. split; [exact Er|]. split; [exact Ep|].
      destruct Hm as (Hk & _ & mac & a1 & Hma & Hargs & _).
      destruct (lb_txt o Ho) as [O1 _]. destruct (rb_txt c Hcl) as [_ C2].
      destruct Ho as [Ok_ Ot]. destruct Hcl as [Ck Ct].
      assert (Ua' : unames (macros st) a' = unames (macros st) a
                    /\ plains (rtoks (macros st) a') = plains (rtoks (macros st) a)
                    /\ texts (rtoks (macros st) a') = texts (rtoks (macros st) a)).
      { rewrite Ea'. destruct a; repeat split; reflexivity. }
      destruct Ua' as (Ua' & Pa' & Ta').
      assert (Ro : rtoks (macros st) [m; o] = [m; o] /\ rtoks (macros st) [c] = [c]).
      { unfold rtoks, rend. cbn [flat_map]. rewrite Hk, Ok_, Ck, Hma, Hargs.
        rewrite (brace_not_bsbs o (or_introl Ot)), (brace_not_bsbs c (or_intror Ct)).
        assert (I1 : inert_txt o = false)
          by (unfold inert_txt, loop_strings; cbn [forallb]; rewrite O1; cbn;
              repeat rewrite Bool.andb_false_r; reflexivity).
        assert (I2 : inert_txt c = false)
          by (unfold inert_txt, loop_strings; cbn [forallb]; rewrite C2; cbn;
              repeat rewrite Bool.andb_false_r; reflexivity).
        rewrite I1, I2.
        destruct (assoc (txt o) (t_special_values T)), (assoc (txt c) (t_special_values T));
          split; reflexivity. }
      destruct Ro as [Ro Rc].
      split; [|split; [exact Em|split; [|split; [|exact Ef]]]].
      + rewrite Eu. f_equal.
        change (ActionT (pos m) :: ActionT (pos x) :: a' ++ ActionT (pos y) :: l)
          with ([ActionT (pos m); ActionT (pos x)] ++ a' ++ [ActionT (pos y)] ++ l).
        change (m :: o :: a ++ c :: l) with ([m; o] ++ a ++ [c] ++ l).
        rewrite !unames_app, Ua'.
        assert (U1 : unames (macros st) [ActionT (pos m); ActionT (pos x)] = []) by reflexivity.
        assert (U2 : unames (macros st) [ActionT (pos y)] = []) by reflexivity.
        assert (U3 : unames (macros st) [m; o] = []).
        { unfold unames. cbn [flat_map]. rewrite Hk, Hma, Ok_. reflexivity. }
        assert (U4 : unames (macros st) [c] = []).
        { unfold unames. cbn [flat_map]. rewrite Ck. reflexivity. }
        rewrite U1, U2, U3, U4. reflexivity.
      + rewrite En.
        change (ActionT (pos m) :: ActionT (pos x) :: a' ++ ActionT (pos y) :: l)
          with ([ActionT (pos m); ActionT (pos x)] ++ a' ++ [ActionT (pos y)] ++ l).
        change (m :: o :: a ++ c :: l) with ([m; o] ++ a ++ [c] ++ l).
        rewrite !rtoks_app, !plains_app, Pa', Ro, Rc.
        assert (Q1 : plains (rtoks (macros st) [ActionT (pos m); ActionT (pos x)]) = []) by reflexivity.
        assert (Q2 : plains (rtoks (macros st) [ActionT (pos y)]) = []) by reflexivity.
        assert (Q3 : plains [m; o] = []).
        { unfold ExecUnk.plains, ExecUnk.pk. cbn [filter]. rewrite Hk, Ok_. reflexivity. }
        assert (Q4 : plains [c] = []).
        { unfold ExecUnk.plains, ExecUnk.pk. cbn [filter]. rewrite Ck. reflexivity. }
        rewrite Q1, Q2, Q3, Q4. reflexivity.
      + rewrite Et.
        change (ActionT (pos m) :: ActionT (pos x) :: a' ++ ActionT (pos y) :: l)
          with ([ActionT (pos m); ActionT (pos x)] ++ a' ++ [ActionT (pos y)] ++ l).
        change (m :: o :: a ++ c :: l) with ([m; o] ++ a ++ [c] ++ l).
        rewrite !rtoks_app, !texts_app, Ta', Ro, Rc.
        assert (Q1 : texts (rtoks (macros st) [ActionT (pos m); ActionT (pos x)]) = []) by reflexivity.
        assert (Q2 : texts (rtoks (macros st) [ActionT (pos y)]) = []) by reflexivity.
        assert (Q3 : texts [m; o] = []).
        { unfold texts, tx. cbn [filter]. rewrite Hk, Ok_. reflexivity. }
        assert (Q4 : texts [c] = []).
        { unfold texts, tx. cbn [filter]. rewrite Ck. reflexivity. }
        rewrite Q1, Q2, Q3, Q4. reflexivity.
    - (* a macro without arguments: its body, pinned to the call *)
      rewrite (step_const (exec T rd k) k st m body l None rout Hm) in H.
      destruct (skip_space_bcl _ _ Hl) as (pre & Eb & Hpre' & Hpre & Hrest).
      set (g := map (fun b => set_pos_fix b (pos m)) body) in *.
      destruct Hm as (Hk & Hd & mac & Hma & Hargs & Hrepl & Hext & Hbody).
      assert (Hg : Forall (fun t => pfix t = true /\ gtok T t) g).
      { unfold g. apply Forall_forall. intros t Ht. apply in_map_iff in Ht.
        destruct Ht as (b0 & Eb0 & Hin). subst t. rewrite Forall_forall in Hbody.
        split; [reflexivity | apply gtok_pinned; apply Hbody; exact Hin]. }
      assert (Hgcl : bcl (macros st) g).
      { clear - Hg. induction Hg as [|t g' [Hp Ht] Hg' IHg]; [constructor|].
        apply b_one; [apply u_gen; assumption | exact IHg]. }
      assert (Hnew : bcl (macros st) (ActionT (pos m) :: g ++ skip_ctl l)).
      { constructor; [apply u_action; [left|]; reflexivity|]. apply bcl_app; assumption. }
      destruct (IH _ _ _ _ Hnew H) as (st' & ts & out & Er & Ep & Eu & Em & En & Et & Ef).
      exists st', ts, out. split; [exact Er|]. split; [exact Ep|].
      destruct (skipped_harmless T Hsp _ _ Hpre' Hpre) as [Hn0 Hp0].
      assert (Hun0 : unames (macros st) pre = []).
      { clear - Hpre. induction Hpre as [|x p Hx Hp IHp]; [reflexivity|].
        unfold unames in *. cbn [flat_map]. rewrite IHp, app_nil_r.
        unfold buf_is_space in Hx. destruct (tk x); try discriminate; reflexivity. }
      assert (Hr0 : rtoks (macros st) pre = pre).
      { clear - Hpre. induction Hpre as [|x p Hx Hp IHp]; [reflexivity|].
        unfold rtoks in *. cbn [flat_map]. rewrite IHp. unfold rend, buf_is_space in *.
        destruct (tk x); try discriminate; reflexivity. }
      assert (Htx0 : texts pre = []).
      { clear - Hpre. induction Hpre as [|x p Hx Hp IHp]; [reflexivity|].
        unfold texts in *. cbn [filter]. rewrite IHp.
        unfold buf_is_space in Hx. unfold tx. destruct (tk x); try discriminate; reflexivity. }
      assert (Rg : rtoks (macros st) g = g /\ unames (macros st) g = []).
      { clear - Hg. induction Hg as [|t g' [Hp [_ Ht]] Hg' [I1 I2]]; [split; reflexivity|].
        cbn [tk txt pos pfix mk] in Ht. unfold rtoks, unames in *. cbn [flat_map].
        rewrite I1, I2. unfold rend. destruct (tk t); try contradiction; split; reflexivity. }
      destruct Rg as [Rg Ug].
      assert (Rm : rtoks (macros st) [m] = g /\ unames (macros st) [m] = []).
      { unfold rtoks, rend, unames. cbn [flat_map]. rewrite Hk, Hma, Hargs, Hrepl.
        rewrite !app_nil_r. split; reflexivity. }
      destruct Rm as [Rm Um].
      split; [|split; [exact Em|split; [|split; [|exact Ef]]]].
      + rewrite Eu. f_equal.
        change (ActionT (pos m) :: g ++ skip_ctl l) with ([ActionT (pos m)] ++ g ++ skip_ctl l).
        change (m :: l) with ([m] ++ l). rewrite !unames_app, Ug, Um.
        rewrite Eb at 2. rewrite unames_app, Hun0. reflexivity.
      + rewrite En.
        change (ActionT (pos m) :: g ++ skip_ctl l) with ([ActionT (pos m)] ++ g ++ skip_ctl l).
        change (m :: l) with ([m] ++ l). rewrite !rtoks_app, Rg, Rm.
        rewrite Eb at 2. rewrite rtoks_app, Hr0, !plains_app, !nst_app.
        unfold ExecUnk.plains in Hp0 |- *. rewrite Hp0.
        assert (P1 : filter pk (rtoks (macros st) [ActionT (pos m)]) = []) by reflexivity.
        rewrite P1. reflexivity.
      + rewrite Et.
        change (ActionT (pos m) :: g ++ skip_ctl l) with ([ActionT (pos m)] ++ g ++ skip_ctl l).
        change (m :: l) with ([m] ++ l). rewrite !rtoks_app, Rg, Rm.
        rewrite Eb at 2. rewrite rtoks_app, Hr0, !texts_app, Htx0.
        assert (X1 : texts (rtoks (macros st) [ActionT (pos m)]) = []) by reflexivity.
        rewrite X1. reflexivity.
    - (* the line break: one blank at its position *)
      rewrite (step_newline (exec T rd k) k st t l None rout Ht Hn) in H.
      destruct (IH _ _ _ _ Hl H) as (st' & ts & out & Er & Ep & Eu & Em & En & Et & Ef).
      destruct Ht as [Hk Htx].
      assert (Rn : rtoks (macros st) [t] = [SpaceT (pos t) s_space]).
      { unfold rtoks, rend. cbn [flat_map]. rewrite Hk, Htx. reflexivity. }
      assert (Hsp_tok : etok T (SpaceT (pos t) s_space)).
      { split; [reflexivity|]. cbn [tk SpaceT mk txt]. exists 32%N, [].
        destruct Hblank as [Hb _]. split; [reflexivity|]. split; [exact Hb|].
        cbn [forallb s_space]. unfold s_space, c_space. rewrite Hb. reflexivity. }
      exists st', (ActionT (pos t) :: SpaceT (pos t) s_space :: ts), out.
      split; [exact Er|].
      split; [cbn [rev] in Ep; rewrite <- !app_assoc in Ep; exact Ep|].
      change (t :: l) with ([t] ++ l). rewrite unames_app, rtoks_app, Rn.
      assert (U0 : unames (macros st) [t] = [])
        by (unfold unames; cbn [flat_map]; rewrite Hk; reflexivity).
      rewrite U0. split; [exact Eu|]. split; [exact Em|].
      split; [|split].
      + change (ActionT (pos t) :: SpaceT (pos t) s_space :: ts)
          with ([ActionT (pos t); SpaceT (pos t) s_space] ++ ts).
        rewrite !plains_app, !nst_app, En. reflexivity.
      + change (ActionT (pos t) :: SpaceT (pos t) s_space :: ts)
          with ([ActionT (pos t); SpaceT (pos t) s_space] ++ ts).
        rewrite !texts_app, Et. reflexivity.
      + constructor; [right; left; split; reflexivity|].
        constructor; [left; exact Hsp_tok | exact Ef].
  Qed.

  (* ---- totality on the class (C07): the loop terminates and returns ---- *)
  (* a macro weighs 5 plus the length of its body, any other token 1 *)
  Definition wt (ms : list (str * macro)) (t : tok) : nat :=
    match tk t with
    | KMacro => match assoc (txt t) ms with
                | Some mac => match m_repl mac with
                              | RToks body => (5 + length body)%nat
                              | RHandler _ => 5%nat end
                | None => 5%nat end
    | _ => 1%nat
    end.
  Definition mu (ms : list (str * macro)) (l : list tok) : nat :=
    fold_right (fun t n => (wt ms t + n)%nat) 0%nat l.
  Lemma mu_app ms a b : mu ms (a ++ b) = (mu ms a + mu ms b)%nat.
  Proof. induction a as [|x a IH]; simpl; [reflexivity|]. rewrite IH. lia. Qed.
  Lemma mu_skip ms b : (mu ms (skip_ctl b) <= mu ms b)%nat.
  Proof.
    induction b as [|t b IH]; simpl; [lia|].
    destruct (buf_is_space t && negb (is_lang t) && negb (is_action t)); simpl; lia.
  Qed.
  Lemma wt_pos ms t : (1 <= wt ms t)%nat.
  Proof.
    unfold wt. destruct (tk t); try lia. destruct (assoc (txt t) ms) as [mac|]; [|lia].
    destruct (m_repl mac); lia.
  Qed.
  Lemma wt_other ms t : tk t <> KMacro -> wt ms t = 1%nat.
  Proof. intros H. unfold wt. destruct (tk t); try reflexivity. contradiction. Qed.

  Theorem exec_args_total : forall fuel toks rout st,
    bcl (macros st) toks -> (mu (macros st) toks < fuel)%nat ->
    exists r, exec T rd fuel (TSeq toks None rout) st = Ok r.
  Proof.
    induction fuel as [|k IH]; intros toks rout st Hc Hf; [lia|].
    cbn [exec step]. inversion Hc as [E0|t b Ht Hb E0|m o a c l Hm Ho Hcl Hbal Ha Hl E0|m body l Hm Hl E0|t l Ht Hn Hl E0]; subst.
    - cbn [step_seq]. destruct (rpal_total isp (rev rout)) as [o E]. rewrite E. cbn [rbind].
      eexists. reflexivity.
    - cbn [mu fold_right] in Hf. fold (mu (macros st) b) in Hf.
      pose proof (wt_pos (macros st) t) as Hw.
      inversion Ht as [? He|? Hk Hd Hm|? Hk Hi|? Hk Htx|? Hk Hbr|? v Hk Hi Hv|? Hpin Hg|? Hk Hnl]; subst.
      + rewrite (step_seq_etok T rd Htab) by exact He. apply IH; [exact Hb | lia].
      + destruct (step_macro T rd (exec T rd k) k st t b None rout Hk Hd Hm)
          as (st1 & Es & _ & Em1).
        rewrite Es. destruct (skip_space_bcl _ _ Hb) as (pre & _ & _ & _ & Hrest).
        apply IH.
        * rewrite Em1. constructor; [apply u_action; [left|]; reflexivity | exact Hrest].
        * rewrite Em1. cbn [mu fold_right]. fold (mu (macros st) (skip_ctl b)).
          pose proof (mu_skip (macros st) b).
          assert (wt (macros st) t = 5%nat) as W by (unfold wt; rewrite Hk, Hm; reflexivity).
          assert (wt (macros st) (ActionT (pos t)) = 1%nat) as W1 by reflexivity.
          lia.
      + rewrite (step_comment T rd) by assumption. apply IH; [exact Hb | lia].
      + rewrite (step_action T rd Htab) by assumption. apply IH; [exact Hb | lia].
      + rewrite (step_brace T rd) by assumption. apply IH; [exact Hb | lia].
      + rewrite (step_special T rd _ _ _ _ _ _ _ v Hk Hi Hv). apply IH; [exact Hb | lia].
      + rewrite (step_seq_gtok T rd Htab) by exact Hg. apply IH; [exact Hb | lia].
      + rewrite (step_verb T rd) by exact Hk. apply IH; [exact Hb | lia].
    - destruct (step_pass (exec T rd k) k st m o a c l None rout Hm Ho Hcl Hbal)
        as (a' & x & y & Ea' & Hx & Hy & Es).
      rewrite Es.
      assert (Ha' : bcl (macros st) a').
      { rewrite Ea'. destruct a as [|z a0]; [|exact Ha].
        constructor; [apply u_action; [right|]; reflexivity | constructor]. }
      apply IH.
      + constructor; [apply u_action; [left|]; reflexivity|].
        constructor; [apply u_action; [left|]; reflexivity|].
        apply bcl_app; [exact Ha'|].
        constructor; [apply u_action; [left|]; reflexivity | exact Hl].
      + destruct Hm as (Hk & _ & mac & a1 & Hma & _ & Hrepl & _).
        change (m :: o :: a ++ c :: l) with ([m; o] ++ a ++ [c] ++ l) in Hf.
        change (ActionT (pos m) :: ActionT (pos x) :: a' ++ ActionT (pos y) :: l)
          with ([ActionT (pos m); ActionT (pos x)] ++ a' ++ [ActionT (pos y)] ++ l).
        rewrite !mu_app in *.
        assert (M1 : (6 <= mu (macros st) [m; o])%nat).
        { cbn. unfold wt at 1. rewrite Hk, Hma, Hrepl. pose proof (wt_pos (macros st) o).
          cbn [length]. lia. }
        assert (M2 : mu (macros st) [ActionT (pos m); ActionT (pos x)] = 2%nat) by reflexivity.
        assert (M3 : mu (macros st) [ActionT (pos y)] = 1%nat) by reflexivity.
        assert (M4 : (mu (macros st) a' <= mu (macros st) a + 1)%nat).
        { rewrite Ea'. destruct a; [cbn; lia | lia]. }
        assert (M5 : (1 <= mu (macros st) [c])%nat)
          by (cbn; pose proof (wt_pos (macros st) c); lia).
        lia.
    - rewrite (step_const (exec T rd k) k st m body l None rout Hm).
      destruct (skip_space_bcl _ _ Hl) as (pre & _ & _ & _ & Hrest).
      destruct Hm as (Hk & Hd & mac & Hma & Hargs & Hrepl & Hext & Hbody).
      set (g := map (fun b => set_pos_fix b (pos m)) body).
      assert (Hg : Forall (fun t => pfix t = true /\ gtok T t) g).
      { unfold g. apply Forall_forall. intros t Ht. apply in_map_iff in Ht.
        destruct Ht as (b0 & Eb0 & Hin). subst t. rewrite Forall_forall in Hbody.
        split; [reflexivity | apply gtok_pinned; apply Hbody; exact Hin]. }
      apply IH.
      + constructor; [apply u_action; [left|]; reflexivity|]. apply bcl_app; [|exact Hrest].
        clear - Hg. induction Hg as [|t g' [Hp Ht] Hg' IHg]; [constructor|].
        apply b_one; [apply u_gen; assumption | exact IHg].
      + cbn [mu fold_right] in Hf |- *. fold (mu (macros st) l) in Hf.
        fold (mu (macros st) (g ++ skip_ctl l)). rewrite mu_app.
        pose proof (mu_skip (macros st) l).
        assert (W : wt (macros st) m = (5 + length body)%nat)
          by (unfold wt; rewrite Hk, Hma, Hrepl; reflexivity).
        assert (Mg : mu (macros st) g = length body).
        { unfold g. clear - Hg. revert Hg. unfold g. clear g.
          induction body as [|b0 body IHb]; intros Hg; [reflexivity|].
          cbn [map] in Hg. inversion Hg as [|? ? [_ [_ Hk0]] Hg']; subst.
          cbn [tk txt pos pfix mk set_pos_fix] in Hk0. cbn [map mu fold_right length].
          fold (mu (macros st) (map (fun b => set_pos_fix b (pos m)) body)).
          rewrite (IHb Hg'). rewrite wt_other; [reflexivity|].
          cbn [tk set_pos_fix]. destruct (tk b0); try contradiction; discriminate. }
        assert (W1 : wt (macros st) (ActionT (pos m)) = 1%nat) by reflexivity.
        lia.
    - rewrite (step_newline (exec T rd k) k st t l None rout Ht Hn).
      apply IH; [exact Hl|]. cbn [mu fold_right] in Hf. fold (mu (macros st) l) in Hf.
      pose proof (wt_pos (macros st) t). lia.
  Qed.

  (* nothing of the parser state but the list of unknowns changes: no
     diagnostic is recorded, no declaration, no language, no counter *)
  Definition frame (st st' : pstate) : Prop := st' = upd_unknowns st (unknowns st').
  Lemma frame_refl st : frame st st.
  Proof. unfold frame. destruct st; reflexivity. Qed.
  Lemma frame_trans a b c : frame a b -> frame b c -> frame a c.
  Proof. unfold frame. intros H1 H2. rewrite H2. rewrite H1. reflexivity. Qed.
  Lemma frame_macros a b : frame a b -> macros b = macros a.
  Proof. unfold frame. intros H. rewrite H. reflexivity. Qed.

  Lemma step_macro_frame rec fuel st t b env_stop rout :
    tk t = KMacro -> txt_is t (s2l "\def") = false -> assoc (txt t) (macros st) = None ->
    exists st',
      step_seq T rd rec fuel st (t :: b) env_stop rout =
        rec (TSeq (ActionT (pos t) :: skip_ctl b) env_stop rout) st' /\ frame st st'.
  Proof.
    intros Hk Hd Hm. unfold step_seq. rewrite Hk, Hd. unfold expand_macro. rewrite Hm.
    cbn [orb]. destruct (mem_str (txt t) (unknowns st)); cbn [rbind app].
    - exists st. split; [reflexivity | apply frame_refl].
    - eexists. split; [reflexivity|]. unfold frame. reflexivity.
  Qed.

  Theorem exec_args_frame : forall fuel toks rout st st' a,
    bcl (macros st) toks ->
    exec T rd fuel (TSeq toks None rout) st = Ok (st', a) -> frame st st'.
  Proof.
    induction fuel as [|k IH]; intros toks rout st st' a Hc H; [discriminate|].
    cbn [exec step] in H. inversion Hc as [E0|t b Ht Hb E0|m o a0 c l Hm Ho Hcl Hbal Ha Hl E0|m body l Hm Hl E0|t l Ht Hn Hl E0]; subst.
    - cbn [step_seq] in H.
      destruct (remove_pure_action_lines isp (rev rout)) as [o| | |]; try discriminate.
      cbn [rbind] in H. inversion H; subst. apply frame_refl.
    - inversion Ht as [? He|? Hk Hd Hm|? Hk Hi|? Hk Htx|? Hk Hbr|? v Hk Hi Hv|? Hpin Hg|? Hk Hnl]; subst.
      + rewrite (step_seq_etok T rd Htab) in H by exact He. eapply IH; eassumption.
      + destruct (step_macro_frame (exec T rd k) k st t b None rout Hk Hd Hm) as (st1 & Es & Fr).
        rewrite Es in H. destruct (skip_space_bcl _ _ Hb) as (pre & _ & _ & _ & Hrest).
        apply (frame_trans _ _ _ Fr). eapply IH; [|exact H].
        rewrite (frame_macros _ _ Fr).
        constructor; [apply u_action; [left|]; reflexivity | exact Hrest].
      + rewrite (step_comment T rd) in H by assumption. eapply IH; eassumption.
      + rewrite (step_action T rd Htab) in H by assumption. eapply IH; eassumption.
      + rewrite (step_brace T rd) in H by assumption. eapply IH; eassumption.
      + rewrite (step_special T rd _ _ _ _ _ _ _ v Hk Hi Hv) in H. eapply IH; eassumption.
      + rewrite (step_seq_gtok T rd Htab) in H by exact Hg. eapply IH; eassumption.
      + rewrite (step_verb T rd) in H by exact Hk. eapply IH; eassumption.
    - destruct (step_pass (exec T rd k) k st m o a0 c l None rout Hm Ho Hcl Hbal)
        as (a' & x & y & Ea' & Hx & Hy & Es).
      rewrite Es in H.
      assert (Ha' : bcl (macros st) a').
      { rewrite Ea'. destruct a0 as [|z a1]; [|exact Ha].
        constructor; [apply u_action; [right|]; reflexivity | constructor]. }
      eapply IH; [|exact H].
      constructor; [apply u_action; [left|]; reflexivity|].
      constructor; [apply u_action; [left|]; reflexivity|].
      apply bcl_app; [exact Ha'|].
      constructor; [apply u_action; [left|]; reflexivity | exact Hl].
    - rewrite (step_const (exec T rd k) k st m body l None rout Hm) in H.
      destruct (skip_space_bcl _ _ Hl) as (pre & _ & _ & _ & Hrest).
      destruct Hm as (Hk & Hd & mac & Hma & Hargs & Hrepl & Hext & Hbody).
      eapply IH; [|exact H].
      constructor; [apply u_action; [left|]; reflexivity|]. apply bcl_app; [|exact Hrest].
      assert (Hg : Forall (fun t => pfix t = true /\ gtok T t)
                          (map (fun b => set_pos_fix b (pos m)) body)).
      { apply Forall_forall. intros t Ht. apply in_map_iff in Ht.
        destruct Ht as (b0 & Eb0 & Hin). subst t. rewrite Forall_forall in Hbody.
        split; [reflexivity | apply gtok_pinned; apply Hbody; exact Hin]. }
      clear - Hg. induction Hg as [|t g' [Hp Ht] Hg' IHg]; [constructor|].
      apply b_one; [apply u_gen; assumption | exact IHg].
    - rewrite (step_newline (exec T rd k) k st t l None rout Ht Hn) in H.
      eapply IH; eassumption.
  Qed.

  (* the words stay -- also those inside arguments --, the markup vanishes,
     special sequences show as their tabulated text, the undeclared names are
     recorded once each in order of first use *)
  Theorem exec_args_text fuel toks st st' out :
    isp c_nl = true ->
    bcl (macros st) toks ->
    exec T rd fuel (TSeq toks None []) st = Ok (st', ASeq out []) ->
    nst out = nst (plains (rtoks (macros st) toks)) /\
    unknowns st' = fold_left add_unknown (unames (macros st) toks) (unknowns st) /\
    macros st' = macros st.
  Proof.
    intros Hnl Hc H.
    destruct (exec_args fuel toks [] st _ Hc H) as (st2 & ts & o & Er & Ep & Eu & Em & En & Et & Ef).
    inversion Er; subst. cbn [rev app] in Ep.
    split; [|split; assumption].
    (* every token of ts: a text-like kind, or no text at all *)
    assert (Hk : Forall (fun t => (pk t = true /\ is_action t = false /\ is_lang t = false)
                                  \/ (pk t = false /\ txt t = [])) ts).
    { eapply Forall_impl; [|exact Ef]. intros a Ha.
      destruct Ha as [[_ A]|[(A & B)|[[A _]|[_ [_ A]]]]].
      - left. unfold ExecUnk.pk, is_action, is_lang. destruct (tk a); try contradiction; auto.
      - right. split; assumption.
      - left. unfold ExecUnk.pk, is_action, is_lang. rewrite A. auto.
      - left. cbn [tk txt pos pfix mk] in A. unfold ExecUnk.pk, is_action, is_lang.
        destruct (tk a); try contradiction; auto. }
    assert (HE0 : Forall (RpalProofs.E0) ts).
    { eapply Forall_impl; [|exact Hk]. intros a Ha. unfold RpalProofs.E0. intros HX.
      destruct Ha as [(A & B & C)|(A & B)]; [destruct HX; congruence | exact B]. }
    pose proof (rpal_conserves isp Hnl ts o HE0 Ep) as Hcons.
    unfold ExecUnk.nst at 1. rewrite Hcons. rewrite <- En.
    unfold ExecUnk.nst, RpalProofs.nst, ExecUnk.plains. clear - Hk.
    induction Hk as [|t l Ht Hl IH]; [reflexivity|].
    cbn [flat_map filter]. destruct Ht as [(A & _)|(A & B)]; rewrite A.
    - cbn [flat_map]. rewrite IH. reflexivity.
    - rewrite B. cbn. exact IH.
  Qed.

  (* no tabulated replacement text holds a line break *)
  Definition values_one_line : bool :=
    forallb (fun e => negb (has_nl (snd e))) (t_special_values T).
  Hypothesis Hval : values_one_line = true.

  (* C02 / C06 for the class: the visible one-line text tokens in the output
     are exactly the text tokens of the document -- running text and the text
     inside the arguments of pass-through macros, however deeply nested, each
     with the character and the position the scanner gave it -- and the
     tabulated replacements of the special sequences, each at the position
     of its sequence; in order; nothing else *)
  Theorem exec_args_positions fuel toks st st' out :
    isp c_nl = true ->
    bcl (macros st) toks ->
    exec T rd fuel (TSeq toks None []) st = Ok (st', ASeq out []) ->
    filter (solid isp) out = filter (solid isp) (texts (rtoks (macros st) toks)).
  Proof.
    intros Hnl Hc H.
    destruct (exec_args fuel toks [] st _ Hc H) as (st2 & ts & o & Er & Ep & _ & _ & _ & Et & Ef).
    inversion Er; subst. cbn [rev app] in Ep. rewrite <- Et.
    assert (Hcls : forall t, etok T t \/ (pk t = false /\ txt t = []) \/ sp_tok t \/ (pfix t = true /\ gtok T t) ->
                   G isp t /\ (tx t = false -> solid isp t = false)).
    { assert (Hg0 : forall t, gtok T t -> G isp t /\ (tx t = false -> solid isp t = false)).
      { intros t [Hp Hk]. cbn [tk txt pos pfix mk] in Hk.
        unfold tx, G, RpalProofs.E0, is_action, is_lang, solid.
        destruct (tk t) eqn:Ek; try contradiction.
        + destruct Hk as (c & Etx & Hsc & _). rewrite Etx.
          assert (Hc' : isp c = false) by (rewrite <- Hsp; exact Hsc).
          assert (Hn : has_nl [c] = false).
          { unfold has_nl. cbn [existsb]. destruct (N.eqb c_nl c) eqn:E; [|reflexivity].
            apply N.eqb_eq in E. subst c. congruence. }
          rewrite Hn.
          split; [split; [discriminate | intros [X|X]; discriminate] | discriminate].
        + destruct Hk as (c & r & Etx & _ & Hall).
          assert (Hb : blank_str isp (txt t) = true).
          { unfold blank_str. rewrite forallb_forall in *. intros a Ha. rewrite <- Hsp.
            apply Hall, Ha. }
          rewrite Hb. rewrite Bool.andb_false_r.
          split; [split; [intros _; reflexivity | intros [X|X]; discriminate] | reflexivity].
        + destruct Hk as (c & r & Etx & _ & Hall).
          assert (Hb : blank_str isp (txt t) = true).
          { unfold blank_str. rewrite forallb_forall in *. intros a Ha. rewrite <- Hsp.
            apply Hall, Ha. }
          rewrite Hb. rewrite Bool.andb_false_r.
          split; [split; [intros _; reflexivity | intros [X|X]; discriminate] | reflexivity]. }
      intros t [He|[(A & B)|[[A Hsrc]|[_ Hg]]]];
        [apply Hg0, etok_gtok; exact He | | | apply Hg0; exact Hg].
      - split; [split; [rewrite B; discriminate | intros _; exact B]|].
        intros _. apply (solid_nil isp t B).
      - assert (Hn : has_nl (txt t) = false).
        { destruct Hsrc as [(key & Hv)|Hn']; [|exact Hn'].
          unfold values_one_line in Hval. rewrite forallb_forall in Hval.
          assert (Hin : In (key, txt t) (t_special_values T)).
          { clear - Hv. induction (t_special_values T) as [|[k' v'] l IHl]; [discriminate|].
            simpl in Hv. destruct (str_eqb key k') eqn:E.
            - inversion Hv; subst. apply str_eqb_eq in E. subst. left. reflexivity.
            - right. apply IHl. exact Hv. }
          specialize (Hval _ Hin). cbn [snd] in Hval. apply negb_true_iff in Hval. exact Hval. }
        split; [split; [rewrite Hn; discriminate|]|].
        + unfold RpalProofs.E0, is_action, is_lang. rewrite A. intros [X|X]; discriminate.
        + unfold tx. rewrite A. discriminate. }
    assert (HG : Forall (G isp) ts).
    { eapply Forall_impl; [|exact Ef]. intros a Ha. apply Hcls. exact Ha. }
    rewrite (rpal_keeps_solid isp ts o HG Ep).
    unfold texts. clear - Ef Hcls. induction Ef as [|t l Ht Hl IH]; [reflexivity|].
    cbn [filter]. destruct (tx t) eqn:E.
    - cbn [filter]. rewrite IH. reflexivity.
    - rewrite (proj2 (Hcls t Ht) E). exact IH.
  Qed.
End ExecArgs.
