(* C16: one region of the HTML report (genhtml.py, the loop over the matches
   of a region).  The body of the region is a tiling of the source stretch
   it covers: escaped plain stretches and highlights alternate without gap or
   overlap; every match is highlighted once, in place or in the list of
   overlapping messages. *)
From Coq Require Import Lia Sorting.Permutation.
From YV Require Import PyBase PyBaseProofs ShellMap ShellMapProofs Html HtmlProofs.
Open Scope Z_scope.

Lemma pyslice_app {A} (l : list A) a b c :
  (a <= b <= c)%nat -> pyslice l a b ++ pyslice l b c = pyslice l a c.
Proof.
  intros H. unfold pyslice.
  replace (skipn b l) with (skipn (b - a) (skipn a l))
    by (rewrite skipn_skipn_add; f_equal; lia).
  replace (c - a)%nat with ((b - a) + (c - b))%nat by lia.
  generalize (skipn a l) as m. generalize (b - a)%nat as n. generalize (c - b)%nat as k.
  intros k n. induction n as [|n IH]; intros m; simpl; [reflexivity|].
  destruct m as [|x m]; simpl; [rewrite firstn_nil; reflexivity|]. f_equal. apply IH.
Qed.

Lemma zslice_app {A} (l : list A) a b c :
  0 <= a <= b -> b <= c -> zslice l a b ++ zslice l b c = zslice l a c.
Proof.
  intros H1 H2. unfold zslice. apply pyslice_app. unfold norm_idx.
  assert (Ha : (a <? 0) = false) by (apply Z.ltb_ge; lia).
  assert (Hb : (b <? 0) = false) by (apply Z.ltb_ge; lia).
  assert (Hc : (c <? 0) = false) by (apply Z.ltb_ge; lia).
  rewrite Ha, Hb, Hc. lia.
Qed.

Section Region.
  Variable is_alpha is_word : char -> bool.
  Variable style style_unsure number_style : str.
  Variable context : Z.

  Notation generate_highlight := (generate_highlight style style_unsure).
  Notation region_body := (region_body style style_unsure).
  Notation make_hdata := (make_hdata is_alpha is_word).

  Inductive piece := PPlain (a b : Z) | PHigh (h : hdata).

  (* the tiling and the overlapping matches of a region whose previous
     highlight ended at `last` *)
  Fixpoint tiles (hs : list hdata) (last : Z) : list piece :=
    match hs with
    | [] => []
    | h :: hs' => if h_beg h <? last then tiles hs' last
                  else PPlain last (h_beg h) :: PHigh h :: tiles hs' (h_end h)
    end.
  Fixpoint overl (hs : list hdata) (last : Z) : list hdata :=
    match hs with
    | [] => []
    | h :: hs' => if h_beg h <? last then h :: overl hs' last
                  else overl hs' (h_end h)
    end.
  Definition highs (ps : list piece) : list hdata :=
    flat_map (fun p => match p with PHigh h => [h] | _ => [] end) ps.

  Definition hl (tex : str) (h : hdata) : str :=
    generate_highlight (h_m h) (zslice tex (h_beg h) (h_end h)) (h_lin h + 1) (h_unsure h).
  Definition render (tex : str) (p : piece) : str :=
    match p with
    | PPlain a b => protect_html (zslice tex a b)
    | PHigh h => hl tex h
    end.
  (* the source stretch a piece stands for *)
  Definition span (tex : str) (p : piece) : str :=
    match p with
    | PPlain a b => zslice tex a b
    | PHigh h => zslice tex (h_beg h) (h_end h)
    end.

  (* (1) the body is the rendering of the tiling, the overlap list holds the
     highlights of the overlapping matches with their line numbers *)
  Theorem region_body_tiles tex : forall hs last,
    region_body tex hs last =
    (flat_map (render tex) (tiles hs last),
     map (fun h => (hl tex h, h_lin h + 1)) (overl hs last)).
  Proof.
    induction hs as [|h hs IH]; intros last; [reflexivity|].
    cbn [Html.region_body tiles overl]. destruct (h_beg h <? last).
    - rewrite IH. reflexivity.
    - rewrite IH. cbn [flat_map render map]. unfold hl. rewrite <- ?app_assoc. reflexivity.
  Qed.

  (* (2) every match is highlighted exactly once: in place or in the list *)
  Theorem each_match_once : forall hs last,
    Permutation hs (highs (tiles hs last) ++ overl hs last).
  Proof.
    induction hs as [|h hs IH]; intros last; [constructor|].
    cbn [tiles overl]. destruct (h_beg h <? last).
    - apply Permutation_cons_app. apply IH.
    - cbn [highs flat_map app]. constructor. apply IH.
  Qed.

  (* (3) the pieces tile the source: no gap, no overlap, in order *)
  Theorem tiles_source tex : forall hs last,
    0 <= last -> Forall (fun h => h_beg h <= h_end h) hs ->
    flat_map (span tex) (tiles hs last) = zslice tex last (region_last hs last)
    /\ last <= region_last hs last.
  Proof.
    induction hs as [|h hs IH]; intros last H0 Hf; cbn [tiles region_last flat_map].
    - split; [|lia]. unfold zslice, pyslice. rewrite Nat.sub_diag. reflexivity.
    - inversion Hf as [|? ? Hh Hr]; subst. destruct (h_beg h <? last) eqn:E.
      + apply IH; assumption.
      + apply Z.ltb_ge in E. destruct (IH (h_end h) ltac:(lia) Hr) as [I1 I2].
        cbn [flat_map span]. rewrite I1. split; [|lia].
        rewrite app_assoc. rewrite zslice_app by lia. apply zslice_app; lia.
  Qed.

  (* (4) hence the text content of the body -- every piece escaped, the
     highlights without their tags -- is the escaped source stretch *)
  Theorem region_text tex hs last :
    0 <= last -> Forall (fun h => h_beg h <= h_end h) hs ->
    flat_map (fun p => protect_html (span tex p)) (tiles hs last)
    = protect_html (zslice tex last (region_last hs last)).
  Proof.
    intros H0 Hf. destruct (tiles_source tex hs last H0 Hf) as [E _]. rewrite <- E.
    generalize (tiles hs last) as ps. induction ps as [|p ps IH]; [reflexivity|].
    cbn [flat_map]. rewrite protect_html_app, IH. reflexivity.
  Qed.

  (* and a highlight is its escaped source stretch, each line wrapped *)
  Theorem highlight_is_wrapped_span tex h :
    exists pre post,
      render tex (PHigh h) =
        join_br (fun l => pre ++ l ++ post) (split_br (protect_html (span tex (PHigh h)))) /\
      join_br (fun l => l) (split_br (protect_html (span tex (PHigh h))))
        = protect_html (span tex (PHigh h)).
  Proof. apply highlight_keeps_text. Qed.

  (* (5) the spans come from make_hdata with begin < end *)
  Theorem make_hdata_order tex cm m h :
    make_hdata tex cm m = Ok h -> h_beg h < h_end h.
  Proof.
    unfold Html.make_hdata.
    destruct ((hm_offset m <? 0) || _ || _ || _); [discriminate|].
    destruct (py_index cm (hm_offset m)) as [cb| | |]; cbn [rbind]; try discriminate.
    destruct (py_index cm _) as [ce| | |]; cbn [rbind]; try discriminate.
    set (unsure := (cb <? 0) || (ce <? 0)).
    set (hb := Z.abs cb - 1).
    set (he0 := if unsure || (Z.abs ce <=? hb) then hb + 1 else Z.abs ce).
    assert (H0 : hb < he0).
    { unfold he0. destruct (unsure || (Z.abs ce <=? hb)) eqn:E; [lia|].
      apply Bool.orb_false_iff in E. destruct E as [_ E]. apply Z.leb_gt in E. lia. }
    destruct (py_index tex hb) as [c0| | |]; cbn [rbind]; try discriminate.
    intros H. inversion H; subst. cbn [h_beg h_end].
    destruct ((he0 =? hb + 1) && N.eqb c0 c_backslash).
    - pose proof (correct_mark_macroname_range hb 1 tex) as Hc. simpl in Hc.
      destruct Hc as [Hc|Hc]; lia.
    - destruct (unsure && is_alpha c0); [|exact H0].
      destruct (length _); [exact H0 | lia].
  Qed.
End Region.

(* ---- grouping of the matches into regions ---- *)
Section Group.
  Variable context : Z.
  Notation group := (Html.group).

  (* the regions partition the list of matches: nothing lost, nothing twice,
     order kept; no region is empty *)
  Lemma group_flat : forall hs cur acc,
    concat (group hs cur acc) = concat (rev acc) ++ rev cur ++ hs.
  Proof.
    induction hs as [|h hs IH]; intros cur acc; cbn [Html.group].
    - destruct cur as [|c cur']; [simpl; rewrite app_nil_r; reflexivity|].
      cbn [rev]. rewrite concat_app. cbn [concat]. rewrite !app_nil_r. reflexivity.
    - destruct cur as [|c cur'].
      + rewrite IH. reflexivity.
      + destruct (max_endlin (c :: cur') <=? h_beglin h).
        * rewrite IH. cbn [rev]. rewrite concat_app. cbn [concat rev app].
          rewrite app_nil_r, <- !app_assoc. reflexivity.
        * rewrite IH. cbn [rev]. rewrite <- !app_assoc. reflexivity.
  Qed.

  Theorem group_partition hs : concat (group hs [] []) = hs.
  Proof. rewrite group_flat. reflexivity. Qed.

  Lemma group_nonempty : forall hs cur acc,
    Forall (fun r => r <> []) acc ->
    Forall (fun r => r <> []) (group hs cur acc).
  Proof.
    induction hs as [|h hs IH]; intros cur acc Ha; cbn [Html.group].
    - destruct cur as [|c cur']; [apply Forall_rev; exact Ha|].
      apply Forall_rev. constructor; [|exact Ha].
      intros E. apply (f_equal (@length _)) in E. rewrite rev_length in E. discriminate.
    - destruct cur as [|c cur']; [apply IH; exact Ha|].
      destruct (max_endlin (c :: cur') <=? h_beglin h); apply IH; [|exact Ha].
      constructor; [|exact Ha].
      intros E. apply (f_equal (@length _)) in E. rewrite rev_length in E. discriminate.
  Qed.

  Theorem group_regions_nonempty hs : Forall (fun r => r <> []) (group hs [] []).
  Proof. apply group_nonempty. constructor. Qed.
End Group.
