(* C02 at the scanner: every token that is not pinned carries, as its text,
   exactly the characters of the source that stand at its position; and
   get_txt_pos hands this on character by character. *)
From Coq Require Import Lia.
From YV Require Import PyBase PyBaseProofs ShellMap Token Utils Scanner TokOk.
Open Scope Z_scope.

(* the text x stands in s at offset off *)
Definition sub_at (s : str) (off : nat) (x : str) : Prop :=
  firstn (length x) (skipn off s) = x.

(* the text x stands in the source at the 0-based position p *)
Definition src_at (latex : str) (p : Z) (x : str) : Prop :=
  0 <= p /\ sub_at latex (Z.to_nat p) x.

(* a token is faithful: pinned (generated), or a copy of the source *)
Definition faithful (latex : str) (t : tok) : Prop :=
  pfix t = true \/ src_at latex (pos t) (txt t).

Lemma firstn_firstn_len {A} n (s : list A) : firstn (length (firstn n s)) s = firstn n s.
Proof.
  rewrite firstn_length. destruct (Nat.le_ge_cases n (length s)) as [H|H].
  - rewrite Nat.min_l by exact H. reflexivity.
  - rewrite Nat.min_r by exact H. rewrite !firstn_all2; [reflexivity | exact H | lia].
Qed.

Lemma sub_at_firstn s off n : sub_at s off (firstn n (skipn off s)).
Proof. unfold sub_at. apply firstn_firstn_len. Qed.

Lemma sub_at_firstn0 s n : sub_at s 0 (firstn n s).
Proof. exact (sub_at_firstn s 0 n). Qed.

Lemma starts_with_firstn p : forall s, starts_with p s = true -> firstn (length p) s = p.
Proof.
  induction p as [|x p IH]; intros s H; [reflexivity|].
  destruct s as [|y s]; [discriminate|]. simpl in H.
  apply andb_true_iff in H. destruct H as [H1 H2]. apply N.eqb_eq in H1. subst y.
  simpl. f_equal. apply IH. exact H2.
Qed.

Lemma sub_at_src latex start s off x :
  0 <= start -> s = skipn (Z.to_nat start) latex -> sub_at s off x ->
  src_at latex (start + Z.of_nat off) x.
Proof.
  intros H0 Hs H. split; [lia|]. unfold sub_at in *. subst s.
  rewrite skipn_skipn_add in H.
  replace (Z.to_nat (start + Z.of_nat off)) with (Z.to_nat start + off)%nat by lia.
  exact H.
Qed.

Section ScanFaithful.
  Variable P : scan_parms.
  Variable latex : str.

  Lemma err_token_pinned err start : pfix (snd (err_token P latex err start)) = true.
  Proof.
    unfold err_token. destruct (latex_error _ _ _ _ _) as [d ts]. reflexivity.
  Qed.

  Lemma next_token_faithful s start :
    0 <= start -> s = skipn (Z.to_nat start) latex ->
    faithful latex (fst (fst (next_token P latex s start))).
  Proof.
    intros H0 Hs.
    assert (F0 : forall k x, sub_at s 0 x -> faithful latex (mk k start x false)).
    { intros k x Hx. right. cbn [pos txt mk].
      replace start with (start + Z.of_nat 0) by lia.
      eapply sub_at_src; eassumption. }
    assert (Foff : forall k off x, sub_at s off x ->
                                   faithful latex (mk k (start + Z.of_nat off) x false)).
    { intros k off x Hx. right. cbn [pos txt mk]. eapply sub_at_src; eassumption. }
    assert (Ferr : forall e (n : nat), faithful latex
                     (fst (fst (let '(d, t) := err_token P latex e start in (t, n, [d]))))).
    { intros e n. pose proof (err_token_pinned e start) as Hp.
      destruct (err_token P latex e start) as [d t]. left. exact Hp. }
    unfold next_token. destruct s as [|c s'].
    { (* Void at the end: empty text *) right. split; [exact H0 | reflexivity]. }
    destruct (is_sp P c).
    { destruct (Nat.ltb _ 2); apply F0, sub_at_firstn0. }
    destruct (N.eqb c c_percent).
    { match goal with |- context [if ?b then _ else _] => destruct b end;
        apply F0, sub_at_firstn0. }
    destruct (N.eqb c c_hash).
    { destruct s' as [|d s'']; [apply F0; reflexivity|].
      destruct (sp_is_decimal P d); apply F0; reflexivity. }
    destruct (find _ (sp_specials P)) as [t|] eqn:Ef.
    { apply find_some in Ef. destruct Ef as [_ Ef]. apply F0. unfold sub_at.
      apply starts_with_firstn. exact Ef. }
    destruct (N.eqb c c_backslash); [|apply F0; reflexivity].
    set (n := match index_where _ s' with O => _ | _ => _ end).
    destruct (str_eqb (firstn (S n) (c :: s')) s_begin).
    { match goal with |- context [if ?b then _ else _] => destruct b end;
        [apply F0, sub_at_firstn0|].
      destruct (find_sub _ _) as [e|]; [|apply Ferr].
      cbn [fst]. apply Foff. unfold sub_at.
      rewrite <- !skipn_skipn_add.
      match goal with |- firstn (length (firstn e ?b)) ?b' = _ =>
        replace b' with b; [apply firstn_firstn_len|] end.
      all: try (rewrite !skipn_skipn_add; f_equal; lia). }
    destruct (str_eqb _ s_end); [apply F0, sub_at_firstn0|].
    destruct (str_eqb _ s_item); [apply F0, sub_at_firstn0|].
    destruct (str_eqb _ s_verb).
    { destruct (skipn (S n) (c :: s')) as [|dl body] eqn:Eb; [apply Ferr|].
      destruct (nth_error body _) as [x|]; [|apply Ferr].
      destruct (N.eqb x c_nl); [apply Ferr|].
      cbn [fst]. apply Foff. unfold sub_at.
      replace (skipn (S n + 1) (c :: s')) with body; [apply firstn_firstn_len|].
      rewrite <- skipn_skipn_add, Eb. reflexivity. }
    destruct (existsb _ (sp_accents P)); apply F0, sub_at_firstn0.
  Qed.

  Lemma scan_aux_faithful : forall fuel s start,
    0 <= start -> s = skipn (Z.to_nat start) latex ->
    Forall (faithful latex) (fst (scan_aux P latex fuel s start)).
  Proof.
    induction fuel as [|k IH]; intros s start H0 Hs; simpl; [constructor|].
    destruct s as [|c s']; [constructor|]. rewrite Hs at 1. rewrite <- Hs.
    pose proof (next_token_faithful (c :: s') start H0 Hs) as Hn.
    destruct (next_token P latex (c :: s') start) as [[t n] ds]. simpl in Hn.
    set (n' := Nat.max n 1).
    specialize (IH (skipn n' (c :: s')) (start + Z.of_nat n')).
    destruct (scan_aux P latex k (skipn n' (c :: s')) (start + Z.of_nat n')) as [ts ds'].
    simpl. constructor; [exact Hn|]. apply IH; [lia|].
    rewrite Hs, skipn_skipn_add. f_equal. lia.
  Qed.

  Theorem scan_faithful : Forall (faithful latex) (fst (scan P latex)).
  Proof. unfold scan. apply scan_aux_faithful; [lia | reflexivity]. Qed.
End ScanFaithful.

(* ---- get_txt_pos hands the source characters on ---- *)
Definition copy_of (latex : str) (c : char) (p : Z) : Prop :=
  0 <= p /\ nth_error latex (Z.to_nat p) = Some c.

Lemma sub_at_zseq latex : forall x p,
  src_at latex p x -> Forall2 (copy_of latex) x (zseq p (length x)).
Proof.
  induction x as [|c x IH]; intros p [H0 H]; simpl; [constructor|].
  unfold sub_at in H. simpl in H.
  destruct (skipn (Z.to_nat p) latex) as [|d r] eqn:E; [discriminate|].
  injection H as Hc Hr. subst d. constructor.
  - split; [exact H0|].
    pose proof (nth_error_skipn_add latex (Z.to_nat p) 0) as Hn.
    rewrite Nat.add_0_r, E in Hn. simpl in Hn. symmetry. exact Hn.
  - apply IH. split; [lia|]. unfold sub_at.
    replace (Z.to_nat (p + 1)) with (Z.to_nat p + 1)%nat by lia.
    rewrite <- skipn_skipn_add. rewrite E. simpl. exact Hr.
Qed.

(* every character that get_txt_pos takes from a copied token is the
   character of the source at the position it reports *)
Theorem get_txt_pos_copies latex toks :
  Forall (fun t => pfix t = false /\ src_at latex (pos t) (txt t)) toks ->
  Forall2 (copy_of latex) (fst (get_txt_pos toks)) (snd (get_txt_pos toks)).
Proof.
  induction 1 as [|t toks [Hp Ht] Hts IH]; simpl; [constructor|].
  destruct (get_txt_pos toks) as [s p]. simpl in *.
  apply Forall2_app; [|exact IH]. unfold tok_positions. rewrite Hp.
  apply sub_at_zseq. exact Ht.
Qed.
