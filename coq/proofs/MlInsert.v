(* C12, the label: a foreign-language insertion in running text.  For a token
   stream  a ++ [switch to l] ++ b ++ [switch back] ++ c  whose stretches a,
   b, c hold no language token, with l different from the main language, the
   splitting into sections gives the text of a labelled with the main
   language, the text of b labelled l, the text of c labelled with the main
   language again (empty stretches give no section), in this order. *)
From Coq Require Import Lia.
From YV Require Import PyBase PyBaseProofs ShellMap Token Utils Ml MlProofs.
Open Scope Z_scope.

Section MlInsert.
  Variable is_space : char -> bool.
  Variable check_lang : str -> str.
  Variable thresh : nat.

  Lemma str_eqb_same s : str_eqb s s = true.
  Proof. apply str_eqb_eq. reflexivity. Qed.

  Lemma sections_nolang : forall toks rest stack back brk cur secs,
    Forall (fun t => is_lang t = false) toks ->
    sections (toks ++ rest) stack back brk cur secs
    = sections rest stack back brk (rev toks ++ cur) secs.
  Proof.
    induction toks as [|t toks IH]; intros rest stack back brk cur secs H; [reflexivity|].
    inversion H as [|? ? Ht Hts]; subst. cbn [app sections].
    unfold is_lang in Ht. destruct (tk t) eqn:Ek; try discriminate;
      rewrite (IH rest stack back brk (t :: cur) secs Hts); cbn [rev]; rewrite <- app_assoc;
      reflexivity.
  Qed.

  (* what one stretch contributes *)
  Definition stretch (lang : str) (back brk : bool) (toks : list tok) : list lsec :=
    let '(t, p) := get_txt_pos toks in
    match t with
    | [] => []
    | _ => [{| s_lang := lang; s_back := back; s_brk := brk; s_txt := t; s_pos := p |}]
    end.

  Lemma flush_stretch stack lang back brk cur secs :
    (match rev stack with l :: _ => l | [] => [] end) = lang ->
    flush stack back brk cur secs = secs ++ stretch lang back brk (rev cur).
  Proof.
    intros Hl. unfold flush, stretch. destruct (get_txt_pos (rev cur)) as [t p].
    destruct t; [rewrite app_nil_r; reflexivity|]. rewrite Hl. reflexivity.
  Qed.

  Theorem sections_insertion a b c main l lb p1 p2 k1 k2 :
    Forall (fun t => is_lang t = false) a ->
    Forall (fun t => is_lang t = false) b ->
    Forall (fun t => is_lang t = false) c ->
    str_eqb l main = false -> str_eqb lb l = false ->
    sections (a ++ LangT p1 l false false k1 :: b ++ LangT p2 lb true false k2 :: c)
             [main] false false [] []
    = stretch main false false a ++ stretch l false k1 b ++ stretch main true k2 c.
  Proof.
    intros Ha Hb Hc Hl Hlb.
    rewrite (sections_nolang a _ [main] false false [] [] Ha). rewrite app_nil_r.
    cbn [sections LangT tk mk rev app]. rewrite Hl. cbn [andb].
    rewrite (flush_stretch [main] main false false (rev a) [] eq_refl). rewrite rev_involutive.
    cbn [app].
    rewrite (sections_nolang b _ [main; l] false k1 [] _ Hb). rewrite app_nil_r.
    cbn [sections LangT tk mk rev app]. rewrite Hlb.
    assert (E : (Nat.ltb 1 (length [main; l]) && str_eqb l main) = false).
    { rewrite Hl. apply Bool.andb_false_r. }
    cbn [length andb] in E |- *. rewrite E.
    rewrite (flush_stretch [main; l] l false k1 (rev b) _ eq_refl). rewrite rev_involutive.
    cbn [Nat.ltb Nat.leb length removelast].
    rewrite <- (app_nil_r c) at 1.
    rewrite (sections_nolang c [] [main] true k2 [] _ Hc). rewrite app_nil_r.
    cbn [sections].
    rewrite (flush_stretch [main] main true k2 (rev c) _ eq_refl). rewrite rev_involutive.
    rewrite <- app_assoc. reflexivity.
  Qed.

  (* a hard switch (\selectlanguage): everything behind it carries the new
     language *)
  Theorem sections_hard_switch a b main l p1 k1 :
    Forall (fun t => is_lang t = false) a ->
    Forall (fun t => is_lang t = false) b ->
    str_eqb l main = false ->
    sections (a ++ LangT p1 l false true k1 :: b) [main] false false [] []
    = stretch main false false a ++ stretch l false k1 b.
  Proof.
    intros Ha Hb Hl.
    rewrite (sections_nolang a _ [main] false false [] [] Ha). rewrite app_nil_r.
    cbn [sections LangT tk mk rev app]. rewrite Hl. cbn [andb].
    rewrite (flush_stretch [main] main false false (rev a) [] eq_refl). rewrite rev_involutive.
    cbn [app removelast].
    rewrite <- (app_nil_r b) at 1.
    rewrite (sections_nolang b [] [l] false k1 [] _ Hb). rewrite app_nil_r.
    cbn [sections].
    rewrite (flush_stretch [l] l false k1 (rev b) _ eq_refl). rewrite rev_involutive.
    reflexivity.
  Qed.

  (* an insertion in the language already in force cuts nothing *)
  Theorem sections_same_language a b c main lb p1 p2 k1 k2 :
    Forall (fun t => is_lang t = false) a ->
    Forall (fun t => is_lang t = false) b ->
    Forall (fun t => is_lang t = false) c ->
    str_eqb lb main = false ->
    sections (a ++ LangT p1 main false false k1 :: b ++ LangT p2 lb true false k2 :: c)
             [main] false false [] []
    = stretch main false false (a ++ b ++ c).
  Proof.
    intros Ha Hb Hc Hlb.
    rewrite (sections_nolang a _ [main] false false [] [] Ha). rewrite app_nil_r.
    cbn [sections LangT tk mk rev app]. rewrite str_eqb_same. cbn [orb app].
    rewrite (sections_nolang b _ [main; main] false false (rev a) [] Hb).
    cbn [sections LangT tk mk rev app]. rewrite Hlb, str_eqb_same.
    cbn [length Nat.ltb Nat.leb andb removelast].
    rewrite <- (app_nil_r c) at 1.
    rewrite (sections_nolang c [] [main] false false _ [] Hc).
    cbn [sections].
    rewrite (flush_stretch [main] main false false _ [] eq_refl). cbn [app].
    rewrite !rev_app_distr, !rev_involutive, <- app_assoc. reflexivity.
  Qed.

  (* the threshold rule: a short insertion between two sections of one
     language (no hard break, no return) becomes a part of its own, and the
     two surrounding sections are joined into one part with whatever
     append_placeholder puts in its place (the next placeholder of the
     collection, see append_placeholder_ok for lengths and positions) *)
  Theorem join_short_insertion k s0 s1 s2 rot s0' rot' :
    s_brk s1 = false -> s_back s1 = false ->
    str_eqb (s_lang s0) (s_lang s2) = true ->
    short_section is_space thresh s1 = true ->
    append_placeholder is_space check_lang rot s0 s1 = Ok (s0', rot') ->
    join_sections is_space check_lang thresh (S (S k)) [s0; s1; s2] rot []
    = Ok [s1; {| s_lang := s_lang s0'; s_back := s_back s0'; s_brk := s_brk s0';
                 s_txt := s_txt s0' ++ s_txt s2; s_pos := s_pos s0' ++ s_pos s2 |}].
  Proof.
    intros H1 H2 H3 H4 H5. cbn [join_sections]. rewrite H1, H2, H3, H4. cbn [negb andb].
    rewrite H5. cbn [rbind app]. reflexivity.
  Qed.

  (* a long insertion (or one behind a hard break) stays a part between its
     neighbours *)
  Theorem join_long_insertion k s0 s1 s2 rot :
    short_section is_space thresh s1 = false ->
    short_section is_space thresh s2 = false \/ s_brk s2 = true \/ s_back s2 = true ->
    join_sections is_space check_lang thresh (S (S (S k))) [s0; s1; s2] rot []
    = Ok [s0; s1; s2].
  Proof.
    intros H1 H2. cbn [join_sections]. rewrite H1. rewrite !Bool.andb_false_r. cbn [app].
    destruct H2 as [H2|[H2|H2]]; rewrite H2; cbn [negb andb]; rewrite ?Bool.andb_false_r;
      reflexivity.
  Qed.
End MlInsert.
