(* PyBase: the Python built-ins the YaLafi sources rely on, as total Gallina
   functions.  No proofs in this file (model files stay executable even when
   a proof breaks).  Characters are code points (N), strings are lists. *)
From Coq Require Export List ZArith NArith Bool.
Export ListNotations.
Open Scope list_scope.

(* notations, not definitions: avoids terms that differ only in the name of
   the type (rewrite / lia treat them as different) *)
Notation char := N (only parsing).
Notation str := (list N) (only parsing).

(* the handful of ASCII characters the code names literally *)
Definition c_tab : char := 9%N.
Definition c_nl : char := 10%N.
Definition c_space : char := 32%N.
Definition c_quote : char := 34%N.      (* double quote *)
Definition c_hash : char := 35%N.       (* # *)
Definition c_dollar : char := 36%N.
Definition c_percent : char := 37%N.
Definition c_amp : char := 38%N.        (* & *)
Definition c_lt : char := 60%N.
Definition c_gt : char := 62%N.
Definition c_backslash : char := 92%N.
Definition c_lbrace : char := 123%N.
Definition c_rbrace : char := 125%N.
Definition c_lbrack : char := 91%N.
Definition c_rbrack : char := 93%N.

(* outcome of a Python computation: value, unhandled exception (traceback),
   YaLafi's own fatal exit, or exhausted fuel of the model *)
Inductive exn := IndexError | KeyError | TypeError | ValueError
  | UnicodeDecodeError | UnicodeEncodeError | OverflowError | AttributeError
  | RecursionError | StopIteration.
Inductive result (A : Type) : Type :=
  | Ok (a : A) | Exc (e : exn) | Fatal (code : nat) | OutOfFuel.
Arguments Ok {A} a.
Arguments Exc {A} e.
Arguments Fatal {A} code.
Arguments OutOfFuel {A}.

Definition rbind {A B} (r : result A) (f : A -> result B) : result B :=
  match r with
  | Ok a => f a
  | Exc e => Exc e
  | Fatal c => Fatal c
  | OutOfFuel => OutOfFuel
  end.
Notation "'do' x <- r ; k" := (rbind r (fun x => k))
  (at level 200, x pattern, r at level 100, k at level 200, right associativity).

(* equality of strings *)
Fixpoint str_eqb (a b : str) : bool :=
  match a, b with
  | [], [] => true
  | x :: a', y :: b' => N.eqb x y && str_eqb a' b'
  | _, _ => false
  end.

(* l[a:b] for 0 <= a, 0 <= b (Python never raises on slices) *)
Definition pyslice {A} (l : list A) (a b : nat) : list A :=
  firstn (b - a) (skipn a l).

(* s.startswith(p) at the head *)
Fixpoint starts_with (p s : str) : bool :=
  match p, s with
  | [], _ => true
  | x :: p', y :: s' => N.eqb x y && starts_with p' s'
  | _ :: _, [] => false
  end.

(* index of the first element satisfying f, None if there is none
   (s.find(c) = -1) *)
Fixpoint find_index {A} (f : A -> bool) (l : list A) : option nat :=
  match l with
  | [] => None
  | x :: l' => if f x then Some 0 else option_map S (find_index f l')
  end.

(* index of the last element satisfying f *)
Fixpoint rfind_index {A} (f : A -> bool) (l : list A) : option nat :=
  match l with
  | [] => None
  | x :: l' => match rfind_index f l' with
               | Some i => Some (S i)
               | None => if f x then Some 0 else None
               end
  end.

Definition count_char (c : char) (s : str) : nat :=
  length (filter (N.eqb c) s).

(* longest prefix / rest by a predicate *)
Fixpoint take_while {A} (f : A -> bool) (l : list A) : list A :=
  match l with
  | [] => []
  | x :: l' => if f x then x :: take_while f l' else []
  end.
Fixpoint drop_while {A} (f : A -> bool) (l : list A) : list A :=
  match l with
  | [] => []
  | x :: l' => if f x then drop_while f l' else l
  end.

(* s.split() without argument: maximal runs of non-space characters *)
Section Split.
  Variable is_space : char -> bool.
  (* cur: the word being collected, reversed *)
  Fixpoint split_ws_aux (s : str) (cur : str) : list str :=
    match s with
    | [] => match cur with [] => [] | _ => [rev cur] end
    | c :: s' =>
        if is_space c
        then match cur with
             | [] => split_ws_aux s' []
             | _ => rev cur :: split_ws_aux s' []
             end
        else split_ws_aux s' (c :: cur)
    end.
  Definition split_ws (s : str) : list str := split_ws_aux s [].

  (* s.strip() *)
  Definition lstrip (s : str) : str := drop_while is_space s.
  Definition rstrip (s : str) : str := rev (drop_while is_space (rev s)).
  Definition strip (s : str) : str := rstrip (lstrip s).
End Split.

(* sep.join(words) *)
Fixpoint join (sep : str) (ws : list str) : str :=
  match ws with
  | [] => []
  | [w] => w
  | w :: ws' => w ++ sep ++ join sep ws'
  end.

(* last element, Python l[-1]: IndexError on the empty list *)
Definition py_last {A} (l : list A) : result A :=
  match rev l with
  | [] => Exc IndexError
  | x :: _ => Ok x
  end.

(* l[i] for i >= 0 *)
Definition py_nth {A} (l : list A) (i : nat) : result A :=
  match nth_error l i with
  | Some x => Ok x
  | None => Exc IndexError
  end.

(* membership in an interval table: sorted list of (lo, hi) inclusive *)
Fixpoint in_ranges (tbl : list (N * N)) (c : N) : bool :=
  match tbl with
  | [] => false
  | (lo, hi) :: t => if N.ltb c lo then false
                     else if N.leb c hi then true else in_ranges t c
  end.
