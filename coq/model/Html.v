(* Html: model of yalafi/shell/genhtml.py (property C16): protect_html,
   begin_match / generate_highlight, generate_html with region grouping,
   overlap list and add_line_numbers.  The model produces the same string as
   the Python code (byte-exact correspondence). *)
From Coq Require Import String Ascii.
From YV Require Import PyBase ShellMap.
Open Scope Z_scope.

Definition s2l (s : string) : str :=
  map (fun a => N_of_ascii a) (list_ascii_of_string s).

(* str(n) for n >= 0 *)
Fixpoint dec_aux (fuel : nat) (n : N) (acc : str) : str :=
  match fuel with
  | O => acc
  | S k => let acc' := (48 + n mod 10)%N :: acc in
           if (n <? 10)%N then acc' else dec_aux k (n / 10)%N acc'
  end.
Definition dec (n : N) : str := dec_aux 40 n [].
Definition dec_nat (n : nat) : str := dec (N.of_nat n).

(* ---- protect_html: the seven substitutions in order ---- *)
Definition sub_char (c : char) (r : str) (s : str) : str :=
  flat_map (fun x => if N.eqb x c then r else [x]) s.

Definition ensp : str := s2l "&ensp;".
Definition br_nl : str := s2l "<br>" ++ [c_nl].

Definition protect_html (s : str) : str :=
  let s := sub_char 38 (s2l "&amp;") s in
  let s := sub_char 34 (s2l "&quot;") s in
  let s := sub_char 60 (s2l "&lt;") s in
  let s := sub_char 62 (s2l "&gt;") s in
  let s := sub_char 9 (repeat 32%N 8) s in
  let s := sub_char 32 ensp s in
  sub_char 10 br_nl s.

(* ---- splitting at '<br>\n':  the regular expression
        ((?:.|\n)*?(?!\Z)|(?:.|\n)+?)(<br>\n|\Z)
   matches, from left to right, each (possibly empty) stretch that is ended
   by '<br>\n', and a last non-empty stretch without it ---- *)
Fixpoint split_br_aux (s : str) (cur : str) (skip : nat) : list (str * bool) :=
  match s with
  | [] => match cur with [] => [] | _ => [(rev cur, false)] end
  | c :: s' =>
      match skip with
      | S k => split_br_aux s' cur k
      | O => if starts_with br_nl s
             then (rev cur, true) :: split_br_aux s' [] 4
             else split_br_aux s' (c :: cur) 0
      end
  end.
Definition split_br (s : str) : list (str * bool) := split_br_aux s [] 0.

Definition join_br (f : str -> str) (ls : list (str * bool)) : str :=
  flat_map (fun l : list N * bool => f (fst l) ++ (if snd l then br_nl else [])) ls.

(* ---- a match as the report generator sees it ---- *)
Record hmatch := {
  hm_offset : Z; hm_length : Z;
  hm_message : str; hm_ctx_text : str; hm_ctx_offset : Z; hm_ctx_length : Z;
  hm_rule : str;          (* id, with [subId] appended by the caller *)
  hm_repls : list str;
  hm_url : option str }.  (* --link and rule.urls[0].value *)

Section Html.
  Variable is_alpha : char -> bool.     (* str.isalpha *)
  Variable is_word : char -> bool.      (* regex \w *)
  Variable style style_unsure number_style : str.
  Variable context : Z.                 (* option --context, after the shell
                                           turned a negative value into 10^8 *)

  Definition is_letter_w (c : char) : bool :=
    is_word c && negb (N.leb 48 c && N.leb c 57) && negb (N.eqb c 95).

  Definition join_semicolon (l : list str) : str := join (s2l "; ") l.

  (* begin_match: the opening tag *)
  Definition begin_tag (m : hmatch) (lin : Z) (unsure : bool) : str * str :=
    let txt := hm_ctx_text m in
    let beg := hm_ctx_offset m in
    let en := beg + hm_ctx_length m in
    let marked := zslice txt beg en in
    let msg := protect_html (hm_message m) ++ [c_nl] in
    let msg := msg ++ protect_html (s2l "Line " ++ dec (Z.to_N lin)
                 ++ (if unsure then s2l "+" else []) ++ s2l ": >>>" ++ marked
                 ++ s2l "<<<") in
    let msg := msg ++ protect_html (s2l "    (Rule ID: " ++ hm_rule m ++ s2l ")")
                 ++ [c_nl] in
    let msg := msg ++ s2l "Suggestion: " ++ protect_html (join_semicolon (hm_repls m))
                 ++ [c_nl] in
    let txt2 := zslice txt 0 beg ++ s2l ">>>" ++ marked ++ s2l "<<<"
                ++ zslice txt en (zlen txt) in
    let msg := msg ++ s2l "Context: " ++ protect_html txt2 in
    (* msg.replace('<br>\n', '\n') *)
    let msg := join_br (fun x => x)
                 (map (fun l : list N * bool => (fst l ++ (if snd l then [c_nl] else []), false))
                      (split_br msg)) in
    let tag := s2l "<span style=""" ++ (if unsure then style_unsure else style)
               ++ s2l """ title=""" ++ msg ++ s2l """>" in
    match hm_url m with
    | Some u => (tag ++ s2l "<a href=""" ++ u ++ s2l """ target=""_blank"">",
                 s2l "</a>")
    | None => (tag, [])
    end.

  (* generate_highlight *)
  Definition generate_highlight (m : hmatch) (s : str) (lin : Z) (unsure : bool)
    : str :=
    let '(pre, end_href) := begin_tag m lin unsure in
    let post := end_href ++ s2l "</span>" in
    join_br (fun l => pre ++ l ++ post) (split_br (protect_html s)).

  (* tex2txt.get_line_starts *)
  Fixpoint line_starts_aux (s : str) (i : nat) : list nat :=
    match s with
    | [] => []
    | c :: s' => if N.eqb c c_nl then S i :: line_starts_aux s' (S i)
                 else line_starts_aux s' (S i)
    end.
  Definition line_starts (s : str) : list nat := O :: line_starts_aux s 0.

  Record hdata := { h_beg : Z; h_end : Z; h_unsure : bool; h_lin : Z;
                    h_beglin : Z; h_endlin : Z; h_m : hmatch }.

  (* the first loop of generate_html; Fatal 1 = bad message from proofreader *)
  Definition make_hdata (tex : str) (cm : list Z) (m : hmatch) : result hdata :=
    let beg := hm_offset m in
    let en := beg + Z.max 1 (hm_length m) in
    if (beg <? 0) || (en <? 0) || (zlen cm <=? beg) || (zlen cm <=? en)
    then Fatal 1
    else
      do cb <- py_index cm beg;
      do ce <- py_index cm (Z.max beg (en - 1));
      let unsure := (cb <? 0) || (ce <? 0) in
      let hb := Z.abs cb - 1 in
      let he := Z.abs ce in
      let he := if unsure || (he <=? hb) then hb + 1 else he in
      do c0 <- py_index tex hb;
      let he :=
        if (he =? hb + 1) && N.eqb c0 c_backslash
        then hb + correct_mark_macroname hb 1 tex
        else if unsure && is_alpha c0
        then match length (take_while is_letter_w (skipn (S (Z.to_nat hb)) tex)) with
             | O => he
             | S k => hb + Z.of_nat (S (S k))
             end
        else he in
      let bl := count_nl_to tex hb in
      Ok {| h_beg := hb; h_end := he; h_unsure := unsure; h_lin := bl;
            h_beglin := bl; h_endlin := count_nl_to tex he + 1; h_m := m |}.

  Fixpoint mapR {A B} (f : A -> result B) (l : list A) : result (list B) :=
    match l with
    | [] => Ok []
    | x :: l' => do y <- f x; do r <- mapR f l'; Ok (y :: r)
    end.

  Definition widen (nstarts : Z) (h : hdata) : hdata :=
    {| h_beg := h_beg h; h_end := h_end h; h_unsure := h_unsure h;
       h_lin := h_lin h;
       h_beglin := Z.max (h_beglin h - context) 0;
       h_endlin := Z.min (h_endlin h + context) (nstarts - 1);
       h_m := h_m h |}.

  Definition max_endlin (reg : list hdata) : Z :=
    fold_right (fun h m => Z.max (h_endlin h) m) (-1) reg.

  (* group adjacent matches into regions (regions kept in reverse order,
     the current region reversed too) *)
  Fixpoint group (hs : list hdata) (cur : list hdata) (acc : list (list hdata))
    : list (list hdata) :=
    match hs with
    | [] => match cur with [] => rev acc | _ => rev (rev cur :: acc) end
    | h :: hs' =>
        match cur with
        | [] => group hs' [h] acc
        | _ => if max_endlin cur <=? h_beglin h
               then group hs' [h] (rev cur :: acc)
               else group hs' (h :: cur) acc
        end
    end.

  Definition zrange (a b : Z) : list Z :=
    map (fun k => a + Z.of_nat k) (seq 0 (Z.to_nat (b - a))).

  (* output of one region: (html, overlaps, line numbers) *)
  Fixpoint region_body (tex : str) (hs : list hdata) (last : Z)
    : str * list (str * Z) :=
    match hs with
    | [] => ([], [])
    | h :: hs' =>
        let s := generate_highlight (h_m h) (zslice tex (h_beg h) (h_end h))
                                    (h_lin h + 1) (h_unsure h) in
        if h_beg h <? last
        then let '(r, ov) := region_body tex hs' last in (r, (s, h_lin h + 1) :: ov)
        else let '(r, ov) := region_body tex hs' (h_end h) in
             (protect_html (zslice tex last (h_beg h)) ++ s ++ r, ov)
    end.
  Fixpoint region_last (hs : list hdata) (last : Z) : Z :=
    match hs with
    | [] => last
    | h :: hs' => if h_beg h <? last then region_last hs' last
                  else region_last hs' (h_end h)
    end.

  Definition start_at (starts : list nat) (i : Z) : result Z :=
    do v <- py_index starts i; Ok (Z.of_nat v).

  Definition region_out (tex : str) (starts : list nat) (reg : list hdata)
    : result (str * list (str * Z) * list Z) :=
    match reg with
    | [] => Exc IndexError
    | h0 :: _ =>
        let beglin := h_beglin h0 in
        let endlin := max_endlin reg in
        do st <- start_at starts beglin;
        do en <- start_at starts endlin;
        let '(body, ov) := region_body tex reg st in
        let lst := region_last reg st in
        Ok (body ++ protect_html (zslice tex lst en) ++ br_nl, ov,
            zrange beglin endlin ++ [-1])
    end.

  (* add_line_numbers; IndexError when the numbers run out *)
  Fixpoint number_rows (ls : list (str * bool)) (nums : list Z) : result str :=
    match ls with
    | [] => Ok []
    | l :: ls' =>
        match nums with
        | [] => Exc IndexError
        | n :: nums' =>
            do r <- number_rows ls' nums';
            Ok (s2l "<tr>" ++ [c_nl] ++ s2l "<td style=""" ++ number_style
                ++ s2l """ align=""right"" valign=""top"">"
                ++ (if n <? 0 then [] else dec (Z.to_N (n + 1)))
                ++ s2l "&nbsp;&nbsp;</td>" ++ [c_nl] ++ s2l "<td>" ++ fst l
                ++ s2l "</td>" ++ [c_nl] ++ s2l "</tr>" ++ [c_nl] ++ r)
        end
    end.
  Definition add_line_numbers (s : str) (nums : list Z) : result str :=
    do rows <- number_rows (split_br s) nums;
    Ok (s2l "<table cellspacing=""0"">" ++ [c_nl] ++ rows ++ s2l "</table>" ++ [c_nl]).

  Definition generate_html (tex : str) (cm : list Z) (ms : list hmatch)
                           (file : str) : result str :=
    let title := protect_html (s2l "File """ ++ file ++ s2l """ with "
                               ++ dec_nat (length ms) ++ s2l " problem(s)") in
    let prefix := s2l "<a id=""" ++ file ++ s2l """></a><H3>" ++ title
                  ++ s2l "</H3>" ++ [c_nl] in
    do hd <- mapR (make_hdata tex cm) ms;
    let starts := line_starts tex in
    let ns := zlen starts in
    let regions := group (map (widen ns) hd) [] [] in
    do outs <- mapR (region_out tex starts) regions;
    let res_tot := flat_map (fun o : list N * list (list N * Z) * list Z => fst (fst o)) outs in
    let overlaps := flat_map (fun o : list N * list (list N * Z) * list Z => snd (fst o)) outs in
    let nums := flat_map (fun o : list N * list (list N * Z) * list Z => snd o) outs in
    do tbl <-
      match nums with
      | [] =>
          let endlin := Z.min context (ns - 1) in
          do en <- start_at starts endlin;
          let body := protect_html (zslice tex 0 en) in
          match zrange 0 endlin with
          | [] => Ok body
          | nn => add_line_numbers body nn
          end
      | _ => add_line_numbers res_tot nums
      end;
    let '(prefix, postfix) :=
      match overlaps with
      | [] => (prefix, [])
      | _ =>
          (prefix ++ s2l "<a href=""#" ++ file ++ s2l "-@@@"">"
             ++ s2l "<H3>Overlapping message(s) found: see here</H3></a>" ++ [c_nl],
           s2l "<a id=""" ++ file ++ s2l "-@@@""></a><H3>"
             ++ protect_html (s2l "File """ ++ file ++ s2l """:")
             ++ s2l " overlapping message(s)</H3>" ++ [c_nl]
             ++ s2l "<table cellspacing=""0"">" ++ [c_nl]
             ++ flat_map (fun o : list N * Z =>
                  s2l "<tr><td style=""" ++ number_style
                  ++ s2l """ align=""right"" valign=""top"">" ++ dec (Z.to_N (snd o))
                  ++ s2l "&nbsp;&nbsp;</td><td>" ++ fst o ++ s2l "</td></tr>" ++ [c_nl])
                  overlaps
             ++ s2l "</table>" ++ [c_nl])
      end in
    Ok (prefix ++ tbl ++ postfix).
End Html.
