(* Regex: Python's re.finditer iteration scheme over an arbitrary match
   function -- leftmost match first, then continue behind it; an empty or
   failing match advances by one character.  mat gets the character before
   the current position (for \b) and the rest of the text; it returns the
   length of the match and a payload (group information). *)
From YV Require Import PyBase.

Section Scan.
  Context {X : Type}.
  Variable mat : option char -> str -> option (nat * X).

  Fixpoint scan (prev : option char) (s : str) (i skip : nat)
    : list (nat * nat * X) :=
    match s with
    | [] => []
    | c :: s' =>
        match skip with
        | S k => scan (Some c) s' (S i) k
        | O => match mat prev s with
               | Some (S m, x) => (i, S m, x) :: scan (Some c) s' (S i) m
               | _ => scan (Some c) s' (S i) 0
               end
        end
    end.

  Definition finditer_x (txt : str) : list (nat * nat * X) :=
    scan None txt 0 0.
End Scan.
