(* Checks: model of yalafi/shell/checks.py (the shell's own checks,
   property C20).  The regular expressions used there have fixed shapes:
     accepted patterns   (\b?lit\b?)|(\b?lit\b?)|...          literals
     single letter       \b[^\W0-9_]\b
     equation            (EQU(?=\s*[,;:]?\s*EQU))|EQU\s*(?:(\.)|[,;:]?\s*([^\W0-9_]+))?
                         EQU = \b(?:p1|p2|...)\b               literals
   The matchers below implement exactly these shapes with Python's leftmost,
   first-alternative, non-overlapping finditer semantics. *)
From YV Require Import PyBase Regex.

Section Checks.
  Variable is_alpha : char -> bool.   (* str.isalpha *)
  Variable is_word  : char -> bool.   (* regex \w    *)
  Variable is_ws    : char -> bool.   (* regex \s    *)
  Variable is_lower : char -> bool.   (* str.islower *)

  Definition c_nbsp : char := 160%N.
  Definition c_nnbsp : char := 8239%N.
  Definition c_tilde : char := 126%N.
  Definition c_comma : char := 44%N.
  Definition c_dot : char := 46%N.
  Definition c_bar : char := 124%N.

  (* [^\W0-9_] *)
  Definition is_letter (c : char) : bool :=
    is_word c && negb (N.leb 48 c && N.leb c 57) && negb (N.eqb c 95).

  Definition ow (c : option char) : bool :=
    match c with Some x => is_word x | None => false end.
  Definition wb (prev next : option char) : bool := xorb (ow prev) (ow next).

  (* literal p at the head of s, \b before if bs, \b after if be *)
  Definition lit_match (p : str) (bs be : bool) (prev : option char) (s : str)
    : option nat :=
    if starts_with p s then
      let m := length p in
      if bs && negb (wb prev (hd_error s)) then None
      else if be && negb (wb (nth_error s (m - 1)) (nth_error s m)) then None
      else Some m
    else None.

  (* ---- accepted patterns of --single-letters ---- *)
  (* s.replace('~', NBSP) ; s.replace('\\,', NNBSP) *)
  Fixpoint repl_tilde (s : str) : str :=
    match s with
    | [] => []
    | c :: s' => (if N.eqb c c_tilde then c_nbsp else c) :: repl_tilde s'
    end.
  Fixpoint repl_bscomma (s : str) : str :=
    match s with
    | c :: ((d :: s'') as s') =>
        if N.eqb c c_backslash && N.eqb d c_comma
        then c_nnbsp :: repl_bscomma s''
        else c :: repl_bscomma s'
    | _ => s
    end.
  Definition accept_pattern (s : str) : str := repl_bscomma (repl_tilde s).

  Definition first_alpha (p : str) : bool :=
    match p with c :: _ => is_alpha c | [] => false end.
  Definition last_alpha (p : str) : bool :=
    match rev p with c :: _ => is_alpha c | [] => false end.

  (* s.split('|') *)
  Fixpoint split_bar_aux (s : str) (cur : str) : list str :=
    match s with
    | [] => [rev cur]
    | c :: s' => if N.eqb c c_bar then rev cur :: split_bar_aux s' []
                 else split_bar_aux s' (c :: cur)
    end.
  Definition split_bar (s : str) : list str := split_bar_aux s [].

  Definition accept_list (opt : str) : list str :=
    map accept_pattern
        (filter (fun s => match s with [] => false | _ => true end)
                (split_bar opt)).

  (* alternation (p1)|(p2)|...: first alternative that matches *)
  Fixpoint alt_match (pats : list str) (prev : option char) (s : str)
    : option nat :=
    match pats with
    | [] => None
    | p :: ps => match lit_match p (first_alpha p) (last_alpha p) prev s with
                 | Some m => Some m
                 | None => alt_match ps prev s
                 end
    end.

  Definition hits (pats : list str) (plain : str) : list (nat * nat) :=
    match pats with
    | [] => []
    | _ => map fst (finditer_x
                      (fun prev s => option_map (fun m => (m, tt))
                                                (alt_match pats prev s))
                      plain)
    end.

  Definition covered (hs : list (nat * nat)) (i : nat) : bool :=
    existsb (fun h => Nat.leb (fst h) i && Nat.ltb i (fst h + snd h)) hs.

  (* all matches of \b[^\W0-9_]\b (length 1, so none is skipped) *)
  Fixpoint single_positions (prev : option char) (s : str) (i : nat)
    : list nat :=
    match s with
    | [] => []
    | c :: s' =>
        let rest := single_positions (Some c) s' (S i) in
        if is_letter c && wb prev (Some c) && wb (Some c) (hd_error s')
        then i :: rest else rest
    end.

  (* ---- create_context ---- *)
  Definition ctx_size : nat := 45.
  Definition ctx_char (c : char) : char :=
    if N.eqb c c_tab || N.eqb c c_nl then c_space else c.
  Record context := { cx_text : str; cx_offset : nat; cx_length : nat }.
  Definition create_context (txt : str) (offset length_ : nat) : context :=
    let beg := offset - ctx_size in
    let e := Nat.min (Nat.max (offset + ctx_size) (offset + length_))
                     (length txt) in
    let s := map ctx_char (pyslice txt beg e) in
    {| cx_text := [c_dot; c_dot; c_dot] ++ s ++ [c_dot; c_dot; c_dot];
       cx_offset := offset - beg + 3;
       cx_length := length_ |}.

  Record message := { m_offset : nat; m_length : nat; m_context : context }.
  Definition mk_message (plain : str) (o l : nat) : message :=
    {| m_offset := o; m_length := l; m_context := create_context plain o l |}.

  (* create_single_letter_matches; opt = None: option not given *)
  Definition single_letter_matches (plain : str) (opt : option str)
    : list message :=
    match opt with
    | None => []
    | Some o =>
        let hs := hits (accept_list o) plain in
        map (fun i => mk_message plain i 1)
            (filter (fun i => negb (covered hs i))
                    (single_positions None plain 0))
    end.

  (* ---- equation punctuation ---- *)
  (* EQU at the head of s: lengths of the alternatives that match, in order *)
  Definition equ_lengths (pls : list str) (prev : option char) (s : str)
    : list nat :=
    flat_map (fun p => match lit_match p true true prev s with
                       | Some m => [m] | None => [] end) pls.

  Definition is_punct (c : char) : bool :=
    N.eqb c c_comma || N.eqb c 59 || N.eqb c 58.       (* , ; : *)

  (* consume \s* : returns (count, last consumed or prev, rest) *)
  Fixpoint skip_ws (prev : option char) (s : str) : nat * option char * str :=
    match s with
    | c :: s' => if is_ws c
                 then let '(n, p, r) := skip_ws (Some c) s' in (S n, p, r)
                 else (0, prev, s)
    | [] => (0, prev, [])
    end.

  (* \s*[,;:]?\s*  then EQU *)
  Definition lookahead_equ (pls : list str) (prev : option char) (s : str)
    : bool :=
    let '(_, p1, s1) := skip_ws prev s in
    let '(p2, s2) := match s1 with
                     | c :: s1' => if is_punct c then (Some c, s1') else (p1, s1)
                     | [] => (p1, s1)
                     end in
    let '(_, p3, s3) := skip_ws p2 s2 in
    match equ_lengths pls p3 s3 with [] => false | _ => true end.

  Fixpoint take_letters (s : str) : nat :=
    match s with
    | c :: s' => if is_letter c then S (take_letters s') else 0
    | [] => 0
    end.

  (* the tail of alternative 2 after EQU:  \s*(?:(\.)|[,;:]?\s*([^\W0-9_]+))?
     returns (consumed, dot, first character of the word) *)
  Definition equ_tail (s : str) : nat * bool * option char :=
    let '(n1, _, s1) := skip_ws None s in
    match s1 with
    | c :: s1' =>
        if N.eqb c c_dot then (n1 + 1, true, None)
        else
          let '(np, s2) := if is_punct c then (1, s1') else (0, s1) in
          let '(n2, _, s3) := skip_ws None s2 in
          match take_letters s3 with
          | O => (n1, false, None)
          | k => (n1 + np + n2 + k, false, hd_error s3)
          end
    | [] => (n1, false, None)
    end.

  Definition last_char_of (prev : option char) (s : str) (m : nat)
    : option char :=
    match m with O => prev | S k => nth_error s k end.

  (* one match of the whole expression: (length, accepted) *)
  Definition equ_match (pls : list str) (prev : option char) (s : str)
    : option (nat * bool) :=
    let ls := equ_lengths pls prev s in
    match find (fun m => lookahead_equ pls (last_char_of prev s m) (skipn m s))
               ls with
    | Some m => Some (m, true)
    | None =>
        match ls with
        | [] => None
        | m :: _ =>
            let '(n, dot, w) := equ_tail (skipn m s) in
            Some (m + n, dot || match w with Some c => is_lower c
                                           | None => false end)
        end
    end.

  (* create_equation_punct_messages for a list of placeholders *)
  Definition equation_messages (plain : str) (pls : list str) : list message :=
    map (fun x => mk_message plain (fst (fst x)) (snd (fst x)))
        (filter (fun x => negb (snd x)) (finditer_x (equ_match pls) plain)).
End Checks.
