(* Reports: the pipeline from a decoded proofreader answer to the locations
   written by the report generators (properties C14, C15).
     proofreader.run_languagetool      element 'matches'
     proofreader.run_proofreader_options  offset/length typed, shift, sort
     gentext / genjson / genxml / genhtml / server: field accesses through
     json_get, then the arithmetic of ShellMap.
   One answer per submitted part; own checks of the shell are not part of
   this model (they produce well-typed matches). *)
From YV Require Import PyBase Json ShellMap.
Open Scope Z_scope.

Inductive mode := MPlain | MJson | MXml | MXmlB | MHtml | MServer.

Fixpoint mapM {A B} (f : A -> result B) (l : list A) : result (list B) :=
  match l with
  | [] => Ok []
  | x :: l' => do y <- f x; do r <- mapM f l'; Ok (y :: r)
  end.

(* replacements: '; '.join(json_get(r, 'value', str) for r in json_get(m, 'replacements', list)) *)
Definition check_replacements (m : json) : result unit :=
  do rs <- json_get m k_replacements TList;
  do _ <- mapM (fun r => json_get r k_value TStr) (list_of rs);
  Ok tt.

Definition check_context (m : json) : result unit :=
  do cont <- json_get m k_context TDict;
  do _ <- json_get cont k_text TStr;
  do _ <- json_get cont k_offset TInt;
  do _ <- json_get cont k_length TInt;
  Ok tt.

Definition check_urls (rule : json) : result unit :=
  if has_key rule k_urls then
    do urls <- json_get rule k_urls TList;
    match list_of urls with
    | [] => Ok tt
    | u :: _ => do _ <- json_get u k_value TStr; Ok tt
    end
  else Ok tt.

Definition check_subid (rule : json) : result unit :=
  if has_key rule k_subId then do _ <- json_get rule k_subId TStr; Ok tt
  else Ok tt.

(* the accesses of one report generator for one match, after the position
   mapping (same order as in the code) *)
Definition check_fields (md : mode) (link : bool) (m : json) : result unit :=
  match md with
  | MPlain =>
      do rule <- json_get m k_rule TDict;
      do _ <- json_get rule k_id TStr;
      do _ <- check_subid rule;
      do _ <- json_get m k_message TStr;
      do _ <- check_replacements m;
      do _ <- check_context m;
      check_urls rule
  | MJson | MServer => Ok tt
  | MXml | MXmlB =>
      do rule <- json_get m k_rule TDict;
      do cat <- json_get rule k_category TDict;
      do _ <- json_get cat k_name TStr;
      do _ <- json_get m k_message TStr;
      do _ <- check_replacements m;
      check_context m
  | MHtml =>
      do _ <- check_context m;
      do rule <- json_get m k_rule TDict;
      do _ <- json_get m k_message TStr;
      do _ <- json_get rule k_id TStr;
      do _ <- check_subid rule;
      do _ <- check_replacements m;
      if link then check_urls rule else Ok tt
  end.

(* one submitted part: text, position map, decoded answer (None = the bytes
   could not be decoded as UTF-8 / JSON) *)
Record rpart := { rp_plain : str; rp_map : list Z; rp_answer : option json }.

(* run_languagetool + the typed reads of run_proofreader_options;
   ids number the matches of all parts consecutively *)
Definition part_matches (base : nat) (p : rpart)
  : result (list pmatch * list json) :=
  match rp_answer p with
  | None => Fatal 2
  | Some dic =>
      do ms <- json_get dic k_matches TList;
      do pms <- mapM (fun im =>
                  do o <- get_int (snd im) k_offset;
                  do l <- get_int (snd im) k_length;
                  Ok {| pm_offset := o; pm_length := l; pm_id := fst im |})
                (combine (seq base (length (list_of ms))) (list_of ms));
      Ok (pms, list_of ms)
  end.

Section Pipeline.
  Variable is_space : char -> bool.

  Fixpoint collect (ps : list rpart) (base : nat)
    : result (list part * list json) :=
    match ps with
    | [] => Ok ([], [])
    | p :: ps' =>
        match strip is_space (rp_plain p) with
        | [] => (* blank part: the proofreader is not called *)
            do r <- collect ps' base;
            Ok ({| p_plain := rp_plain p; p_map := rp_map p; p_matches := [] |}
                  :: fst r, snd r)
        | _ =>
            do pm <- part_matches base p;
            do r <- collect ps' (base + length (snd pm));
            Ok ({| p_plain := rp_plain p; p_map := rp_map p;
                   p_matches := fst pm |} :: fst r, snd pm ++ snd r)
        end
    end.

  (* a reported location: offset, length in the LaTeX text and the numbers
     of the format *)
  Record location := { l_id : nat; l_offset : Z; l_length : Z;
                       l_a : Z; l_b : Z; l_c : Z; l_d : Z }.

  (* genhtml.generate_html: range check of a match *)
  Definition html_range_ok (cm : list Z) (m : pmatch) : bool :=
    let beg := pm_offset m in
    let en := beg + Z.max 1 (pm_length m) in
    negb ((beg <? 0) || (en <? 0) || (zlen cm <=? beg) || (zlen cm <=? en)).

  Definition report_one (md : mode) (link : bool) (tex : str) (cm : list Z)
                        (js : list json) (m : pmatch) : result location :=
    match nth_error js (pm_id m) with
    | None => Exc IndexError
    | Some j =>
        match md with
        | MHtml =>
            if html_range_ok cm m then
              do _ <- check_fields md link j;
              Ok {| l_id := pm_id m; l_offset := pm_offset m;
                    l_length := pm_length m; l_a := 0; l_b := 0; l_c := 0; l_d := 0 |}
            else Fatal 1
        | _ =>
            do ol <- map_match_position (pm_offset m) (pm_length m) tex cm;
            let '(off, len) := ol in
            do _ <- check_fields md link j;
            match md with
            | MPlain =>
                let '(lin, col) := text_loc tex off in
                Ok {| l_id := pm_id m; l_offset := off; l_length := len;
                      l_a := lin; l_b := col; l_c := 0; l_d := 0 |}
            | MXml | MXmlB =>
                let '(fy, fx, ty, tx) :=
                  xml_loc tex off len (match md with MXmlB => true | _ => false end) in
                Ok {| l_id := pm_id m; l_offset := off; l_length := len;
                      l_a := fy; l_b := fx; l_c := ty; l_d := tx |}
            | _ =>
                let '(fy, fx, ty, tx) := json_loc tex off len in
                Ok {| l_id := pm_id m; l_offset := off; l_length := len;
                      l_a := fy; l_b := fx; l_c := ty; l_d := tx |}
            end
        end
    end.

  Definition run_report (md : mode) (link : bool) (tex : str)
                        (ps : list rpart) : result (list location) :=
    do c <- collect ps 0;
    do a <- run_assemble is_space (fst c);
    mapM (report_one md link tex (a_map a) (snd c)) (a_matches a).
End Pipeline.
