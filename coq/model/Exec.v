(* Exec: the main loop of Parser.expand_sequence (parser.py:185-260), the knot
   of the open recursion (recursion on fuel), Parser.__init__, Parser.parse
   (134-155) and tex2txt.tex2txt (tex2txt.py:31-77). *)
From Coq Require Import String.
From YV Require Import PyBase ShellMap Token Utils Scanner Rpal PState Parser
                       Expand Math Replace.
Open Scope Z_scope.

Section Exec.
  Variable T : tables.
  Variable rd : str -> option str.

  (* one iteration of the loop of expand_sequence *)
  Definition step_seq (rec : recfun) (fuel : nat) (st : pstate) (buf : list tok)
                      (env_stop : option str) (rout : list tok)
    : result (pstate * answer) :=
    match buf with
    | [] =>
        do r <- remove_pure_action_lines (t_is_space T) (rev rout);
        Ok (st, ASeq r [])
    | t :: b =>
        let continue_ st buf rout := rec (TSeq buf env_stop rout) st in
        match tk t with
        | KBegin =>
            do r <- begin_environment T rd rec fuel st b t false;
            let '(st, (ins, rest)) := r in continue_ st (ins ++ rest) rout
        | KEnd =>
            do r <- end_environment T rd rec fuel st b t env_stop;
            let '(st, (ts, stop, rest)) := r in
            if stop then Ok (st, ASeq ts rest)
            else continue_ st (ts ++ rest) rout
        | KItem =>
            do r <- expand_item T rd rec fuel st b t rout;
            let '(st, (ins, rest)) := r in continue_ st (ins ++ rest) rout
        | KMacro =>
            if txt_is t (s2l "\def") then
              do r <- parse_def_macro T st b (pos t);
              let '(st, (o, rest)) := r in continue_ st rest (rev o ++ rout)
            else
              do r <- expand_macro T rd rec fuel st b t false;
              let '(st, (ins, rest)) := r in continue_ st (ins ++ rest) rout
        | KMathBegin env =>
            let remove := match assoc env (environs st) with
                          | Some e => e_remove e | None => false end in
            do r <- expand_display_math T rec fuel st b t env remove;
            let '(st, (o, rest)) := r in continue_ st rest (rev o ++ rout)
        | KAccent =>
            do r <- expand_accent T rec st b t;
            let '(st, (o, rest)) := r in continue_ st rest (rev o ++ rout)
        | KVerb true => continue_ st (expand_verb_env_token t ++ b) rout
        | KVerb false =>
            continue_ st b (mk KText (pos t) (txt t) (pfix t) :: ActionT (pos t) :: rout)
        | _ =>
            if txt_is t (s2l "$") || txt_is t (s2l "\(") then
              do r <- expand_inline_math T rec st b t;
              let '(st, (o, rest)) := r in continue_ st rest (rev o ++ rout)
            else if txt_is t (s2l "$$") || txt_is t (s2l "\[") then
              match assoc (t_math_default_env T) (environs st) with
              | None => Fatal 3
              | Some e =>
                  if negb (e_equ e) then Fatal 3
                  else
                    do r <- expand_display_math T rec fuel st b t
                              (t_math_default_env T) (e_remove e);
                    let '(st, (o, rest)) := r in continue_ st rest (rev o ++ rout)
              end
            else if txt_is t (s2l "\\") then
              let '(st, rest) := parse_newline_option T st b true in
              continue_ st rest (SpaceT (pos t) s_space :: ActionT (pos t) :: rout)
            else if txt_is t s_lbrace || txt_is t s_rbrace then
              continue_ st b (ActionT (pos t) :: rout)
            else
              match tk t with
              | KSpecial =>
                  let v := match assoc (txt t) (t_special_values T) with
                           | Some v => Ok v | None => Exc KeyError end in
                  do v <- v;
                  continue_ st b (mk KText (pos t) v (pfix t) :: ActionT (pos t) :: rout)
              | KLang _ _ _ _ =>
                  if multi_language st
                  then continue_ (change_parser_lang T st t) b (t :: rout)
                  else continue_ st b rout
              | KComment => continue_ st b rout
              | _ =>
                  let active := match cur_settings T st with
                                | Some s => mem_str (txt t) (ls_active s)
                                | None => false end in
                  if active then
                    let '(x, rest) := expand_short_macro T st b t in
                    continue_ st rest (x :: rout)
                  else continue_ st b (t :: rout)
              end
        end
    end.

  Definition step (rec : recfun) (fuel : nat) (t : task) (st : pstate)
    : result (pstate * answer) :=
    match t with
    | TSeq buf env_stop rout => step_seq rec fuel st buf env_stop rout
    | TMath buf start stops env_stop out =>
        step_math T rd rec fuel st buf start stops env_stop out
    end.

  Fixpoint exec (fuel : nat) (t : task) (st : pstate) : result (pstate * answer) :=
    match fuel with
    | O => OutOfFuel
    | S k => step (exec k) k t st
    end.

  (* ---------------------------------------------------------------- *)
  (*  Parser.__init__                                                  *)
  (* ---------------------------------------------------------------- *)
  Definition init_state (lang : str) (multi : bool) (simple : bool)
                        (reader : bool) : pstate :=
    {| macros := []; environs := []; packages := []; global_opts := [];
       unknowns := []; extracted := [];
       item_stack := [(IDefault, 0%nat, 0%nat, [])];
       lang_stack := [(check_parser_lang T lang, lang)];
       rot_inline := map (fun e => (fst e, ls_inline (snd e))) (t_langs T);
       rot_display := map (fun e => (fst e, ls_display (snd e))) (t_langs T);
       rot_change := map (fun e => (fst e, ls_change (snd e))) (t_langs T);
       math_text_macros := []; math_operators := []; newcommand_ignore := [];
       glossary := []; cur_latex := []; diags := [];
       multi_language := multi; displayed_simple := simple; has_reader := reader |}.

  Definition init_parser (fuel : nat) (st : pstate) (builtin : module)
                         (mods : list (bool * str)) : result pstate :=
    do r <- install_module T (exec fuel) st builtin [];
    (fix go (ms : list (bool * str)) (st : pstate) : result pstate :=
       match ms with
       | [] => Ok st
       | (cls, name) :: ms' =>
           do x <- init_package T (exec fuel) fuel st cls name [];
           go ms' (fst x)
       end) mods (fst r).

  (* init_extractions: 159-176 *)
  Definition init_extractions (st : pstate) (extr : list str) : pstate :=
    let upd (e : str * macro) : str * macro :=
      let mac := snd e in
      let ex :=
        if mem_str (fst e) extr then
          match find_index (fun c => match c with AMand => true | _ => false end)
                           (m_args mac) with
          | Some i => [mk (KArg (S i)) 0 (35%N :: nat_dec (S i)) false]
          | None => []
          end
        else [] in
      (fst e, {| m_name := m_name mac; m_args := m_args mac; m_repl := RToks [];
                 m_defaults := m_defaults mac; m_extract := ex |}) in
    let ms := map upd (macros st) in
    let ms := fold_left (fun t name =>
                 match assoc name t with
                 | Some _ => t
                 | None => t ++ [(name, {| m_name := name; m_args := [AMand];
                                            m_repl := RToks [];
                                            m_defaults := [];
                                            m_extract := [mk (KArg 1) 0 (s2l "#1") false] |})]
                 end) extr ms in
    upd_macros st ms.

  (* Parser.parse: 134-155 *)
  Definition parse (fuel : nat) (st : pstate) (latex define : str)
                   (extr : list str) : result (pstate * list tok) :=
    let st := match extr with [] => st | _ => init_extractions st extr end in
    let st := upd_unknowns (upd_extracted st []) [] in
    do m <- match define with
            | [] => Ok (st, [])
            | _ => do r <- parser_work T (exec fuel) st define;
                   Ok (upd_extracted (fst r) [], filter_set_toks (snd r) 0 is_lang)
            end;
    let '(st, main) := m in
    do r <- parser_work T (exec fuel) st latex;
    let '(st, body) := r in
    let main := match extr with [] => main ++ body | _ => [] end in
    do tail <- (fix go (es : list (list tok)) : result (list tok) :=
                match es with
                | [] => Ok []
                | [] :: es' => go es'
                | (x :: _) as e :: es' =>
                    do lp <- last_pos e;
                    do r <- go es';
                    Ok (ParF (pos x) [c_nl; c_nl; c_nl] :: e
                        ++ SpaceF lp [c_nl] :: r)
                end) (extracted st);
    Ok (st, main ++ tail).
End Exec.
