(* Json: JSON values as the shell sees them after json.JSONDecoder.decode,
   and the typed accessor json_get of yalafi/shell/shell.py:300-313.
   Fatal 2 = json_fatal (one-line diagnostic, exit status 1). *)
From YV Require Import PyBase.

Inductive json :=
  | JNull | JBool (b : bool) | JInt (z : Z) | JFloat
  | JStr (s : str) | JArr (l : list json) | JObj (l : list (str * json)).

Inductive jty := TInt | TStr | TList | TDict.

(* isinstance(v, typ): bool is a subclass of int *)
Definition has_ty (t : jty) (v : json) : bool :=
  match t, v with
  | TInt, JInt _ | TInt, JBool _ | TStr, JStr _ | TList, JArr _
  | TDict, JObj _ => true
  | _, _ => false
  end.

(* a Python dict built by the decoder keeps the last of duplicate keys *)
Fixpoint lookup (k : str) (l : list (str * json)) : option json :=
  match l with
  | [] => None
  | (k', v) :: l' => match lookup k l' with
                     | Some v' => Some v'
                     | None => if str_eqb k k' then Some v else None
                     end
  end.

Definition json_get (dic : json) (item : str) (t : jty) : result json :=
  match dic with
  | JObj l => match lookup item l with
              | Some v => if has_ty t v then Ok v else Fatal 2
              | None => Fatal 2
              end
  | _ => Fatal 2
  end.

Definition has_key (dic : json) (item : str) : bool :=
  match dic with
  | JObj l => match lookup item l with Some _ => true | None => false end
  | _ => false
  end.

Definition int_of (v : json) : Z :=
  match v with JInt z => z | JBool true => 1%Z | _ => 0%Z end.
Definition list_of (v : json) : list json :=
  match v with JArr l => l | _ => [] end.
Definition str_of (v : json) : str :=
  match v with JStr s => s | _ => [] end.

Definition get_int (dic : json) (item : str) : result Z :=
  do v <- json_get dic item TInt; Ok (int_of v).

(* field names *)
Definition k_matches : str := [109;97;116;99;104;101;115]%N.
Definition k_offset : str := [111;102;102;115;101;116]%N.
Definition k_length : str := [108;101;110;103;116;104]%N.
Definition k_rule : str := [114;117;108;101]%N.
Definition k_id : str := [105;100]%N.
Definition k_subId : str := [115;117;98;73;100]%N.
Definition k_message : str := [109;101;115;115;97;103;101]%N.
Definition k_replacements : str := [114;101;112;108;97;99;101;109;101;110;116;115]%N.
Definition k_value : str := [118;97;108;117;101]%N.
Definition k_context : str := [99;111;110;116;101;120;116]%N.
Definition k_text : str := [116;101;120;116]%N.
Definition k_urls : str := [117;114;108;115]%N.
Definition k_category : str := [99;97;116;101;103;111;114;121]%N.
Definition k_name : str := [110;97;109;101]%N.
