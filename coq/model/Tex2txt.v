(* Tex2txt: tex2txt.tex2txt (tex2txt.py:31-77) on top of the parser. *)
From Coq Require Import String.
From YV Require Import PyBase ShellMap Token Utils Scanner Rpal PState Parser
                       Expand Math Exec.
Open Scope Z_scope.

(* Parameters.no_specials(): parameters.py 461-469 *)
Definition with_nosp (T : tables) (skip : str * str) (extra : list macro) : tables :=
  let b := t_builtin T in
  {| t_scan := t_scan T; t_is_space := t_is_space T; t_is_alpha := t_is_alpha T;
     t_is_lower := t_is_lower T; t_is_decimal := t_is_decimal T;
     t_is_alnum := t_is_alnum T; t_upper := t_upper T;
     t_special_values := t_special_values T; t_accents := t_accents T;
     t_accent_char := t_accent_char T; t_accent_alone := t_accent_alone T;
     t_heading_punct := t_heading_punct T;
     t_item_default_label := t_item_default_label T;
     t_item_punctuation := t_item_punctuation T;
     t_math_ignore := t_math_ignore T; t_math_space := t_math_space T;
     t_math_punctuation := t_math_punctuation T;
     t_math_default_env := t_math_default_env T;
     t_comment_skip_begin := fst skip; t_comment_skip_end := snd skip;
     t_langs := t_langs T;
     t_builtin := {| md_require := md_require b;
                     md_macros_latex := md_macros_latex b;
                     md_macros_python := md_macros_python b ++ extra;
                     md_environs := md_environs b; md_inject := md_inject b;
                     md_math_text_macros := md_math_text_macros b;
                     md_math_operators := md_math_operators b;
                     md_newcommand_ignore := md_newcommand_ignore b;
                     md_global_opts := md_global_opts b |};
     t_packages := t_packages T; t_classes := t_classes T;
     t_babel_map := t_babel_map T; t_babel_breaks := t_babel_breaks T;
     t_math_op_default_key := tt;
     t_xspace_excl := t_xspace_excl T; t_cite_text := t_cite_text T |}.

Record parse_out := {
  po_toks : list tok; po_unknowns : list str; po_diags : list diag }.

Definition run_parse (T : tables) (files : list (str * str)) (lang : str)
                     (multi simple : bool) (mods : list (bool * str))
                     (define latex : str) (extr : list str) (fuel : nat)
  : result parse_out :=
  let rd := fun f => assoc f files in
  let st0 := init_state T lang multi simple true in
  do st <- init_parser T rd fuel st0 (t_builtin T) mods;
  do r <- parse T rd fuel st latex define extr;
  Ok {| po_toks := snd r; po_unknowns := unknowns (fst r);
        po_diags := rev (diags (fst r)) |}.
