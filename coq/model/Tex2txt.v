(* Tex2txt: tex2txt.tex2txt (tex2txt.py:31-77) on top of the parser. *)
From Coq Require Import String.
From YV Require Import PyBase ShellMap Token Utils Scanner Rpal PState Parser
                       Expand Math Exec.
Open Scope Z_scope.

(* Parameters.no_specials(): parameters.py 461-469 *)
Definition with_nosp (T : tables) (skip : str * str) (extra : list macro) : tables :=
  let b := t_builtin T in
  {| t_scan := t_scan T; t_is_space := t_is_space T; t_is_alpha := t_is_alpha T;
     t_is_lower := t_is_lower T; t_is_decimal := t_is_decimal T;
     t_is_alnum := t_is_alnum T; t_upper := t_upper T;
     t_special_values := t_special_values T; t_accents := t_accents T;
     t_accent_char := t_accent_char T; t_accent_alone := t_accent_alone T;
     t_heading_punct := t_heading_punct T;
     t_item_default_label := t_item_default_label T;
     t_item_punctuation := t_item_punctuation T;
     t_math_ignore := t_math_ignore T; t_math_space := t_math_space T;
     t_math_punctuation := t_math_punctuation T;
     t_math_default_env := t_math_default_env T;
     t_comment_skip_begin := fst skip; t_comment_skip_end := snd skip;
     t_langs := t_langs T;
     t_builtin := {| md_require := md_require b;
                     md_macros_latex := md_macros_latex b;
                     md_macros_python := md_macros_python b ++ extra;
                     md_environs := md_environs b; md_inject := md_inject b;
                     md_math_text_macros := md_math_text_macros b;
                     md_math_operators := md_math_operators b;
                     md_newcommand_ignore := md_newcommand_ignore b;
                     md_global_opts := md_global_opts b |};
     t_packages := t_packages T; t_classes := t_classes T;
     t_babel_map := t_babel_map T; t_babel_breaks := t_babel_breaks T;
     t_math_op_default_key := tt;
     t_xspace_excl := t_xspace_excl T; t_cite_text := t_cite_text T |}.

Record parse_out := {
  po_toks : list tok; po_unknowns : list str; po_diags : list diag }.

Definition run_parse (T : tables) (files : list (str * str)) (lang : str)
                     (multi simple : bool) (mods : list (bool * str))
                     (define latex : str) (extr : list str) (fuel : nat)
  : result parse_out :=
  let rd := fun f => assoc f files in
  let st0 := init_state T lang multi simple true in
  do st <- init_parser T rd fuel st0 (t_builtin T) mods;
  do r <- parse T rd fuel st latex define extr;
  Ok {| po_toks := snd r; po_unknowns := unknowns (fst r);
        po_diags := rev (diags (fst r)) |}.

(* ---- the wrapper tex2txt(): tex2txt.py 31-77 ---- *)
From YV Require Import Replace Ml.

Inductive t2t_result :=
  | TSingle (txt : str) (positions : list Z)
  | TMulti (parts : list (str * list (str * list Z))).

Record t2t_out := { to_result : t2t_result; to_unknowns : list str;
                    to_diags : list diag }.

Definition run_tex2txt (T : tables) (is_word : char -> bool)
                       (files : list (str * str)) (lang : str)
                       (multi simple : bool) (mods : list (bool * str))
                       (define latex : str) (extr : list str)
                       (repl : option (list str)) (unkn : bool) (thresh : nat)
                       (fuel : nat) : result t2t_out :=
  let rd := fun f => assoc f files in
  let st0 := init_state T lang multi simple true in
  do st <- init_parser T rd fuel st0 (t_builtin T) mods;
  do r <- parse T rd fuel st latex define extr;
  let '(st, toks) := r in
  let fin x := Ok {| to_result := x; to_unknowns := unknowns st;
                     to_diags := rev (diags st) |} in
  let repl_f t p :=
    match repl with
    | Some lines => replace_phrases (t_is_space T) (t_is_alpha T) is_word t p lines
    | None => Ok (t, p)
    end in
  if negb multi then
    let '(t, p) := get_txt_pos toks in
    do tp <- repl_f t p;
    let '(t, p) := tp in
    let '(t, p) :=
      if unkn then
        let u := join [c_nl] (unknowns st) ++ [c_nl] in (u, repeat 0 (length u))
      else (t, p) in
    fin (TSingle t (map (fun n => n + 1) p))
  else
    do ml <- get_txt_pos_ml (t_is_space T) (check_parser_lang T) thresh toks lang
                            (rot_change st);
    do ml <- (fix go (l : list (str * list (str * list Z)))
              : result (list (str * list (str * list Z))) :=
              match l with
              | [] => Ok []
              | (lg, parts) :: l' =>
                  do parts' <-
                    (if str_eqb lg lang then
                       (fix gp (ps : list (str * list Z)) : result (list (str * list Z)) :=
                          match ps with
                          | [] => Ok []
                          | (t, p) :: ps' => do tp <- repl_f t p; do r <- gp ps'; Ok (tp :: r)
                          end) parts
                     else Ok parts);
                  do r <- go l';
                  Ok ((lg, parts') :: r)
              end) ml;
    fin (TMulti (map (fun e => (fst e, map (fun tp => (fst tp, map (fun n => n + 1) (snd tp)))
                                         (snd e))) ml)).
