(* Math: yalafi/mathparser.py -- replacement of inline and displayed maths. *)
From Coq Require Import String.
From YV Require Import PyBase ShellMap Token Utils Scanner Rpal PState Parser Expand.
Open Scope Z_scope.

Section Math.
  Variable T : tables.
  Variable rd : str -> option str.
  Variable rec : recfun.

  Notation Res A := (result (pstate * A)).

  (* a section after detect_math_parts: plain tokens and math parts *)
  Inductive mtok := MTok (t : tok) | MPart (ts : list tok).

  Fixpoint detect_math_parts (toks : list tok) (cur : list tok) : list mtok :=
    match toks with
    | [] => match cur with [] => [] | _ => [MPart (rev cur)] end
    | t :: r =>
        if is_math_tok t then detect_math_parts r (t :: cur)
        else match cur with
             | [] => MTok t :: detect_math_parts r []
             | _ => MPart (rev cur) :: MTok t :: detect_math_parts r []
             end
    end.

  Definition is_mspace (t : tok) : bool :=
    match tk t with KMathSpace => true | _ => false end.
  Definition has_elem (ts : list tok) : option tok :=
    find (fun t => match tk t with
                   | KMathElem => negb (mem_str (txt t) (t_math_punctuation T))
                   | _ => false end) ts.
  Definition leading_op (ts : list tok) : option tok :=
    match find (fun t => negb (is_mspace t)) ts with
    | Some t => match tk t with KMathOper => Some t | _ => None end
    | None => None
    end.
  Definition last_char (ts : list tok) : str :=
    match rev (strip (t_is_space T) (get_text_direct ts)) with
    | c :: _ => [c]
    | [] => []
    end.

  Definition rotate (l : list str) : list str :=
    match l with [] => [] | x :: r => r ++ [x] end.

  (* the rotating collection of the current language *)
  Definition get_repls (st : pstate) (display : bool) : list str :=
    match assoc (lang_key st) (if display then rot_display st else rot_inline st) with
    | Some l => l | None => [] end.
  Definition set_repls (st : pstate) (display : bool) (l : list str) : pstate :=
    let k := lang_key st in
    if display then upd_rot st (rot_inline st) (assoc_set k l (rot_display st)) (rot_change st)
    else upd_rot st (assoc_set k l (rot_inline st)) (rot_display st) (rot_change st).

  Definition op_text (st : pstate) (op : str) : str :=
    match cur_settings T st with
    | Some s => match assoc op (ls_op_text s) with
                | Some w => w | None => ls_op_default s end
    | None => []
    end.

  (* replace_section: 223-264 *)
  Fixpoint replace_section (st : pstate) (inline : bool) (display_list : bool)
             (tokens : list mtok) (first_part next_repl : bool) (out : list tok)
    : result (pstate * list tok * bool) :=
    match tokens with
    | [] => Ok (st, out, next_repl)
    | MTok t :: r =>
        if negb (forallb (t_is_space T) (txt t))
        then replace_section st inline display_list r false true (out ++ [t])
        else replace_section st inline display_list r first_part next_repl (out ++ [t])
    | MPart ts :: r =>
        do p <- first_pos ts;
        if forallb is_mspace ts
        then replace_section st inline display_list r first_part next_repl
                             (out ++ [SpaceF p s_space])
        else
          let out := match ts with
                     | t0 :: _ => if is_mspace t0 then out ++ [SpaceF p s_space] else out
                     | [] => out end in
          let op := leading_op ts in
          let elem := has_elem ts in
          let out :=
            match op with
            | Some o =>
                if negb inline && first_part
                then out ++ [SpaceF p s_space; TextF (pos o) (op_text st (txt o));
                             SpaceF (pos o) s_space]
                else out
            | None => out
            end in
          let is_op := match op with Some _ => true | None => false end in
          let is_el := match elem with Some _ => true | None => false end in
          let st := if inline || ((next_repl || (is_op && first_part)) && is_el)
                    then set_repls st display_list (rotate (get_repls st display_list))
                    else st in
          do out <-
            (if inline || is_el then
               match get_repls st display_list with
               | [] => Exc IndexError
               | ph :: _ =>
                   let pp := if inline then p
                             else match elem with Some e => pos e | None => p end in
                   Ok (out ++ [TextF pp ph])
               end
             else Ok out);
          let c := last_char ts in
          let punct := match c with [] => false | _ => mem_str c (t_math_punctuation T) end in
          let out := if punct then out ++ [TextF p c] else out in
          let next_repl := punct || (is_op && negb is_el) in
          let out := match rev ts with
                     | tl_ :: _ => if is_mspace tl_ then out ++ [SpaceF p s_space] else out
                     | [] => out end in
          replace_section st inline display_list r first_part next_repl out
    end.

  Definition run_math_section (st : pstate) (buf : list tok) (start : Z)
                              (stops : list str) (env_stop : option str)
    : result (pstate * list tok * option tok * list tok) :=
    do r <- rec (TMath buf start stops env_stop []) st;
    match snd r with
    | AMath ts e rest => Ok (fst r, ts, e, rest)
    | _ => Exc TypeError
    end.

  (* expand_inline_math: 111-119; buf behind the opening token *)
  Definition expand_inline_math (st : pstate) (buf : list tok) (t : tok)
    : Res (list tok * list tok) :=
    do m <- run_math_section st buf (pos t) [s2l "$"; s2l "\)"] None;
    let '(st, toks, _, rest) := m in
    do r <- replace_section st true false (detect_math_parts toks [])
                            false true [ActionT (pos t)];
    let '(st, out, _) := r in
    do lp <- last_pos out;
    Ok (st, (out ++ [ActionT lp], rest)).

  (* expand_display_math: 62-107 *)
  Fixpoint display_sections (fuel : nat) (st : pstate) (buf : list tok)
             (start : Z) (ename : str) (first_section next_repl : bool)
             (out : list tok) : result (pstate * list tok * list tok * Z * bool) :=
    match fuel with
    | O => OutOfFuel
    | S k =>
        do m <- run_math_section st buf start
                  [s2l "&"; s2l "\\"; s2l "$$"; s2l "\]"] (Some ename);
        let '(st, toks, e, rest) := m in
        do r <- replace_section st false true (detect_math_parts toks [])
                                (negb first_section) next_repl out;
        let '(st, out, next_repl) := r in
        let et := match e with Some x => txt x | None => [] end in
        if str_eqb et (s2l "&") then
          do lp <- last_pos out;
          let out := out ++ [SpaceF lp s_space] in
          let start := match rest with x :: _ => pos x | [] => start end in
          display_sections k st rest start ename false next_repl out
        else if str_eqb et (s2l "\\") then
          do lp <- last_pos out;
          let out := out ++ [SpaceF lp ([c_nl; c_space; c_space])] in
          let '(st, rest) := parse_newline_option T st rest false in
          let start := match rest with x :: _ => pos x | [] => start end in
          display_sections k st rest start ename true next_repl out
        else
          (* closed: the section ended with a delimiter, not with the end of
             the text or of the paragraph *)
          Ok (st, out, rest, start,
              match e with
              | Some x => match tk x with KPar => false | _ => true end
              | None => false
              end)
    end.

  Definition expand_display_math (fuel : nat) (st : pstate) (buf : list tok)
                                 (t : tok) (ename : str) (remove : bool)
    : Res (list tok * list tok) :=
    let start := pos t in
    do d <- display_sections fuel st buf start ename true true
              [ActionT start; SpaceF start [c_space; c_space]];
    let '(st, out, rest, _, closed) := d in
    let tx := strip (t_is_space T) (get_text_direct out) in
    let lastc := match rev tx with c :: _ => Some c | [] => None end in
    let is_p := match lastc with
                | Some c => mem_str [c] (t_math_punctuation T) | None => false end in
    do lp <- last_pos out;
    if remove then
      match lastc with
      | Some c => if is_p then Ok (st, ([TextF lp [c]], rest))
                  else Ok (st, ([ActionT lp], rest))
      | None => Ok (st, ([ActionT lp], rest))
      end
    else if displayed_simple st && closed then
      match get_repls st true with
      | [] => Exc IndexError
      | ph :: _ =>
          let o := [ActionT start; SpaceF start [c_space; c_space]; TextF start ph] in
          let o := match lastc with
                   | Some c => if is_p then o ++ [TextF start [c]] else o
                   | None => o end in
          Ok (st, (o ++ [ActionT start], rest))
      end
    else Ok (st, (out ++ [ActionT lp], rest)).

  (* ---- one iteration of expand_math_section: 130-193 ---- *)
  Definition special_txt (t : tok) : str :=
    match tk t with
    | KSpecial => match assoc (txt t) (t_special_values T) with
                  | Some v => v | None => txt t end
    | _ => txt t
    end.

  Definition finish_math (out : list tok) : list tok :=
    filter (fun t => match tk t with KVoid | KAction => false | _ => true end) out.

  Definition step_math (fuel : nat) (st : pstate) (buf : list tok) (start : Z)
                       (stops : list str) (env_stop : option str)
                       (out : list tok) : result (pstate * answer) :=
    match skip_space buf with
    | [] =>
        let '(st, e) := err T st (s2l "missing end of maths") start in
        Ok (st, AMath (finish_math (e ++ out)) None [])
    | t :: b =>
        match tk t with
        | KPar =>
            let '(st, e) := err T st (s2l "missing end of maths") start in
            Ok (st, AMath (finish_math (e ++ out)) (Some t) b)
        | _ =>
            if mem_str (txt t) stops then Ok (st, AMath (finish_math out) (Some t) b)
            else
              match tk t with
              | KBegin =>
                  do r <- begin_environment T rd rec fuel st b t true;
                  let '(st, (ins, rest)) := r in
                  rec (TMath (ins ++ rest) start stops env_stop out) st
              | KEnd =>
                  do r <- end_environment T rd rec fuel st b t env_stop;
                  let '(st, (ts, stop, rest)) := r in
                  if stop then Ok (st, AMath (finish_math (out ++ ts)) (Some t) rest)
                  else rec (TMath rest start stops env_stop (out ++ ts)) st
              | KMacro =>
                  if mem_str (txt t) (math_text_macros st) then
                    let '(st, a, rest) := arg_buffer T st b (pos t) s_rbrace in
                    do r <- expand_fresh rec st a;
                    rec (TMath rest start stops env_stop (out ++ snd r)) (fst r)
                  else
                    do r <- expand_macro T rd rec fuel st b t true;
                    let '(st, (ins, rest)) := r in
                    let ins :=
                      if mem_str (txt t) (t_math_space T)
                      then mk KMathSpace (pos t) s_space false :: ins
                      else if mem_str (txt t) (math_operators st)
                      then mk KMathOper (pos t) (txt t) false :: ins
                      else if negb (match assoc (txt t) (macros st) with
                                    | Some _ => true | None => false end
                                    || mem_str (txt t) (t_math_ignore T))
                      then mk KMathElem (pos t) (txt t) false :: ins
                      else ins in
                    rec (TMath (ins ++ rest) start stops env_stop out) st
              | KMathElem | KMathOper | KMathSpace =>
                  rec (TMath b start stops env_stop (out ++ [t])) st
              | _ =>
                  let out :=
                    if mem_str (txt t) (t_math_ignore T) then out
                    else if mem_str (txt t) (t_math_space T)
                    then out ++ [mk KMathSpace (pos t) s_space false]
                    else if mem_str (txt t) (math_operators st)
                    then out ++ [mk KMathOper (pos t) (special_txt t) false]
                    else out ++ [mk KMathElem (pos t) (special_txt t) false] in
                  rec (TMath b start stops env_stop out) st
              end
        end
    end.
End Math.
