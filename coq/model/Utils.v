(* Utils: yalafi/utils.py latex_error (28-42), get_txt_pos (54-63),
   filter_set_toks (134-139). *)
From YV Require Import PyBase ShellMap Token.
Open Scope Z_scope.

(* a diagnostic written to stderr: line, column, message *)
Record diag := { d_line : Z; d_col : Z; d_msg : str }.

Section Utils.
  Variable mark : str.          (* parms.mark_latex_error *)
  Variable verbose : bool.      (* parms.mark_latex_error_verbose *)

  Definition error_mark (err : str) : str :=
    [c_space] ++ mark ++ [c_space]
    ++ (if verbose then [40%N] ++ err ++ [41%N; c_space] else []).

  (* latex_error: the diagnostic and the (possibly split) mark, pinned *)
  Definition latex_error (err : str) (p : Z) (latex : str) : diag * list tok :=
    let lin := count_nl_to latex p + 1 in
    let col := p - line_start_to latex p + 1 in
    let mk_ := error_mark err in
    let mx := Z.min (zlen mk_) (zlen latex - p) in
    let first := TextF p (zslice mk_ 0 mx) in
    ({| d_line := lin; d_col := col; d_msg := err |},
     if mx <? zlen mk_
     then [first; TextF (p + mx - 1) (zslice mk_ mx (zlen mk_))]
     else [first]).
End Utils.

(* get_txt_pos: text and position list in lock step *)
Fixpoint zseq (start : Z) (n : nat) : list Z :=
  match n with O => [] | S k => start :: zseq (start + 1) k end.

Definition tok_positions (t : tok) : list Z :=
  if pfix t then repeat (pos t) (length (txt t))
  else zseq (pos t) (length (txt t)).

Fixpoint get_txt_pos (toks : list tok) : str * list Z :=
  match toks with
  | [] => ([], [])
  | t :: toks' => let '(s, p) := get_txt_pos toks' in
                  (txt t ++ s, tok_positions t ++ p)
  end.

(* filter_set_toks(toks, pos, tok_typ): keep tokens of one kind (None: all),
   set their position *)
Definition filter_set_toks (toks : list tok) (p : Z) (keep : tok -> bool)
  : list tok :=
  map (fun t => set_pos t p) (filter keep toks).
