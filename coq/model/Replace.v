(* Replace: model of yalafi/utils.py replace_phrases() and substitute()
   (lines 65-109).  The regular expression built there has one fixed shape,
      [\b] w1 SEP w2 SEP ... wn [\b],  SEP = (?:[ \t]*\n[ \t]*|[ \t]+)
   with literal (escaped) words; `finditer` below is a matcher for exactly
   this shape with Python's leftmost, non-overlapping iteration. *)
From YV Require Import PyBase.

Section Replace.
  Variable is_space : char -> bool.   (* str.isspace  *)
  Variable is_alpha : char -> bool.   (* str.isalpha  *)
  Variable is_word  : char -> bool.   (* regex \w     *)

  Definition is_blank (c : char) : bool := N.eqb c c_space || N.eqb c c_tab.

  (* ---- a rule line: text before '#', split, words before '&' / after ---- *)
  Definition strip_comment (lin : str) : str :=
    take_while (fun c => negb (N.eqb c c_hash)) lin.

  Definition is_amp (w : str) : bool := str_eqb w [c_amp].

  Record rule := { r_words : list str; r_repl : str }.

  Definition parse_rule (lin : str) : rule :=
    let ws := split_ws is_space (strip_comment lin) in
    let lhs := take_while (fun w => negb (is_amp w)) ws in
    let rest := drop_while (fun w => negb (is_amp w)) ws in
    {| r_words := lhs; r_repl := join [c_space] (tl rest) |}.

  (* t[0].isalpha() / t[-1].isalpha() on the escaped pattern: re.escape never
     escapes a letter and an escaped character is never a letter, so these are
     tests on the first / last character of the phrase *)
  Definition bound_start (ws : list str) : bool :=
    match ws with
    | (c :: _) :: _ => is_alpha c
    | _ => false
    end.
  Definition bound_end (ws : list str) : bool :=
    match rev ws with
    | w :: _ => match rev w with c :: _ => is_alpha c | [] => false end
    | [] => false
    end.

  (* ---- matching ---- *)
  (* literal word at the head of s: rest of s *)
  Fixpoint match_word (w s : str) : option str :=
    match w, s with
    | [], _ => Some s
    | x :: w', y :: s' => if N.eqb x y then match_word w' s' else None
    | _ :: _, [] => None
    end.

  (* the separator: maximal blanks, at most one line break, maximal blanks;
     at least one character.  Returns (consumed, rest). *)
  Definition match_sep (s : str) : option (nat * str) :=
    let a := take_while is_blank s in
    let s1 := drop_while is_blank s in
    match s1 with
    | c :: s2 =>
        if N.eqb c c_nl
        then let b := take_while is_blank s2 in
             Some (length a + 1 + length b, drop_while is_blank s2)
        else match a with [] => None | _ => Some (length a, s1) end
    | [] => match a with [] => None | _ => Some (length a, s1) end
    end.

  (* the phrase w1 SEP w2 ... at the head of s: number of characters *)
  Fixpoint match_phrase (ws : list str) (s : str) : option nat :=
    match ws with
    | [] => None
    | [w] => match match_word w s with
             | Some _ => Some (length w)
             | None => None
             end
    | w :: ws' =>
        match match_word w s with
        | None => None
        | Some s1 =>
            match match_sep s1 with
            | None => None
            | Some (n, s2) =>
                match match_phrase ws' s2 with
                | None => None
                | Some m => Some (length w + n + m)
                end
            end
        end
    end.

  (* \b between two optional characters *)
  Definition opt_word (c : option char) : bool :=
    match c with Some x => is_word x | None => false end.
  Definition boundary (prev next : option char) : bool :=
    xorb (opt_word prev) (opt_word next).

  (* match of the whole expression at the head of s, prev = character before *)
  Definition match_at (ws : list str) (bs be : bool) (prev : option char)
                      (s : str) : option nat :=
    if bs && negb (boundary prev (hd_error s)) then None
    else match match_phrase ws s with
         | None => None
         | Some m =>
             if be && negb (boundary (nth_error s (m - 1)) (nth_error s m))
             then None else Some m
         end.

  (* re.finditer: spans (start, length), leftmost first, non-overlapping.
     skip = characters of the current match still to be passed. *)
  Fixpoint finditer_aux (ws : list str) (bs be : bool) (prev : option char)
                        (s : str) (i skip : nat) : list (nat * nat) :=
    match s with
    | [] => []
    | c :: s' =>
        match skip with
        | S k => finditer_aux ws bs be (Some c) s' (S i) k
        | O =>
            match match_at ws bs be prev s with
            | Some (S m) => (i, S m) :: finditer_aux ws bs be (Some c) s' (S i) m
            | _ => finditer_aux ws bs be (Some c) s' (S i) 0
            end
        end
    end.
  Definition finditer (ws : list str) (txt : str) : list (nat * nat) :=
    finditer_aux ws (bound_start ws) (bound_end ws) None txt 0 0.

  (* ---- substitute(): lines 91-109 ---- *)
  (* positions for an inserted replacement of length r over the matched
     positions ps (m = |ps|); i_pos[cur+m_len-1] raises IndexError when the
     position list is too short *)
  Definition repl_pos (pos : list Z) (cur m r : nat) : result (list Z) :=
    if Nat.leb r m then Ok (pyslice pos cur (cur + r))
    else do x <- py_nth pos (cur + m - 1);
         Ok (pyslice pos cur (cur + m) ++ repeat x (r - m)).

  Fixpoint subst_loop (txt : str) (pos : list Z) (repl : str)
                      (spans : list (nat * nat)) (last : nat)
                      (otxt : str) (opos : list Z) : result (str * list Z) :=
    match spans with
    | [] => Ok (otxt ++ skipn last txt, opos ++ skipn last pos)
    | (cur, m) :: spans' =>
        do rp <- repl_pos pos cur m (length repl);
        subst_loop txt pos repl spans' (cur + m)
          (otxt ++ pyslice txt last cur ++ repl)
          (opos ++ pyslice pos last cur ++ rp)
    end.

  Definition substitute (txt : str) (pos : list Z) (ws : list str) (repl : str)
    : result (str * list Z) :=
    subst_loop txt pos repl (finditer ws txt) 0 [] [].

  (* ---- replace_phrases(): lines 65-89 ---- *)
  Fixpoint replace_phrases (txt : str) (pos : list Z) (lines : list str)
    : result (str * list Z) :=
    match lines with
    | [] => Ok (txt, pos)
    | lin :: lines' =>
        let r := parse_rule lin in
        match r_words r with
        | [] => replace_phrases txt pos lines'
        | ws => do tp <- substitute txt pos ws (r_repl r);
                replace_phrases (fst tp) (snd tp) lines'
        end
    end.
End Replace.
