(* Expand: expansion of macros, environments, items, accents (parser.py
   311-492, 596-747) and the handlers of handlers.py and the package modules.
   Open recursion as in Parser.v. *)
From Coq Require Import String.
From YV Require Import PyBase ShellMap Token Utils Scanner Rpal PState Parser.
Open Scope Z_scope.

Section Expand.
  Variable T : tables.
  Variable rd : str -> option str.
  Variable rec : recfun.

  Notation Res A := (result (pstate * A)).
  Notation expand_fresh := (expand_fresh rec).
  Notation get_text_expanded := (get_text_expanded rec).
  Notation err := (err T).

  Definition last_pos (l : list tok) : result Z :=
    do t <- py_last l; Ok (pos t).
  Definition first_pos (l : list tok) : result Z :=
    do t <- py_nth l 0; Ok (pos t).

  (* ---------------------------------------------------------------- *)
  (*  handlers                                                         *)
  (* ---------------------------------------------------------------- *)
  Definition arg (args : list (list tok)) (i : nat) : result (list tok) :=
    py_nth args i.

  Definition babel_lang (s : str) : str :=
    match assoc s (t_babel_map T) with
    | Some l => l
    | None => match assoc (s2l "english") (t_babel_map T) with
              | Some l => l | None => [] end
    end.

  Definition strip_ (s : str) : str := strip (t_is_space T) s.

  (* split at ',' and strip: packs.split(',') *)
  Fixpoint split_comma_aux (s : str) (cur : str) : list str :=
    match s with
    | [] => [rev cur]
    | c :: s' => if N.eqb c 44 then rev cur :: split_comma_aux s' []
                 else split_comma_aux s' (c :: cur)
    end.

  Definition is_decimal_str (s : str) : bool :=
    match s with [] => false | _ => forallb (t_is_decimal T) s end.

  (* int(s) for a string of decimal characters, capped (the code rejects
     values above 9 anyway) *)
  Definition small_int (s : str) : nat :=
    fold_left (fun n c => Nat.min 1000 (10 * n + sp_decimal_value (t_scan T) c)) s 0%nat.

  Definition upper_str (s : str) : str := flat_map (t_upper T) s.

  (* glossaries.cap_first / cap_all *)
  Fixpoint cap_first (toks : list tok) : list tok :=
    match toks with
    | [] => []
    | t :: r =>
        match tk t with
        | KText => match txt t with
                   | c :: _ => mk KText (pos t) (t_upper T c) true :: r
                   | [] => (* txt[0] of an empty text: IndexError in Python,
                              cannot occur for scanned tokens *) t :: r
                   end
        | _ => t :: cap_first r
        end
    end.
  Definition cap_all (toks : list tok) : list tok :=
    map (fun t => match tk t with KText => set_txt t (upper_str (txt t)) | _ => t end) toks.

  Definition modify_description (st : pstate) (toks : list tok) : Res (list tok) :=
    let toks := cap_first toks in
    do r <- get_text_expanded st toks;
    let '(st', s) := r in
    match rev s with
    | c :: _ =>
        if N.eqb c 46 || N.eqb c 33 || N.eqb c 63 then Ok (st', toks)
        else do p <- last_pos toks; Ok (st', toks ++ [TextF p [46%N]])
    | [] => Ok (st', toks)
    end.

  (* \hspace: numbers = \s*(\d+[.,]?\d*|[.,]\d+) ; zero if all digits are 0 *)
  Definition is_re_digit (c : char) : bool := t_is_decimal T c.
  Definition hspace_is_zero (s : str) : bool :=
    let s := drop_while (t_is_space T) s in
    let d1 := take_while is_re_digit s in
    let r1 := drop_while is_re_digit s in
    match d1 with
    | _ :: _ =>
        let r2 := match r1 with
                  | c :: r => if N.eqb c 46 || N.eqb c 44 then r else r1
                  | [] => [] end in
        let d2 := match r1 with
                  | c :: _ => if N.eqb c 46 || N.eqb c 44
                              then take_while is_re_digit r2 else []
                  | [] => [] end in
        forallb (fun c => Nat.eqb (sp_decimal_value (t_scan T) c) 0) (d1 ++ d2)
    | [] =>
        match s with
        | c :: r => if N.eqb c 46 || N.eqb c 44 then
                      match take_while is_re_digit r with
                      | [] => false
                      | d => forallb (fun c => Nat.eqb (sp_decimal_value (t_scan T) c) 0) d
                      end
                    else false
        | [] => false
        end
    end.

  (* h_cite of handlers.py *)
  Definition h_cite (args : list (list tok)) (p : Z) : result (list tok) :=
    do a0 <- arg args 0;
    match a0 with
    | [] => Ok [TextF p (s2l "[0]"); ActionT p]
    | _ => do lp <- last_pos a0;
           Ok ([TextF p (s2l "[0,"); SpaceF p s_space] ++ a0
               ++ [TextT lp (s2l "]"); ActionT lp])
    end.

  (* biblatex.h_cite *)
  Definition is_single_void (l : list tok) : bool :=
    match l with [t] => match tk t with KVoid => true | _ => false end | _ => false end.
  Definition bib_cite (args : list (list tok)) (p : Z) : result (list tok) :=
    do o1 <- arg args 1; do o2 <- arg args 2;
    let o1 := if is_single_void o1 then [] else o1 in
    let '(pre, post) :=
      match o2 with
      | [] => ([], o1)
      | _ => (o1, if is_single_void o2 then [] else o2)
      end in
    let out := [TextF p (s2l "[")] in
    do out <- match pre with
              | [] => Ok out
              | _ => let out := out ++ pre in
                     do lp <- last_pos out; Ok (out ++ [SpaceF lp s_space])
              end;
    do lp <- last_pos out;
    let out := out ++ [TextF lp (t_cite_text T)] in
    do out <- match post with
              | [] => Ok out
              | _ => do lp <- last_pos out;
                     Ok (out ++ [TextF lp (s2l ","); SpaceF lp s_space] ++ post)
              end;
    do lp <- last_pos out;
    Ok (out ++ [TextF lp (s2l "]"); ActionT lp]).

  (* item label generators *)
  Definition nat_dec (n : nat) : str :=
    (fix go (fuel : nat) (n : N) (acc : str) : str :=
       match fuel with
       | O => acc
       | S k => let acc' := (48 + n mod 10)%N :: acc in
                if (n <? 10)%N then acc' else go k (n / 10)%N acc'
       end) 30%nat (N.of_nat n) [].

  Definition item_label (kind : itemkind) (level counter : nat) : str :=
    match kind with
    | IDefault => match t_item_default_label T with l :: _ => l | [] => [] end
    | IItemize =>
        let ls := t_item_default_label T in
        nth (Nat.min level (length ls - 1)) ls []
    | IEnumerate =>
        match level with
        | O => nat_dec (S counter) ++ [46%N]
        | _ => [(97 + N.of_nat (counter mod 26))%N; 46%N]
        end
    end.

  (* the handler dispatcher: mac.repl(parser, buf, mac, args, delim, pos).
     buf is only read (h_xspace looks at the current token). *)
  Definition run_handler (fuel : nat) (h : handler) (st : pstate)
                         (buf : list tok) (mname : str)
                         (args : list (list tok)) (p : Z) : Res (list tok) :=
    match h with
    | HNewcommand =>
        do a1 <- arg args 1; do a2 <- arg args 2; do a3 <- arg args 3;
        do a4 <- arg args 4;
        let name := get_text_direct a1 in
        if mem_str name (newcommand_ignore st) then Ok (st, [])
        else
          do r <- get_text_expanded st a2;
          let '(st, ns) := r in
          let nargs := if is_decimal_str ns then small_int ns else 0%nat in
          do p1 <- first_pos a1;
          if Nat.ltb 9 nargs then
            Ok (err st (s2l "more than 9 arguments in definition of macro " ++ name) p1)
          else
            match find (fun t => match is_arg t with
                                 | Some n => Nat.ltb n 1 || Nat.ltb nargs n
                                 | None => false end) a4 with
            | Some bad =>
                let n := match is_arg bad with Some n => n | None => 0%nat end in
                Ok (err st (s2l "illegal argument #" ++ nat_dec n
                            ++ s2l " in definition of macro " ++ name) (pos bad))
            | None =>
                match a3 with
                | [] =>
                    Ok (upd_macros st (assoc_set name
                          {| m_name := name; m_args := repeat AMand nargs;
                             m_repl := RToks a4; m_defaults := []; m_extract := [] |}
                          (macros st)), [])
                | _ =>
                    if Nat.ltb nargs 1 then
                      Ok (err st (s2l "illegal default value in definition of macro "
                                  ++ name) p1)
                    else
                      Ok (upd_macros st (assoc_set name
                            {| m_name := name;
                               m_args := AOpt :: repeat AMand (nargs - 1);
                               m_repl := RToks a4; m_defaults := [a3];
                               m_extract := [] |} (macros st)), [])
                end
            end
    | HNewtheorem =>
        (* arguments: star, name, [counter], title, [within] *)
        do a0 <- arg args 1; do a2 <- arg args 3;
        do r0 <- get_text_expanded st a0;
        do r2 <- get_text_expanded (fst r0) a2;
        let st := fst r2 in
        let name := snd r0 in
        let e := {| e_mac := {| m_name := name; m_args := [AOpt];
                               m_repl := RHandler (HTheorem (snd r2));
                               m_defaults := []; m_extract := [] |};
                    e_add_pars := true; e_remove := false; e_items := None;
                    e_end := None; e_equ := false |} in
        Ok (upd_environs st (assoc_set name e (environs st)), [])
    | HTheorem title =>
        do a0 <- arg args 0;
        match a0 with
        | [] => Ok (st, [TextF p title; TextF p (s2l "."); SpaceF p s_nl])
        | _ => do lp <- last_pos a0;
               Ok (st, [TextF p title; SpaceF p s_space; TextF p (s2l "(")]
                       ++ a0 ++ [TextF lp (s2l ")."); SpaceF lp s_nl])
        end
    | HHeading =>
        do a2 <- arg args 2;
        do r <- get_text_expanded st a2;
        let '(st, s) := r in
        match rev (strip_ s), t_heading_punct T with
        | c :: _, _ :: _ =>
            if mem_str [c] (t_heading_punct T) then Ok (st, a2)
            else do lp <- last_pos a2; Ok (st, a2 ++ [TextT lp (s2l ".")])
        | _, _ => Ok (st, a2)
        end
    | HPhantom =>
        do a0 <- arg args 0;
        do r <- get_text_expanded st a0;
        match snd r with
        | [] => Ok (fst r, [])
        | _ => Ok (fst r, [SpecialT p (s2l "\;")])
        end
    | HHspace =>
        do a1 <- arg args 1;
        do r <- get_text_expanded st a1;
        if hspace_is_zero (snd r) then Ok (fst r, [])
        else Ok (fst r, [SpaceT p s_space])
    | HCite => do o <- h_cite args p; Ok (st, o)
    | HLoadDefs =>
        if negb (has_reader st) then Ok (st, [])
        else
          do a0 <- arg args 0;
          do r <- get_text_expanded st a0;
          let '(st, file) := r in
          match rd file with
          | None => Ok (err st (s2l "could not read file '" ++ file ++ s2l "'") p)
          | Some latex =>
              let saved := extracted st in
              do w <- parser_work T rec (upd_extracted st []) latex;
              let '(st, toks) := w in
              Ok (upd_extracted st saved, filter_set_toks toks p is_lang)
          end
    | HLoadModule cls =>
        do a0 <- arg args 0; do a1 <- arg args 1;
        do kv <- parse_keyvals_list T rec (S (length a0)) st a0;
        do ekv <- expand_keyvals rec (fst kv) (snd kv);
        do pr <- get_text_expanded (fst ekv) a1;
        let '(st, packs) := pr in
        let options := snd ekv in
        do r <- (fix go (ps : list str) (st : pstate) (acc : list tok)
                 : Res (list tok) :=
                 match ps with
                 | [] => Ok (st, acc)
                 | q :: ps' =>
                     match strip_ q with
                     | [] => go ps' st acc
                     | name => do x <- init_package T rec fuel st cls name options;
                               go ps' (fst x) (acc ++ snd x)
                     end
                 end) (split_comma_aux packs []) st [];
        Ok (fst r, filter_set_toks (snd r) p (fun _ => true))
    | HSubstack =>
        do a0 <- arg args 0;
        Ok (st, (fix go (l : list tok) (lev : Z) : list tok :=
                   match l with
                   | [] => []
                   | t :: l' =>
                       let lev := if txt_is t s_lbrace then lev + 1
                                  else if txt_is t s_rbrace then lev - 1 else lev in
                       (if txt_is t (s2l "\\") && (lev =? 0)
                        then SpecialT (pos t) (s2l "\;") else t) :: go l' lev
                   end) a0 0)
    | HProof =>
        do a0 <- arg args 0;
        let ret := match a0 with
                   | [] => [TextF p (match cur_settings T st with
                                     | Some s => ls_proof_name s | None => [] end)]
                   | _ => a0 end in
        do lp <- last_pos ret;
        Ok (st, ret ++ [TextF lp (s2l "."); SpaceF lp s_nl])
    | HForeign =>
        do a1 <- arg args 1; do a2 <- arg args 2;
        do r <- get_text_expanded st a1;
        do lp <- last_pos a2;
        Ok (fst r, [LangT p (babel_lang (strip_ (snd r))) false false
                          (fst (fst (t_babel_breaks T)))]
                   ++ a2 ++ [LangT lp [] true false false])
    | HSelect =>
        do a0 <- arg args 0;
        do r <- get_text_expanded st a0;
        Ok (fst r, [LangT p (babel_lang (strip_ (snd r))) false true
                          (snd (fst (t_babel_breaks T)))])
    | HBeginOther =>
        do a0 <- arg args 0;
        do r <- get_text_expanded st a0;
        Ok (fst r, [LangT p (babel_lang (strip_ (snd r))) false false
                          (snd (t_babel_breaks T))])
    | HEndOther => Ok (st, [LangT p [] true false false;
                            MacroT p (s2l "\babel@skip@space")])
    | HEndOtherStar => Ok (st, [LangT p [] true false false])
    | HBibCite => do o <- bib_cite args p; Ok (st, o)
    | HFootcite =>
        do o <- bib_cite args p;
        do lp <- last_pos o;
        Ok (st, [MacroT p (s2l "\footnote"); SpecialT p s_lbrace] ++ o
                ++ [TextF lp (s2l "."); SpecialT lp s_rbrace; ActionT lp])
    | HGls key cap =>
        do a1 <- arg args 1;
        do r <- get_text_expanded st a1;
        let '(st, label) := r in
        match assoc label (glossary st) with
        | Some ent =>
            match assoc key ent with
            | Some (Some toks) =>
                let toks := match cap with
                            | 1%nat => cap_first toks
                            | 2%nat => cap_all toks
                            | _ => toks end in
                Ok (st, map (fun t => set_pos_fix t p) toks)
            | Some None => Ok (err st (s2l "could not find label for \gls... - did you include ""\LTinput{<main file>.glsdefs}""?") p)
            | None => Ok (err st (s2l "could not find label for \gls... - did you include ""\LTinput{<main file>.glsdefs}""?") p)
            end
        | None => Ok (err st (s2l "could not find label for \gls... - did you include ""\LTinput{<main file>.glsdefs}""?") p)
        end
    | HNewacronym => do a2 <- arg args 2; modify_description st a2
    | HNewglossaryentry =>
        do a1 <- arg args 1;
        do kv <- parse_keyvals_list T rec (S (length a1)) st a1;
        let d := kv_dict (snd kv) in
        let descr := match assoc (s2l "description") d with
                     | Some (Some v) => v
                     | _ => [] end in
        modify_description (fst kv) descr
    | HParseGlsdefs =>
        do a0 <- arg args 0; do a1 <- arg args 1;
        do r <- get_text_expanded st a0;
        do kv <- parse_keyvals_list T rec (S (length a1)) (fst r) a1;
        let st := fst kv in
        Ok (upd_glossary st (assoc_set (snd r) (kv_dict (snd kv)) (glossary st)), [])
    | HXspace =>
        match buf with
        | t :: _ => if mem_str (txt t) (t_xspace_excl T) then Ok (st, [])
                    else Ok (st, [SpaceT p s_space])
        | [] => Ok (st, [])
        end
    | HUnmodelled _ => Fatal 9
    end.

  (* ---------------------------------------------------------------- *)
  (*  expand_arguments: 323-374                                        *)
  (* ---------------------------------------------------------------- *)
  (* one argument: returns (arg, arg_extr, rest, pos) *)
  Definition one_arg (st : pstate) (buf : list tok) (code : argcode)
                     (n : nat) (mac : macro) (p : Z)
    : pstate * list tok * list tok * list tok * Z :=
    let b := skip_space buf in
    let p_prev := p in
    let p := match b with t :: _ => pos t | [] => p end in
    match code with
    | AStar =>
        match b with
        | t :: b' => if txt_is t s_star then (st, [t], [t], b', p)
                     else (st, [], [], b, p)
        | [] => (st, [], [], b, p)
        end
    | AOpt =>
        match b with
        | t :: _ =>
            if txt_is t s_lbrack then
              let '(st', a, rest) := arg_buffer T st b p s_rbrack in
              (st', a, a, rest, p)
            else
              (* the next token need not belong to the call *)
              (st, match nth_error (m_defaults mac) n with
                   | Some d => map (fun t => set_pos_fix t p_prev) d
                   | None => [] end, [], b, p_prev)
        | [] =>
            (st, match nth_error (m_defaults mac) n with
                 | Some d => map (fun t => set_pos_fix t p_prev) d
                 | None => [] end, [], b, p_prev)
        end
    | AMand =>
        match b with
        | t :: _ =>
            if txt_is t s_rbrace then (st, [VoidT p], [VoidT p], b, p)
            else let '(st', a, rest) := arg_buffer T st b p s_rbrace in
                 (st', a, a, rest, p)
        | [] => let '(st', a, rest) := arg_buffer T st b p s_rbrace in
                (st', a, a, rest, p)
        end
    end.

  Fixpoint collect_args (st : pstate) (buf : list tok) (codes : list argcode)
                        (n : nat) (mac : macro) (p : Z)
    : pstate * list (list tok) * list (list tok) * list tok :=
    match codes with
    | [] => (st, [], [], buf)
    | c :: cs =>
        let '(st1, a, ax, rest, p1) := one_arg st buf c n mac p in
        let '(st2, args, argsx, rest2) := collect_args st1 rest cs (S n) mac p1 in
        (st2, a :: args, ax :: argsx, rest2)
    end.

  (* returns the tokens to be inserted and the rest of the buffer *)
  Fixpoint drop_space_toks (buf : list tok) : list tok :=
    match buf with
    | t :: r => match tk t with KSpace => drop_space_toks r | _ => buf end
    | [] => []
    end.

  Definition expand_arguments (fuel : nat) (st : pstate) (buf : list tok)
                              (mac : macro) (start : Z)
    : Res (list tok * list tok) :=
    let '(st, args, argsx, rest) := collect_args st buf (m_args mac) 0 mac start in
    do st <-
      match m_extract mac with
      | [] => Ok st
      | ex =>
          do g <- generate_replacements argsx ex start;
          do r <- expand_fresh st (LangT start (lang_code st) false true true :: g);
          Ok (upd_extracted (fst r) (extracted (fst r) ++ [snd r]))
      end;
    match m_repl mac with
    | RHandler h =>
        do r <- run_handler fuel h st rest (m_name mac) args start;
        (* a theorem heading with title consumes the white space behind the
           option (handlers.h_theorem) *)
        let rest := match h, args with
                    | HTheorem _, (_ :: _) :: _ => drop_space_toks rest
                    | _, _ => rest
                    end in
        Ok (fst r, (ActionT start :: snd r, rest))
    | RToks body =>
        do g <- generate_replacements args body start;
        Ok (st, (ActionT start :: g, rest))
    end.

  (* expand_macro: 311-318 *)
  Definition expand_macro (fuel : nat) (st : pstate) (buf : list tok) (t : tok)
                          (math : bool) : Res (list tok * list tok) :=
    (* buf: the buffer behind the macro token *)
    let b := skip_ctl buf in
    match assoc (txt t) (macros st) with
    | None =>
        let st := if math || mem_str (txt t) (unknowns st) then st
                  else upd_unknowns st (unknowns st ++ [txt t]) in
        Ok (st, ([ActionT (pos t)], b))
    | Some mac => expand_arguments fuel st b mac (pos t)
    end.

  (* get_environment_name: 471-473 *)
  Definition get_environment_name (st : pstate) (buf : list tok) (t : tok)
    : Res (str * list tok) :=
    let '(st, a, rest) := arg_buffer T st buf (pos t) s_rbrace in
    do r <- get_text_expanded st a;
    Ok (fst r, (snd r, rest)).

  (* begin_environment: 434-453; buf behind the \begin token *)
  Definition begin_environment (fuel : nat) (st : pstate) (buf : list tok)
                               (t : tok) (math : bool)
    : Res (list tok * list tok) :=
    do nr <- get_environment_name st buf t;
    let '(st, (name, rest)) := nr in
    match assoc name (environs st) with
    | None =>
        let st := if math || mem_str name (unknowns st) then st
                  else upd_unknowns st (unknowns st ++ [name]) in
        Ok (st, ([ActionT (pos t)], rest))
    | Some env =>
        let st :=
          match e_items env with
          | Some k =>
              let level := length (filter (fun e => str_eqb (snd e) name)
                                          (item_stack st)) in
              upd_items st (item_stack st ++ [(k, level, 0%nat, name)])
          | None => st
          end in
        let out0 := if e_add_pars env then [ParF (pos t) [c_nl; c_nl]]
                    else [ActionT (pos t)] in
        do r <- expand_arguments fuel st rest (e_mac env) (pos t);
        let '(st, (ins, rest)) := r in
        let out := out0 ++ ins in
        if e_equ env then
          Ok (st, (out ++ [mk (KMathBegin name) (pos t) name false], rest))
        else if e_remove env then
          do x <- rec (TSeq rest (Some name) []) st;
          match snd x with
          | ASeq ts rest' => Ok (fst x, (out ++ ts, rest'))
          | _ => Exc TypeError
          end
        else Ok (st, (out, rest))
    end.

  (* end_environment: 458-469; returns (tokens, stop, rest) *)
  Definition end_environment (fuel : nat) (st : pstate) (buf : list tok)
                             (t : tok) (env_stop : option str)
    : Res (list tok * bool * list tok) :=
    do nr <- get_environment_name st buf t;
    let '(st, (name, rest)) := nr in
    let stop := match env_stop with Some s => str_eqb name s | None => false end in
    match assoc name (environs st) with
    | None => Ok (st, ([ActionT (pos t)], stop, rest))
    | Some env =>
        let st := match e_items env with
                  | Some _ => if Nat.ltb 1 (length (item_stack st))
                              then upd_items st (removelast (item_stack st)) else st
                  | None => st end in
        let out := if e_add_pars env then [ParF (pos t) [c_nl; c_nl]]
                   else [ActionT (pos t)] in
        match e_end env with
        | Some h =>
            do r <- run_handler fuel h st rest (m_name (e_mac env)) [] (pos t);
            Ok (fst r, (out ++ snd r, stop, rest))
        | None => Ok (st, (out, stop, rest))
        end
    end.

  (* expand_item: 596-616; rout = output so far, reversed *)
  Definition item_macro : macro :=
    {| m_name := s_item; m_args := [AOpt];
       m_repl := RToks [mk (KArg 1) 0 (s2l "#1") false];
       m_defaults := []; m_extract := [] |}.

  Definition expand_item (fuel : nat) (st : pstate) (buf : list tok) (t : tok)
                         (rout : list tok) : Res (list tok * list tok) :=
    let start := pos t in
    do r <- expand_arguments fuel st buf item_macro start;
    let '(st, (out, rest)) := r in
    match out with
    | [_] =>
        match rev (item_stack st) with
        | (k, lev, cnt, name) :: older =>
            let lab := item_label k lev cnt in
            let st := upd_items st (rev ((k, lev, S cnt, name) :: older)) in
            Ok (st, (out ++ [SpaceF start s_space; TextF start lab;
                             SpaceF start s_space], rest))
        | [] => Exc IndexError
        end
    | _ =>
        do lp <- last_pos out;
        let prev := find (fun x => negb (forallb (t_is_space T) (txt x))) rout in
        let out :=
          match prev with
          | Some x => match rev (txt x) with
                      | c :: _ => if mem_str [c] (t_item_punctuation T)
                                  then out ++ [TextF lp [c]] else out
                      | [] => out
                      end
          | None => out
          end in
        do lp2 <- last_pos out;
        Ok (st, (SpaceF start s_space :: out ++ [SpaceF lp2 s_space], rest))
    end.

  (* expand_accent: 403-430; returns the tokens for `out` *)
  Definition expand_accent (st : pstate) (buf : list tok) (t : tok)
    : Res (list tok * list tok) :=
    let '(st, a, rest) := arg_buffer T st buf (pos t) s_rbrace in
    do r <- expand_fresh st a;
    let '(st, args) := r in
    let '(c, args) :=
      match args with
      | [] => (None, args)
      | x :: xs =>
          match txt x with
          | [] => (None, args)
          | [ch] => (Some ch, xs)
          | ch :: more =>
              (Some ch, (let x' := set_txt x more in
                         if pfix x then x' else set_pos x' (pos x + 1)) :: xs)
          end
      end in
    let blank := match c with Some ch => t_is_space T ch | None => true end in
    if blank then
      match t_accent_alone T (txt t) with
      | Some u => Ok (st, (TextT (pos t) u :: args, rest))
      | None =>
          let '(st, e) := err st (s2l "could not find UTF-8 character") (pos t) in
          Ok (st, (e, rest))
      end
    else
      match c with
      | Some ch =>
          if negb ((N.leb 97 ch && N.leb ch 122) || (N.leb 65 ch && N.leb ch 90)) then
            let '(st, e) := err st (s2l "text-mode accent for non-letter") (pos t) in
            Ok (st, (e, rest))
          else
            match t_accent_char T (txt t) ch with
            | Some u => Ok (st, (TextT (pos t) u :: args, rest))
            | None =>
                let '(st, e) := err st (s2l "could not find UTF-8 character") (pos t) in
                Ok (st, (e, rest))
            end
      | None => Exc TypeError
      end.

  (* parse_newline_option: 496-504; returns the rest of the buffer *)
  Definition parse_newline_option (st : pstate) (buf : list tok) (skip : bool)
    : pstate * list tok :=
    let buf :=
      if skip then
        match look_ahead buf with
        | Some t => if txt_is t s_lbrack then skip_space buf else buf
        | None => buf
        end
      else buf in
    match buf with
    | t :: _ => if txt_is t s_lbrack
                then let '(st', _, rest) := arg_buffer T st buf (pos t) s_rbrack in
                     (st', rest)
                else (st, buf)
    | [] => (st, buf)
    end.

  (* expand_verb_env_token: 479-492 *)
  Definition expand_verb_env_token (t : tok) : list tok :=
    let e := if pfix t then pos t else pos t + zlen (txt t) in
    let vb := s2l "verbatim" in
    [ mk KBegin (pos t) s_begin false; SpecialT (pos t) s_lbrace;
      TextT (pos t) vb; SpecialT (pos t) s_rbrace;
      mk (KVerb false) (pos t) (txt t) (pfix t);
      mk KEnd e s_end false; SpecialT e s_lbrace; TextT e vb; SpecialT e s_rbrace ].

  (* expand_short_macro: 620-628; returns the token and the rest *)
  Definition expand_short_macro (st : pstate) (buf : list tok) (t : tok)
    : tok * list tok :=
    (* buf: behind t *)
    match buf, cur_settings T st with
    | c :: rest, Some s =>
        match assoc (txt t ++ txt c) (ls_short s) with
        | Some v => (TextF (pos t) v, rest)
        | None => (t, buf)
        end
    | _, _ => (t, buf)
    end.

  (* parse_def_macro: 700-747; buf behind the \def token *)
  Fixpoint def_args (buf : list tok) (acc : list tok) : option (list tok * list tok) :=
    match buf with
    | [] => None
    | t :: b' => if buf_is_space t then def_args b' acc
                 else if txt_is t s_lbrace then Some (rev acc, buf)
                 else def_args b' (t :: acc)
    end.

  Definition parse_def_macro (st : pstate) (buf : list tok) (start : Z)
    : Res (list tok * list tok) :=
    match skip_space buf with
    | [] => let '(st, e) := err st (s2l "\def: missing macro name") start in
            Ok (st, (e, []))
    | t :: b1 =>
        match tk t with
        | KMacro =>
            let name := txt t in
            match def_args b1 [] with
            | None =>
                let '(st, e) := err st (s2l "\def: missing macro body") start in
                Ok (st, (e, []))
            | Some (args, b2) =>
                let p2 := match b2 with x :: _ => pos x | [] => 0 end in
                let '(st, body, rest) := arg_buffer T st b2 p2 s_rbrace in
                (* parameters must be #1 #2 ... in order *)
                let check :=
                  (fix go (l : list tok) (k n : nat) (amap : list nat)
                   : sum tok (list nat) :=
                   match l with
                   | [] => inr amap
                   | a :: l' =>
                       match is_arg a with
                       | Some m => if Nat.eqb m n then go l' (S k) (S n) (amap ++ [k])
                                   else inl a
                       | None => go l' (S k) n amap
                       end
                   end) args 1%nat 1%nat [] in
                match check with
                | inl bad =>
                    let '(st, e) := err st (s2l "\def: unexpected argument '"
                                            ++ txt bad ++ s2l "'") (pos bad) in
                    Ok (st, (e, rest))
                | inr amap =>
                    let mapped :=
                      (fix go (l : list tok) : sum tok (list tok) :=
                       match l with
                       | [] => inr []
                       | x :: l' =>
                           match is_arg x with
                           | Some m =>
                               match m, nth_error amap (m - 1) with
                               | S _, Some k =>
                                   match go l' with
                                   | inr r => inr (mk (KArg k) (pos x) (txt x) (pfix x) :: r)
                                   | inl b => inl b
                                   end
                               | _, _ => inl x
                               end
                           | None => match go l' with
                                     | inr r => inr (x :: r)
                                     | inl b => inl b end
                           end
                       end) body in
                    match mapped with
                    | inl bad =>
                        let '(st, e) := err st (s2l "\def: illegal argument reference '"
                                                ++ txt bad ++ s2l "'") (pos bad) in
                        Ok (st, (e, rest))
                    | inr repl =>
                        Ok (upd_macros st (assoc_set name
                              {| m_name := name; m_args := repeat AMand (length args);
                                 m_repl := RToks repl; m_defaults := [];
                                 m_extract := [] |} (macros st)),
                            ([ActionT start], rest))
                    end
                end
            end
        | _ =>
            let '(st, e) := err st (s2l "\def: illegal macro name """ ++ txt t ++ s2l """")
                                (pos t) in
            Ok (st, (e, t :: b1))
        end
    end.
End Expand.
