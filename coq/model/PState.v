(* PState: state of a Parser object together with the mutable part of its
   Parameters object (yalafi/parser.py:28-54, yalafi/parameters.py), the
   macro / environment records of yalafi/defs.py, and the static tables the
   expander consults. *)
From Coq Require Import String.
From YV Require Import PyBase ShellMap Token Utils Scanner.
Open Scope Z_scope.

Definition s2l (s : string) : str :=
  map (fun a => Ascii.N_of_ascii a) (list_ascii_of_string s).

(* ---- handlers: one constructor per Python handler function ---- *)
Inductive handler :=
  | HNewcommand | HNewtheorem | HTheorem (title : str) | HHeading | HPhantom
  | HHspace | HCite | HLoadDefs | HLoadModule (cls : bool)
  | HSubstack | HProof
  | HForeign | HSelect | HBeginOther | HEndOther | HEndOtherStar
  | HBibCite | HFootcite
  | HGls (key : str) (cap : nat)        (* cap: 0 none, 1 first, 2 all *)
  | HNewacronym | HNewglossaryentry | HParseGlsdefs
  | HXspace
  | HUnmodelled (name : str).           (* cleveref, modules added by tests *)

Inductive argcode := AStar | AOpt | AMand.

Inductive repl :=
  | RToks (l : list tok)
  | RHandler (h : handler).

Record macro := {
  m_name : str; m_args : list argcode; m_repl : repl;
  m_defaults : list (list tok); m_extract : list tok }.

Inductive itemkind := IDefault | IEnumerate | IItemize.

Record environ := {
  e_mac : macro;                 (* name, args, repl, defaults; extract = [] *)
  e_add_pars : bool; e_remove : bool; e_items : option itemkind;
  e_end : option handler; e_equ : bool }.

(* association lists with Python dict semantics: assignment replaces *)
Fixpoint assoc {A} (k : str) (l : list (str * A)) : option A :=
  match l with
  | [] => None
  | (k', v) :: l' => if str_eqb k k' then Some v else assoc k l'
  end.
Fixpoint assoc_set {A} (k : str) (v : A) (l : list (str * A)) : list (str * A) :=
  match l with
  | [] => [(k, v)]
  | (k', v') :: l' => if str_eqb k k' then (k, v) :: l'
                      else (k', v') :: assoc_set k v l'
  end.
Definition mem_str (k : str) (l : list str) : bool := existsb (str_eqb k) l.

(* ---- language settings (ParserLanguageSettings) ---- *)
Record lang_settings := {
  ls_proof_name : str;
  ls_inline : list str; ls_display : list str; ls_change : list str;
  ls_op_text : list (str * str); ls_op_default : str;
  ls_short : list (str * str); ls_active : list str }.

(* a module (package or document class): what init_module returns, as data *)
Inductive inject_kind := InjNone | InjBabel | InjUnmodelled.
Record module := {
  md_require : list str;
  md_macros_latex : str;
  md_macros_python : list macro;
  md_environs : list environ;
  md_inject : inject_kind;
  md_math_text_macros : list str;     (* appended to parms.math_text_macros *)
  md_math_operators : list str;       (* appended to parms.math_operators *)
  md_newcommand_ignore : list str;
  md_global_opts : bool }.            (* document class: options become global *)

(* ---- static tables (generated from /repo) ---- *)
Record tables := {
  t_scan : scan_parms;
  t_is_space : char -> bool; t_is_alpha : char -> bool;
  t_is_lower : char -> bool; t_is_decimal : char -> bool;
  t_is_alnum : char -> bool;
  t_upper : char -> str;                        (* str.upper() of one character *)
  t_special_values : list (str * str);
  t_accents : list (str * list str);            (* accent macro -> Unicode name parts *)
  t_accent_char : str -> char -> option str;   (* unicodedata.lookup result (a named sequence may hold several characters) *)
  t_accent_alone : str -> option str;          (* accent without letter *)
  t_heading_punct : list str; t_item_default_label : list str;
  t_item_punctuation : list str;
  t_math_ignore : list str; t_math_space : list str;
  t_math_punctuation : list str; t_math_default_env : str;
  t_comment_skip_begin : str; t_comment_skip_end : str;
  t_langs : list (str * lang_settings);         (* en, de, ru *)
  t_builtin : module;
  t_packages : list (str * module); t_classes : list (str * module);
  t_babel_map : list (str * str);
  t_babel_breaks : bool * bool * bool;          (* foreign, select, other *)
  t_math_op_default_key : unit;
  t_xspace_excl : list str;
  t_cite_text : str }.

(* ---- mutable state ---- *)
Record pstate := {
  macros : list (str * macro);
  environs : list (str * environ);
  packages : list (str * list (str * option str));
  global_opts : list (str * option str);
  unknowns : list str;                      (* reversed? no: in order *)
  extracted : list (list tok);              (* in order of creation *)
  item_stack : list (itemkind * nat * nat * str);   (* kind, level, counter, env *)
  lang_stack : list (str * str);            (* settings key, language code *)
  rot_inline : list (str * list str);       (* per settings key *)
  rot_display : list (str * list str);
  rot_change : list (str * list str);
  math_text_macros : list str;
  math_operators : list str;
  newcommand_ignore : list str;
  glossary : list (str * list (str * option (list tok)));
  cur_latex : str;
  diags : list diag;                        (* reversed *)
  multi_language : bool;
  displayed_simple : bool;
  has_reader : bool }.

Definition upd_macros st v := {|
  macros := v; environs := environs st; packages := packages st;
  global_opts := global_opts st; unknowns := unknowns st;
  extracted := extracted st; item_stack := item_stack st;
  lang_stack := lang_stack st; rot_inline := rot_inline st;
  rot_display := rot_display st; rot_change := rot_change st;
  math_text_macros := math_text_macros st; math_operators := math_operators st;
  newcommand_ignore := newcommand_ignore st; glossary := glossary st;
  cur_latex := cur_latex st; diags := diags st;
  multi_language := multi_language st; displayed_simple := displayed_simple st;
  has_reader := has_reader st |}.
Definition upd_environs st v := {|
  macros := macros st; environs := v; packages := packages st;
  global_opts := global_opts st; unknowns := unknowns st;
  extracted := extracted st; item_stack := item_stack st;
  lang_stack := lang_stack st; rot_inline := rot_inline st;
  rot_display := rot_display st; rot_change := rot_change st;
  math_text_macros := math_text_macros st; math_operators := math_operators st;
  newcommand_ignore := newcommand_ignore st; glossary := glossary st;
  cur_latex := cur_latex st; diags := diags st;
  multi_language := multi_language st; displayed_simple := displayed_simple st;
  has_reader := has_reader st |}.
Definition upd_packages st v g := {|
  macros := macros st; environs := environs st; packages := v;
  global_opts := g; unknowns := unknowns st;
  extracted := extracted st; item_stack := item_stack st;
  lang_stack := lang_stack st; rot_inline := rot_inline st;
  rot_display := rot_display st; rot_change := rot_change st;
  math_text_macros := math_text_macros st; math_operators := math_operators st;
  newcommand_ignore := newcommand_ignore st; glossary := glossary st;
  cur_latex := cur_latex st; diags := diags st;
  multi_language := multi_language st; displayed_simple := displayed_simple st;
  has_reader := has_reader st |}.
Definition upd_unknowns st v := {|
  macros := macros st; environs := environs st; packages := packages st;
  global_opts := global_opts st; unknowns := v;
  extracted := extracted st; item_stack := item_stack st;
  lang_stack := lang_stack st; rot_inline := rot_inline st;
  rot_display := rot_display st; rot_change := rot_change st;
  math_text_macros := math_text_macros st; math_operators := math_operators st;
  newcommand_ignore := newcommand_ignore st; glossary := glossary st;
  cur_latex := cur_latex st; diags := diags st;
  multi_language := multi_language st; displayed_simple := displayed_simple st;
  has_reader := has_reader st |}.
Definition upd_extracted st v := {|
  macros := macros st; environs := environs st; packages := packages st;
  global_opts := global_opts st; unknowns := unknowns st;
  extracted := v; item_stack := item_stack st;
  lang_stack := lang_stack st; rot_inline := rot_inline st;
  rot_display := rot_display st; rot_change := rot_change st;
  math_text_macros := math_text_macros st; math_operators := math_operators st;
  newcommand_ignore := newcommand_ignore st; glossary := glossary st;
  cur_latex := cur_latex st; diags := diags st;
  multi_language := multi_language st; displayed_simple := displayed_simple st;
  has_reader := has_reader st |}.
Definition upd_items st v := {|
  macros := macros st; environs := environs st; packages := packages st;
  global_opts := global_opts st; unknowns := unknowns st;
  extracted := extracted st; item_stack := v;
  lang_stack := lang_stack st; rot_inline := rot_inline st;
  rot_display := rot_display st; rot_change := rot_change st;
  math_text_macros := math_text_macros st; math_operators := math_operators st;
  newcommand_ignore := newcommand_ignore st; glossary := glossary st;
  cur_latex := cur_latex st; diags := diags st;
  multi_language := multi_language st; displayed_simple := displayed_simple st;
  has_reader := has_reader st |}.
Definition upd_lang_stack st v := {|
  macros := macros st; environs := environs st; packages := packages st;
  global_opts := global_opts st; unknowns := unknowns st;
  extracted := extracted st; item_stack := item_stack st;
  lang_stack := v; rot_inline := rot_inline st;
  rot_display := rot_display st; rot_change := rot_change st;
  math_text_macros := math_text_macros st; math_operators := math_operators st;
  newcommand_ignore := newcommand_ignore st; glossary := glossary st;
  cur_latex := cur_latex st; diags := diags st;
  multi_language := multi_language st; displayed_simple := displayed_simple st;
  has_reader := has_reader st |}.
Definition upd_rot st i d c := {|
  macros := macros st; environs := environs st; packages := packages st;
  global_opts := global_opts st; unknowns := unknowns st;
  extracted := extracted st; item_stack := item_stack st;
  lang_stack := lang_stack st; rot_inline := i;
  rot_display := d; rot_change := c;
  math_text_macros := math_text_macros st; math_operators := math_operators st;
  newcommand_ignore := newcommand_ignore st; glossary := glossary st;
  cur_latex := cur_latex st; diags := diags st;
  multi_language := multi_language st; displayed_simple := displayed_simple st;
  has_reader := has_reader st |}.
Definition upd_parm_lists st mt mo ni := {|
  macros := macros st; environs := environs st; packages := packages st;
  global_opts := global_opts st; unknowns := unknowns st;
  extracted := extracted st; item_stack := item_stack st;
  lang_stack := lang_stack st; rot_inline := rot_inline st;
  rot_display := rot_display st; rot_change := rot_change st;
  math_text_macros := mt; math_operators := mo;
  newcommand_ignore := ni; glossary := glossary st;
  cur_latex := cur_latex st; diags := diags st;
  multi_language := multi_language st; displayed_simple := displayed_simple st;
  has_reader := has_reader st |}.
Definition upd_glossary st v := {|
  macros := macros st; environs := environs st; packages := packages st;
  global_opts := global_opts st; unknowns := unknowns st;
  extracted := extracted st; item_stack := item_stack st;
  lang_stack := lang_stack st; rot_inline := rot_inline st;
  rot_display := rot_display st; rot_change := rot_change st;
  math_text_macros := math_text_macros st; math_operators := math_operators st;
  newcommand_ignore := newcommand_ignore st; glossary := v;
  cur_latex := cur_latex st; diags := diags st;
  multi_language := multi_language st; displayed_simple := displayed_simple st;
  has_reader := has_reader st |}.
Definition upd_latex st v := {|
  macros := macros st; environs := environs st; packages := packages st;
  global_opts := global_opts st; unknowns := unknowns st;
  extracted := extracted st; item_stack := item_stack st;
  lang_stack := lang_stack st; rot_inline := rot_inline st;
  rot_display := rot_display st; rot_change := rot_change st;
  math_text_macros := math_text_macros st; math_operators := math_operators st;
  newcommand_ignore := newcommand_ignore st; glossary := glossary st;
  cur_latex := v; diags := diags st;
  multi_language := multi_language st; displayed_simple := displayed_simple st;
  has_reader := has_reader st |}.
Definition add_diag st (d : diag) := {|
  macros := macros st; environs := environs st; packages := packages st;
  global_opts := global_opts st; unknowns := unknowns st;
  extracted := extracted st; item_stack := item_stack st;
  lang_stack := lang_stack st; rot_inline := rot_inline st;
  rot_display := rot_display st; rot_change := rot_change st;
  math_text_macros := math_text_macros st; math_operators := math_operators st;
  newcommand_ignore := newcommand_ignore st; glossary := glossary st;
  cur_latex := cur_latex st; diags := d :: diags st;
  multi_language := multi_language st; displayed_simple := displayed_simple st;
  has_reader := has_reader st |}.
Definition add_diags st (ds : list diag) := fold_left add_diag ds st.

(* tasks of the expander and their answers *)
Inductive task :=
  | TSeq (buf : list tok) (env_stop : option str) (rout : list tok)
  | TMath (buf : list tok) (start : Z) (stops : list str)
          (env_stop : option str) (out : list tok).

Inductive answer :=
  | ASeq (toks : list tok) (rest : list tok)
  | AMath (toks : list tok) (endtok : option tok) (rest : list tok).

Definition recfun := task -> pstate -> result (pstate * answer).
