(* Ml: utils.get_txt_pos_ml and helpers (yalafi/utils.py:142-268), the
   splitting of the token stream into parts per language. *)
From YV Require Import PyBase ShellMap Token Utils.
Open Scope Z_scope.

Record lsec := { s_lang : str; s_back : bool; s_brk : bool;
                 s_txt : str; s_pos : list Z }.

Section Ml.
  Variable is_space : char -> bool.
  Variable check_lang : str -> str.          (* Parameters.check_parser_lang *)
  Variable thresh : nat.                     (* parms.ml_continue_thresh *)

  (* ---- splitting into sections: 156-188 ---- *)
  Definition flush (stack : list str) (back brk : bool) (cur : list tok)
                   (secs : list lsec) : list lsec :=
    let '(t, p) := get_txt_pos (rev cur) in
    match t with
    | [] => secs
    | _ => secs ++ [{| s_lang := match rev stack with l :: _ => l | [] => [] end;
                       s_back := back; s_brk := brk; s_txt := t; s_pos := p |}]
    end.

  Fixpoint sections (toks : list tok) (stack : list str) (back brk : bool)
                    (cur : list tok) (secs : list lsec) : list lsec :=
    match toks with
    | [] => flush stack back brk cur secs
    | t :: r =>
        match tk t with
        | KLang lang b h k =>
            let top := match rev stack with l :: _ => l | [] => [] end in
            if str_eqb lang top then
              sections r (if b || h then stack else stack ++ [lang]) back brk cur secs
            else if b && Nat.ltb 1 (length stack)
                    && match rev stack with
                       | x :: y :: _ => str_eqb x y | _ => false end
            then sections r (removelast stack) back brk cur secs
            else
              let secs := flush stack back brk cur secs in
              let stack :=
                if b then (if Nat.ltb 1 (length stack) then removelast stack else stack)
                else if h then removelast stack ++ [lang]
                else stack ++ [lang] in
              sections r stack b k [] secs
        | _ => sections r stack back brk (t :: cur) secs
        end
    end.

  (* ---- placeholder for a short inclusion: 234-260 ---- *)
  Definition blank (s : str) : bool := forallb is_space s.

  (* issue 117: a blank at the start / end of the inclusion is kept *)
  Definition edge_first (incl : lsec) : result (str * list Z) :=
    match s_txt incl with
    | c :: _ => if is_space c then do q <- py_nth (s_pos incl) 0; Ok ([c], [q])
                else Ok ([], [])
    | [] => Ok ([], [])
    end.
  Definition edge_last (incl : lsec) : result (str * list Z) :=
    match rev (s_txt incl) with
    | c :: _ => if is_space c then do q <- py_last (s_pos incl); Ok ([c], [q])
                else Ok ([], [])
    | [] => Ok ([], [])
    end.

  (* returns the extended section and the rotated collection table *)
  Definition append_placeholder (rot : list (str * list str)) (sec incl : lsec)
    : result (lsec * list (str * list str)) :=
    if blank (s_txt incl) then
      Ok ({| s_lang := s_lang sec; s_back := s_back sec; s_brk := s_brk sec;
             s_txt := s_txt sec ++ s_txt incl; s_pos := s_pos sec ++ s_pos incl |}, rot)
    else
      let key := check_lang (s_lang sec) in
      let repl := match find (fun e => str_eqb (fst e) key) rot with
                  | Some e => snd e | None => [] end in
      let repl := match repl with [] => [] | x :: r => r ++ [x] end in
      let rot := map (fun e => if str_eqb (fst e) key then (fst e, repl) else e) rot in
      match repl with
      | [] => Exc IndexError
      | ph :: _ =>
          let start := match find_index (fun c => negb (is_space c)) (s_txt incl) with
                       | Some i => i | None => 0%nat end in
          do p0 <- py_nth (s_pos incl) start;
          let t := ph in
          let p := repeat p0 (length ph) in
          do e1 <- edge_first incl;
          do e2 <- edge_last incl;
          let t := fst e1 ++ ph ++ fst e2 in
          let p := snd e1 ++ repeat p0 (length ph) ++ snd e2 in
          Ok ({| s_lang := s_lang sec; s_back := s_back sec; s_brk := s_brk sec;
                 s_txt := s_txt sec ++ t; s_pos := s_pos sec ++ p |}, rot)
      end.

  Definition short_section (s : lsec) : bool :=
    Nat.leb (length (split_ws is_space (s_txt s))) thresh.

  (* ---- joining: 193-220 ---- *)
  Fixpoint join_sections (fuel : nat) (secs : list lsec)
                         (rot : list (str * list str)) (out : list lsec)
    : result (list lsec) :=
    match fuel with
    | O => OutOfFuel
    | S k =>
        match secs with
        | [] => Ok out
        | [s] => Ok (out ++ [s])
        | s0 :: s1 :: rest =>
            let third_ok := match rest with
                            | [] => true
                            | s2 :: _ => str_eqb (s_lang s0) (s_lang s2)
                            end in
            if negb (s_brk s1) && negb (s_back s1) && third_ok && short_section s1
            then
              do r <- append_placeholder rot s0 s1;
              let '(s0', rot') := r in
              match rest with
              | [] => join_sections k [s0'] rot' (out ++ [s1])
              | s2 :: rest' =>
                  join_sections k
                    ({| s_lang := s_lang s0'; s_back := s_back s0'; s_brk := s_brk s0';
                        s_txt := s_txt s0' ++ s_txt s2;
                        s_pos := s_pos s0' ++ s_pos s2 |} :: rest') rot' (out ++ [s1])
              end
            else join_sections k (s1 :: rest) rot (out ++ [s0])
        end
    end.

  (* ---- grouping by language, in order of first appearance: 224-230 ---- *)
  Fixpoint group_lang (out : list lsec) (acc : list (str * list (str * list Z)))
    : list (str * list (str * list Z)) :=
    match out with
    | [] => acc
    | s :: r =>
        let part := (s_txt s, s_pos s) in
        let acc :=
          if existsb (fun e => str_eqb (fst e) (s_lang s)) acc
          then map (fun e => if str_eqb (fst e) (s_lang s)
                             then (fst e, snd e ++ [part]) else e) acc
          else acc ++ [(s_lang s, [part])] in
        group_lang r acc
    end.

  Definition get_txt_pos_ml (toks : list tok) (main_lang : str)
                            (rot : list (str * list str))
    : result (list (str * list (str * list Z))) :=
    let secs := sections toks [main_lang] false false [] [] in
    do out <- join_sections (S (length secs)) secs rot [];
    Ok (group_lang out []).
End Ml.
