(* Rpal: Parser.remove_pure_action_lines (yalafi/parser.py:520-591), the pass
   that deletes text lines which are blank and hold at least one action
   token.  The Python loop works on a stack of pending tokens; the model is
   the same loop with explicit fuel (each iteration either consumes a pending
   token or replaces two of them by shorter ones). *)
From YV Require Import PyBase Token.
Open Scope Z_scope.

Section Rpal.
  Variable is_space : char -> bool.

  Definition has_nl (s : str) : bool := existsb (N.eqb c_nl) s.
  Definition blank_str (s : str) : bool := forallb is_space s.   (* not s.strip() *)

  (* the attributes eval() attaches to a token *)
  Record etok := { e_tok : tok; e_blank : bool; e_start : bool; e_end : bool }.

  Definition after_last_nl (s : str) : str :=
    match rfind_index (N.eqb c_nl) s with
    | Some i => skipn i s          (* txt[txt.rfind('\n'):] includes the \n *)
    | None => s
    end.
  Definition before_first_nl (s : str) : str :=
    match find_index (N.eqb c_nl) s with
    | Some i => firstn i s
    | None => s
    end.

  Definition eval (t : tok) : etok :=
    if is_action t then {| e_tok := t; e_blank := true; e_start := false; e_end := false |}
    else
      let x := txt t in
      {| e_tok := t;
         e_blank := negb (has_nl x) && blank_str x;
         e_start := has_nl x && blank_str (after_last_nl x);
         e_end := has_nl x && blank_str (before_first_nl x) |}.

  Definition with_start (e : etok) : etok :=
    {| e_tok := e_tok e; e_blank := e_blank e; e_start := true; e_end := e_end e |}.
  Definition with_end (e : etok) : etok :=
    {| e_tok := e_tok e; e_blank := e_blank e; e_start := e_start e; e_end := true |}.

  (* the inner while loop: collect buf from the pending tokens until a token
     that can end a line or a non-blank token; returns (buf reversed rest,
     can_remove, rest of pending) *)
  Fixpoint collect (pending : list etok) (acc : list etok)
    : list etok * bool * list etok :=
    match pending with
    | [] => (rev acc, true, [])
    | t :: p' =>
        if e_end t then (rev (t :: acc), true, p')
        else if negb (e_blank t) then (rev (t :: acc), false, p')
        else collect p' (t :: acc)
    end.

  Definition keep_out (t : tok) : bool :=
    match txt t with [] => is_lang t | _ => true end.

  Fixpoint rpal_loop (fuel : nat) (pending : list etok) (out : list etok)
    : result (list etok) :=
    match fuel with
    | O => OutOfFuel
    | S k =>
        match pending with
        | [] => Ok out
        | t :: p' =>
            if negb (e_start t) then rpal_loop k p' (out ++ [t])
            else
              let '(buf, can_remove, rest) := collect p' [t] in
              match rev buf with
              | [] => Exc IndexError
              | lst :: _ =>
                  if can_remove && Nat.ltb 1 (length buf)
                     && existsb (fun e => is_action (e_tok e)) buf
                  then
                    let langs := filter (fun e => is_lang (e_tok e)) buf in
                    let t1 := e_tok t in
                    let t2 := e_tok lst in
                    let x1 := txt t1 in
                    let t1' := set_txt t1
                      (match rfind_index (N.eqb c_nl) x1 with
                       | Some i => firstn (S i) x1
                       | None => []
                       end) in
                    let x2 := txt t2 in
                    let t2' :=
                      match find_index (N.eqb c_nl) x2 with
                      | Some i =>
                          let t' := set_txt t2 (skipn (S i) x2) in
                          if pfix t2 then t' else set_pos t' (pos t2 + Z.of_nat (S i))
                      | None =>
                          set_pos (set_txt t2 []) (pos t2 + Z.of_nat (length x2))
                      end in
                    let sentinel := with_start (eval (TextT (pos t2') [])) in
                    rpal_loop k (sentinel :: eval t2' :: rest)
                              (out ++ eval t1' :: langs)
                  else if Nat.ltb 1 (length buf) then
                    (* tokens.append(eval(buf.pop())) *)
                    rpal_loop k (eval (e_tok lst) :: rest)
                              (out ++ removelast buf)
                  else rpal_loop k rest (out ++ buf)
              end
        end
    end.

  Definition remove_pure_action_lines (tokens : list tok) : result (list tok) :=
    let toks := filter (fun t => match txt t with
                                 | [] => is_action t || is_lang t
                                 | _ => true end) tokens in
    let ev := map eval toks in
    let first := with_start (eval (TextT 0 [])) in
    (* tokens[-1] after the insert at the front: the list is never empty *)
    let lastpos := match rev toks with t :: _ => pos t | [] => 0 end in
    let last := with_end (eval (TextT lastpos [])) in
    let pending := first :: ev ++ [last] in
    do out <- rpal_loop (4 * length pending + 4) pending [];
    Ok (filter keep_out (map e_tok out)).
End Rpal.
