(* Token: the token classes of yalafi/defs.py.  Python tokens are mutable
   objects; the model has value semantics (every `copy.copy` of the code is a
   no-op here, and the places where the code mutates a token that may be
   shared are the places where model and implementation could disagree). *)
From YV Require Export PyBase.
Open Scope Z_scope.

Inductive kind :=
  | KText | KSpace | KPar | KComment | KSpecial | KMacro | KBegin | KEnd
  | KItem | KAccent
  | KVerb (environ : bool)
  | KArg (n : nat)
  | KAction | KVoid
  | KLang (lang : str) (back hard brk : bool)
  | KMathBegin (env : str)
  | KMathElem | KMathOper | KMathSpace.

Record tok := { tk : kind; pos : Z; txt : str; pfix : bool }.

Definition mk (k : kind) (p : Z) (t : str) (f : bool) : tok :=
  {| tk := k; pos := p; txt := t; pfix := f |}.

Definition TextT (p : Z) (t : str) : tok := mk KText p t false.
Definition TextF (p : Z) (t : str) : tok := mk KText p t true.
Definition SpaceT (p : Z) (t : str) : tok := mk KSpace p t false.
Definition SpaceF (p : Z) (t : str) : tok := mk KSpace p t true.
Definition ParF (p : Z) (t : str) : tok := mk KPar p t true.
Definition ActionT (p : Z) : tok := mk KAction p [] false.
Definition VoidT (p : Z) : tok := mk KVoid p [] false.
Definition SpecialT (p : Z) (t : str) : tok := mk KSpecial p t false.
Definition MacroT (p : Z) (t : str) : tok := mk KMacro p t false.
Definition LangT (p : Z) (lang : str) (back hard brk : bool) : tok :=
  mk (KLang lang back hard brk) p [] false.

Definition set_pos (t : tok) (p : Z) : tok :=
  {| tk := tk t; pos := p; txt := txt t; pfix := pfix t |}.
Definition set_pos_fix (t : tok) (p : Z) : tok :=
  {| tk := tk t; pos := p; txt := txt t; pfix := true |}.
Definition set_txt (t : tok) (s : str) : tok :=
  {| tk := tk t; pos := pos t; txt := s; pfix := pfix t |}.

Definition kind_eqb (a b : kind) : bool :=
  match a, b with
  | KText, KText | KSpace, KSpace | KPar, KPar | KComment, KComment
  | KSpecial, KSpecial | KMacro, KMacro | KBegin, KBegin | KEnd, KEnd
  | KItem, KItem | KAccent, KAccent | KAction, KAction | KVoid, KVoid
  | KMathElem, KMathElem | KMathOper, KMathOper | KMathSpace, KMathSpace => true
  | KVerb _, KVerb _ => true
  | KArg _, KArg _ => true
  | KLang _ _ _ _, KLang _ _ _ _ => true
  | KMathBegin _, KMathBegin _ => true
  | _, _ => false
  end.

Definition is_kind (k : kind) (t : tok) : bool := kind_eqb k (tk t).
Definition is_lang (t : tok) : bool :=
  match tk t with KLang _ _ _ _ => true | _ => false end.
Definition is_action (t : tok) : bool :=
  match tk t with KAction => true | _ => false end.
Definition is_arg (t : tok) : option nat :=
  match tk t with KArg n => Some n | _ => None end.
Definition is_math_tok (t : tok) : bool :=
  match tk t with KMathElem | KMathOper | KMathSpace => true | _ => false end.

(* tok.txt == s *)
Definition txt_is (t : tok) (s : str) : bool := str_eqb (txt t) s.

(* Buffer.is_space: Space, Comment, Action, Void, Language (not Paragraph) *)
Definition buf_is_space (t : tok) : bool :=
  match tk t with
  | KSpace | KComment | KAction | KVoid | KLang _ _ _ _ => true
  | _ => false
  end.

(* Buffer.skip_space *)
Fixpoint skip_space (buf : list tok) : list tok :=
  match buf with
  | t :: buf' => if buf_is_space t then skip_space buf' else buf
  | [] => []
  end.

(* the skip behind a control word (Parser.expand_macro): like skip_space, but
   it stops at a language token, which must not be lost, and at an action
   token: that is where a macro argument ended, the blank behind its closing
   brace counts *)
Fixpoint skip_ctl (buf : list tok) : list tok :=
  match buf with
  | t :: buf' => if buf_is_space t && negb (is_lang t) && negb (is_action t)
                then skip_ctl buf' else buf
  | [] => []
  end.

(* Buffer.look_ahead: the next non-space token, buffer unchanged *)
Definition look_ahead (buf : list tok) : option tok := hd_error (skip_space buf).

(* string literals used by several files *)
Definition s_lbrace : str := [c_lbrace].
Definition s_rbrace : str := [c_rbrace].
Definition s_lbrack : str := [c_lbrack].
Definition s_rbrack : str := [c_rbrack].
Definition s_star : str := [42%N].
Definition s_nl : str := [c_nl].
Definition s_space : str := [c_space].
