(* Parser: the macro expander of yalafi/parser.py.  All functions that
   re-enter the expander take the recursive call `rec` as a parameter (open
   recursion); coq/model/Exec.v ties the knot by recursion on fuel.
   Line references are to yalafi/parser.py. *)
From Coq Require Import String.
From YV Require Import PyBase ShellMap Token Utils Scanner Rpal PState.
Open Scope Z_scope.

Section Parser.
  Variable T : tables.
  Variable rd : str -> option str.        (* read_macros: file -> content *)
  Variable rec : recfun.

  Notation Res A := (result (pstate * A)).

  (* ---------------------------------------------------------------- *)
  (*  small helpers                                                    *)
  (* ---------------------------------------------------------------- *)
  Definition err (st : pstate) (msg : str) (p : Z) : pstate * list tok :=
    let '(d, ts) := latex_error (sp_mark (t_scan T)) (sp_verbose (t_scan T))
                                msg p (cur_latex st) in
    (add_diag st d, ts).

  Definition mark_tok (p : Z) : tok :=
    TextF p ([c_space] ++ sp_mark (t_scan T) ++ [c_space]).

  (* expand_sequence on a fresh buffer, to the end *)
  Definition expand_fresh (st : pstate) (toks : list tok) : Res (list tok) :=
    do r <- rec (TSeq toks None []) st;
    match snd r with
    | ASeq ts _ => Ok (fst r, ts)
    | _ => Exc TypeError
    end.

  (* get_text_direct: 508-510 *)
  Definition get_text_direct (toks : list tok) : str :=
    flat_map (fun t => match tk t with KComment => [] | _ => txt t end) toks.

  (* get_text_expanded: 514-516 *)
  Definition get_text_expanded (st : pstate) (toks : list tok) : Res str :=
    do r <- expand_fresh st toks; Ok (fst r, get_text_direct (snd r)).

  (* current language settings *)
  Definition lang_key (st : pstate) : str :=
    match rev (lang_stack st) with (k, _) :: _ => k | [] => s2l "en" end.
  Definition lang_code (st : pstate) : str :=
    match rev (lang_stack st) with (_, l) :: _ => l | [] => [] end.
  Definition cur_settings (st : pstate) : option lang_settings :=
    assoc (lang_key st) (t_langs T).

  (* check_parser_lang: lang[:2].lower() if known else 'en' *)
  Definition ascii_lower (c : char) : char :=
    if N.leb 65 c && N.leb c 90 then (c + 32)%N else c.
  Definition check_parser_lang (lang : str) : str :=
    let k := map ascii_lower (firstn 2 lang) in
    match assoc k (t_langs T) with Some _ => k | None => s2l "en" end.

  (* change_parser_lang: parameters.py 438-452 *)
  Definition change_parser_lang (st : pstate) (t : tok) : pstate :=
    match tk t with
    | KLang lang back hard _ =>
        let stk := lang_stack st in
        if back then
          if Nat.ltb 1 (length stk) then upd_lang_stack st (removelast stk) else st
        else
          let e := (check_parser_lang lang, lang) in
          if hard then upd_lang_stack st (removelast stk ++ [e])
          else upd_lang_stack st (stk ++ [e])
    | _ => st
    end.

  (* ---------------------------------------------------------------- *)
  (*  arg_buffer: 267-306                                              *)
  (* ---------------------------------------------------------------- *)
  (* collect until the closing `end_` at level 0; returns tokens and rest *)
  Fixpoint arg_collect (buf : list tok) (end_ : str) (lev : Z) (acc : list tok)
    : option (list tok * list tok) :=
    match buf with
    | [] => None
    | t :: buf' =>
        let lev := if txt_is t s_lbrace then lev + 1 else lev in
        let lev := if txt_is t s_rbrace then lev - 1 else lev in
        if txt_is t end_ && (lev =? 0) then Some (rev acc, buf')
        else arg_collect buf' end_ lev (t :: acc)
    end.

  (* returns (state, argument tokens, rest of the buffer, closed);
     closed = false: the end of the text was reached (issue 23) *)
  Definition arg_buffer_c (st : pstate) (buf : list tok) (start : Z) (end_ : str)
    : pstate * list tok * list tok * bool :=
    match skip_space buf with
    | [] => (st, [VoidT start], [], true)
    | t :: buf' =>
        match tk t with
        | KPar => (st, [VoidT (pos t)], t :: buf', true)
        | _ =>
            if str_eqb end_ s_rbrace && negb (txt_is t s_lbrace)
            then (st, [t], buf', true)
            else
              let p := pos t in
              let lev := if txt_is t s_lbrace then 1 else 0 in
              match arg_collect buf' end_ lev [] with
              | Some (out, rest) =>
                  (st, match out with [] => [VoidT p] | _ => out end, rest, true)
              | None =>
                  (* issue 23: push everything back behind an error mark *)
                  let '(st', e) :=
                    err st (s2l "cannot find closing """ ++ end_ ++ s2l """") p in
                  (st', [mark_tok (pos t)], t :: e ++ buf', false)
              end
        end
    end.
  Definition arg_buffer (st : pstate) (buf : list tok) (start : Z) (end_ : str)
    : pstate * list tok * list tok :=
    let '(a, b, c, _) := arg_buffer_c st buf start end_ in (a, b, c).

  (* ---------------------------------------------------------------- *)
  (*  generate_replacements: 376-401                                   *)
  (* ---------------------------------------------------------------- *)
  Definition nth_arg (args : list (list tok)) (n : nat) : result (list tok) :=
    match n with
    | O => py_last args               (* arguments[-1] for #0 *)
    | S k => py_nth args k
    end.

  Fixpoint prep_pos (args : list (list tok)) (repls : list tok) (cur : Z)
    : result Z :=
    match repls with
    | [] => Ok cur
    | t :: r =>
        match is_arg t with
        | Some n =>
            do a <- nth_arg args n;
            match a with
            | x :: _ => prep_pos args r (pos x)
            | [] => prep_pos args r cur
            end
        | None => prep_pos args r cur
        end
    end.

  Fixpoint gen_repl (args : list (list tok)) (repls : list tok) (cur : Z)
    : result (list tok) :=
    match repls with
    | [] => Ok []
    | t :: r =>
        match is_arg t with
        | Some n =>
            do a <- nth_arg args n;
            match a, rev a with
            | x :: _, y :: _ =>
                do rest <- gen_repl args r (pos y);
                Ok (ActionT (pos x) :: a ++ ActionT (pos y) :: rest)
            | _, _ => gen_repl args r cur
            end
        | None =>
            do rest <- gen_repl args r cur;
            Ok (set_pos_fix t cur :: rest)
        end
    end.

  Definition generate_replacements (args : list (list tok)) (repls : list tok)
                                   (start : Z) : result (list tok) :=
    do cur <- prep_pos args repls start;
    gen_repl args repls cur.

  (* ---------------------------------------------------------------- *)
  (*  key-value lists: 635-690                                        *)
  (* ---------------------------------------------------------------- *)
  Definition s_eq : str := [61%N].
  Definition s_comma : str := [44%N].

  Fixpoint kv_key (buf : list tok) (acc : list tok) : list tok * list tok :=
    match buf with
    | t :: buf' =>
        match tk t with
        | KText => if txt_is t s_eq || txt_is t s_comma then (rev acc, buf)
                   else kv_key buf' (t :: acc)
        | _ => (rev acc, buf)
        end
    | [] => (rev acc, [])
    end.

  (* the value: tokens up to ',' ; {...} protects ; fuel for the braces *)
  Fixpoint kv_val (fuel : nat) (st : pstate) (buf : list tok) (acc : list tok)
    : result (pstate * list tok * list tok) :=
    match fuel with
    | O => OutOfFuel
    | S k =>
        match buf with
        | [] => Ok (st, acc, [])
        | t :: buf' =>
            if txt_is t s_comma then Ok (st, acc, buf)
            else if txt_is t s_lbrace then
              let '(st', seq, rest, closed) := arg_buffer_c st buf 0 s_rbrace in
              (* closing brace missing: the tokens were pushed back, skip
                 the opening brace to ensure progress *)
              let rest := if closed then rest else tl rest in
              let seq' :=
                match seq with
                | [v] => match tk v with
                         | KVoid => []
                         | _ => SpecialT (pos t) s_lbrace :: seq
                                  ++ [SpecialT (pos v) s_rbrace]
                         end
                | _ => match rev seq with
                       | l :: _ => SpecialT (pos t) s_lbrace :: seq
                                     ++ [SpecialT (pos l) s_rbrace]
                       | [] => []
                       end
                end in
              kv_val k st' rest (acc ++ seq')
            else kv_val k st buf' (acc ++ [t])
        end
    end.

  Fixpoint parse_keyvals_list (fuel : nat) (st : pstate) (buf : list tok)
    : Res (list (str * option (list tok))) :=
    match fuel with
    | O => OutOfFuel
    | S k =>
        match skip_space buf with
        | [] => Ok (st, [])
        | b =>
            let '(key, b1) := kv_key b [] in
            do kr <- get_text_expanded st key;
            let '(st1, keytxt) := kr in
            match skip_space b1 with
            | [] => Ok (st1, [(keytxt, None)])
            | t :: b2 =>
                if txt_is t s_comma then
                  do r <- parse_keyvals_list k st1 b2;
                  Ok (fst r, (keytxt, None) :: snd r)
                else
                  (* skip '=' (whatever the token is), leading space *)
                  let b3 := skip_space b2 in
                  do v <- kv_val (3 * length b3 + 3) st1 b3 [];
                  let '(st2, val, b4) := v in
                  let val := match rev val with
                             | l :: r => match tk l with KSpace => rev r | _ => val end
                             | [] => val
                             end in
                  do r <- parse_keyvals_list k st2 (tl b4);
                  Ok (fst r, (keytxt, Some val) :: snd r)
            end
        end
    end.

  (* parse_keyvals_dict: later keys win *)
  Definition kv_dict (l : list (str * option (list tok)))
    : list (str * option (list tok)) :=
    fold_left (fun d kv => assoc_set (fst kv) (snd kv) d) l [].

  (* expand_keyvals: 685-690 *)
  Fixpoint expand_keyvals (st : pstate) (l : list (str * option (list tok)))
    : Res (list (str * option str)) :=
    match l with
    | [] => Ok (st, [])
    | (k, None) :: l' =>
        do r <- expand_keyvals st l'; Ok (fst r, (k, None) :: snd r)
    | (k, Some v) :: l' =>
        do tr <- get_text_expanded st v;
        do r <- expand_keyvals (fst tr) l';
        Ok (fst r, (k, Some (snd tr)) :: snd r)
    end.

  (* ---------------------------------------------------------------- *)
  (*  parser_work: 98-130 (skip regions, then expansion)               *)
  (* ---------------------------------------------------------------- *)
  Definition is_skip (pre : str) (t : tok) : bool :=
    match tk t with KComment => starts_with pre (txt t) | _ => false end.

  Fixpoint skip_regions (fuel : nat) (st : pstate) (latex : str)
                        (toks : list tok) : pstate * list tok :=
    match fuel with
    | O => (st, toks)
    | S k =>
        match find_index (is_skip (t_comment_skip_begin T)) toks with
        | None => (st, toks)
        | Some beg =>
            let before := firstn beg toks in
            let after := skipn (S beg) toks in
            match find_index (is_skip (t_comment_skip_end T)) after with
            | None =>
                let p := match nth_error toks beg with Some t => pos t | None => 0 end in
                let '(d, e) := latex_error (sp_mark (t_scan T)) (sp_verbose (t_scan T))
                    (s2l "cannot find closing LaTeX comment '"
                     ++ t_comment_skip_end T ++ s2l "'") p latex in
                (add_diag st d, before ++ e ++ after)
            | Some e =>
                let '(st', r) := skip_regions k st latex (skipn (S e) after) in
                (st', before ++ r)
            end
        end
    end.

  Definition parser_work (st : pstate) (latex : str) : Res (list tok) :=
    let sav := cur_latex st in
    let st := upd_latex st latex in
    let '(toks, ds) := scan (t_scan T) latex in
    let st := add_diags st ds in
    let '(st, toks) := skip_regions (S (length toks)) st latex toks in
    do r <- expand_fresh st toks;
    Ok (upd_latex (fst r) sav, snd r).

  (* ---------------------------------------------------------------- *)
  (*  modify_parameters / init_package: 63-93                          *)
  (* ---------------------------------------------------------------- *)
  Definition kv_opt := (str * option str)%type.

  Fixpoint opt_eqb (a b : list kv_opt) : bool :=
    match a, b with
    | [], [] => true
    | (k, v) :: a', (k', v') :: b' =>
        str_eqb k k'
        && match v, v' with
           | None, None => true
           | Some x, Some y => str_eqb x y
           | _, _ => false
           end
        && opt_eqb a' b'
    | _, _ => false
    end.

  (* babel.get_language_token *)
  Definition babel_main (opts : list kv_opt) : option str :=
    match find (fun o => str_eqb (fst o) (s2l "main")
                         && match snd o with
                            | Some v => match assoc v (t_babel_map T) with
                                        | Some _ => true | None => false end
                            | None => false end) (rev opts) with
    | Some (_, Some v) => assoc v (t_babel_map T)
    | _ => None
    end.
  Definition babel_inject (opts : list kv_opt) : list tok :=
    match babel_main opts with
    | Some l => [LangT 0 l false true true]
    | None =>
    match find (fun o => match snd o with
                         | None => match assoc (fst o) (t_babel_map T) with
                                   | Some _ => true | None => false end
                         | Some _ => false end) (rev opts) with
    | Some o => match assoc (fst o) (t_babel_map T) with
                | Some l => [LangT 0 l false true true]
                | None => []
                end
    | None => []
    end end.

  Definition install_module (st : pstate) (m : module) (options : list kv_opt)
    : Res (list tok) :=
    match md_inject m with
    | InjUnmodelled => Fatal 9
    | _ =>
        let inj := match md_inject m with
                   | InjBabel => babel_inject (global_opts st ++ options)
                   | _ => [] end in
        let st := if md_global_opts m
                  then upd_packages st (packages st) (global_opts st ++ options)
                  else st in
        let st := upd_parm_lists st (math_text_macros st ++ md_math_text_macros m)
                    (math_operators st ++ md_math_operators m)
                    (newcommand_ignore st ++ md_newcommand_ignore m) in
        let st := upd_macros st
          (fold_left (fun t mc => assoc_set (m_name mc) mc t)
                     (md_macros_python m) (macros st)) in
        let st := upd_environs st
          (fold_left (fun t e => assoc_set (m_name (e_mac e)) e t)
                     (md_environs m) (environs st)) in
        match md_macros_latex m with
        | [] => Ok (st, inj)
        | src => do r <- parser_work st src; Ok (fst r, inj)
        end
    end.

  (* get_module_handler: non-alphanumeric characters except '.' become '_';
     the generated registry is keyed by the module name *)
  Definition mod_name (name : str) : str :=
    map (fun c => if t_is_alnum T c || N.eqb c 46 then c else 95%N) name.
  Definition find_module (cls : bool) (name : str) : option module :=
    assoc (mod_name name) (if cls then t_classes T else t_packages T).

  (* init_package; an unknown module gives a warning and a dummy handler *)
  Fixpoint init_package (fuel : nat) (st : pstate) (cls : bool) (name : str)
                        (options : list kv_opt) : Res (list tok) :=
    match fuel with
    | O => OutOfFuel
    | S k =>
        let already :=
          match assoc name (packages st) with
          | Some o => opt_eqb o (global_opts st ++ options)
          | None => false
          end in
        if already then Ok (st, [])
        else
          match find_module cls name with
          | None =>
              (* get_module_handler: warning, requirements [], empty module *)
              Ok (upd_packages st (assoc_set name (global_opts st ++ options)
                                             (packages st)) (global_opts st), [])
          | Some m =>
              do r <- (fix reqs (rs : list str) (st : pstate) (acc : list tok)
                       : Res (list tok) :=
                       match rs with
                       | [] => Ok (st, acc)
                       | q :: rs' =>
                           let go := match assoc q (packages st) with
                                     | None => true
                                     | Some o => opt_eqb o options
                                     end in
                           if go then
                             do x <- init_package k st false q options;
                             reqs rs' (fst x) (acc ++ snd x)
                           else reqs rs' st acc
                       end) (md_require m) st [];
              let '(st1, out) := r in
              let st2 := upd_packages st1
                           (assoc_set name (global_opts st1 ++ options) (packages st1))
                           (global_opts st1) in
              do x <- install_module st2 m options;
              Ok (fst x, out ++ snd x)
          end
    end.
End Parser.
