(* ShellMap: model of the position arithmetic of the proofreading shell
   (properties C14, C15):
     yalafi/shell/utils.py       map_match_position, correct_mark_macroname
     yalafi/shell/proofreader.py assembly of the parts, shift of offsets,
                                 range check and stable sort (lines 120-142)
     gentext / genjson / genxml  line and column computations
   Offsets coming from the proofreader are arbitrary integers (Z); every
   Python operation that can raise is explicit (result). *)
From YV Require Import PyBase.
Open Scope Z_scope.

(* ---- Python index / slice normalisation ---- *)
Definition zlen {A} (l : list A) : Z := Z.of_nat (length l).

(* l[i], negative i counts from the end, IndexError outside *)
Definition py_index {A} (l : list A) (i : Z) : result A :=
  let n := zlen l in
  let j := if i <? 0 then i + n else i in
  if (j <? 0) || (n <=? j) then Exc IndexError
  else match nth_error l (Z.to_nat j) with
       | Some x => Ok x
       | None => Exc IndexError
       end.

(* slice bound: negative counts from the end, then clamped to [0, n] *)
Definition norm_idx (e : Z) (n : nat) : nat :=
  let m := Z.of_nat n in
  if e <? 0 then Z.to_nat (Z.max 0 (e + m)) else Z.to_nat (Z.min e m).

Definition zslice {A} (l : list A) (a b : Z) : list A :=
  pyslice l (norm_idx a (length l)) (norm_idx b (length l)).

(* s.count('\n', 0, e) and s.rfind('\n', 0, e) + 1 *)
Definition count_nl_to (tex : str) (e : Z) : Z :=
  Z.of_nat (count_char c_nl (firstn (norm_idx e (length tex)) tex)).
Definition line_start_to (tex : str) (e : Z) : Z :=
  match rfind_index (N.eqb c_nl) (firstn (norm_idx e (length tex)) tex) with
  | Some i => Z.of_nat (S i)
  | None => 0
  end.

Definition utf8_len_char (c : char) : nat :=
  if N.ltb c 128 then 1%nat else if N.ltb c 2048 then 2%nat
  else if N.ltb c 65536 then 3%nat else 4%nat.
Definition utf8_len (s : str) : Z :=
  Z.of_nat (fold_right (fun c n => (utf8_len_char c + n)%nat) 0%nat s).

(* ---- utils.correct_mark_macroname ---- *)
Definition is_ascii_letter (c : char) : bool :=
  (N.leb 65 c && N.leb c 90) || (N.leb 97 c && N.leb c 122).

Definition correct_mark_macroname (offset length_ : Z) (latex : str) : Z :=
  if (length_ =? 1) && (0 <=? offset) && (offset <? zlen latex - 1)
  then match skipn (Z.to_nat offset) latex with
       | c :: rest =>
           if N.eqb c c_backslash
           then match length (take_while is_ascii_letter rest) with
                | O => length_
                | S k => Z.of_nat (S (S k))
                end
           else length_
       | [] => length_
       end
  else length_.

(* ---- utils.map_match_position ---- *)
Definition map_match_position (offset length_ : Z) (latex : str)
                              (charmap : list Z) : result (Z * Z) :=
  let n := zlen charmap in
  let beg := Z.min (Z.max 0 offset) (n - 1) in
  let en := Z.min (Z.max 0 (beg + length_ - 1)) (n - 1) in
  do cb <- py_index charmap beg;
  do ce <- py_index charmap en;
  let off := Z.abs cb - 1 in
  let len := Z.abs ce - Z.abs cb + 1 in
  Ok (off, correct_mark_macroname off len latex).

(* ---- report locations ---- *)
(* gentext: 1-based line and column *)
Definition text_loc (tex : str) (offset : Z) : Z * Z :=
  (count_nl_to tex offset + 1, offset - line_start_to tex offset + 1).

(* genjson priv / genxml: fromy, fromx, toy, tox *)
Definition json_loc (tex : str) (offset length_ : Z) : Z * Z * Z * Z :=
  let beg := offset in
  let en := beg + length_ - 1 in
  (count_nl_to tex beg, beg - line_start_to tex beg,
   count_nl_to tex en, en - line_start_to tex en + 1).

Definition xml_loc (tex : str) (offset length_ : Z) (bytes : bool)
  : Z * Z * Z * Z :=
  let beg := offset in
  let en := beg + length_ - 1 in
  if bytes
  then (count_nl_to tex beg, utf8_len (zslice tex (line_start_to tex beg) beg),
        count_nl_to tex en,
        utf8_len (zslice tex (line_start_to tex en) (en + 1)))
  else json_loc tex offset length_.

(* ---- proofreader.run_proofreader_options, lines 120-142 ---- *)
(* a match: offset, length and an identity for tracking *)
Record pmatch := { pm_offset : Z; pm_length : Z; pm_id : nat }.

Record part := { p_plain : str; p_map : list Z; p_matches : list pmatch }.

Record assembled := { a_plain : str; a_map : list Z; a_matches : list pmatch }.

Section Assemble.
  Variable is_space : char -> bool.

  Definition shift_match (d : Z) (m : pmatch) : pmatch :=
    {| pm_offset := pm_offset m + d; pm_length := pm_length m; pm_id := pm_id m |}.

  Fixpoint assemble_parts (ps : list part) (acc : assembled) : result assembled :=
    match ps with
    | [] => Ok acc
    | p :: ps' =>
        match strip is_space (p_plain p) with
        | [] => assemble_parts ps' acc
        | _ =>
            let ms := map (shift_match (zlen (a_plain acc))) (p_matches p) in
            let cm := a_map acc ++ p_map p in
            do lst <- py_last cm;
            assemble_parts ps'
              {| a_plain := a_plain acc ++ p_plain p ++ [c_nl; c_nl];
                 a_map := cm ++ [lst; lst];
                 a_matches := a_matches acc ++ ms |}
        end
    end.

  (* sort key with the range check (Fatal = tex2txt.fatal) *)
  Definition sort_key (cm : list Z) (m : pmatch) : result Z :=
    let beg := pm_offset m in
    if (beg <? 0) || (zlen cm <=? beg) then Fatal 1
    else do c <- py_index cm beg; Ok (Z.abs c).

  Fixpoint keys (cm : list Z) (ms : list pmatch) : result (list (Z * pmatch)) :=
    match ms with
    | [] => Ok []
    | m :: ms' => do k <- sort_key cm m; do r <- keys cm ms'; Ok ((k, m) :: r)
    end.

  (* list.sort(key=...) is stable: x stands before all elements of l in the
     original list, so it is inserted before the first key that is >= *)
  Fixpoint insert_stable (x : Z * pmatch) (l : list (Z * pmatch)) :=
    match l with
    | [] => [x]
    | y :: l' => if fst x <=? fst y then x :: l else y :: insert_stable x l'
    end.
  Fixpoint sort_stable (l : list (Z * pmatch)) :=
    match l with
    | [] => []
    | x :: l' => insert_stable x (sort_stable l')
    end.

  Definition run_assemble (ps : list part) : result assembled :=
    do a <- assemble_parts ps {| a_plain := []; a_map := []; a_matches := [] |};
    do ks <- keys (a_map a) (a_matches a);
    Ok {| a_plain := a_plain a; a_map := a_map a;
          a_matches := map snd (sort_stable ks) |}.
End Assemble.
