(* Include: the work list of yalafi/shell/shell.py:261-298 (option --include)
   over an abstract file system.  fs maps a file name to the names the
   extraction run finds in it (None / absent: the file cannot be opened, the
   shell stops with its fatal exit). *)
From YV Require Import PyBase.

Section Include.
  Variable skip : str -> bool.                 (* --skip regex on the name *)
  Variable fs : list (str * list str).
  Variable include : bool.                     (* option --include given *)

  Definition dot_tex : str := [46; 116; 101; 120]%N.

  Definition ends_with (suf s : str) : bool :=
    starts_with (rev suf) (rev s).
  Definition add_tex (f : str) : str :=
    if ends_with dot_tex f then f else f ++ dot_tex.

  Fixpoint lookup_fs (l : list (str * list str)) (f : str) : option (list str) :=
    match l with
    | [] => None
    | (n, v) :: l' => if str_eqb f n then Some v else lookup_fs l' f
    end.

  Definition mem (f : str) (l : list str) : bool := existsb (str_eqb f) l.

  (* for f in plain.split(): ... todo.append(f) *)
  Fixpoint push_names (names : list str) (todo done : list str) : list str :=
    match names with
    | [] => todo
    | n :: names' =>
        let g := add_tex n in
        if mem g (done ++ todo) || skip g then push_names names' todo done
        else push_names names' (todo ++ [g]) done
    end.

  Fixpoint loop (fuel : nat) (todo done : list str) : result (list str) :=
    match fuel with
    | O => OutOfFuel
    | S k =>
        match todo with
        | [] => Ok done
        | f :: todo' =>
            if mem f done || skip f then loop k todo' done
            else
              let done' := done ++ [f] in
              if include then
                match lookup_fs fs f with
                | None => Fatal 1
                | Some names => loop k (push_names names todo' done') done'
                end
              else loop k todo' done'
        end
    end.

  (* enough fuel: every iteration pops one element; the elements ever pushed
     are the initial ones and, for each file processed (once), its names *)
  Definition fuel_bound (files : list str) : nat :=
    S (length files + fold_right (fun e n => length (snd e) + n) 0 fs).

  Definition file_list (files : list str) : result (list str) :=
    loop (fuel_bound files) files [].
End Include.
