(* Scanner: yalafi/scanner.py Scanner.scan and its helpers (lines 33-163). *)
From YV Require Import PyBase ShellMap Token Utils.
Open Scope Z_scope.

Record scan_parms := {
  sp_is_space : char -> bool;         (* str.isspace *)
  sp_is_decimal : char -> bool;       (* str.isdecimal *)
  sp_decimal_value : char -> nat;     (* int(c) for a decimal character *)
  sp_macro_char : char -> bool;       (* Parameters.macro_character *)
  sp_specials : list str;             (* special tokens, longest first *)
  sp_accents : list str;              (* accent macro names *)
  sp_mark : str;
  sp_verbose : bool }.

Definition s_begin : str := [92;98;101;103;105;110]%N.
Definition s_end : str := [92;101;110;100]%N.
Definition s_item : str := [92;105;116;101;109]%N.
Definition s_verb : str := [92;118;101;114;98]%N.
Definition s_verbatim_br : str := [123;118;101;114;98;97;116;105;109;125]%N.
Definition s_end_verbatim : str :=
  [92;101;110;100;123;118;101;114;98;97;116;105;109;125]%N.
Definition e_bad_verb : str :=
  [98;97;100;32;92;118;101;114;98;32;97;114;103;117;109;101;110;116]%N.
Definition e_missing_verbatim : str :=
  [109;105;115;115;105;110;103;32;101;110;100;32;111;102;32;118;101;114;98;97;116;105;109]%N.

(* first index i >= 0 of s with f (s[i]) , length s if none *)
Definition index_where (f : char -> bool) (s : str) : nat :=
  match find_index f s with Some i => i | None => length s end.

(* s.find(sub): index of the first occurrence *)
Fixpoint find_sub (sub s : str) : option nat :=
  if starts_with sub s then Some 0%nat
  else match s with
       | [] => None
       | _ :: s' => option_map S (find_sub sub s')
       end.

Section Scanner.
  Variable P : scan_parms.
  Variable latex : str.       (* the whole text: for the error diagnostics *)

  Definition is_sp := sp_is_space P.

  Definition err_token (err : str) (start : Z) : diag * tok :=
    let '(d, ts) := latex_error (sp_mark P) (sp_verbose P) err start latex in
    (d, TextF start (flat_map txt ts)).

  (* one token from the rest s of the text that starts at offset start;
     returns the token, the number of characters consumed and diagnostics *)
  Definition next_token (s : str) (start : Z) : tok * nat * list diag :=
    match s with
    | [] => (VoidT start, 0%nat, [])
    | c :: s' =>
        if is_sp c then
          (* scan_space *)
          let n := S (index_where (fun x => negb (is_sp x)) s') in
          let sp := firstn n s in
          if Nat.ltb (count_char c_nl sp) 2
          then (mk KSpace start sp false, n, [])
          else (mk KPar start sp false, n, [])
        else if N.eqb c c_percent then
          (* scan_comment *)
          let p := S (index_where (N.eqb c_nl) s') in       (* position of \n or end *)
          let after := skipn (S p) s in
          let nns := (S p + index_where (fun x => negb (is_sp x)) after)%nat in
          let nns := Nat.min nns (length s) in
          let p := Nat.min p (length s) in
          if Nat.eqb (count_char c_nl (pyslice s (S p) nns)) 0
          then (mk KComment start (firstn nns s) false, nns, [])
          else (mk KComment start (firstn p s) false, p, [])
        else if N.eqb c c_hash then
          (* scan_arg_token *)
          match s' with
          | d :: _ =>
              if sp_is_decimal P d
              then (mk (KArg (sp_decimal_value P d)) start [c; d] false, 2%nat, [])
              else (SpecialT start [c], 1%nat, [])
          | [] => (SpecialT start [c], 1%nat, [])
          end
        else
          match find (fun t => starts_with t s) (sp_specials P) with
          | Some t => (SpecialT start t, length t, [])
          | None =>
              if N.eqb c c_backslash then
                (* scan_macro *)
                let n := index_where (fun x => negb (sp_macro_char P x)) s' in
                let n := match n, s' with
                         | O, _ :: _ => 1%nat    (* \' and the like *)
                         | _, _ => n
                         end in
                let mac := firstn (S n) s in
                let len := S n in
                if str_eqb mac s_begin then
                  (* scan_verbatim *)
                  let rest := skipn len s in
                  let k := index_where (fun x => negb (is_sp x)) rest in
                  let at_ := skipn k rest in
                  if Nat.eqb k (length rest)
                     || Nat.ltb 1 (count_char c_nl (firstn (len + k) s))
                     || negb (starts_with s_verbatim_br at_)
                  then (mk KBegin start mac false, len, [])
                  else
                    let body := skipn 10 at_ in
                    match find_sub s_end_verbatim body with
                    | None =>
                        let '(d, t) := err_token e_missing_verbatim start in
                        (t, len, [d])
                    | Some e =>
                        (mk (KVerb true) (start + Z.of_nat (len + k + 10))
                            (firstn e body) false,
                         (len + k + 10 + e + 14)%nat, [])
                    end
                else if str_eqb mac s_end then (mk KEnd start mac false, len, [])
                else if str_eqb mac s_item then (mk KItem start mac false, len, [])
                else if str_eqb mac s_verb then
                  (* scan_verb *)
                  match skipn len s with
                  | [] => let '(d, t) := err_token e_bad_verb start in (t, len, [d])
                  | dl :: body =>
                      let k := index_where (fun x => N.eqb x dl || N.eqb x c_nl) body in
                      match nth_error body k with
                      | None =>
                          let '(d, t) := err_token e_bad_verb start in
                          (t, (len + 1 + k)%nat, [d])
                      | Some x =>
                          if N.eqb x c_nl
                          then let '(d, t) := err_token e_bad_verb start in
                               (t, (len + 1 + k)%nat, [d])
                          else (mk (KVerb false) (start + Z.of_nat (len + 1))
                                   (firstn k body) false,
                                (len + 1 + k + 1)%nat, [])
                      end
                  end
                else if existsb (str_eqb mac) (sp_accents P)
                then (mk KAccent start mac false, len, [])
                else (MacroT start mac, len, [])
              else (TextT start [c], 1%nat, [])
          end
    end.

  (* Scanner.scan: fuel = number of characters + 1 is always enough *)
  Fixpoint scan_aux (fuel : nat) (s : str) (start : Z)
    : list tok * list diag :=
    match fuel with
    | O => ([], [])
    | S k =>
        match s with
        | [] => ([], [])
        | _ =>
            let '(t, n, ds) := next_token s start in
            let n := Nat.max n 1 in
            let '(ts, ds') := scan_aux k (skipn n s) (start + Z.of_nat n) in
            (t :: ts, ds ++ ds')
        end
    end.
End Scanner.

Definition scan (P : scan_parms) (latex : str) : list tok * list diag :=
  scan_aux P latex (S (length latex)) latex 0.
