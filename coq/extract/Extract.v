(* Extraction of the executable model to OCaml (ExtrOcamlBasic only: bool,
   option, unit, list, prod, sumbool map to OCaml's; nat, positive, N, Z stay
   inductive).  The entry points fix the generated tables. *)
From Coq Require Import Extraction ExtrOcamlBasic.
From YV Require Import PyBase CharTables Tables Html Replace Checks ShellMap Json Reports Include Token Utils Scanner Rpal PState Parser Expand Math Exec Catalogue Tex2txt ClassDecide.

Definition m_replace_phrases := replace_phrases py_isspace py_isalpha py_word.
Definition m_finditer := finditer py_isalpha py_word.
Definition m_parse_rule := parse_rule py_isspace.

Definition m_single_letter_matches :=
  single_letter_matches py_isalpha py_word.
Definition m_equation_messages := equation_messages py_word py_res py_islower.
Definition m_create_context := create_context.

Definition m_run_report := run_report py_isspace.
Definition m_map_match_position := map_match_position.
Definition m_run_assemble := run_assemble py_isspace.

Definition m_file_list := file_list.
Definition m_scan := scan scan_parms_py.
Definition m_rpal := remove_pure_action_lines py_isspace.
Definition m_get_txt_pos := get_txt_pos.
Definition m_run_tex2txt (nosp : bool) :=
  run_tex2txt (if nosp then with_nosp py_tables tbl_nosp_skip tbl_nosp_macros
               else py_tables) py_word.
Definition m_run_parse (nosp : bool) :=
  run_parse (if nosp then with_nosp py_tables tbl_nosp_skip tbl_nosp_macros
             else py_tables).
(* does the document lie in the class of the end-to-end theorems (C02, C03,
   C04, C06, C07, C08, C19)?  The parser state is set up as run_parse does
   it (packages, classes, definitions file); the answer only feeds the
   coverage figure in the evidence *)
Definition m_in_class (nosp : bool) (files : list (str * str)) (lang : str)
                      (multi simple : bool) (mods : list (bool * str))
                      (define latex : str) (extr : list str) (fuel : nat)
  : result bool :=
  let T := if nosp then with_nosp py_tables tbl_nosp_skip tbl_nosp_macros else py_tables in
  let rd := fun f => assoc f files in
  let st0 := init_state T lang multi simple true in
  do st <- init_parser T rd fuel st0 (t_builtin T) mods;
  let st := match extr with [] => st | _ => init_extractions st extr end in
  let st := upd_unknowns (upd_extracted st []) [] in
  do st <- match define with
           | [] => Ok st
           | _ => do r <- parser_work T (exec T rd fuel) st define; Ok (fst r)
           end;
  Ok (match extr with [] => doc_in_class T st latex | _ => false end).

Definition m_generate_html :=
  generate_html py_isalpha py_word sh_highlight_style sh_highlight_style_unsure
                sh_number_style.
Definition m_protect_html := protect_html.

Extraction "../_build/model.ml" m_run_tex2txt m_run_parse m_in_class m_scan m_rpal m_get_txt_pos m_generate_html m_protect_html m_file_list m_run_report m_map_match_position m_run_assemble m_replace_phrases m_finditer m_parse_rule
  m_single_letter_matches m_equation_messages m_create_context.
