(* Extraction of the executable model to OCaml (ExtrOcamlBasic only: bool,
   option, unit, list, prod, sumbool map to OCaml's; nat, positive, N, Z stay
   inductive).  The entry points fix the generated tables. *)
From Coq Require Import Extraction ExtrOcamlBasic.
From YV Require Import PyBase CharTables Replace.

Definition m_replace_phrases := replace_phrases py_isspace py_isalpha py_word.
Definition m_finditer := finditer py_isalpha py_word.
Definition m_parse_rule := parse_rule py_isspace.

Extraction "../_build/model.ml" m_replace_phrases m_finditer m_parse_rule.
