"""Structured generator of LaTeX documents with marker words.

A marker word is a unique literal word of the body (letters and digits over an
alphabet no placeholder or label uses); the generator knows the source offset
of each occurrence, so that oracles can demand source[p-1] == c for exactly
those characters and can tell where a proofreader match on the word has to be
reported."""
import random

MARK_LETTERS = 'qxzjQXZJ'


class Doc:
    def __init__(self):
        self.parts = []
        self.n = 0
        self.words = []     # (word, offset in source)
        self.kinds = {}     # construct counts

    def add(self, s):
        self.parts.append(s)
        self.n += len(s)

    def word(self, rng, prefix=''):
        w = prefix + ''.join(rng.choice(MARK_LETTERS) for _ in range(
            rng.randint(2, 4))) + str(len(self.words)) + 'k'
        if rng.random() < 0.15:
            w += rng.choice(['é', 'ß', 'Ж', 'ü'])
        self.words.append((w, self.n))
        self.add(w)
        return w

    def kind(self, k):
        self.kinds[k] = self.kinds.get(k, 0) + 1

    @property
    def text(self):
        return ''.join(self.parts)


SEPS = [' ', ' ', ' ', '\n', '  ', ' \n', '\n  ', ' % cmt\n', '\t']
PARS = ['\n\n', '\n \n', '\n\n\n', '\n% c\n\n']


def sentence(d, rng, depth, ctx):
    n = rng.randint(1, 6)
    for i in range(n):
        construct(d, rng, depth, ctx)
        if i < n - 1:
            d.add(rng.choice(SEPS))


def construct(d, rng, depth, ctx):
    """one inline construct; ctx: set of flags ('nofoot', 'nopar', 'lang')"""
    r = rng.random()
    if depth <= 0 or r < 0.45:
        d.word(rng)
        d.kind('word')
        return
    k = rng.choice(['textbf', 'unknown', 'label', 'inline', 'footnote',
                    'special', 'verb', 'ref', 'cite', 'comment', 'accent',
                    'usermacro', 'hspace', 'emph2', 'foreign', 'braces',
                    'index', 'LTadd', 'LTskip', 'framebox', 'phantom'])
    d.kind(k)
    if k == 'textbf':
        d.add('\\textbf{')
        sentence(d, rng, depth - 1, ctx)
        d.add('}')
    elif k == 'unknown':
        d.add('\\unk' + rng.choice('abc') + rng.choice(['', '{', '{']))
        if d.parts[-1].endswith('{'):
            sentence(d, rng, depth - 1, ctx)
            d.add('}')
        else:
            d.add(rng.choice([' ', '{}', '\n']))
            d.word(rng)
    elif k == 'label':
        d.add('\\label{sec:' + rng.choice('abc') + '}')
    elif k == 'index':
        d.add('\\index{idx ' + rng.choice('abc') + '}')
    elif k == 'inline':
        d.add(rng.choice(['$a+b$', '$x$', '\\(y_1\\)', '$\\alpha = 1$,',
                          '$z.$', '$ u $']))
    elif k == 'footnote' and 'nofoot' not in ctx:
        d.add('\\footnote{')
        sentence(d, rng, depth - 1, ctx | {'nofoot'})
        d.add('}')
    elif k == 'special':
        d.add(rng.choice(['--', '---', '``', "''", '~', '\\,', '\\%', '\\&',
                          '\\$', '\\#', '\\_', '\\{', '\\}', '\\ ']))
        d.word(rng)
    elif k == 'verb':
        d.add('\\verb|')
        d.word(rng)
        d.add(rng.choice(['|', ' x_y|']))
    elif k == 'ref':
        d.add(rng.choice(['\\ref{l}', '\\pageref{l}', '\\eqref{e}']))
    elif k == 'cite':
        d.add(rng.choice(['\\cite{k}', '\\cite[p. 5]{k}']))
    elif k == 'comment':
        d.add('% hidden ' + rng.choice('abc') + '\n')
        d.word(rng)
    elif k == 'accent':
        d.add(rng.choice(["\\'e", '\\"a', '\\`{o}', '\\^u', '\\c{c}']))
    elif k == 'usermacro':
        d.add(rng.choice(['\\um{', '\\umm{', '\\umo{']))
        sentence(d, rng, depth - 1, ctx)
        d.add('}')
    elif k == 'hspace':
        d.add(rng.choice(['\\hspace{1cm}', '\\hspace*{0pt}', '\\vspace{2ex}',
                          '\\quad ', '\\newline ', '\\hfill ']))
        d.word(rng)
    elif k == 'emph2':
        d.add('{\\em ')
        sentence(d, rng, depth - 1, ctx)
        d.add('}')
    elif k == 'braces':
        d.add('{')
        sentence(d, rng, depth - 1, ctx)
        d.add('}')
    elif k == 'foreign' and 'lang' in ctx:
        d.add('\\foreignlanguage{' + rng.choice(['german', 'english',
                                                 'russian']) + '}{')
        sentence(d, rng, depth - 1, ctx)
        d.add('}')
    elif k == 'LTadd':
        d.add('\\LTadd{')
        d.word(rng)
        d.add('}')
    elif k == 'LTskip':
        d.add('\\LTskip{gone}')
        d.add(' ')
        d.word(rng)
    elif k == 'framebox':
        d.add('\\framebox[3cm]{')
        sentence(d, rng, depth - 1, ctx)
        d.add('}')
    elif k == 'phantom':
        d.add('\\phantom{X}')
        d.word(rng)
    else:
        d.word(rng)


def block(d, rng, depth, ctx):
    k = rng.choice(['par', 'par', 'par', 'section', 'itemize', 'equation',
                    'enumerate', 'theorem', 'verbatim', 'skip', 'figure',
                    'display', 'table', 'select', 'otherlang', 'proof'])
    d.kind('block:' + k)
    if k == 'par':
        sentence(d, rng, depth, ctx)
    elif k == 'section':
        d.add(rng.choice(['\\section{', '\\subsection*{', '\\chapter[short]{',
                          '\\title{']))
        sentence(d, rng, depth - 1, ctx | {'nofoot'})
        d.add('}')
    elif k in ('itemize', 'enumerate'):
        d.add('\\begin{' + k + '}\n')
        for _ in range(rng.randint(1, 3)):
            d.add(rng.choice(['\\item ', '\\item[lab] ', '  \\item\n']))
            sentence(d, rng, depth - 1, ctx)
            d.add('\n')
        d.add('\\end{' + k + '}')
    elif k == 'equation':
        env = rng.choice(['equation', 'align', 'equation*', 'eqnarray'])
        d.add('\\begin{' + env + '}\n  a &= b \\\\\n  c &= d' +
              rng.choice(['.', ',', '', ' \\label{e}']) + '\n\\end{' + env + '}')
    elif k == 'display':
        d.add(rng.choice(['\\[ x = y. \\]', '$$ u + v $$',
                          '\\[ a \\text{ for all } b \\]']))
    elif k == 'theorem':
        d.add('\\begin{thm}' + rng.choice(['', '[Name]']) + '\n')
        sentence(d, rng, depth - 1, ctx)
        d.add('\n\\end{thm}')
    elif k == 'proof':
        d.add('\\begin{proof}\n')
        sentence(d, rng, depth - 1, ctx)
        d.add('\n\\end{proof}')
    elif k == 'verbatim':
        d.add('\\begin{verbatim}\n')
        d.word(rng)
        d.add(' $x$ \\foo\n\\end{verbatim}')
    elif k == 'skip':
        d.add('%%% LT-SKIP-BEGIN\nsecret \\foo $\n%%% LT-SKIP-END\n')
        d.word(rng)
    elif k == 'figure':
        d.add('\\begin{figure}[h]\n\\includegraphics[width=3cm]{file.png}\n'
              '\\caption{')
        sentence(d, rng, depth - 1, ctx | {'nofoot'})
        d.add('}\n\\end{figure}')
    elif k == 'table':
        d.add('\\begin{tabular}{ll}\n')
        d.word(rng)
        d.add(' & ')
        d.word(rng)
        d.add(' \\\\\n')
        d.word(rng)
        d.add(' & ')
        d.word(rng)
        d.add('\n\\end{tabular}')
    elif k == 'select' and 'lang' in ctx:
        d.add('\\selectlanguage{' + rng.choice(['german', 'english']) + '}\n')
        sentence(d, rng, depth, ctx)
    elif k == 'otherlang' and 'lang' in ctx:
        env = rng.choice(['otherlanguage', 'otherlanguage*'])
        d.add('\\begin{' + env + '}{german}\n')
        sentence(d, rng, depth - 1, ctx)
        d.add('\n\\end{' + env + '}')
    else:
        sentence(d, rng, depth, ctx)


PREAMBLE = ('\\newcommand{\\um}[1]{#1}\n\\newcommand{\\umm}[1]{<#1>}\n'
            '\\newcommand{\\umo}[2][opt]{#2}\n\\newtheorem{thm}{Theorem}\n')


def gen_doc(rng, depth=2, blocks=None, lang=False, preamble=True):
    d = Doc()
    if preamble:
        d.add(PREAMBLE)
    if lang:
        d.add('\\usepackage[german,english]{babel}\n')
    ctx = {'lang'} if lang else set()
    nb = blocks if blocks is not None else rng.randint(1, 5)
    for i in range(nb):
        block(d, rng, depth, ctx)
        d.add(rng.choice(PARS) if i < nb - 1 else rng.choice(['\n', '', '\n\n']))
    return d
