"""Structured generator of LaTeX documents with marker words.

A marker word is a unique literal word of the body (letters and digits over an
alphabet no placeholder or label uses); the generator knows the source offset
of each occurrence, so that oracles can demand source[p-1] == c for exactly
those characters and can tell where a proofreader match on the word has to be
reported."""
import random

MARK_LETTERS = 'qxzjQXZJ'


class Doc:
    def __init__(self):
        self.parts = []
        self.n = 0
        self.words = []     # (word, offset in source)
        self.kinds = {}     # construct counts
        self.files = {}
        self.flow = 0       # current text flow (0 = main)
        self.nflows = 0
        self.word_flow = {} # word -> flow
        self.specials = []  # (offset, expected character)
        self.unk = []       # (name, in_maths) in source order
        self.unk_ltadd = []  # indices into unk: uses inside an \\LTadd argument
        self.accented = []  # words whose first letter gets an accent
        self.defined = set()  # macros defined in the body

    def push_flow(self):
        self.nflows += 1
        old = self.flow
        self.flow = self.nflows
        return old

    def special(self, seq, value):
        self.specials.append((self.n, value))
        self.add(seq)

    def add(self, s):
        self.parts.append(s)
        self.n += len(s)

    def word(self, rng, prefix=''):
        w = prefix + ''.join(rng.choice(MARK_LETTERS) for _ in range(
            rng.randint(2, 4))) + str(len(self.words)) + 'k'
        if rng.random() < 0.15:
            w += rng.choice(['é', 'ß', 'я', 'ü'])
        self.words.append((w, self.n))
        self.word_flow[w] = self.flow
        self.add(w)
        return w

    def kind(self, k):
        self.kinds[k] = self.kinds.get(k, 0) + 1

    @property
    def text(self):
        return ''.join(self.parts)


SEPS = [' ', ' ', ' ', '\n', '  ', ' \n', '\n  ', ' % cmt\n', '\t']
PARS = ['\n\n', '\n \n', '\n\n\n', '\n% c\n\n']


def sentence(d, rng, depth, ctx):
    n = rng.randint(1, 6)
    for i in range(n):
        construct(d, rng, depth, ctx)
        if i < n - 1:
            d.add(rng.choice(SEPS))


def construct(d, rng, depth, ctx):
    """one inline construct; ctx: set of flags ('nofoot', 'nopar', 'lang')"""
    r = rng.random()
    if depth <= 0 or r < 0.45:
        d.word(rng)
        d.kind('word')
        return
    k = rng.choice(['textbf', 'unknown', 'label', 'inline', 'footnote',
                    'special', 'verb', 'ref', 'cite', 'comment', 'accent',
                    'usermacro', 'hspace', 'emph2', 'foreign', 'braces',
                    'index', 'LTadd', 'LTskip', 'framebox', 'phantom',
                    'accentverb', 'newline', 'opformula', 'umacro0', 'gls',
                    'mathunk', 'specialrun', 'defmac', 'optmac', 'hash',
                    'texorpdf', 'nonumber', 'textinmath', 'xspace', 'cites',
                    'twofoot', 'mlarg', 'mlarg', 'ctlglue', 'phrase', 'ctlarg',
                    'decomposed', 'twice'])
    d.kind(k)
    if k == 'textbf':
        d.add('\\textbf{')
        sentence(d, rng, depth - 1, ctx)
        d.add('}')
    elif k == 'decomposed':
        # a letter written as base letter + combining mark (not normalised)
        d.add(rng.choice(['Cafe\u0301', 'a\u0308b', 'n\u0303', 'o\u0302\u0301']))
        d.add(' ')
        d.word(rng)
    elif k == 'twice':
        # an argument that the macro body uses twice, holding a markup-only
        # line in front of a blank line (plain words: each appears twice)
        d.add('\\utw{alpha' + rng.choice(['\n\\label{tw}\n\nbeta', ' gamma', '\n\\index{tw}\n\n\\label{tw}\nbeta'])
              + '}')
        d.add(' ')
        d.word(rng)
    elif k == 'ctlarg':
        # a control word as the last token of a macro argument: the blank
        # behind the closing brace separates the words (TeX skips blanks
        # behind the control word only)
        d.add(rng.choice(['\\um{', '\\umm{', '\\textbf{', '\\umo{']
                         + (['\\foreignlanguage{ngerman}{', '\\foreignlanguage{english}{',
                             '\\foreignlanguage{german}{'] if 'lang' in ctx else [])))
        d.word(rng)
        d.add(' ' + rng.choice(['\\LaTeX', '\\TeX', '\\dots']) + '}')
        d.add(rng.choice([' ', '\n', '  ']))
        d.word(rng)
    elif k == 'phrase':
        # a phrase that a replacement list of the option matrix rewrites
        # (longer and shorter replacement)
        d.add(rng.choice(['so dass', 'zum Beispiel', 'so  dass', 'so dass', 'so\n \ndass',
                          'zum\n\t\nBeispiel', 'so \n  \n dass', 'so\ndass', 'so\n\ndass']
                         if 'nopar' not in ctx else ['so dass', 'zum Beispiel', 'so  dass']))
        d.add(' ')
        d.word(rng)
    elif k == 'ctlglue':
        # a control word directly followed by a letter outside ASCII: the
        # name ends there, the letter is text (CJK, Cyrillic, accented text)
        m = rng.choice(['\\LaTeX', '\\TeX', '\\ss', '\\dots', '\\unka'])
        if m == '\\unka':
            d.unk.append((m, False))
        d.add(m)
        d.add(rng.choice(['я', 'é', '排', 'ü']))
        d.word(rng)
    elif k == 'unknown':
        nm = '\\unk' + rng.choice('abc')
        d.unk.append((nm, False))
        d.add(nm + rng.choice(['', '{', '{']))
        if d.parts[-1].endswith('{'):
            sentence(d, rng, depth - 1, ctx)
            d.add('}')
        else:
            d.add(rng.choice([' ', '{}', '\n']))
            d.word(rng)
    elif k == 'label':
        d.add('\\label{sec:' + rng.choice('abc') + '}')
    elif k == 'index':
        d.add('\\index{idx ' + rng.choice('abc') + '}')
    elif k == 'inline':
        d.add(rng.choice(['$a+b$', '$x$', '\\(y_1\\)', '$\\alpha = 1$,',
                          '$z.$', '$ u $']))
    elif k == 'footnote' and 'nofoot' not in ctx:
        d.add('\\footnote{')
        old = d.push_flow()
        sentence(d, rng, depth - 1, ctx | {'nofoot'})
        d.flow = old
        d.add('}')
    elif k == 'special':
        seq, val = rng.choice([('--', '\u2013'), ('---', '\u2014'), ('``', '\u201c'),
                               ("''", '\u201d'), ('~', '\xa0'), ('\\,', '\u202f'),
                               ('\\%', '%'), ('\\&', '&'), ('\\$', '$'), ('\\#', '#'),
                               ('\\_', '_'), ('\\{', '{'), ('\\}', '}'), ('\\ ', ' ')])
        d.special(seq, val)
        d.word(rng)
    elif k == 'verb':
        d.add('\\verb|')
        d.word(rng)
        d.add(rng.choice(['|', ' x_y|']))
    elif k == 'ref':
        d.add(rng.choice(['\\ref{l}', '\\pageref{l}', '\\eqref{e}']))
    elif k == 'cite':
        d.add(rng.choice(['\\cite{k}', '\\cite[p. 5]{k}']))
    elif k == 'comment':
        d.add('% hidden ' + rng.choice('abc') + '\n')
        d.word(rng)
    elif k == 'accent':
        seq, val = rng.choice([("\\'e", '\xe9'), ('\\"a', '\xe4'), ('\\`{o}', '\xf2'),
                               ('\\^u', '\xfb'), ('\\c{c}', '\xe7')])
        if 'de' in ctx and '"' in seq:
            seq, val = "\\'e", '\xe9'
        d.special(seq, val)
    elif k == 'usermacro':
        d.add(rng.choice(['\\um{', '\\umm{', '\\umo{']))
        sentence(d, rng, depth - 1, ctx)
        d.add('}')
    elif k == 'hspace':
        d.add(rng.choice(['\\hspace{1cm}', '\\hspace*{0pt}', '\\vspace{2ex}',
                          '\\quad ', '\\newline ', '\\hfill ']))
        d.word(rng)
    elif k == 'emph2':
        d.add('{\\em ')
        sentence(d, rng, depth - 1, ctx)
        d.add('}')
    elif k == 'braces':
        d.add('{')
        sentence(d, rng, depth - 1, ctx)
        d.add('}')
    elif k == 'foreign' and 'lang' in ctx:
        d.add('\\foreignlanguage{' + rng.choice(['german', 'english',
                                                 'russian']) + '}{')
        if rng.random() < 0.3:
            d.add(rng.choice(['  ', '\n ', ' \t', '   ']))
        sentence(d, rng, depth - 1, ctx)
        if rng.random() < 0.3:
            # white space at the end of the insertion, more text behind it
            d.add(rng.choice([' ', '  ', '\n', ' \n']))
            d.add('}')
            d.add(rng.choice([' ', '  ', '']))
            d.word(rng)
        else:
            d.add('}')
    elif k == 'LTadd':
        d.add('\\LTadd{')
        d.word(rng)
        d.add('}')
    elif k == 'LTskip':
        d.add('\\LTskip{gone}')
        d.add(' ')
        d.word(rng)
    elif k == 'framebox':
        d.add('\\framebox[3cm]{')
        sentence(d, rng, depth - 1, ctx)
        d.add('}')
    elif k == 'phantom':
        d.add('\\phantom{X}')
        d.word(rng)
    elif k == 'accentverb':
        d.add(rng.choice(["\\'", '\\"', '\\`']) + rng.choice(['', '{']))
        br = d.parts[-1].endswith('{')
        d.add('\\verb|')
        w = d.word(rng)
        d.accented.append(w)
        d.add('|' + ('}' if br else ''))
    elif k == 'newline':
        d.add(rng.choice(['\\\\ ', '\\\\  ', '\\\\[2ex] ', '\\\\\n', '\\\\']))
        d.word(rng)
    elif k == 'opformula':
        d.add(rng.choice(['$<$', '$=$', '$+$', '$,$', '$\\leq$', '$a$ $<$ $b$',
                          '$ $', '$\\,$', '$x^{2}_{i}$', '$\\frac{a}{b}$;']))
    elif k == 'umacro0':
        d.add(rng.choice(['\\ua', '\\ub{}', '\\uc ', '\\ua{}']))
        d.add(' ')
        d.word(rng)
    elif k == 'gls' and 'gls' in ctx:
        g = rng.choice(['\\gls{pp}', '\\Gls{pp}', '\\glspl{ex}', '\\GLS{ex}',
                        '\\Glsdesc{ex}', '\\gls{ex}', '\\gls{nolabel}',
                        '\\glsdisp{ex}{', '\\GLS{mu}', '\\Gls{mu}', '\\gls{mu}',
                        '\\Glspl{mu}', '\\GLSdesc{mu}', '\\GLS{tx}', '\\GLSpl{tx}', '\\Glsdesc{tx}'])
        if '{mu}' in g:
            # the entry text holds an undeclared macro: used in text
            d.unk.append(('\\unkgd' if 'desc' in g else '\\unkgl', False))
        d.add(g)
        if d.parts[-1].endswith('{') and not d.parts[-1].endswith('}'):
            d.word(rng)
            d.add('}')
    elif k == 'mathunk':
        nm = rng.choice(['\\mun', '\\muo'])
        d.unk.append((nm, True))
        d.add('$' + nm + ' + 1$ ')
        d.word(rng)
        if rng.random() < 0.5:
            d.unk.append((nm, False))
            d.add(' ' + nm + rng.choice(['{}', ' ']))
            d.word(rng)
    elif k == 'specialrun':
        d.add(rng.choice(['?`', '!`', '----', "'''", '```', '-- -', '~~', '\\,\\,',
                          '\\ \\ ']))
        d.word(rng)
    elif k == 'defmac':
        nm = rng.choice(['\\dfa', '\\dfb'])
        d.add(rng.choice(['\\def' + nm + '#1{(#1)}', '\\def' + nm + '{D}',
                          '\\renewcommand{' + nm + '}[1]{[#1]}']))
        d.add('\n')
        d.add(nm + '{')
        d.word(rng)
        d.add('}')
    elif k == 'optmac':
        d.add(rng.choice(['\\umo', '\\umd']))
        if rng.random() < 0.5:
            d.add('[')
            if d.parts[-2] == '\\umd':
                d.word(rng)
            else:
                d.add('unused')
            d.add(']')
        if d.parts[-1] == '\\umo' or rng.random() < 0.7 or True:
            d.add('{')
            d.word(rng)
            d.add('}')
    elif k == 'hash':
        d.add(rng.choice(['\\#', '#', '#2', '#\u00b2', '#\u0663', '\\&', '&']))
        d.add(' ')
        d.word(rng)
    elif k == 'texorpdf':
        d.add('\\texorpdfstring{')
        d.word(rng)
        d.add('}{pdf}')
    elif k == 'nonumber':
        d.add(rng.choice(['\\[ a = b. \\nonumber \\]', '\\[ c, \\mathrlap{x} \\]',
                          '\\[ d = e \\label{q}. \\]', '\\[ f = g; \\! \\]']))
    elif k == 'textinmath':
        d.add('$a \\mbox{')
        d.word(rng)
        d.add('} b$')
    elif k == 'xspace':
        d.add('\\xspace' + rng.choice([' ', '. ', ', ', '{} ', '\\footnotemark ']))
        d.word(rng)
    elif k == 'twofoot' and 'nofoot' not in ctx:
        # two detached flows from one macro body (same source position)
        d.add(rng.choice(['\\utf', '\\utf{}', '\\utg{']))
        if d.parts[-1].endswith('{'):
            old = d.push_flow()
            d.word(rng)
            d.flow = old
            d.add('}')
        d.add(' ')
        d.word(rng)
    elif k == 'mlarg':
        # argument over several lines, the closing brace on a line of its own
        d.add(rng.choice(['\\um{', '\\LTadd{', '\\framebox{', '\\textbf{', '\\umm{',
                          '\\unkd{']))
        if 'unkd' in d.parts[-1]:
            d.unk.append(('\\unkd', False))
        d.add(rng.choice(['\n', '\n  ', ' ']))
        in_add = 'LTadd' in d.parts[-2]
        n0 = len(d.unk)
        sentence(d, rng, depth - 1, ctx)
        if in_add:
            d.unk_ltadd += range(n0, len(d.unk))
        d.add(rng.choice(['\n}', '\n  }', '\n}\n', ' %\n}']))
    elif k == 'cites':
        d.add(rng.choice(['\\parencite[see][p. 3]{k}', '\\footcite{k}', '\\cite*{k}',
                          '\\Cite[]{k}', '\\eqref{e}', '\\substack{a \\\\ b}']))
    else:
        d.word(rng)


def block(d, rng, depth, ctx):
    k = rng.choice(['par', 'par', 'par', 'section', 'itemize', 'equation',
                    'enumerate', 'theorem', 'verbatim', 'skip', 'figure',
                    'display', 'table', 'select', 'otherlang', 'proof',
                    'verbatim_sp', 'comment_blank', 'label_eol', 'ltinput',
                    'strayend', 'envspace', 'removed', 'nested_items',
                    'opequation', 'usepkg', 'skip2', 'optbracket', 'latedef'])
    d.kind('block:' + k)
    if k == 'par':
        sentence(d, rng, depth, ctx)
    elif k == 'section':
        d.add(rng.choice(['\\section{', '\\subsection*{', '\\chapter[short]{',
                          '\\title{']))
        sentence(d, rng, depth - 1, ctx | {'nofoot'})
        d.add('}')
    elif k in ('itemize', 'enumerate'):
        d.add('\\begin{' + k + '}\n')
        for _ in range(rng.randint(1, 3)):
            d.add(rng.choice(['\\item ', '\\item[lab] ', '  \\item\n']))
            sentence(d, rng, depth - 1, ctx)
            d.add('\n')
        d.add('\\end{' + k + '}')
    elif k == 'equation':
        env = rng.choice(['equation', 'align', 'equation*', 'eqnarray'])
        d.add('\\begin{' + env + '}\n  a &= b \\\\\n  c &= d' +
              rng.choice(['.', ',', '', ' \\label{e}']) + '\n\\end{' + env + '}')
    elif k == 'display':
        d.add(rng.choice(['\\[ x = y. \\]', '$$ u + v $$',
                          '\\[ a \\text{ for all } b \\]']))
    elif k == 'theorem':
        d.add('\\begin{thm}' + rng.choice(['', '[Name]']) + '\n')
        sentence(d, rng, depth - 1, ctx)
        d.add('\n\\end{thm}')
    elif k == 'proof':
        d.add('\\begin{proof}\n')
        sentence(d, rng, depth - 1, ctx)
        d.add('\n\\end{proof}')
    elif k == 'verbatim':
        d.add('\\begin{verbatim}\n')
        d.word(rng)
        d.add(' $x$ {y}\n\\end{verbatim}')
    elif k == 'skip':
        d.add('%%% LT-SKIP-BEGIN\nsecret \\foo $\n%%% LT-SKIP-END\n')
        d.word(rng)
    elif k == 'latedef':
        # used before its definition: unknown at the first use
        nm = '\\ulate' + rng.choice('ab')
        if nm not in d.defined:
            d.unk.append((nm, False))
            d.add(nm + rng.choice(['{}', ' ']))
            d.word(rng)
            d.add('\n\\newcommand{' + nm + '}{')
            d.defined.add(nm)
            d.word(rng)         # the body: shown at later uses only
            w = d.words.pop()   # ... so it is no word of the document yet
            d.word_flow.pop(w[0], None)
            d.add('}\n')
            d.word(rng)
        else:
            d.word(rng)
    elif k == 'skip2':
        # skip regions that end behind a comment line, or are empty
        d.word(rng)
        d.add('\n%%% LT-SKIP-BEGIN\n' + rng.choice(
            ['secret \\foo $\n% inner\n', '', '% only a comment\n', 'secret\n  % c\n',
             '% a\n% b\n']) + '%%% LT-SKIP-END\n')
        d.word(rng)
    elif k == 'optbracket':
        # LaTeX ends an optional argument at the first ] outside braces
        d.add(rng.choice(['\\section[Open [a,b)]{', '\\chapter[x [y]{',
                          '\\caption[Half [0,1)]{']))
        cap = 'caption' in d.parts[-1]
        old = d.push_flow() if cap else None
        sentence(d, rng, depth - 1, ctx | {'nofoot'})
        if cap:
            d.flow = old
        d.add('}')
        d.add(rng.choice(['\n', ' ']))
        d.word(rng)
        d.add(' (0,1] ')
        d.word(rng)
    elif k == 'figure':
        d.add('\\begin{figure}[h]\n\\includegraphics[width=3cm]{file.png}\n'
              '\\caption{')
        old = d.push_flow()
        sentence(d, rng, depth - 1, ctx | {'nofoot'})
        d.flow = old
        d.add('}\n\\end{figure}')
    elif k == 'table':
        d.add('\\begin{tabular}{ll}\n')
        d.word(rng)
        d.add(' & ')
        d.word(rng)
        d.add(' \\\\\n')
        d.word(rng)
        d.add(' & ')
        d.word(rng)
        d.add('\n\\end{tabular}')
    elif k == 'select' and 'lang' in ctx:
        d.add('\\selectlanguage{' + rng.choice(['german', 'english']) + '}\n')
        sentence(d, rng, depth, ctx)
    elif k == 'otherlang' and 'lang' in ctx:
        env = rng.choice(['otherlanguage', 'otherlanguage*'])
        d.add('\\begin{' + env + '}{german}\n')
        sentence(d, rng, depth - 1, ctx)
        d.add('\n\\end{' + env + '}')
    elif k == 'verbatim_sp':
        d.add('\\begin{verbatim}' + rng.choice(['  ', '\t', ' ']) + '\n')
        d.word(rng)
        d.add('\n\\end{verbatim}')
    elif k == 'comment_blank':
        d.word(rng)
        d.add(' % note\n' + rng.choice(['   ', '\t', ' ', '']) + '\n')
        d.word(rng)
    elif k == 'label_eol':
        d.word(rng)
        x = rng.choice([' \\label{x}', ' \\index{y}', ' \\unkz', ' \\\\'])
        if 'unkz' in x:
            d.unk.append(('\\unkz', False))
        d.add(x)
        d.add('\n\n')
        d.word(rng)
    elif k == 'ltinput' and d.files:
        d.word(rng)
        d.add(' \\LTinput{' + rng.choice(sorted(d.files)) + '}\n')
        d.word(rng)
    elif k == 'strayend':
        d.word(rng)
        d.add(rng.choice(['\\end{otherlanguage}', '\\end{otherlanguage*}',
                          '\\end{itemize}', '\\end{equation}', '}', '\\item ']))
        d.word(rng)
    elif k == 'envspace':
        nm = rng.choice(['my block', 'blockx', 'my  env'])
        d.unk.append((nm, False))
        d.add('\\begin{' + nm + '}\n')
        d.word(rng)
        d.add('\n\\end{' + nm + '}')
    elif k == 'removed':
        d.add('\\begin{tikzpicture}\n\\draw (0,0) -- (1,1);\n\\node {hidden};\n'
              '\\end{tikzpicture}')
    elif k == 'nested_items':
        d.add('\\begin{enumerate}\n\\item ')
        d.word(rng)
        d.add('\n\\begin{enumerate}\n\\item ')
        d.word(rng)
        d.add('\n\\item ')
        d.word(rng)
        d.add('\n\\end{enumerate}\n\\item ')
        d.word(rng)
        d.add('\n\\end{enumerate}')
    elif k == 'opequation':
        env = rng.choice(['align', 'equation', 'eqnarray'])
        d.add('\\begin{' + env + '}\n  a &= b \\\\\n    &\\leq c' + rng.choice(['.', '', ',']) +
              rng.choice(['', ' \\nonumber', ' \\label{z}']) + '\n\\end{' + env + '}')
    elif k == 'usepkg':
        d.add(rng.choice(['\\usepackage{amsmath}', '\\usepackage[a=b,c={d e}]{xcolor}',
                          '\\documentclass[12pt]{article}',
                          '\\usepackage{unknownpkg}', '\\usepackage[x={y]{hyperref}']))
        d.add('\n')
        d.word(rng)
    else:
        sentence(d, rng, depth, ctx)


PREAMBLE = ('\\newcommand{\\um}[1]{#1}\n\\newcommand{\\umm}[1]{<#1>}\n'
            '\\newcommand{\\umo}[2][opt]{#2}\n\\newtheorem{thm}{Theorem}\n'
            '\\newcommand{\\ua}{UA}\\newcommand{\\ub}{\\verb|ub body text|}'
            '\\newcommand{\\uc}{U \\textbf{c}}\n'
            '\\newcommand{\\umd}[2][dflt]{<#1|#2>}\n'
            '\\newcommand{\\utf}{\\footnote{fa fb}\\footnote{fc}}'
            '\\newcommand{\\utg}[1]{\\footnote{#1 fd}\\footnote{fe}}\n'
            '\\newcommand{\\utw}[1]{#1 / #1}\n')

GLSDEFS = ('\\gls@defglossaryentry{pp}%\n{%\nname={ppm},%\ntext={ppm},%\n'
           'plural={ppms},%\ndescription={parts per million}%\n}%\n'
           '\\gls@defglossaryentry{ex}%\n{%\nname={example},%\ntext={example},%\n'
           'plural={examples},%\ndescription={a sample}%\n}%\n'
           '\\gls@defglossaryentry{mu}%\n{%\nname={\\unkgl\\ level two},%\ntext={\\unkgl\\ level two},%\n'
           'plural={\\unkgl\\ levels},%\ndescription={with a macro \\unkgd inside}%\n}%\n'
           '\\gls@defglossaryentry{tx}%\n{%\nname={\\TeX\\ system},%\ntext={\\TeX\\ system},%\n'
           'plural={\\TeX\\ systems},%\ndescription={the \\LaTeX\\ base}%\n}%\n')


def gen_doc(rng, depth=2, blocks=None, lang=False, preamble=True, files=None,
            gls=False):
    d = Doc()
    d.files = dict(files or {})
    if rng.random() < 0.07:
        # a skip region at the very beginning of the text
        d.add('%%% LT-SKIP-BEGIN\nsecret \\foo\n%%% LT-SKIP-END\n')
    if preamble:
        d.add(PREAMBLE)
    if lang:
        d.add(rng.choice(['\\usepackage[german,english]{babel}\n',
                          '\\documentclass[english]{article}\\usepackage[ngerman]{babel}\n',
                          '\\usepackage[english]{babel}\n']))
    if gls:
        d.files['main.glsdefs'] = GLSDEFS
        d.add('\\usepackage{glossaries}\n\\LTinput{main.glsdefs}\n')
    ctx = {'lang'} if lang else set()
    if gls:
        ctx.add('gls')
    nb = blocks if blocks is not None else rng.randint(1, 5)
    for i in range(nb):
        block(d, rng, depth, ctx)
        d.add(rng.choice(PARS) if i < nb - 1 else rng.choice(['\n', '', '\n\n']))
    return d
