"""Seed corpus: the LaTeX snippets of /repo's own tests (string constants of
tests/**/*.py that contain a backslash) and their mutations.  The tests pin
the behaviour of these inputs down; a change that survives the tests has to
differ on an input the tests do not hold, and inputs next to the tested ones
(other layout of braces, line breaks and comments, repeated or spliced
snippets, other options) are where that is most likely.  Used by the parser
stream of harness/universe.py: the extracted model and the implementation
must agree on all of them."""
import ast, glob, os
import core

_CACHE = None
SKIP = ('cref', 'cleveref', 'Cleveref', '\\newif', '@', '.tests.')    # not modelled


def load():
    global _CACHE
    if _CACHE is not None:
        return _CACHE
    out = set()
    for f in sorted(glob.glob(os.path.join(core.REPO, 'tests', '**', '*.py'),
                              recursive=True)):
        try:
            t = ast.parse(open(f, encoding='utf-8').read())
        except (SyntaxError, OSError, UnicodeDecodeError):
            continue
        for n in ast.walk(t):
            if isinstance(n, ast.Constant) and isinstance(n.value, str):
                s = n.value
                if '\\' in s and 4 <= len(s) <= 1500 and not any(x in s for x in SKIP):
                    out.add(s)
    _CACHE = sorted(out)
    return _CACHE


PRE = ('\\newcommand{\\um}[1]{#1}\\newcommand{\\uo}[2][dflt]{<#1|#2>}\n')


def mutate(rng, s, seeds):
    """0-3 layout / structure mutations of a snippet"""
    for _ in range(rng.choice([0, 1, 1, 2, 2, 3])):
        op = rng.randrange(16)
        if not s:
            s = rng.choice(seeds)
        i = rng.randrange(len(s) + 1)
        if op == 0:      # closing brace on its own line
            j = s.find('}', i)
            if j >= 0:
                s = s[:j] + '\n' + s[j:]
        elif op == 1:    # line break behind an opening brace
            j = s.find('{', i)
            if j >= 0:
                s = s[:j + 1] + '\n' + s[j + 1:]
        elif op == 2:    # comment at a blank
            j = s.find(' ', i)
            if j >= 0:
                s = s[:j] + ' % c\n' + s[j + 1:]
        elif op == 3:    # blank line that holds a blank
            j = s.find('\n', i)
            if j >= 0:
                s = s[:j] + rng.choice(['\n \n', '\n\t\n', '\n\n', '\n% x\n']) + s[j + 1:]
        elif op == 4:    # a line twice
            ls = s.split('\n')
            k = rng.randrange(len(ls))
            ls.insert(k, ls[k])
            s = '\n'.join(ls)
        elif op == 5:    # splice with another snippet
            o = rng.choice(seeds)
            s = s[:i] + o[rng.randrange(len(o) + 1):]
        elif op == 6:    # as the argument of a user macro
            s = PRE + rng.choice(['\\um{', '\\um{\n', '\\uo{', '\\uo[o]{']) + s \
                + rng.choice(['}', '\n}', '}\n'])
        elif op == 7:    # block of comment lines
            j = s.find('\n', i)
            if j >= 0:
                s = s[:j + 1] + '% a\n' + rng.choice(['% b\n', '  % b\n', '']) + s[j + 1:]
        elif op == 8:    # drop a character
            if i < len(s):
                s = s[:i] + s[i + 1:]
        elif op == 9:    # stray bracket / brace / dollar
            s = s[:i] + rng.choice(['[', ']', '{', '}', '$', '&', '~', '"']) + s[i:]
        elif op == 10:   # the whole snippet twice
            s = s + rng.choice(['\n', '\n\n', ' ']) + s
        elif op == 11:   # two snippets
            s = s + rng.choice(['\n', '\n\n', ' ']) + rng.choice(seeds)
        elif op == 12:   # inside a footnote / heading / item
            s = rng.choice(['\\footnote{', '\\section{', '\\begin{itemize}\\item ',
                            '\\caption{', '\\textbf{']) + s + \
                rng.choice(['}', '}', '}\n\\end{itemize}'])
        elif op == 13:   # language switch in front
            s = rng.choice(['\\usepackage[german,english]{babel}\n',
                            '\\selectlanguage{german}\n',
                            '\\foreignlanguage{german}{kurz} ',
                            '\\begin{otherlanguage}{german}\n']) + s
        elif op == 14:   # skip region around a part
            j = s.find('\n', i)
            if j >= 0:
                s = s[:j + 1] + '%%% LT-SKIP-BEGIN\n' + rng.choice(['', 'x\n', '% c\n']) \
                    + '%%% LT-SKIP-END\n' + s[j + 1:]
        else:            # \LTinput of the definitions, twice
            s = '\\LTinput{defs.tex}\n' + s + '\n\\LTinput{defs.tex}\n'
    return s
