"""Running `python -m yalafi.shell` (and `python -m yalafi`) of /repo with a
fake proofreader.  The fake reads the submitted text from stdin, logs argv and
text, and prints the answer the test prepared (raw bytes)."""
import base64, json, os, shutil, subprocess, sys, tempfile
import core

FAKE = os.path.join(core.VERIF, 'harness', 'fake_lt.py')


class ShellResult:
    def __init__(self, rc, out, err, calls):
        self.rc = rc
        self.out = out          # bytes
        self.err = err          # str
        self.calls = calls      # list of {'argv': [...], 'text': str}

    @property
    def traceback(self):
        return 'Traceback (most recent call last)' in self.err


def scratch(prefix='sh'):
    base = os.path.join(core.BUILD, 'tmp')
    os.makedirs(base, exist_ok=True)
    return tempfile.mkdtemp(prefix=prefix, dir=base)


def run_shell(files, args, answers=None, answer_fn=None, cwd=None,
              timeout=120, keep=False, stdin=None):
    """files: {name: text or bytes} written into a scratch directory;
    args: shell arguments (file names relative to it);
    answers: list of bytes, one per proofreader call (the last is repeated);
             an element may be a dict lang->bytes."""
    d = cwd or scratch()
    try:
        for name, text in files.items():
            p = os.path.join(d, name)
            os.makedirs(os.path.dirname(p), exist_ok=True)
            if isinstance(text, bytes):
                open(p, 'wb').write(text)
            else:
                open(p, 'w', encoding='utf-8', newline='').write(text)
        ctrl = os.path.join(d, 'fake_ctrl.json')
        log = os.path.join(d, 'fake_log.jsonl')
        ans = answers if answers is not None else [b'{"matches": []}']
        enc = []
        for a in ans:
            if isinstance(a, dict):
                enc.append({k: base64.b64encode(v).decode() for k, v in a.items()})
            else:
                enc.append(base64.b64encode(a).decode())
        json.dump({'answers': enc, 'log': log}, open(ctrl, 'w'))
        cmd = [core.PY, '-m', 'yalafi.shell', '--no-config', '--lt-command',
               '%s %s %s' % (core.PY, FAKE, ctrl)] + list(args)
        p = subprocess.run(cmd, cwd=d, env=core.repo_env(), timeout=timeout,
                           stdout=subprocess.PIPE, stderr=subprocess.PIPE,
                           input=stdin)
        calls = []
        if os.path.exists(log):
            for line in open(log, encoding='utf-8'):
                calls.append(json.loads(line))
        return ShellResult(p.returncode, p.stdout,
                           p.stderr.decode('utf-8', 'replace'), calls)
    finally:
        if not keep and not cwd:
            shutil.rmtree(d, ignore_errors=True)


def run_filter(args, stdin_text=None, files=None, timeout=120):
    """python -m yalafi ..."""
    d = scratch('fl')
    try:
        for name, text in (files or {}).items():
            open(os.path.join(d, name), 'w', encoding='utf-8',
                 newline='').write(text)
        p = subprocess.run([core.PY, '-m', 'yalafi'] + list(args), cwd=d,
                           env=core.repo_env(), timeout=timeout,
                           input=None if stdin_text is None
                           else stdin_text.encode('utf-8'),
                           stdout=subprocess.PIPE, stderr=subprocess.PIPE)
        outs = {}
        for n in os.listdir(d):
            if n not in (files or {}):
                try:
                    outs[n] = open(os.path.join(d, n), encoding='utf-8').read()
                except Exception:
                    pass
        return p.returncode, p.stdout.decode('utf-8', 'replace'), \
            p.stderr.decode('utf-8', 'replace'), outs
    finally:
        shutil.rmtree(d, ignore_errors=True)


def pmap(fn, items, workers=None):
    """thread pool map (the work is in subprocesses)"""
    from concurrent.futures import ThreadPoolExecutor
    with ThreadPoolExecutor(max_workers=workers or core.NPROC) as ex:
        return list(ex.map(fn, items))
