"""further generated tables (Tables.v): constants of the shell, placeholder
collections, special tokens ...; called by gen_tables.py"""
import ast, os, sys

REPO = os.environ.get('YALAFI_REPO', '/repo')


def shell_constants():
    """module-level string / int constants of yalafi/shell/shell.py (the
    module cannot be imported: it runs the shell)"""
    src = open(os.path.join(REPO, 'yalafi', 'shell', 'shell.py'),
               encoding='utf-8').read()
    tree = ast.parse(src)
    out = {}
    for node in tree.body:
        if isinstance(node, ast.Assign) and len(node.targets) == 1 \
                and isinstance(node.targets[0], ast.Name):
            try:
                out[node.targets[0].id] = ast.literal_eval(node.value)
            except Exception:
                pass
    return out


def generate(files, HEADER, coq_str, coq_str_list, coq_ranges, GenError):
    sc = shell_constants()
    out = [HEADER, 'Open Scope Z_scope.\n']
    for name in ('highlight_style', 'highlight_style_unsure', 'number_style',
                 'inclusion_macros'):
        if name not in sc or not isinstance(sc[name], str):
            raise GenError('shell.py: constant %s not found' % name)
        out.append('Definition sh_%s : str := %s.' % (name, coq_str(sc[name])))
    if not isinstance(sc.get('default_option_context'), int):
        raise GenError('shell.py: default_option_context')
    out.append('Definition sh_default_context : Z := %d.'
               % sc['default_option_context'])
    out += parser_tables(coq_str, coq_str_list, GenError)
    files['Tables.v'] = '\n'.join(out) + '\n'
    catalogue(files, HEADER, coq_str, coq_str_list, GenError)
    gen_globals(files, HEADER, coq_str)


def decimal_ranges(GenError):
    """runs of decimal characters; int(c) == (c - lo) % 10 must hold"""
    out = []
    start = None
    for c in range(0x110000):
        if chr(c).isdecimal():
            if start is None:
                start = c
        elif start is not None:
            out.append((start, c - 1))
            start = None
    for lo, hi in out:
        for c in range(lo, hi + 1):
            if int(chr(c)) != (c - lo) % 10:
                raise GenError('decimal value of U+%04X' % c)
    return out


def parser_tables(coq_str, coq_str_list, GenError):
    sys.path.insert(0, REPO)
    from yalafi import parameters
    out = []
    P = parameters.Parameters('en')
    out.append('Definition pt_specials_sorted : list str := %s.'
               % coq_str_list(P.scanner.special_tokens_sorted))
    out.append('Definition pt_special_values : list (str * str) := [%s].'
               % '; '.join('(%s, %s)' % (coq_str(k), coq_str(v))
                           for k, v in P.special_tokens.items()))
    out.append('Definition pt_accents : list (str * list str) := [%s].'
               % '; '.join('(%s, %s)' % (coq_str(k), coq_str_list(v))
                           for k, v in P.accent_macros.items()))
    out.append('Definition pt_mark : str := %s.' % coq_str(P.mark_latex_error))
    out.append('Definition pt_verbose : bool := %s.'
               % ('true' if P.mark_latex_error_verbose else 'false'))
    # macro_character as a table over all code points
    rs = []
    start = None
    for c in range(0x110000):
        if P.macro_character(chr(c)):
            if start is None:
                start = c
        elif start is not None:
            rs.append((start, c - 1)); start = None
    out.append('Definition tbl_macro_char : list (N * N) := [%s]%%N.'
               % '; '.join('(%d, %d)' % r for r in rs))
    out.append('Definition pt_macro_char (c : char) : bool := in_ranges tbl_macro_char c.')
    dr = decimal_ranges(GenError)
    out.append('Definition tbl_decimal_runs : list (N * N) := [%s]%%N.'
               % '; '.join('(%d, %d)' % r for r in dr))
    out.append('Fixpoint decimal_value_in (t : list (N * N)) (c : N) : nat :=\n'
               '  match t with\n  | [] => 0%nat\n'
               '  | (lo, hi) :: t\' => if (N.leb lo c && N.leb c hi)%bool\n'
               '      then N.to_nat ((c - lo) mod 10)%N else decimal_value_in t\' c\n  end.')
    out.append('Definition pt_decimal_value (c : char) : nat := '
               'decimal_value_in tbl_decimal_runs c.')
    return out


# ---------------------------------------------------------------------------
#   Catalogue.v: the `tables` record of coq/model/PState.v
# ---------------------------------------------------------------------------

def coq_bool(b):
    return 'true' if b else 'false'


UNMODELLED = []


def catalogue(files, HEADER, coq_str, coq_str_list, GenError):
    sys.path.insert(0, REPO)
    import importlib, pkgutil, unicodedata
    from yalafi import parameters, parser as yparser, defs, handlers
    import yalafi.packages, yalafi.documentclasses

    def kind_term(t):
        k = type(t)
        simple = {defs.TextToken: 'KText', defs.SpaceToken: 'KSpace',
                  defs.ParagraphToken: 'KPar', defs.CommentToken: 'KComment',
                  defs.SpecialToken: 'KSpecial', defs.MacroToken: 'KMacro',
                  defs.BeginToken: 'KBegin', defs.EndToken: 'KEnd',
                  defs.ItemToken: 'KItem', defs.AccentToken: 'KAccent',
                  defs.ActionToken: 'KAction', defs.VoidToken: 'KVoid'}
        if k in simple:
            return simple[k]
        if k is defs.VerbatimToken:
            return '(KVerb %s)' % coq_bool(t.environ)
        if k is defs.ArgumentToken:
            return '(KArg %d)' % t.arg
        if k is defs.LanguageToken:
            return '(KLang %s %s %s %s)' % (coq_str(t.lang), coq_bool(t.back),
                                            coq_bool(t.hard), coq_bool(t.brk))
        raise GenError('token kind %s in a table' % k.__name__)

    def tok_term(t):
        return '(mk %s %d %s %s)' % (kind_term(t), t.pos, coq_str(t.txt),
                                     coq_bool(t.pos_fix))

    def toks_term(ts):
        return '[' + '; '.join(tok_term(t) for t in ts) + ']'

    P0 = parameters.Parameters('en')

    def handler_term(f):
        mod = getattr(f, '__module__', '')
        qn = getattr(f, '__qualname__', '')
        simple = {
            ('yalafi.handlers', 'h_newcommand'): 'HNewcommand',
            ('yalafi.handlers', 'h_newtheorem'): 'HNewtheorem',
            ('yalafi.handlers', 'h_heading'): 'HHeading',
            ('yalafi.handlers', 'h_phantom'): 'HPhantom',
            ('yalafi.handlers', 'h_hspace'): 'HHspace',
            ('yalafi.handlers', 'h_cite'): 'HCite',
            ('yalafi.handlers', 'h_load_defs'): 'HLoadDefs',
            ('yalafi.packages.amsmath', 'h_substack'): 'HSubstack',
            ('yalafi.packages.amsthm', 'h_proof'): 'HProof',
            ('yalafi.packages.babel', 'h_foreignlanguage'): 'HForeign',
            ('yalafi.packages.babel', 'h_selectlanguage'): 'HSelect',
            ('yalafi.packages.babel', 'h_begin_otherlang'): 'HBeginOther',
            ('yalafi.packages.babel', 'h_end_otherlang'): 'HEndOther',
            ('yalafi.packages.babel', 'h_end_otherlang_star'): 'HEndOtherStar',
            ('yalafi.packages.biblatex', 'h_cite'): 'HBibCite',
            ('yalafi.packages.biblatex', 'h_footcite'): 'HFootcite',
            ('yalafi.packages.glossaries', 'h_newacronym'): 'HNewacronym',
            ('yalafi.packages.glossaries', 'h_newglossaryentry'): 'HNewglossaryentry',
            ('yalafi.packages.glossaries', 'h_parse_glsdefs'): 'HParseGlsdefs',
            ('yalafi.packages.xspace', 'h_xspace'): 'HXspace',
        }
        if (mod, qn) in simple:
            return simple[(mod, qn)]
        cells = {}
        if getattr(f, '__closure__', None):
            for name, cell in zip(f.__code__.co_freevars, f.__closure__):
                try:
                    cells[name] = cell.cell_contents
                except ValueError:
                    pass
        if (mod, qn) == ('yalafi.handlers', 'h_load_module.<locals>.f'):
            pre = cells.get('prefix')
            if pre == P0.class_modules:
                return '(HLoadModule true)'
            if pre == P0.package_modules:
                return '(HLoadModule false)'
        if (mod, qn) == ('yalafi.packages.glossaries', 'h_gls.<locals>.f'):
            mods = [m.__name__ for m in cells.get('mods', [])]
            cap = {(): 0, ('cap_first',): 1, ('cap_all',): 2}.get(tuple(mods))
            if cap is not None and isinstance(cells.get('key'), str):
                return '(HGls %s %d)' % (coq_str(cells['key']), cap)
        UNMODELLED.append(mod + '.' + qn)
        return '(HUnmodelled %s)' % coq_str(mod + '.' + qn)

    def args_term(a):
        m = {'*': 'AStar', 'O': 'AOpt', 'A': 'AMand'}
        return '[' + '; '.join(m[c] for c in a) + ']'

    def macro_term(m):
        if callable(m.repl):
            repl = '(RHandler %s)' % handler_term(m.repl)
        else:
            repl = '(RToks %s)' % toks_term(m.repl)
        return ('{| m_name := %s; m_args := %s; m_repl := %s; m_defaults := [%s];'
                ' m_extract := %s |}' % (
                    coq_str(m.name), args_term(m.args), repl,
                    '; '.join(toks_term(d) for d in m.defaults),
                    toks_term(m.extract)))

    def env_term(e):
        items = 'None'
        if e.items is not None:
            n = getattr(e.items, '__name__', '')
            items = {'labs_enumerate': '(Some IEnumerate)',
                     'labs_itemize': '(Some IItemize)'}.get(n)
            if items is None:
                raise GenError('item generator %s of %s' % (n, e.name))
        endf = 'None' if e.end_func is None else '(Some %s)' % handler_term(e.end_func)
        return ('{| e_mac := %s; e_add_pars := %s; e_remove := %s; e_items := %s;'
                ' e_end := %s; e_equ := %s |}' % (
                    macro_term(e), coq_bool(e.add_pars), coq_bool(e.remove),
                    items, endf, coq_bool(type(e) is defs.EquEnv)))

    WATCH = ['math_text_macros', 'math_operators', 'newcommand_ignore',
             'math_ignore', 'math_space', 'math_punctuation', 'heading_punct',
             'item_default_label', 'item_punctuation', 'special_tokens',
             'accent_macros', 'math_default_env', 'mark_latex_error',
             'comment_skip_begin', 'comment_skip_end']

    def snapshot(parms):
        import copy
        return {k: copy.deepcopy(getattr(parms, k)) for k in WATCH}

    def module_term(modname, pkg):
        m = importlib.import_module(pkg + '.' + modname)
        if not hasattr(m, 'init_module'):
            return None
        parms = parameters.Parameters('en')
        pr = yparser.Parser(parms)
        before = snapshot(parms)
        g0 = list(pr.global_latex_options)
        import io, contextlib
        with contextlib.redirect_stderr(io.StringIO()):
            r0 = m.init_module(pr, [], 0)
        after = snapshot(parms)
        add = {}
        for k in WATCH:
            if before[k] != after[k]:
                if k in ('math_text_macros', 'math_operators', 'newcommand_ignore') \
                        and after[k][:len(before[k])] == before[k]:
                    add[k] = after[k][len(before[k]):]
                else:
                    raise GenError('module %s changes parameter %s' % (modname, k))
        # inject tokens / global options: probe with an option
        parms2 = parameters.Parameters('en')
        pr2 = yparser.Parser(parms2)
        with contextlib.redirect_stderr(io.StringIO()):
            r1 = m.init_module(pr2, [('german', None)], 0)
        glob = pr2.global_latex_options != []
        if modname == 'babel' and pkg.endswith('packages'):
            inj = 'InjBabel'
        elif r0.inject_tokens or r1.inject_tokens:
            inj = 'InjUnmodelled'
        else:
            inj = 'InjNone'
        return ('{| md_require := %s; md_macros_latex := %s; md_macros_python := [%s];'
                ' md_environs := [%s]; md_inject := %s; md_math_text_macros := %s;'
                ' md_math_operators := %s; md_newcommand_ignore := %s;'
                ' md_global_opts := %s |}' % (
                    coq_str_list(list(getattr(m, 'require_packages', []))),
                    coq_str(r0.macros_latex),
                    ';\n    '.join(macro_term(x) for x in r0.macros_python),
                    ';\n    '.join(env_term(x) for x in r0.environs),
                    inj, coq_str_list(add.get('math_text_macros', [])),
                    coq_str_list(add.get('math_operators', [])),
                    coq_str_list(add.get('newcommand_ignore', [])),
                    coq_bool(glob)))

    out = [HEADER,
           'From YV Require Import ShellMap Token Utils Scanner PState CharTables Tables.',
           'Open Scope Z_scope.\n']
    # upper()
    ups = []
    for c in range(0x110000):
        ch = chr(c)
        u = ch.upper()
        if u != ch:
            ups.append((c, u))
    out.append('Definition tbl_upper : list (N * str) := [\n  %s\n].' % ';\n  '.join(
        '; '.join('(%d%%N, %s)' % (c, coq_str(u)) for c, u in ups[i:i + 6])
        for i in range(0, len(ups), 6)))
    out.append('Fixpoint upper_in (t : list (N * str)) (c : N) : str :=\n'
               '  match t with [] => [c] | (k, v) :: t\' => if N.eqb c k then v '
               'else if N.ltb c k then [c] else upper_in t\' c end.')
    out.append('Definition py_upper (c : char) : str := upper_in tbl_upper c.')
    # accents
    rows = []
    alone = []
    for mac, parts in P0.accent_macros.items():
        # (unicodedata.lookup also resolves named sequences: the result may
        # hold more than one character, e.g. L with tilde)
        try:
            alone.append((mac, [ord(x) for x in unicodedata.lookup(' '.join(parts))]))
        except Exception:
            alone.append((mac, None))
        lst = []
        for c in 'abcdefghijklmnopqrstuvwxyzABCDEFGHIJKLMNOPQRSTUVWXYZ':
            name = ('LATIN ' + ('SMALL' if c.islower() else 'CAPITAL')
                    + ' LETTER ' + c.upper() + ' WITH ' + parts[0])
            try:
                lst.append((ord(c), [ord(x) for x in unicodedata.lookup(name)]))
            except Exception:
                pass
        rows.append((mac, lst))
    out.append('Definition tbl_accent : list (str * list (N * list N)) := [\n  %s\n].' % ';\n  '.join(
        '(%s, [%s]%%N)' % (coq_str(m), '; '.join('(%d, [%s])' % (a, '; '.join(map(str, b)))
                                                for a, b in l))
        for m, l in rows))
    out.append('Definition py_accent_char (mac : str) (c : char) : option str :=\n'
               '  match assoc mac tbl_accent with\n  | Some l => '
               'match find (fun p => N.eqb (fst p) c) l with Some p => Some (snd p) '
               '| None => None end\n  | None => None end.')
    out.append('Definition tbl_accent_alone : list (str * option (list N)) := [%s].' % '; '.join(
        '(%s, %s)' % (coq_str(m), 'None' if v is None else 'Some [%s]%%N' % '; '.join(map(str, v)))
        for m, v in alone))
    out.append('Definition py_accent_alone (mac : str) : option str :=\n'
               '  match assoc mac tbl_accent_alone with Some v => v | None => None end.')
    # language settings
    ls = []
    for key, s in P0.parser_lang_settings.items():
        ops = [(k, v) for k, v in s.math_op_text.items() if k is not None]
        ls.append('(%s, {| ls_proof_name := %s; ls_inline := %s; ls_display := %s;'
                  ' ls_change := %s; ls_op_text := [%s]; ls_op_default := %s;'
                  ' ls_short := [%s]; ls_active := %s |})' % (
                      coq_str(key), coq_str(s.proof_name),
                      coq_str_list(s.math_repl_inline), coq_str_list(s.math_repl_display),
                      coq_str_list(s.lang_change_repl),
                      '; '.join('(%s, %s)' % (coq_str(k), coq_str(v)) for k, v in ops),
                      coq_str(s.math_op_text[None]),
                      '; '.join('(%s, %s)' % (coq_str(k), coq_str(v))
                                for k, v in s.short_macros.items()),
                      coq_str_list(sorted(s.active_chars))))
    out.append('Definition tbl_langs : list (str * lang_settings) := [\n  %s\n].'
               % ';\n  '.join(ls))
    # builtin module
    pb = parameters.Parameters('en')
    builtin = ('{| md_require := []; md_macros_latex := %s; md_macros_python := [\n    %s];'
               ' md_environs := [\n    %s]; md_inject := InjNone; md_math_text_macros := %s;'
               ' md_math_operators := %s; md_newcommand_ignore := %s;'
               ' md_global_opts := false |}' % (
                   coq_str(pb.macro_defs_latex),
                   ';\n    '.join(macro_term(x) for x in pb.macro_defs_python),
                   ';\n    '.join(env_term(x) for x in pb.environment_defs),
                   coq_str_list(pb.math_text_macros), coq_str_list(pb.math_operators),
                   coq_str_list(pb.newcommand_ignore)))
    out.append('Definition tbl_builtin : module :=\n  %s.' % builtin)
    # nosp variant: Parameters.no_specials()
    pn = parameters.Parameters('en')
    pn.no_specials()
    extra = pn.macro_defs_python[len(pb.macro_defs_python):]
    out.append('Definition tbl_nosp_macros : list macro := [\n  %s].'
               % ';\n  '.join(macro_term(x) for x in extra))
    out.append('Definition tbl_nosp_skip : str * str := (%s, %s).'
               % (coq_str(pn.comment_skip_begin), coq_str(pn.comment_skip_end)))
    for pkg, nm in (('yalafi.packages', 'tbl_packages'),
                    ('yalafi.documentclasses', 'tbl_classes')):
        mods = []
        p = importlib.import_module(pkg)
        for info in pkgutil.iter_modules(p.__path__):
            t = module_term(info.name, pkg)
            if t is not None:
                mods.append('(%s,\n   %s)' % (coq_str(info.name), t))
        out.append('Definition %s : list (str * module) := [\n  %s\n].'
                   % (nm, ';\n  '.join(mods)))
    from yalafi.packages import babel, xspace, biblatex
    out.append('Definition tbl_babel_map : list (str * str) := [%s].' % '; '.join(
        '(%s, %s)' % (coq_str(k), coq_str(v)) for k, v in babel.language_map.items()))
    lt = yalafi.packages.load_table
    out.append('Definition tbl_load_star : list str := %s.' % coq_str_list(lt['*']))
    out.append('''
Definition scan_parms_py : scan_parms :=
  {| sp_is_space := py_isspace; sp_is_decimal := py_isdecimal;
     sp_decimal_value := pt_decimal_value; sp_macro_char := pt_macro_char;
     sp_specials := pt_specials_sorted; sp_accents := map fst pt_accents;
     sp_mark := pt_mark; sp_verbose := pt_verbose |}.

Definition py_tables : tables :=
  {| t_scan := scan_parms_py;
     t_is_space := py_isspace; t_is_alpha := py_isalpha; t_is_lower := py_islower;
     t_is_decimal := py_isdecimal; t_is_alnum := py_isalnum;
     t_upper := py_upper;
     t_special_values := pt_special_values; t_accents := pt_accents;
     t_accent_char := py_accent_char; t_accent_alone := py_accent_alone;
     t_heading_punct := %s; t_item_default_label := %s; t_item_punctuation := %s;
     t_math_ignore := %s; t_math_space := %s; t_math_punctuation := %s;
     t_math_default_env := %s;
     t_comment_skip_begin := %s; t_comment_skip_end := %s;
     t_langs := tbl_langs; t_builtin := tbl_builtin;
     t_packages := tbl_packages; t_classes := tbl_classes;
     t_babel_map := tbl_babel_map;
     t_babel_breaks := (%s, %s, %s); t_math_op_default_key := tt;
     t_xspace_excl := %s; t_cite_text := %s |}.
''' % (coq_str_list(P0.heading_punct), coq_str_list(P0.item_default_label),
       coq_str_list(P0.item_punctuation), coq_str_list(P0.math_ignore),
       coq_str_list(P0.math_space), coq_str_list(P0.math_punctuation),
       coq_str(P0.math_default_env), coq_str(P0.comment_skip_begin),
       coq_str(P0.comment_skip_end), coq_bool(babel.foreignlang_break),
       coq_bool(babel.selectlang_break), coq_bool(babel.otherlang_break),
       coq_str_list(xspace.xspace_excl), coq_str(biblatex.cite_text)))
    files['Catalogue.v'] = '\n'.join(out) + '\n'
    # handlers the translator has no model for (comment file read by the harness)
    files['unmodelled.txt'] = ''.join(x + '\n' for x in sorted(set(UNMODELLED)))


# ---------------------------------------------------------------------------
#   Globals.v: module-level mutable objects of yalafi/**.py (property C17)
# ---------------------------------------------------------------------------

def globals_inventory():
    """(module, name, kind) for every module-level name that is bound to a
    mutable container or is assigned through a `global` statement"""
    out = []
    root = os.path.join(REPO, 'yalafi')
    for dirpath, dirs, fs in os.walk(root):
        for f in sorted(fs):
            if not f.endswith('.py'):
                continue
            path = os.path.join(dirpath, f)
            mod = os.path.relpath(path, REPO)[:-3].replace(os.sep, '.')
            tree = ast.parse(open(path, encoding='utf-8').read())
            for node in tree.body:
                targets = []
                if isinstance(node, ast.Assign):
                    targets = [t for t in node.targets if isinstance(t, ast.Name)]
                    val = node.value
                elif isinstance(node, ast.AnnAssign) and isinstance(node.target, ast.Name):
                    targets = [node.target]
                    val = node.value
                for t in targets:
                    kind = None
                    if isinstance(val, (ast.Dict, ast.List, ast.Set, ast.ListComp,
                                        ast.DictComp, ast.SetComp)):
                        kind = 'container'
                    elif isinstance(val, ast.Call):
                        fn = val.func
                        name = getattr(fn, 'id', getattr(fn, 'attr', ''))
                        if name in ('dict', 'list', 'set', 'defaultdict',
                                    'OrderedDict', 'Aux', 'deque'):
                            kind = 'container'
                    if kind:
                        out.append((mod, t.id, kind))
            for node in ast.walk(tree):
                if isinstance(node, ast.Global):
                    for n in node.names:
                        out.append((mod, n, 'global-statement'))
                # function attributes / default arguments used as caches
                if isinstance(node, ast.FunctionDef):
                    for dflt in node.args.defaults + node.args.kw_defaults:
                        if isinstance(dflt, (ast.Dict, ast.List, ast.Set)) and \
                                (getattr(dflt, 'keys', None) or getattr(dflt, 'elts', None)) is not None:
                            pass
    return sorted(set(out))


def gen_globals(files, HEADER, coq_str):
    inv = globals_inventory()
    out = [HEADER,
           '(* module-level mutable objects and names assigned with `global` *)',
           'Definition module_globals : list (str * str) := [',
           ';\n'.join('  (%s, %s)  (* %s.%s: %s *)' % (coq_str(m), coq_str(n), m, n, k)
                      for m, n, k in inv),
           '].']
    files['Globals.v'] = '\n'.join(out) + '\n'
