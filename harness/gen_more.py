"""further generated tables (Tables.v): constants of the shell, placeholder
collections, special tokens ...; called by gen_tables.py"""
import ast, os, sys

REPO = os.environ.get('YALAFI_REPO', '/repo')


def shell_constants():
    """module-level string / int constants of yalafi/shell/shell.py (the
    module cannot be imported: it runs the shell)"""
    src = open(os.path.join(REPO, 'yalafi', 'shell', 'shell.py'),
               encoding='utf-8').read()
    tree = ast.parse(src)
    out = {}
    for node in tree.body:
        if isinstance(node, ast.Assign) and len(node.targets) == 1 \
                and isinstance(node.targets[0], ast.Name):
            try:
                out[node.targets[0].id] = ast.literal_eval(node.value)
            except Exception:
                pass
    return out


def generate(files, HEADER, coq_str, coq_str_list, coq_ranges, GenError):
    sc = shell_constants()
    out = [HEADER, 'Open Scope Z_scope.\n']
    for name in ('highlight_style', 'highlight_style_unsure', 'number_style',
                 'inclusion_macros'):
        if name not in sc or not isinstance(sc[name], str):
            raise GenError('shell.py: constant %s not found' % name)
        out.append('Definition sh_%s : str := %s.' % (name, coq_str(sc[name])))
    if not isinstance(sc.get('default_option_context'), int):
        raise GenError('shell.py: default_option_context')
    out.append('Definition sh_default_context : Z := %d.'
               % sc['default_option_context'])
    files['Tables.v'] = '\n'.join(out) + '\n'
