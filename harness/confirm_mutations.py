#!/venv/bin/python
"""confirm the mutation candidates in seeded_raw/: patch applies, demo passes
without and fails with the patch, full test suite passes with the patch.
Runs in a scratch worktree (argument), sequentially (tests use port 8081)."""
import json, os, subprocess, sys
wt = sys.argv[1]
raw = '/verif/seeded_raw'
env = dict(os.environ, PYTHONPATH=wt, PYTHONHASHSEED='0')
out = {}
def run(cmd, **kw):
    return subprocess.run(cmd, cwd=wt, env=env, stdout=subprocess.PIPE,
                          stderr=subprocess.STDOUT, timeout=1200, **kw)
for pid in sorted(os.listdir(raw)):
    if not pid.startswith('C'):
        continue
    for m in ('m1', 'm2'):
        d = os.path.join(raw, pid, m)
        if not os.path.exists(os.path.join(d, 'patch.diff')):
            continue
        r = {}
        subprocess.run(['git', 'checkout', '--', '.'], cwd=wt)
        subprocess.run(['git', 'clean', '-fdq'], cwd=wt)
        r['demo_clean'] = run(['/venv/bin/python', os.path.join(d, 'demo.py')]).returncode
        a = run(['git', 'apply', os.path.join(d, 'patch.diff')])
        r['applies'] = a.returncode == 0
        if r['applies']:
            r['demo_patched'] = run(['/venv/bin/python', os.path.join(d, 'demo.py')]).returncode
            t = run(['/venv/bin/python', '-m', 'pytest', '-q', '-p', 'no:cacheprovider', '-x'])
            tail = t.stdout.decode('utf-8', 'replace').strip().split('\n')[-1]
            r['tests'] = tail
            r['tests_pass'] = t.returncode == 0 and '454 passed' in tail
        subprocess.run(['git', 'checkout', '--', '.'], cwd=wt)
        subprocess.run(['git', 'clean', '-fdq'], cwd=wt)
        r['confirmed'] = bool(r.get('applies') and r.get('demo_clean') == 0
                              and r.get('demo_patched') not in (0, None)
                              and r.get('tests_pass'))
        out[pid + '/' + m] = r
        print(pid, m, r, flush=True)
        json.dump(out, open(os.path.join(raw, 'confirm.json'), 'w'), indent=1)
