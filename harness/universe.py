"""The parser stream shared by the properties about the filter itself
(C01-C12, C19): structured documents (gens/docs.py), their mutilations
(prefixes, deletions, insertions), token soup over the whole vocabulary,
crossed with the option matrix; run through tex2txt() of /repo and through
the extracted model (op `tex2txt`)."""
import os, random
import core, parsecase, seeds
from gens import docs

FILES = {
    'empty.tex': '',
    'defs.tex': ('\\newcommand{\\fromfile}[1]{F#1}\n\\footnote{file foot note}\n'
                 'stray text\n'),
    'sel.tex': '\\usepackage{babel}\\selectlanguage{german}\n',
    'main.glsdefs': docs.GLSDEFS,
}

SOUP = ['a', 'b', ' ', '\n', '\n\n', '{', '}', '[', ']', '$', '$$', '\\[', '\\]',
        '\\(', '\\)', '&', '\\\\', '#1', '#', '%c\n', '~', '--', '\\,',
        '\\begin{itemize}', '\\end{itemize}', '\\item', '\\item[x]',
        '\\begin{equation}', '\\end{equation}', '\\begin{proof}', '\\end{proof}',
        '\\begin{unk}', '\\end{unk}', '\\begin{verbatim}', '\\end{verbatim}',
        '\\verb|x|', '\\verb', '\\section', '\\footnote', '\\textbf', '\\label',
        '\\cite', '\\newcommand', '\\renewcommand', '\\def', '\\x', '\\y',
        '\\usepackage', '\\documentclass', '\\LTinput', '\\LTadd', '\\LTskip',
        '\\LTalter', '\\hspace', '\\phantom', '\\newtheorem', '\\caption',
        '\\framebox', "\\'", '\\"', '\\c', '\\foreignlanguage',
        '\\selectlanguage', '\\begin{otherlanguage}', '\\end{otherlanguage}',
        'german', 'english', 'babel', 'amsmath', 'article', '\\text', '\\mbox',
        '\\alpha', '+', '=', '.', ',', '\\gls', '\\newacronym',
        '\\newglossaryentry', '\\gls@defglossaryentry', 'description', 'name',
        '\\xspace', '\\footcite', '\\parencite', '\\substack', '\\eqref',
        '\\begin{align}', '\\end{align}', '\\begin{tikzpicture}',
        '\\end{tikzpicture}', '\\begin{figure}', '\\end{figure}',
        '\\begin{tabular}', '\\end{tabular}', '\\begin{enumerate}',
        '\\end{enumerate}', '\\begin{thm}', '\\par', '\\quad', '1', '9', '*',
        '%%% LT-SKIP-BEGIN\n', '%%% LT-SKIP-END\n', '"a', '"`', 'é', '#²',
        'defs.tex', 'empty.tex', '\\vphantom', '\\chapter', '\\title']


def scratch_dir():
    d = os.path.join(core.BUILD, 'tmp', 'universe')
    os.makedirs(d, exist_ok=True)
    for n, t in FILES.items():
        with open(os.path.join(d, n), 'w', encoding='utf-8', newline='') as f:
            f.write(t)
    os.chdir(d)
    return d


def options(rng, lang_doc):
    multi = lang_doc and rng.random() < 0.6
    return dict(
        lang=rng.choice(['en-GB', 'de-DE', 'ru-RU', 'en', 'de', '']),
        pack=rng.choice(['*', '*', '*', '', 'amsmath,babel', '*,xspace']),
        dcls=rng.choice(['', '', '', 'article', 'scrartcl', 'book', 'report', 'scrbook',
                         'scrreprt']),
        seqs=rng.random() < 0.15, nosp=rng.random() < 0.07, multi=multi,
        defs=rng.choice(['', '', '', '\\newcommand{\\dd}[1]{D#1}\n',
                         '\\usepackage{babel}\\selectlanguage{german}\n'
                         '\\newcommand{\\dd}{X}\\footnote{defs foot}\n']),
        extr=rng.choice(['', '', '', '', '', '', 'footnote', 'section,caption', 'LaTeX',
                         'TeX,footnote', 'nosuchmacro,item', 'hfill']),
        repl=rng.choice([None, None, None, ['und so & x'],
                         ['so dass & sodass immer noch', 'zum Beispiel & z. B.'],
                         ['a b & c\\d', 'x & '], ['# c', '& y', 'qq & w w w']]),
        unkn=rng.random() < 0.05, thresh=rng.choice([0, 1, 2, 3, 5]))


def seed_cases(rng, n):
    """snippets of /repo's tests and their mutations (harness/seeds.py)"""
    sd = seeds.load()
    for i in range(n):
        s = rng.choice(sd)
        if i >= len(sd) or rng.random() < 0.5:
            s = seeds.mutate(rng, s, sd)
        else:
            s = sd[i % len(sd)]
        o = options(rng, rng.random() < 0.3)
        if rng.random() < 0.6:
            o['pack'] = '*'
        if rng.random() < 0.7:
            o['repl'] = None
        yield parsecase.T2T(s, files=dict(FILES), **o), None, 'seed'


def gen_cases(rng, n, kinds=('doc', 'prefix', 'delete', 'insert', 'soup'), seed_share=0.3):
    """yields (case, doc or None, kind)"""
    yield from seed_cases(rng, int(n * seed_share))
    yield from catalogue_cases(rng, int(n * 0.15))
    for i in range(n):
        lang_doc = i % 2 == 0
        kind = kinds[i % len(kinds)] if i % 3 else 'doc'
        if kind not in kinds:
            kind = kinds[0]
        d = None
        if kind == 'soup':
            t = ''.join(rng.choice(SOUP) for _ in range(rng.randint(1, 25)))
        else:
            d = docs.gen_doc(rng, lang=lang_doc, files=FILES if i % 3 == 0 else None,
                             gls=(i % 5 == 0))
            t = d.text
            if kind == 'prefix':
                t = t[:rng.randrange(len(t) + 1)]
            elif kind == 'delete':
                a = rng.randrange(len(t))
                t = t[:a] + t[a + rng.randint(1, 3):]
            elif kind == 'insert':
                a = rng.randrange(len(t))
                t = t[:a] + rng.choice(SOUP) + t[a:]
            if kind != 'doc':
                d = None
        o = options(rng, lang_doc)
        c = parsecase.T2T(t, files=dict(FILES), **o)
        yield c, d, kind


def run(cases, res, stream, project, oracle, sample_rule=None):
    """cases: list of (case, doc, kind).  project(outcome) -> what is compared
    between model and implementation; oracle(case, doc, kind, impl outcome) ->
    None or failure text"""
    scratch_dir()
    lines = [parsecase.model_line_t2t(c) for c, _, _ in cases]
    outs = core.run_model(lines, shards=16)
    for (c, d, kind), o in zip(cases, outs):
        im = parsecase.run_t2t(c)
        mo = parsecase.parse_model_t2t(o)
        nt = im[0] == 'OK' and (sample_rule(c, im) if sample_rule else True)
        res.count(stream, c.key(), nontrivial=nt)
        res.dist('kind=' + kind)
        res.dist('outcome=' + im[0])
        res.dist('multi=%s' % c.multi)
        if nt and kind == 'doc' and len(res.samples) < 5:
            res.sample({'latex': c.latex[:200], 'options': {
                k: v for k, v in c.json().items() if k not in ('latex', 'files')}})
        pi, pm = project(im), project(mo)
        if pi != pm:
            res.disagreements.append((stream, c.json(), repr(pi)[:400],
                                      repr(pm)[:400]))
        bad = oracle(c, d, kind, im)
        if bad:
            res.failures.append(('%s:%r' % (stream, c.key()), c.json(), bad))


_CAT = None
CAT_SKIP = {'\\newcommand', '\\renewcommand', '\\newtheorem', '\\usepackage',
            '\\documentclass', '\\LTinput', '\\gls@defglossaryentry', '\\babel@skip@space'}


def catalogue():
    """every macro and environment the parser knows with all packages and
    each document class: (name, argument codes) / (name, argument codes)"""
    global _CAT
    if _CAT is None:
        from yalafi import parameters, parser, tex2txt
        macs, envs = {}, {}
        for dcls in ('', 'article', 'book', 'report', 'scrartcl', 'scrbook', 'scrreprt'):
            parms = parameters.Parameters('en')
            packs = tex2txt.get_packages(dcls, parms.class_modules)
            packs.extend(tex2txt.get_packages('*', parms.package_modules))
            p = parser.Parser(parms, packs)
            for n, m in p.the_macros.items():
                macs.setdefault(n, (m.args, dcls))
            for n, e in p.the_environments.items():
                envs.setdefault(n, (e.args, dcls))
        _CAT = (sorted(macs.items()), sorted(envs.items()))
    return _CAT


def catalogue_cases(rng, n):
    """one use of a catalogue entry between two words, in running text, in a
    footnote, in the argument of a user macro or in a heading"""
    macs, envs = catalogue()
    pool = [('m', x) for x in macs if x[0] not in CAT_SKIP] + [('e', x) for x in envs]
    pick = []
    while len(pick) < n:
        k = min(n - len(pick), len(pool))
        pick += pool if k == len(pool) else rng.sample(pool, k)
    for kind, (name, (args, dcls)) in pick:
        a = ''
        for code in args:
            if code == '*':
                a += rng.choice(['', '*'])
            elif code == 'O':
                a += rng.choice(['', '[oo]', '[o p]', '[o \\$4 p]'])
            else:
                a += '{german}' if name in ('\\foreignlanguage', '\\selectlanguage',
                                            'otherlanguage', 'otherlanguage*') \
                    else rng.choice(['{ma}', '{ma mb}', '{m}', '{ma % c\n  mb}', '{\n ma\n}', '{ma~mb--mc}',
                                '{ma \\$5 and \\{b\\} \\& c}'])
        if kind == 'm':
            call = name + a
            if call[-1].isalpha() or call[-1] == '@':
                call += '{}'
        else:
            call = '\\begin{' + name + '}' + a + ' zz \\end{' + name + '}'
        ctx = rng.randrange(5)
        if ctx == 0:
            tex = 'Before ' + call + ' after.\n'
        elif ctx == 1:
            tex = 'Before\\footnote{fa ' + call + ' fb} after.\n'
        elif ctx == 2:
            tex = '\\newcommand{\\um}[1]{#1}Before \\um{ua ' + call + ' ub} after.\n'
        elif ctx == 3:
            tex = 'Before ' + call + '\n\n' + call + ' after ' + call + '\n'
        else:
            tex = 'Before\n' + call + '\nafter.\n'
        o = options(rng, rng.random() < 0.3)
        o['pack'] = '*'
        o['dcls'] = dcls
        o['repl'] = None
        o['extr'] = ''
        o['unkn'] = rng.random() < 0.1
        yield parsecase.T2T(tex, files=dict(FILES), **o), None, 'catalogue'


def run_seeds(rng, res, project, tier, share=1.0):
    """the seed stream for properties with a generator of their own"""
    n = int((250 if tier == 'quick' else 6000) * share)
    cases = list(seed_cases(rng, n))
    cases += list(catalogue_cases(rng, int((120 if tier == 'quick' else 3000) * share)))
    for i in range(0, len(cases), 2000):
        run(cases[i:i + 2000], res, 'seed', project, lambda *a: None)


# --------------------------------------------------------------------------
#  known findings with one root cause: the handler of headings (\\section,
#  \\title, ...) expands its argument to look at the last character and
#  then returns the unexpanded argument, which the main loop expands again.
#  Side effects of the expansion happen twice.
# --------------------------------------------------------------------------
HEADING_FINDINGS = {
    'C03': ('K6', '\\section{Title QQj0k\\footnote{zzq1k xxj2k}} JJz3k\n',
            lambda t: t.count('zzq1k') == 2,
            'the footnote of a heading is extracted twice'),
    'C10': ('K3', '\\section{A $x$ B} $y$\n',
            lambda t: 'A D-D-D B' in t and 'C-C-C' not in t,
            'a formula in a heading advances the placeholder twice'),
    'C09': ('K7', '\\section{\\ux w \\newcommand{\\ux}{BODY}} t\n',
            lambda t: 'BODY' in t,
            'a macro defined inside a heading is expanded at a use that '
            'precedes the definition'),
}


def heading_finding(pid, res):
    """run the directed input of the finding; if the defect shows, report it
    under the key of the known finding (core.finish prints KNOWN-FINDING for
    an open one and VIOLATION once it is recorded as fixed)"""
    key, latex, shows, what = HEADING_FINDINGS[pid]
    scratch_dir()
    c = parsecase.T2T(latex, lang='en', pack='*', files={})
    im = parsecase.run_t2t(c)
    res.count('finding-' + key, c.key(), nontrivial=True)
    if im[0] == 'OK' and shows(im[1][1]):
        res.failures.append((key, c.json(), what + ': %r -> %r' % (latex, im[1][1])))


def outcome_class(r):
    return r[0] if r[0] in ('OK', 'FATAL') else ('EXC' if r[0] == 'EXC' else r[0])


def texts_of(im):
    """[(lang or None, txt, pos)] of an OK outcome"""
    res = im[1]
    if res[0] == 'S':
        return [(None, res[1], res[2])]
    return [(lang, t, p) for lang, parts in res[1] for t, p in parts]
