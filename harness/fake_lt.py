#!/venv/bin/python
"""fake proofreader: logs argv + stdin, prints the prepared answer"""
import base64, fcntl, json, sys
ctrl_path = sys.argv[1]
text = sys.stdin.buffer.read().decode('utf-8', 'replace')
ctrl = json.load(open(ctrl_path))
with open(ctrl['log'], 'a+', encoding='utf-8') as f:
    fcntl.flock(f, fcntl.LOCK_EX)
    f.seek(0)
    n = sum(1 for _ in f)
    f.write(json.dumps({'argv': sys.argv[2:], 'text': text}) + '\n')
ans = ctrl['answers']
a = ans[min(n, len(ans) - 1)]
if isinstance(a, dict):
    lang = ''
    if '--language' in sys.argv:
        lang = sys.argv[sys.argv.index('--language') + 1]
    a = a.get(lang, a.get('*', base64.b64encode(b'{"matches": []}').decode()))
sys.stdout.buffer.write(base64.b64decode(a))
