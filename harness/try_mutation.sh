#!/bin/bash
# usage: try_mutation.sh <patch.diff> <pid> [tier]   -- apply to /repo, run check, undo
p=$1; [ -d "$p" ] && p=$p/patch.diff; pid=$2; tier=${3:-quick}
cd /repo && git apply "$p" || { echo "PATCH DOES NOT APPLY"; exit 2; }
cd /verif && timeout 3000 ./check $pid --tier $tier > /tmp/w/mut_$pid.log 2>&1; rc=$?
cd /repo && git checkout -- . && git status --short | head -3
echo "exit=$rc"; grep -E "VIOLATION|KNOWN|obligations" /tmp/w/mut_$pid.log | head -5
