"""canonical form of YaLafi tokens (tuples), encoding for the model driver"""
import core
from yalafi import parameters  # first: circular imports
from yalafi import defs

KINDS = [defs.TextToken, defs.SpaceToken, defs.ParagraphToken,
         defs.CommentToken, defs.SpecialToken, defs.MacroToken,
         defs.BeginToken, defs.EndToken, defs.ItemToken, defs.AccentToken,
         defs.VerbatimToken, defs.ArgumentToken, defs.ActionToken,
         defs.VoidToken, defs.LanguageToken, defs.MathBeginToken,
         defs.MathElemToken, defs.MathOperToken, defs.MathSpaceToken]
KNUM = {k: i for i, k in enumerate(KINDS)}


def canon(t):
    """(kind, pos, pos_fix, txt, extras...)"""
    k = KNUM.get(type(t))
    if k is None:
        return ('?', type(t).__name__, t.pos, t.txt)
    base = (k, t.pos, bool(t.pos_fix), t.txt)
    if k == 10:
        return base + (bool(t.environ),)
    if k == 11:
        return base + (t.arg,)
    if k == 14:
        return base + (t.lang, bool(t.back), bool(t.hard), bool(t.brk))
    if k == 15:
        return base + (t.environ.name if hasattr(t.environ, 'name')
                       else str(t.environ),)
    return base


def canon_list(ts):
    return [canon(t) for t in ts]


def enc_tok(c):
    s = '%d %d %d %s' % (c[0], c[1], 1 if c[2] else 0, core.enc_str(c[3]))
    if c[0] == 10:
        s += ' %d' % (1 if c[4] else 0)
    elif c[0] == 11:
        s += ' %d' % c[4]
    elif c[0] == 14:
        s += ' %s %d %d %d' % (core.enc_str(c[4]), c[5], c[6], c[7])
    elif c[0] == 15:
        s += ' ' + core.enc_str(c[4])
    return s


def enc_toks(cs):
    return core.enc_list(cs, enc_tok)


def rd_tok(r):
    k = r.int(); p = r.int(); f = r.bool(); t = r.str()
    base = (k, p, f, t)
    if k == 10:
        return base + (r.bool(),)
    if k == 11:
        return base + (r.int(),)
    if k == 14:
        l = r.str(); b = r.bool(); h = r.bool(); kk = r.bool()
        return base + (l, b, h, kk)
    if k == 15:
        return base + (r.str(),)
    return base


def rd_toks(r):
    return r.list(lambda: rd_tok(r))


def rd_diags(r):
    return r.list(lambda: (r.int(), r.int(), r.str()))


def make_tok(c):
    """Python token object from a canonical tuple"""
    k = c[0]
    cls = KINDS[k]
    if k == 10:
        t = cls(c[1], c[3], environ=c[4])
    elif k == 11:
        t = cls(c[1], c[3], c[4])
    elif k in (12, 13):
        t = cls(c[1])
    elif k == 14:
        t = cls(c[1], lang=c[4], back=c[5], hard=c[6], brk=c[7])
    elif k == 15:
        t = cls(c[1], c[3], c[4])
    elif k in (0, 1, 2):
        t = cls(c[1], c[3], pos_fix=c[2])
    else:
        t = cls(c[1], c[3])
    t.pos_fix = c[2]
    return t
