"""running Parser.parse of /repo and the model (op `parse`) on the same case"""
import contextlib, io, re, sys
import core, tokens
from yalafi import parameters, parser, tex2txt, utils
import yalafi.packages

FUEL = 60000
DIAG = re.compile(r'\*\*\* LaTeX error: line (\d+), column (\d+):\n\*\*\* (.*)\n')


def expand_packs(pack):
    """module names as tex2txt.get_packages() resolves them"""
    out = []
    if not pack:
        return out
    lt = yalafi.packages.load_table
    for p in pack.split(','):
        out += lt[p] if p in lt else [p]
    return out


def mod_file(name):
    return ''.join((c if c.isalnum() or c == '.' else '_') for c in name)


class Case:
    def __init__(self, latex, lang='en', pack='*', dcls='', defs='', extr='',
                 seqs=False, nosp=False, multi=False, files=None):
        self.latex = latex; self.lang = lang; self.pack = pack; self.dcls = dcls
        self.defs = defs; self.extr = extr; self.seqs = seqs; self.nosp = nosp
        self.multi = multi; self.files = files or {}

    def key(self):
        return (self.latex, self.lang, self.pack, self.dcls, self.defs, self.extr,
                self.seqs, self.nosp, self.multi, tuple(sorted(self.files.items())))

    def json(self):
        return {'latex': self.latex, 'lang': self.lang, 'pack': self.pack,
                'dcls': self.dcls, 'defs': self.defs, 'extr': self.extr,
                'seqs': self.seqs, 'nosp': self.nosp, 'multi': self.multi,
                'files': self.files}

    @staticmethod
    def from_json(j):
        return Case(j['latex'], j.get('lang', 'en'), j.get('pack', '*'),
                    j.get('dcls', ''), j.get('defs', ''), j.get('extr', ''),
                    j.get('seqs', False), j.get('nosp', False),
                    j.get('multi', False), j.get('files'))


def run_impl(c, timeout=None):
    """('OK', tokens, unknowns, diags) | ('FATAL', msg) | ('EXC', name)"""
    files = c.files

    def read(file):
        if file in files:
            return True, files[file]
        return False, ''
    err = io.StringIO()
    try:
        with contextlib.redirect_stderr(err):
            parms = parameters.Parameters(c.lang or '')
            parms.multi_language = c.multi
            packs = tex2txt.get_packages(c.dcls, parms.class_modules)
            packs.extend(tex2txt.get_packages(c.pack, parms.package_modules))
            if c.seqs:
                parms.math_displayed_simple = True
            if c.nosp:
                parms.no_specials()
            p = parser.Parser(parms, packs, read_macros=read)
            extr = ['\\' + s for s in c.extr.split(',')] if c.extr else []
            toks = p.parse(c.latex, define=c.defs, extract=extr)
        diags = [(int(a), int(b), m) for a, b, m in DIAG.findall(err.getvalue())]
        return ('OK', tokens.canon_list(toks), list(p.get_unknowns()), diags,
                (parms, toks))
    except SystemExit:
        return ('FATAL', err.getvalue()[-200:])
    except RecursionError:
        return ('EXC', 'RecursionError')
    except Exception as e:
        return ('EXC', type(e).__name__ + ': ' + str(e)[:100])


def model_line(c, fuel=FUEL):
    mods = [(1, mod_file(m)) for m in expand_packs(c.dcls)] if c.dcls else []
    # the document class list of tex2txt is not expanded by '*'
    mods = [(1, m) for m in (c.dcls.split(',') if c.dcls else [])]
    mods += [(0, m) for m in expand_packs(c.pack)]
    extr = ['\\' + s for s in c.extr.split(',')] if c.extr else []
    return 'parse %d %s %s %d %d %s %s %s %s %d' % (
        1 if c.nosp else 0,
        core.enc_list(list(c.files.items()),
                      lambda e: core.enc_str(e[0]) + ' ' + core.enc_str(e[1])),
        core.enc_str(c.lang or ''), 1 if c.multi else 0, 1 if c.seqs else 0,
        core.enc_list(mods, lambda m: '%d %s' % (m[0], core.enc_str(m[1]))),
        core.enc_str(c.defs or ''), core.enc_str(c.latex),
        core.enc_list(extr, core.enc_str), fuel)


def parse_model(o):
    r = core.Reader(o)
    tag = r.word()
    if tag == 'OK':
        ts = tokens.rd_toks(r)
        un = r.list(r.str)
        ds = tokens.rd_diags(r)
        return ('OK', ts, un, ds)
    if tag == 'EXC':
        return ('EXC', r.word())
    if tag == 'FATAL':
        return ('FATAL', r.int())
    if tag == 'FUEL':
        return ('HANG', 'model: out of fuel')
    return (tag,)


def diag_key(d):
    """messages with repr() of arbitrary strings are compared by prefix"""
    return (d[0], d[1], d[2][:14])


def same(im, mo):
    if im[0] != mo[0]:
        return False
    if im[0] != 'OK':
        return True
    return (im[1] == mo[1] and im[2] == mo[2]
            and [diag_key(d) for d in im[3]] == [diag_key(d) for d in mo[3]])


# ---------------- tex2txt() level ----------------

class T2T(Case):
    def __init__(self, latex, repl=None, unkn=False, thresh=3, **kw):
        super().__init__(latex, **kw)
        self.repl = repl; self.unkn = unkn; self.thresh = thresh

    def key(self):
        return super().key() + (tuple(self.repl or ()), self.repl is None,
                                self.unkn, self.thresh)

    def json(self):
        j = super().json()
        j.update({'repl': self.repl, 'unkn': self.unkn, 'thresh': self.thresh})
        return j

    @staticmethod
    def from_json(j):
        return T2T(j['latex'], j.get('repl'), j.get('unkn', False),
                   j.get('thresh', 3), lang=j.get('lang', 'en'),
                   pack=j.get('pack', '*'), dcls=j.get('dcls', ''),
                   defs=j.get('defs', ''), extr=j.get('extr', ''),
                   seqs=j.get('seqs', False), nosp=j.get('nosp', False),
                   multi=j.get('multi', False), files=j.get('files'))


class Hang(Exception):
    pass


def _alarm(signum, frame):
    raise Hang()


def run_t2t(c, timeout=20):
    """('OK', result, diags) with result ('S', txt, pos) or ('M', [(lang,
    [(txt, pos)])]); files of the case must exist on disk under their names"""
    import signal
    signal.signal(signal.SIGALRM, _alarm)
    signal.alarm(timeout)
    try:
        r = _run_t2t(c)
    except Hang:
        r = ('HANG', 'no result within %d s' % timeout)
    finally:
        signal.alarm(0)
    if r[0] == 'HANG' or (r[0] == 'EXC' and 'RecursionError' in r[1]):
        why = outside_claim(c)
        if why:
            return ('HANG', OUTSIDE + why)
    return r


OUTSIDE = 'outside the claim: '
DEFINED = re.compile(r'\\(?:(?:re|provide)?newcommand\*?|def)\s*\{?\s*(\\(?:[A-Za-z@]+|.))', re.S)


def outside_claim(c, budget=4):
    """C07 leaves out definitions that call themselves and documents whose own
    macros multiply their arguments.  Run the case again with a counter on
    Parser.expand_macro: a macro the sources define themselves that is
    expanded inside its own expansion (Python recursion), or far more often
    than the sources are long, is such a definition."""
    import collections, signal
    srcs = [c.latex, c.defs or ''] + list((c.files or {}).values())
    defined = set(m for s in srcs for m in DEFINED.findall(s))
    if not defined:
        return None
    counts = collections.Counter()
    active = []
    nested = set()
    orig = parser.Parser.expand_macro

    def patched(self, buf, tok, math):
        counts[tok.txt] += 1
        if active.count(tok.txt) >= 3:
            nested.add(tok.txt)
        active.append(tok.txt)
        try:
            return orig(self, buf, tok, math)
        finally:
            active.pop()
    parser.Parser.expand_macro = patched
    signal.signal(signal.SIGALRM, _alarm)
    signal.alarm(budget)
    try:
        _run_t2t(c)
    except Hang:
        pass
    finally:
        signal.alarm(0)
        parser.Parser.expand_macro = orig
    limit = 1000 + 20 * sum(len(s) for s in srcs)
    heavy = sorted(n for n in defined if counts[n] > limit or n in nested)
    if heavy:
        return ('%s defined by the document and expanded %d times (sources: %d '
                'characters)' % (heavy[0], counts[heavy[0]], sum(len(s) for s in srcs)))
    return None


def _run_t2t(c):
    err = io.StringIO()
    try:
        with contextlib.redirect_stderr(err):
            o = tex2txt.Options(lang=c.lang, pack=c.pack, dcls=c.dcls,
                                defs=c.defs, extr=c.extr or None, seqs=c.seqs,
                                nosp=c.nosp, repl=c.repl, unkn=c.unkn)

            def mod(parms):
                parms.ml_continue_thresh = c.thresh
            r = tex2txt.tex2txt(c.latex, o, multi_language=c.multi,
                                modify_parms=mod)
        diags = [(int(a), int(b), m) for a, b, m in DIAG.findall(err.getvalue())]
        if c.multi:
            res = ('M', [(lang, [(p[0], list(p[1])) for p in parts])
                         for lang, parts in r.items()])
        else:
            res = ('S', r[0], list(r[1]))
        return ('OK', res, diags)
    except SystemExit:
        return ('FATAL', err.getvalue()[-200:])
    except Hang:
        raise
    except RecursionError:
        return ('EXC', 'RecursionError')
    except Exception as e:
        return ('EXC', type(e).__name__ + ': ' + str(e)[:100])


def model_line_t2t(c, fuel=FUEL):
    mods = [(1, m) for m in (c.dcls.split(',') if c.dcls else [])]
    mods += [(0, m) for m in expand_packs(c.pack)]
    extr = ['\\' + s for s in c.extr.split(',')] if c.extr else []
    return 'tex2txt %d %s %s %d %d %s %s %s %s %d %s %d %d %d' % (
        1 if c.nosp else 0,
        core.enc_list(list(c.files.items()),
                      lambda e: core.enc_str(e[0]) + ' ' + core.enc_str(e[1])),
        core.enc_str(c.lang or ''), 1 if c.multi else 0, 1 if c.seqs else 0,
        core.enc_list(mods, lambda m: '%d %s' % (m[0], core.enc_str(m[1]))),
        core.enc_str(c.defs or ''), core.enc_str(c.latex),
        core.enc_list(extr, core.enc_str),
        0 if c.repl is None else 1, core.enc_list(c.repl or [], core.enc_str),
        1 if c.unkn else 0, c.thresh, fuel)


def model_line_class(c, fuel=FUEL):
    """is the document in the class of the end-to-end theorems? (ClassDecide)"""
    mods = [(1, m) for m in (c.dcls.split(',') if c.dcls else [])]
    mods += [(0, m) for m in expand_packs(c.pack)]
    extr = ['\\' + s for s in c.extr.split(',')] if c.extr else []
    return 'in_class %d %s %s %d %d %s %s %s %s %d' % (
        1 if c.nosp else 0,
        core.enc_list(list(c.files.items()),
                      lambda e: core.enc_str(e[0]) + ' ' + core.enc_str(e[1])),
        core.enc_str(c.lang or ''), 1 if c.multi else 0, 1 if c.seqs else 0,
        core.enc_list(mods, lambda m: '%d %s' % (m[0], core.enc_str(m[1]))),
        core.enc_str(c.defs or ''), core.enc_str(c.latex),
        core.enc_list(extr, core.enc_str), fuel)


def parse_model_t2t(o):
    r = core.Reader(o)
    tag = r.word()
    if tag == 'OK':
        k = r.int()
        if k == 0:
            res = ('S', r.str(), r.ints())
        else:
            res = ('M', r.list(lambda: (r.str(), r.list(lambda: (r.str(), r.ints())))))
        un = r.list(r.str)
        ds = tokens.rd_diags(r)
        return ('OK', res, ds, un)
    if tag == 'EXC':
        return ('EXC', r.word())
    if tag == 'FATAL':
        return ('FATAL', r.int())
    if tag == 'FUEL':
        return ('HANG', 'model: out of fuel')
    return (tag,)
