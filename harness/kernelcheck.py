"""Cross-check inside the proof assistant: the model evaluated by Coq's own
vm_compute (no extraction, no OCaml driver) against the implementation.

The harness writes _build/KernelCases.v with one `Example` per case -- the
input as a list of code points, the text and the position list the
*implementation* returned -- each closed by `vm_compute. reflexivity.`; one
coqc call checks them.  A case that does not check is a disagreement between
the model as Coq evaluates it and /repo (or between that evaluation and the
extracted program, which returned the same as /repo in the correspondence
run)."""
import os, re, subprocess
import core, parsecase


def nlist(s):
    return '[' + '; '.join(str(ord(ch)) for ch in s) + ']%N'


def zlist(p):
    return '[' + '; '.join(str(x) for x in p) + ']%Z'


HEAD = '''From Coq Require Import List ZArith.
From YV Require Import PyBase CharTables Token Utils PState Tex2txt Catalogue.
Import ListNotations.
Definition kc_run (lang latex : list N) (simple : bool) :=
  match run_tex2txt py_tables py_word [] lang false simple [] [] latex [] None false 3%%nat
                    %d%%nat with
  | Ok o => match to_result o with TSingle t p => Some (t, p) | _ => None end
  | _ => None end.
'''


def run(cases, res, stream='kernel', fuel=3000):
    """cases: parsecase.T2T objects; only those with no packages, classes,
    definitions, files, extraction, replacements are evaluated"""
    todo = []
    for c in cases:
        if c.pack or c.dcls or c.defs or c.extr or c.nosp or c.multi or c.files \
                or getattr(c, 'repl', None) or getattr(c, 'unkn', False) or len(c.latex) > 400:
            continue
        im = parsecase.run_t2t(c)
        if im[0] != 'OK' or im[1][0] != 'S':
            continue
        todo.append((c, im[1][1], im[1][2]))
    if not todo:
        return 0
    d = os.path.join(core.BUILD, 'kernel')
    os.makedirs(d, exist_ok=True)
    path = os.path.join(d, 'KernelCases.v')
    with open(path, 'w', encoding='utf-8') as f:
        f.write(HEAD % fuel)
        for k, (c, txt, pos) in enumerate(todo):
            f.write('Example kc_%d : kc_run %s %s %s = Some (%s, %s).\n'
                    'Proof. vm_compute. reflexivity. Qed.\n'
                    % (k, nlist(c.lang or ''), nlist(c.latex), 'true' if c.seqs else 'false',
                       nlist(txt), zlist(pos)))
    rc, out = core._run(['coqc', '-Q', core.COQ, 'YV', path], cwd=d, timeout=1200)
    for c, _, _ in todo:
        res.count(stream, ('kernel',) + tuple(c.key()), nontrivial=True)
    if rc != 0:
        m = re.search(r'line (\d+)', out)
        k = None
        if m:
            # two lines per example behind the header
            k = (int(m.group(1)) - HEAD.count('\n') - 1) // 2
        bad = todo[k][0] if k is not None and 0 <= k < len(todo) else None
        res.disagreements.append((stream, bad.json() if bad else {'cases': len(todo)},
                                  'implementation result does not check in Coq (vm_compute of '
                                  'run_tex2txt): %s' % out.strip()[-300:], 'Coq kernel evaluation'))
    res.extra['kernel_evaluated_cases'] = res.extra.get('kernel_evaluated_cases', 0) + len(todo)
    return len(todo)
